//! C09 / C10 (collector level): drives the real `boa_gc` through its public API, one operation per
//! input line, one observation line per operation.
//!
//! Objects are named by allocation order: strong boxes (nodes and weak-map boxes share one counter,
//! they share `BoaGc::strongs`) and ephemeron boxes (every `Ephemeron::new`, `WeakGc::new`, the
//! ephemeron of `Gc::new_cyclic`, the registry `WeakGc` of `WeakMap::new`, every `WeakMap::insert`).
//! "External handle to x" = a `Gc`/`WeakMap`/`Ephemeron`/`WeakGc` value held in this binary's tables
//! (the Rust stack of a real mutator).  An operation whose handles are not held prints `inv` and does
//! nothing: validity is decided from the tables only, never by touching the heap.
//!
//!   new F | newc F            allocate a node (Gc::new / Gc::new_cyclic); F=0 plain, F>0 its finalizer clones
//!                             every handle stored in the node F times into the global root list (resurrection)
//!   link A B [K] | unlink A B | load A B   store a clone of B in A (container shape K, default: rotating) / remove one handle to B from A / clone it out
//!   clone A | drop A          external strong handle
//!   weak A | eph K V          WeakGc::new / Ephemeron::new(&K, V.clone())
//!   clonee E | drope E | storee A E | unstoree A E | loade A E
//!   upg E | val E             WeakGc::upgrade / Ephemeron::key ; Ephemeron::value (the results become external handles)
//!   wmnew | wmins M K V | wmrem M K | wmget M K
//!   read A                    ids stored in node A (sorted), canaries checked
//!   gc                        force_collect(); prints the Finalize and Drop logs in the order they happened
//!   stress N                  boa_gc::verif::set_stress(N)
//!   reset                     drop every handle, collect twice, restart the id counters
//!   quit                      exit immediately without running any destructor
//! Every line ends with ` | strongs weaks weak_maps bytes collections` from `boa_gc::verif::stats()`
//! (collections counted from the last `reset`).
//!
//! The payload's `Drop`/`Finalize` only log (and, for F=1, clone handles): nothing here touches a `Gc`
//! inside `Drop`.
use boa_gc::{Ephemeron, Finalize, Gc, GcRefCell, Trace, WeakGc, WeakMap, force_collect};
use std::cell::{Cell, RefCell};
use std::collections::BTreeMap;
use std::io::{BufRead, Write};

const MAGIC: u64 = 0x5a17_c0de_9e37_79b9;
const DEAD: u64 = 0xdead_dead_dead_dead;

thread_local! {
    static LOG: RefCell<Vec<(char, u32)>> = const { RefCell::new(Vec::new()) };
    static ROOTS: RefCell<Vec<(u32, Strong)>> = const { RefCell::new(Vec::new()) };
    /// Set while `reset` tears a history down: finalizers then only log (no handle is cloned).
    static TEARDOWN: Cell<bool> = const { Cell::new(false) };
}

/// Logs the drop of the node payload; carries the canary.  Not traced, holds no handle.
struct DropLog {
    id: u32,
    canary: Cell<u64>,
}

impl Drop for DropLog {
    fn drop(&mut self) {
        self.canary.set(DEAD);
        let id = self.id;
        let _ = LOG.try_with(|l| {
            if let Ok(mut l) = l.try_borrow_mut() {
                l.push(('D', id));
            }
        });
    }
}

/// Several `Gc`s inside one struct behind a `GcRefCell` (how the engine's object data looks).
#[derive(Trace, Finalize)]
struct Pair {
    left: Option<Gc<Node>>,
    right: Option<Gc<Node>>,
    #[unsafe_ignore_trace]
    pad: u32,
}

/// Enum payloads: a bare `Gc`, a boxed one, one inside a tuple, one inside nested containers.
#[derive(Trace, Finalize)]
enum Slot {
    One(Gc<Node>),
    Boxed(Box<Gc<Node>>),
    Tuple((Gc<Node>, u32)),
    Nested(Vec<Option<Gc<Node>>>),
}

impl Slot {
    fn gc(&self) -> &Gc<Node> {
        match self {
            Slot::One(g) => g,
            Slot::Boxed(b) => b,
            Slot::Tuple(t) => &t.0,
            Slot::Nested(v) => v.iter().flatten().next().expect("nested slot holds one handle"),
        }
    }
}

/// The node payload.  The model sees one multiset of stored `Gc` handles per node; here they are spread over the
/// container shapes the engine uses (`Vec<Gc>`, `Option<Gc>`, a struct with several `Gc`s in a `GcRefCell`, enum
/// variants, `Box`, tuples, nested `Vec<Option<..>>`, a `BTreeMap` value), all traced / finalized through
/// `#[derive(Trace, Finalize)]` and boa_gc's container impls, so `trace`, `trace_non_roots` and `run_finalizer` of
/// the derive macro are compared against the model's edge set on every history.
#[derive(Trace)]
struct Node {
    #[unsafe_ignore_trace]
    id: u32,
    #[unsafe_ignore_trace]
    fin: u8,
    #[unsafe_ignore_trace]
    dl: DropLog,
    #[unsafe_ignore_trace]
    seq: Cell<u32>,
    children: GcRefCell<Vec<Gc<Node>>>,
    opt: GcRefCell<Option<Gc<Node>>>,
    pair: GcRefCell<Pair>,
    slots: GcRefCell<Vec<Slot>>,
    table: GcRefCell<BTreeMap<u32, Gc<Node>>>,
    ephs: GcRefCell<Vec<StoredEph>>,
    maps: GcRefCell<Vec<StoredMap>>,
}

impl Finalize for Node {
    fn finalize(&self) {
        let id = self.id;
        let _ = LOG.try_with(|l| {
            if let Ok(mut l) = l.try_borrow_mut() {
                l.push(('F', id));
            }
        });
        let times = if TEARDOWN.try_with(Cell::get).unwrap_or(true) { 0 } else { self.fin };
        for _ in 0..times {
            let _ = ROOTS.try_with(|r| {
                if let Ok(mut r) = r.try_borrow_mut() {
                    self.for_each(|c| r.push((c.id, Strong::Node(c.clone()))));
                    for m in self.maps.borrow().iter() {
                        r.push((m.id, Strong::Map(m.map.clone())));
                    }
                }
            });
        }
    }
}

/// `#[derive(Clone)]` on `WeakMap<K, V>` demands `K: Clone` although cloning a `WeakMap` only clones
/// its inner `Gc`; this impl exists to satisfy the bound and is never called.
impl Clone for Node {
    fn clone(&self) -> Self {
        unreachable!("Node is never cloned")
    }
}

impl Node {
    fn new(id: u32, fin: u8, ephs: Vec<StoredEph>) -> Self {
        Node {
            id,
            fin,
            dl: DropLog { id, canary: Cell::new(MAGIC ^ u64::from(id)) },
            seq: Cell::new(0),
            children: GcRefCell::new(Vec::new()),
            opt: GcRefCell::new(None),
            pair: GcRefCell::new(Pair { left: None, right: None, pad: id }),
            slots: GcRefCell::new(Vec::new()),
            table: GcRefCell::new(BTreeMap::new()),
            ephs: GcRefCell::new(ephs),
            maps: GcRefCell::new(Vec::new()),
        }
    }
    fn alive(&self) -> bool {
        self.dl.canary.get() == MAGIC ^ u64::from(self.id)
    }
    /// Stores a handle in the container shape number `k` (falls back to the `Vec` when a single slot is taken).
    fn put(&self, k: u32, g: Gc<Node>) {
        match k % 8 {
            1 if self.opt.borrow().is_none() => *self.opt.borrow_mut() = Some(g),
            2 if self.pair.borrow().left.is_none() => self.pair.borrow_mut().left = Some(g),
            2 if self.pair.borrow().right.is_none() => self.pair.borrow_mut().right = Some(g),
            3 => self.slots.borrow_mut().push(Slot::One(g)),
            4 => self.slots.borrow_mut().push(Slot::Boxed(Box::new(g))),
            5 => self.slots.borrow_mut().push(Slot::Tuple((g, k))),
            6 => self.slots.borrow_mut().push(Slot::Nested(vec![None, Some(g), None])),
            7 => {
                let key = self.seq.get();
                self.seq.set(key + 1);
                self.table.borrow_mut().insert(key, g);
            }
            _ => self.children.borrow_mut().push(g),
        }
    }
    /// Every stored `Gc<Node>` handle, in a fixed order of the containers.
    fn for_each(&self, mut f: impl FnMut(&Gc<Node>)) {
        for c in self.children.borrow().iter() {
            f(c);
        }
        if let Some(c) = self.opt.borrow().as_ref() {
            f(c);
        }
        {
            let p = self.pair.borrow();
            if let Some(c) = p.left.as_ref() {
                f(c);
            }
            if let Some(c) = p.right.as_ref() {
                f(c);
            }
        }
        for sl in self.slots.borrow().iter() {
            f(sl.gc());
        }
        for c in self.table.borrow().values() {
            f(c);
        }
    }
    /// A clone of the first stored handle to node `id`.
    fn find_clone(&self, id: u32) -> Option<Gc<Node>> {
        let mut out = None;
        self.for_each(|c| {
            if out.is_none() && c.id == id {
                out = Some(c.clone());
            }
        });
        out
    }
    /// Removes (and returns) the first stored handle to node `id`.
    fn find_take(&self, id: u32) -> Option<Gc<Node>> {
        let pos = self.children.borrow().iter().position(|c| c.id == id);
        if let Some(p) = pos {
            return Some(self.children.borrow_mut().remove(p));
        }
        if self.opt.borrow().as_ref().is_some_and(|c| c.id == id) {
            return self.opt.borrow_mut().take();
        }
        if self.pair.borrow().left.as_ref().is_some_and(|c| c.id == id) {
            return self.pair.borrow_mut().left.take();
        }
        if self.pair.borrow().right.as_ref().is_some_and(|c| c.id == id) {
            return self.pair.borrow_mut().right.take();
        }
        let pos = self.slots.borrow().iter().position(|sl| sl.gc().id == id);
        if let Some(p) = pos {
            // the derive macro gives `Slot` a `Drop` impl, so the handle cannot be moved out: clone it, then drop the slot
            let sl = self.slots.borrow_mut().remove(p);
            let g = sl.gc().clone();
            drop(sl);
            return Some(g);
        }
        let key = self.table.borrow().iter().find(|(_, c)| c.id == id).map(|(k, _)| *k);
        if let Some(k) = key {
            return self.table.borrow_mut().remove(&k);
        }
        None
    }
}

/// The value of an ephemeron / weak-map entry: the `Gc` sits either directly in an `Option` or inside nested containers
/// behind a `GcRefCell`, again traced through the derive macro (the model sees one value handle).
#[derive(Trace, Finalize)]
struct Val {
    direct: Option<Gc<Node>>,
    cell: GcRefCell<Vec<Option<Gc<Node>>>>,
    #[unsafe_ignore_trace]
    tag: u32,
}

impl Val {
    fn new(g: Gc<Node>, tag: u32) -> Self {
        if tag % 2 == 0 {
            Val { direct: Some(g), cell: GcRefCell::new(Vec::new()), tag }
        } else {
            Val { direct: None, cell: GcRefCell::new(vec![None, Some(g)]), tag }
        }
    }
    fn get(&self) -> Gc<Node> {
        match &self.direct {
            Some(g) => g.clone(),
            None => self.cell.borrow().iter().flatten().next().expect("value holds one handle").clone(),
        }
    }
}

/// Never called (see the note on `Clone for Node`).
impl Clone for Val {
    fn clone(&self) -> Self {
        unreachable!("Val is never cloned")
    }
}

type Map = WeakMap<Node, Val>;

#[derive(Trace, Finalize)]
enum EphH {
    Weak(WeakGc<Node>),
    Eph(Ephemeron<Node, Val>),
}

impl EphH {
    fn dup(&self) -> EphH {
        match self {
            EphH::Weak(w) => EphH::Weak(w.clone()),
            EphH::Eph(e) => EphH::Eph(e.clone()),
        }
    }
}

#[derive(Trace, Finalize)]
struct StoredEph {
    #[unsafe_ignore_trace]
    id: u32,
    h: EphH,
}

#[derive(Trace, Finalize)]
struct StoredMap {
    #[unsafe_ignore_trace]
    id: u32,
    map: Map,
}

enum Strong {
    Node(Gc<Node>),
    Map(Map),
}

impl Strong {
    fn dup(&self) -> Strong {
        match self {
            Strong::Node(g) => Strong::Node(g.clone()),
            Strong::Map(m) => Strong::Map(m.clone()),
        }
    }
}

#[derive(Default)]
struct H {
    ext_s: BTreeMap<u32, Vec<Strong>>,
    ext_e: BTreeMap<u32, Vec<EphH>>,
    next_s: u32,
    next_e: u32,
    link_seq: u32,
    base_colls: usize,
}

fn ids(v: &[u32]) -> String {
    let s: Vec<String> = v.iter().map(|x| x.to_string()).collect();
    format!("[{}]", s.join(","))
}

impl H {
    fn node(&self, a: u32) -> Option<Gc<Node>> {
        match self.ext_s.get(&a)?.first()? {
            Strong::Node(g) => Some(g.clone()),
            Strong::Map(_) => None,
        }
    }
    fn map(&self, a: u32) -> Option<Map> {
        match self.ext_s.get(&a)?.first()? {
            Strong::Map(m) => Some(m.clone()),
            Strong::Node(_) => None,
        }
    }
    fn strong(&self, a: u32) -> Option<Strong> {
        Some(self.ext_s.get(&a)?.first()?.dup())
    }
    fn eph(&self, e: u32) -> Option<EphH> {
        Some(self.ext_e.get(&e)?.first()?.dup())
    }
    fn add_s(&mut self, id: u32, s: Strong) {
        self.ext_s.entry(id).or_default().push(s);
    }
    fn add_e(&mut self, id: u32, e: EphH) {
        self.ext_e.entry(id).or_default().push(e);
    }

    fn op(&mut self, w: &[&str]) -> String {
        let arg = |i: usize| -> Option<u32> { w.get(i).and_then(|s| s.parse::<u32>().ok()) };
        let inv = || "inv".to_string();
        match w[0] {
            "new" => {
                let fin = arg(1).unwrap_or(0) as u8;
                let id = self.next_s;
                self.next_s += 1;
                let g = Gc::new(Node::new(id, fin, Vec::new()));
                self.add_s(id, Strong::Node(g));
                format!("n {id}")
            }
            "newc" => {
                let fin = arg(1).unwrap_or(0) as u8;
                let eid = self.next_e;
                self.next_e += 1;
                let id = self.next_s;
                self.next_s += 1;
                let g = Gc::new_cyclic(|w: &WeakGc<Node>| {
                    Node::new(id, fin, vec![StoredEph { id: eid, h: EphH::Weak(w.clone()) }])
                });
                self.add_s(id, Strong::Node(g));
                format!("n {id} e {eid}")
            }
            "link" => {
                let (Some(a), Some(b)) = (arg(1), arg(2)) else { return inv() };
                let (Some(ga), Some(sb)) = (self.node(a), self.strong(b)) else { return inv() };
                // container shape: explicit third argument, else rotating with the number of links of this history
                let k = arg(3).unwrap_or(self.link_seq);
                self.link_seq += 1;
                match sb {
                    Strong::Node(gb) => ga.put(k, gb),
                    Strong::Map(m) => ga.maps.borrow_mut().push(StoredMap { id: b, map: m }),
                }
                "ok".into()
            }
            "unlink" | "load" => {
                let (Some(a), Some(b)) = (arg(1), arg(2)) else { return inv() };
                let Some(ga) = self.node(a) else { return inv() };
                let take = w[0] == "unlink";
                if take {
                    if let Some(g) = ga.find_take(b) {
                        drop(g);
                        return "ok".into();
                    }
                } else if let Some(g) = ga.find_clone(b) {
                    if !g.alive() {
                        return "UAF".into();
                    }
                    self.add_s(b, Strong::Node(g));
                    return "ok".into();
                }
                let pos = ga.maps.borrow().iter().position(|m| m.id == b);
                if let Some(p) = pos {
                    if take {
                        let m = ga.maps.borrow_mut().remove(p);
                        drop(m);
                    } else {
                        let m = ga.maps.borrow()[p].map.clone();
                        self.add_s(b, Strong::Map(m));
                    }
                    return "ok".into();
                }
                inv()
            }
            "clone" => {
                let Some(a) = arg(1) else { return inv() };
                let Some(s) = self.strong(a) else { return inv() };
                self.add_s(a, s);
                "ok".into()
            }
            "drop" => {
                let Some(a) = arg(1) else { return inv() };
                let Some(v) = self.ext_s.get_mut(&a) else { return inv() };
                let Some(s) = v.pop() else { return inv() };
                if v.is_empty() {
                    self.ext_s.remove(&a);
                }
                drop(s);
                "ok".into()
            }
            "weak" => {
                let Some(a) = arg(1) else { return inv() };
                let Some(ga) = self.node(a) else { return inv() };
                let eid = self.next_e;
                self.next_e += 1;
                let wk = WeakGc::new(&ga);
                self.add_e(eid, EphH::Weak(wk));
                format!("e {eid}")
            }
            "eph" => {
                let (Some(k), Some(v)) = (arg(1), arg(2)) else { return inv() };
                let (Some(gk), Some(gv)) = (self.node(k), self.node(v)) else { return inv() };
                let eid = self.next_e;
                self.next_e += 1;
                let e = Ephemeron::new(&gk, Val::new(gv, eid));
                self.add_e(eid, EphH::Eph(e));
                format!("e {eid}")
            }
            "clonee" => {
                let Some(e) = arg(1) else { return inv() };
                let Some(h) = self.eph(e) else { return inv() };
                self.add_e(e, h);
                "ok".into()
            }
            "drope" => {
                let Some(e) = arg(1) else { return inv() };
                let Some(v) = self.ext_e.get_mut(&e) else { return inv() };
                let Some(h) = v.pop() else { return inv() };
                if v.is_empty() {
                    self.ext_e.remove(&e);
                }
                drop(h);
                "ok".into()
            }
            "storee" => {
                let (Some(a), Some(e)) = (arg(1), arg(2)) else { return inv() };
                let (Some(ga), Some(h)) = (self.node(a), self.eph(e)) else { return inv() };
                ga.ephs.borrow_mut().push(StoredEph { id: e, h });
                "ok".into()
            }
            "unstoree" | "loade" => {
                let (Some(a), Some(e)) = (arg(1), arg(2)) else { return inv() };
                let Some(ga) = self.node(a) else { return inv() };
                let pos = ga.ephs.borrow().iter().position(|s| s.id == e);
                let Some(p) = pos else { return inv() };
                if w[0] == "unstoree" {
                    let s = ga.ephs.borrow_mut().remove(p);
                    drop(s);
                } else {
                    let h = ga.ephs.borrow()[p].h.dup();
                    self.add_e(e, h);
                }
                "ok".into()
            }
            "upg" => {
                let Some(e) = arg(1) else { return inv() };
                let Some(h) = self.eph(e) else { return inv() };
                let r = match &h {
                    EphH::Weak(wk) => wk.upgrade(),
                    EphH::Eph(ep) => ep.key(),
                };
                match r {
                    Some(g) => {
                        if !g.alive() {
                            std::mem::forget(g);
                            return "UAF".into();
                        }
                        let id = g.id;
                        self.add_s(id, Strong::Node(g));
                        format!("some {id}")
                    }
                    None => "none".into(),
                }
            }
            "val" => {
                let Some(e) = arg(1) else { return inv() };
                let Some(h) = self.eph(e) else { return inv() };
                match &h {
                    EphH::Weak(wk) => {
                        if wk.is_upgradable() { "unit".into() } else { "none".into() }
                    }
                    EphH::Eph(ep) => {
                        let got = ep.value().map(|v| v.get());
                        match got {
                            Some(g) => {
                                if !g.alive() {
                                    std::mem::forget(g);
                                    return "UAF".into();
                                }
                                let id = g.id;
                                self.add_s(id, Strong::Node(g));
                                format!("some {id}")
                            }
                            None => "none".into(),
                        }
                    }
                }
            }
            "wmnew" => {
                let id = self.next_s;
                self.next_s += 1;
                let eid = self.next_e;
                self.next_e += 1;
                let m: Map = WeakMap::new();
                self.add_s(id, Strong::Map(m));
                format!("m {id} e {eid}")
            }
            "wmins" => {
                let (Some(m), Some(k), Some(v)) = (arg(1), arg(2), arg(3)) else { return inv() };
                let (Some(mut mm), Some(gk), Some(gv)) = (self.map(m), self.node(k), self.node(v)) else { return inv() };
                let eid = self.next_e;
                self.next_e += 1;
                mm.insert(&gk, Val::new(gv, eid));
                format!("e {eid}")
            }
            "wmrem" => {
                let (Some(m), Some(k)) = (arg(1), arg(2)) else { return inv() };
                let (Some(mut mm), Some(gk)) = (self.map(m), self.node(k)) else { return inv() };
                if mm.remove(&gk) { "t".into() } else { "f".into() }
            }
            "wmget" => {
                let (Some(m), Some(k)) = (arg(1), arg(2)) else { return inv() };
                let (Some(mm), Some(gk)) = (self.map(m), self.node(k)) else { return inv() };
                let r = match mm.get(&gk) {
                    Some(e) => match e.value() {
                        Some(v) => {
                            let g = v.get();
                            if g.alive() { format!("some {}", g.id) } else { "UAF".into() }
                        }
                        None => "cleared".into(),
                    },
                    None => "none".into(),
                };
                r
            }
            "read" => {
                let Some(a) = arg(1) else { return inv() };
                let Some(ga) = self.node(a) else { return inv() };
                if !ga.alive() {
                    return "UAF".into();
                }
                let mut kids: Vec<u32> = Vec::new();
                let mut dead = false;
                ga.for_each(|c| {
                    dead |= !c.alive();
                    kids.push(c.id);
                });
                if dead {
                    return "UAF".into();
                }
                for m in ga.maps.borrow().iter() {
                    kids.push(m.id);
                }
                kids.sort_unstable();
                let mut es: Vec<u32> = ga.ephs.borrow().iter().map(|s| s.id).collect();
                es.sort_unstable();
                format!("kids {} ephs {}", ids(&kids), ids(&es))
            }
            "gc" => {
                LOG.with(|l| l.borrow_mut().clear());
                let r = bh::guarded(force_collect);
                let log: Vec<(char, u32)> = LOG.with(|l| std::mem::take(&mut *l.borrow_mut()));
                let fin: Vec<u32> = log.iter().filter(|x| x.0 == 'F').map(|x| x.1).collect();
                let dr: Vec<u32> = log.iter().filter(|x| x.0 == 'D').map(|x| x.1).collect();
                if let Err(msg) = r {
                    return format!("panic fin {} drop {} msg {}", ids(&fin), ids(&dr), bh::json_str(&msg));
                }
                let res: Vec<(u32, Strong)> = ROOTS.with(|r| std::mem::take(&mut *r.borrow_mut()));
                let mut rs: Vec<u32> = Vec::new();
                for (id, s) in res {
                    rs.push(id);
                    self.add_s(id, s);
                }
                rs.sort_unstable();
                // a node dropped while this binary holds a handle to it: the property fails right here
                let uaf: Vec<u32> = dr.iter().copied().filter(|d| self.ext_s.contains_key(d)).collect();
                let mut s = format!("fin {} drop {} res {}", ids(&fin), ids(&dr), ids(&rs));
                if !uaf.is_empty() {
                    s.push_str(&format!(" FREED-WHILE-HELD {}", ids(&uaf)));
                }
                s
            }
            "stress" => {
                let n = arg(1).unwrap_or(0) as usize;
                boa_gc::verif::set_stress(n);
                "ok".into()
            }
            "reset" => {
                boa_gc::verif::set_stress(0);
                TEARDOWN.with(|t| t.set(true));
                self.ext_s.clear();
                self.ext_e.clear();
                ROOTS.with(|r| r.borrow_mut().clear());
                let r = bh::guarded(|| {
                    force_collect();
                    force_collect();
                });
                LOG.with(|l| l.borrow_mut().clear());
                TEARDOWN.with(|t| t.set(false));
                self.next_s = 0;
                self.next_e = 0;
                self.link_seq = 0;
                self.base_colls = boa_gc::verif::stats().4;
                match r {
                    Ok(()) => "reset".into(),
                    Err(m) => format!("panic msg {}", bh::json_str(&m)),
                }
            }
            _ => "inv".into(),
        }
    }
}

fn main() {
    let stdin = std::io::stdin();
    let stdout = std::io::stdout();
    let mut out = std::io::BufWriter::new(stdout.lock());
    let mut h = H::default();
    for line in stdin.lock().lines() {
        let Ok(line) = line else { break };
        let w: Vec<&str> = line.split_whitespace().collect();
        if w.is_empty() {
            continue;
        }
        if w[0] == "quit" {
            let _ = out.flush();
            std::process::exit(0);
        }
        let res = match bh::guarded(|| h.op(&w)) {
            Ok(s) => s,
            Err(m) => format!("panic msg {}", bh::json_str(&m)),
        };
        let (s, wk, m, b, c) = boa_gc::verif::stats();
        let c = c - h.base_colls;
        let _ = writeln!(out, "{res} | {s} {wk} {m} {b} {c}");
        if res.starts_with("panic") || res.contains("UAF") || res.contains("FREED-WHILE-HELD") {
            // the heap can no longer be trusted: stop without running destructors
            let _ = out.flush();
            std::process::exit(3);
        }
    }
    let _ = out.flush();
    std::process::exit(0);
}
