//! C04 — scope-analysis observer.  For every input program: parse it as a script against a fresh global
//! scope (the parser runs boa_ast's collect_bindings / analyze_binding_escapes / optimize_scope_indices,
//! exactly as `Script::parse` does), then walk the AST and dump every `Scope` hanging off a node through
//! the cfg(boa_verif) hook `Scope::verif_dump()`.
//!
//! Input lines:   cfg esc=0|1            (boa_ast force-escape switch)
//!                run <id> <escaped program text>
//! Output:        <id>\tok\t<scope>;<scope>;...      scopes sorted by unique id, each
//!                    `uid index is_function this_escaped [name binding_index flag_bits]*`
//!                <id>\terr\t<message>               (syntax / scope-analysis error)
//!                <id>\tpanic\t<message>
use boa_ast::function::ClassElement;
use boa_ast::scope::{FunctionScopes, Scope};
use boa_ast::statement::iteration::ForLoopInitializer;
use boa_ast::visitor::{VisitWith, Visitor};
use boa_interner::Interner;
use boa_parser::{Parser, Source};
use std::collections::BTreeMap;
use std::io::{BufRead, Write};
use std::ops::ControlFlow;

#[derive(Default)]
struct Dump {
    scopes: BTreeMap<u32, String>,
}

impl Dump {
    fn add(&mut self, s: &Scope) {
        #[cfg(boa_verif)]
        {
            self.scopes.insert(s.unique_id(), s.verif_dump());
        }
        #[cfg(not(boa_verif))]
        {
            self.scopes.insert(s.unique_id(), format!("{}", s.unique_id()));
        }
    }
    fn add_opt(&mut self, s: Option<&Scope>) {
        if let Some(s) = s {
            self.add(s);
        }
    }
    fn add_fs(&mut self, fs: &FunctionScopes) {
        self.add(fs.function_scope());
        self.add_opt(fs.parameters_eval_scope());
        self.add_opt(fs.parameters_scope());
        self.add_opt(fs.lexical_scope());
    }
}

macro_rules! fun_like {
    ($name:ident, $ty:ty, named) => {
        fn $name(&mut self, node: &'ast $ty) -> ControlFlow<()> {
            self.add_opt(node.name_scope());
            self.add_fs(node.scopes());
            node.visit_with(self)
        }
    };
    ($name:ident, $ty:ty) => {
        fn $name(&mut self, node: &'ast $ty) -> ControlFlow<()> {
            self.add_fs(node.scopes());
            node.visit_with(self)
        }
    };
}

impl<'ast> Visitor<'ast> for Dump {
    type BreakTy = ();

    fn visit_block(&mut self, node: &'ast boa_ast::statement::Block) -> ControlFlow<()> {
        self.add_opt(node.scope());
        node.visit_with(self)
    }
    fn visit_switch(&mut self, node: &'ast boa_ast::statement::Switch) -> ControlFlow<()> {
        self.add_opt(node.scope());
        node.visit_with(self)
    }
    fn visit_with(&mut self, node: &'ast boa_ast::statement::With) -> ControlFlow<()> {
        self.add(node.scope());
        node.visit_with(self)
    }
    fn visit_catch(&mut self, node: &'ast boa_ast::statement::Catch) -> ControlFlow<()> {
        self.add(node.scope());
        node.visit_with(self)
    }
    fn visit_for_loop(&mut self, node: &'ast boa_ast::statement::ForLoop) -> ControlFlow<()> {
        if let Some(ForLoopInitializer::Lexical(decl)) = node.init() {
            self.add(decl.scope());
        }
        node.visit_with(self)
    }
    fn visit_for_in_loop(&mut self, node: &'ast boa_ast::statement::ForInLoop) -> ControlFlow<()> {
        self.add_opt(node.target_scope());
        self.add_opt(node.scope());
        node.visit_with(self)
    }
    fn visit_for_of_loop(&mut self, node: &'ast boa_ast::statement::ForOfLoop) -> ControlFlow<()> {
        self.add_opt(node.iterable_scope());
        self.add_opt(node.scope());
        node.visit_with(self)
    }
    fun_like!(visit_function_expression, boa_ast::function::FunctionExpression, named);
    fun_like!(visit_generator_expression, boa_ast::function::GeneratorExpression, named);
    fun_like!(visit_async_function_expression, boa_ast::function::AsyncFunctionExpression, named);
    fun_like!(visit_async_generator_expression, boa_ast::function::AsyncGeneratorExpression, named);
    fun_like!(visit_function_declaration, boa_ast::function::FunctionDeclaration);
    fun_like!(visit_generator_declaration, boa_ast::function::GeneratorDeclaration);
    fun_like!(visit_async_function_declaration, boa_ast::function::AsyncFunctionDeclaration);
    fun_like!(visit_async_generator_declaration, boa_ast::function::AsyncGeneratorDeclaration);
    fun_like!(visit_arrow_function, boa_ast::function::ArrowFunction);
    fun_like!(visit_async_arrow_function, boa_ast::function::AsyncArrowFunction);
    fun_like!(visit_object_method_definition, boa_ast::expression::literal::ObjectMethodDefinition);

    fn visit_class_expression(&mut self, node: &'ast boa_ast::function::ClassExpression) -> ControlFlow<()> {
        self.add_opt(node.name_scope());
        node.visit_with(self)
    }
    fn visit_class_declaration(&mut self, node: &'ast boa_ast::function::ClassDeclaration) -> ControlFlow<()> {
        self.add(node.name_scope());
        node.visit_with(self)
    }
    fn visit_class_element(&mut self, node: &'ast ClassElement) -> ControlFlow<()> {
        match node {
            ClassElement::MethodDefinition(m) => self.add_fs(m.scopes()),
            ClassElement::FieldDefinition(f) | ClassElement::StaticFieldDefinition(f) => self.add(f.scope()),
            ClassElement::PrivateFieldDefinition(f) | ClassElement::PrivateStaticFieldDefinition(f) => self.add(f.scope()),
            ClassElement::StaticBlock(b) => self.add_fs(b.scopes()),
        }
        node.visit_with(self)
    }
}

fn run_case(text: &[u16], esc: bool) -> Result<String, String> {
    let src = String::from_utf16_lossy(text);
    #[cfg(boa_verif)]
    boa_ast::scope::verif::set_force_escapes(esc);
    let _ = esc;
    let mut interner = Interner::default();
    let scope = Scope::new_global();
    let script = Parser::new(Source::from_bytes(src.as_bytes()))
        .parse_script(&scope, &mut interner)
        .map_err(|e| e.to_string())?;
    let mut d = Dump::default();
    d.add(&scope);
    let _ = d.visit_script(&script);
    Ok(d.scopes.values().cloned().collect::<Vec<_>>().join(";"))
}

fn main() {
    let stdin = std::io::stdin();
    let out = std::io::stdout();
    let mut out = out.lock();
    let mut esc = false;
    for line in stdin.lock().lines() {
        let line = line.unwrap();
        if let Some(rest) = line.strip_prefix("cfg ") {
            for kv in rest.split_whitespace() {
                if let Some(("esc", v)) = kv.split_once('=') {
                    esc = v == "1";
                }
            }
            continue;
        }
        let Some(rest) = line.strip_prefix("run ") else { continue };
        let (id, text) = rest.split_once(' ').unwrap_or((rest, ""));
        let units = bh::unescape_units(text);
        match bh::guarded(|| run_case(&units, esc)) {
            Ok(Ok(s)) => writeln!(out, "{id}\tok\t{s}").unwrap(),
            Ok(Err(m)) => writeln!(out, "{id}\terr\t{}", bh::json_str(&m)).unwrap(),
            Err(m) => writeln!(out, "{id}\tpanic\t{}", bh::json_str(&m)).unwrap(),
        }
        out.flush().unwrap();
    }
}
