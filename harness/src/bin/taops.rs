//! C15: histories of ArrayBuffer / SharedArrayBuffer / TypedArray / DataView operations executed as
//! JavaScript on one boa Context per history.
//!
//! stdin: `H <id>` starts a history (fresh Context); `caps` prints which feature-gated builtins exist; every other line is one op (see ocaml/C15/c15_driver.ml
//! for the grammar, which is shared with the model driver).  stdout: the `H` lines echoed, and one line per
//! op: `<result>|<buffers>|<views>|-`, where buffers are observed natively (raw bytes through the Rust API,
//! not through a typed array) and view geometry through the JS accessors.
use boa_engine::object::builtins::{JsArrayBuffer, JsSharedArrayBuffer};
use boa_engine::{Context, JsResult, JsValue, NativeFunction, Source, js_string};
use std::io::{BufRead, Write};

fn hex(bytes: &[u8]) -> String {
    let mut s = String::with_capacity(bytes.len() * 2 + 2);
    s.push('[');
    for b in bytes {
        s.push_str(&format!("{b:02x}"));
    }
    s.push(']');
    s
}

/// `__hex(buf)`: "D" for a detached ArrayBuffer, else "[..bytes..]"
fn n_hex(_this: &JsValue, args: &[JsValue], _ctx: &mut Context) -> JsResult<JsValue> {
    let Some(obj) = args.first().and_then(JsValue::as_object) else {
        return Ok(js_string!("?").into());
    };
    if let Ok(ab) = JsArrayBuffer::from_object(obj.clone()) {
        let s = match ab.data() {
            Some(d) => hex(&d),
            None => "D".to_string(),
        };
        return Ok(boa_engine::JsString::from(s.as_str()).into());
    }
    if let Ok(sab) = JsSharedArrayBuffer::from_object(obj.clone()) {
        let s = hex(&sab.to_vec());
        return Ok(boa_engine::JsString::from(s.as_str()).into());
    }
    Ok(js_string!("?").into())
}

/// `__bits(x)`: the binary64 pattern of a Number as 16 hex digits ("nan" for every NaN)
fn n_bits(_this: &JsValue, args: &[JsValue], _ctx: &mut Context) -> JsResult<JsValue> {
    let s = match args.first().and_then(JsValue::as_number) {
        Some(x) if x.is_nan() => "nan".to_string(),
        Some(x) => format!("{:016x}", x.to_bits()),
        None => "?".to_string(),
    };
    Ok(boa_engine::JsString::from(s.as_str()).into())
}

/// `__f("<16 hex>")`: the Number with that binary64 pattern
fn n_f(_this: &JsValue, args: &[JsValue], _ctx: &mut Context) -> JsResult<JsValue> {
    let s = args.first().and_then(|v| v.as_string()).map(|s| s.to_std_string_escaped()).unwrap_or_default();
    let bits = u64::from_str_radix(&s, 16).unwrap_or(0x7ff8_0000_0000_0000);
    Ok(JsValue::new(f64::from_bits(bits)))
}

/// `__detach(buf)`: host-side DetachArrayBuffer
fn n_detach(_this: &JsValue, args: &[JsValue], _ctx: &mut Context) -> JsResult<JsValue> {
    if let Some(obj) = args.first().and_then(JsValue::as_object) {
        if let Ok(ab) = JsArrayBuffer::from_object(obj.clone()) {
            let _ = ab.detach(&JsValue::undefined());
        }
    }
    Ok(JsValue::undefined())
}

const PRELUDE: &str = r#"
var B = [], V = [];
var TA = Object.getPrototypeOf(Int8Array);
var K = {i8: Int8Array, u8: Uint8Array, c8: Uint8ClampedArray, i16: Int16Array, u16: Uint16Array, i32: Int32Array,
         u32: Uint32Array, i64: BigInt64Array, u64: BigUint64Array, f16: (typeof Float16Array === 'function' ? Float16Array : undefined),
         f32: Float32Array, f64: Float64Array};
var DVN = {i8: 'Int8', u8: 'Uint8', i16: 'Int16', u16: 'Uint16', i32: 'Int32', u32: 'Uint32', i64: 'BigInt64', u64: 'BigUint64',
           f16: 'Float16', f32: 'Float32', f64: 'Float64'};
function show(x) {
  if (x === undefined) return 'U';
  if (typeof x === 'bigint') return x < 0n ? 'G-' + (-x).toString(16) : 'G' + x.toString(16);
  if (typeof x === 'number') { var b = __bits(x); return b === 'nan' ? 'Fnan' : 'F' + b; }
  return '?' + typeof x;
}
function R(f) {
  try { return f(); }
  catch (e) { var n = '?'; try { n = e.constructor.name; } catch (_) {} return 'E:' + n; }
}
function isSAB(b) { return b instanceof SharedArrayBuffer; }
function dump() {
  var o = [], w = [], i;
  for (i = 0; i < 6; i++) {
    var b = B[i];
    if (b === undefined) { o.push('-'); continue; }
    var h = __hex(b);
    if (h === 'D') { o.push('D'); continue; }
    var mx = isSAB(b) ? (b.growable ? b.maxByteLength : '-') : (b.resizable ? b.maxByteLength : '-');
    o.push(h + ':' + mx);
  }
  for (i = 0; i < 10; i++) {
    var v = V[i];
    if (v === undefined) { w.push('-'); continue; }
    if (v instanceof DataView) { try { w.push('v' + v.byteLength + '/' + v.byteOffset); } catch (e) { w.push('vE'); } }
    else w.push('t' + v.length + '/' + v.byteLength + '/' + v.byteOffset);
  }
  return o.join(',') + '|' + w.join(',') + '|-';
}
function midResize(b, n) { var x = B[b]; if (x === undefined) return; if (isSAB(x)) x.grow(n); else x.resize(n); }
function midDetach(b) { var x = B[b]; if (x === undefined || isSAB(x)) return; __detach(x); }
"#;

fn num_expr(hexbits: &str) -> String {
    let bits = u64::from_str_radix(hexbits, 16).unwrap_or(0x7ff8_0000_0000_0000);
    let x = f64::from_bits(bits);
    if x.is_finite() && x.fract() == 0.0 && x.abs() <= 2147483647.0 && !(x == 0.0 && x.is_sign_negative()) {
        format!("({})", x as i64)
    } else {
        format!("__f('{:016x}')", bits)
    }
}

fn val_expr(t: &str) -> String {
    if t == "u" {
        "undefined".to_string()
    } else if let Some(h) = t.strip_prefix("g-") {
        format!("(-0x{h}n)")
    } else if let Some(h) = t.strip_prefix('g') {
        format!("(0x{h}n)")
    } else if let Some(h) = t.strip_prefix('f') {
        num_expr(h)
    } else {
        "undefined".to_string()
    }
}

fn mid_stmt(m: &str) -> Option<String> {
    if m == "-" {
        None
    } else if let Some(b) = m.strip_prefix('d') {
        Some(format!("midDetach({b});"))
    } else if let Some(r) = m.strip_prefix('r') {
        let mut it = r.split(':');
        let b = it.next().unwrap_or("0");
        let n = u64::from_str_radix(it.next().unwrap_or("0"), 16).unwrap_or(0);
        Some(format!("midResize({b},{n});"))
    } else {
        None
    }
}

/// an argument whose conversion runs a side effect first (only for non-`undefined` arguments)
fn val_mid_expr(t: &str, m: &str) -> String {
    match (t == "u", mid_stmt(m)) {
        (false, Some(eff)) => format!("({{valueOf(){{ {eff} return {}; }}}})", val_expr(t)),
        _ => val_expr(t),
    }
}

fn key_expr(t: &str) -> String {
    if t == "m0" { "'-0'".to_string() } else { val_expr(t) }
}

fn need_ta(v: &str) -> String { format!("if (!(V[{v}] instanceof TA)) return 'skip';") }
fn need_dv(v: &str) -> String { format!("if (!(V[{v}] instanceof DataView)) return 'skip';") }
fn need_buf(b: &str) -> String { format!("if (B[{b}] === undefined) return 'skip';") }

fn op_js(p: &[&str]) -> Option<String> {
    let body = match p {
        ["newbuf", d, sh, len, mx] => {
            let ctor = if *sh == "1" { "SharedArrayBuffer" } else { "ArrayBuffer" };
            let opt = if *mx == "-" { String::new() } else { format!(", {{maxByteLength: {}}}", val_expr(mx)) };
            format!("var b = new {ctor}({}{opt}); B[{d}] = b; return 'ok';", val_expr(len))
        }
        ["resize", b, n] => format!(
            "{} var x = B[{b}]; if (isSAB(x)) x.grow({n}); else x.resize({n}); return 'ok';",
            need_buf(b), n = val_expr(n)),
        ["transfer", d, b, fx, n] => {
            let m = if *fx == "1" { "transferToFixedLength" } else { "transfer" };
            format!("{} var nb = B[{b}].{m}({}); B[{d}] = nb; return 'ok';", need_buf(b), val_expr(n))
        }
        ["detach", b] => format!(
            "{} if (isSAB(B[{b}])) throw new TypeError('shared'); __detach(B[{b}]); return 'ok';", need_buf(b)),
        ["bslice", d, b, st, en] => format!(
            "{} var nb = B[{b}].slice({}, {}); B[{d}] = nb; return 'ok';", need_buf(b), val_expr(st), val_expr(en)),
        ["mkta", d, k, b, off, len] => format!(
            "{} var t = new K.{k}(B[{b}], {}, {}); V[{d}] = t; return 'ok';", need_buf(b), val_expr(off), val_expr(len)),
        ["mktalen", d, db, k, n] => format!(
            "var t = new K.{k}({}); V[{d}] = t; B[{db}] = t.buffer; return 'ok';", val_expr(n)),
        ["mktafrom", d, db, k, src] => format!(
            "{} var t = new K.{k}(V[{src}]); V[{d}] = t; B[{db}] = t.buffer; return 'ok';", need_ta(src)),
        ["mkdv", d, b, off, len] => format!(
            "{} var t = new DataView(B[{b}], {}, {}); V[{d}] = t; return 'ok';", need_buf(b), val_expr(off), val_expr(len)),
        ["get", v, k] => format!("{} return 'V:' + show(V[{v}][{}]);", need_ta(v), key_expr(k)),
        ["set", v, k, x, m] => format!("{} V[{v}][{}] = {}; return 'ok';", need_ta(v), key_expr(k), val_mid_expr(x, m)),
        ["dvget", v, k, off, le] => format!(
            "{} return 'V:' + show(V[{v}]['get' + DVN.{k}]({}, {}));", need_dv(v), val_expr(off), if *le == "1" { "true" } else { "false" }),
        ["dvset", v, k, off, x, le, m] => format!(
            "{} V[{v}]['set' + DVN.{k}]({}, {}, {}); return 'ok';", need_dv(v), val_expr(off), val_mid_expr(x, m),
            if *le == "1" { "true" } else { "false" }),
        ["fill", v, x, st, en, m] => format!(
            "{} V[{v}].fill({}, {}, {}); return 'ok';", need_ta(v), val_expr(x), val_expr(st), val_mid_expr(en, m)),
        ["copywithin", v, tg, st, en, m] => format!(
            "{} V[{v}].copyWithin({}, {}, {}); return 'ok';", need_ta(v), val_expr(tg), val_expr(st), val_mid_expr(en, m)),
        ["setta", v, src, off] => format!(
            "{} {} V[{v}].set(V[{src}], {}); return 'ok';", need_ta(v), need_ta(src), val_expr(off)),
        ["setarr", v, off, xs @ ..] => {
            let items: Vec<String> = xs.iter().map(|x| val_expr(x)).collect();
            format!("{} V[{v}].set([{}], {}); return 'ok';", need_ta(v), items.join(","), val_expr(off))
        }
        ["subarray", d, v, st, en] => format!(
            "{} var t = V[{v}].subarray({}, {}); V[{d}] = t; return 'ok';", need_ta(v), val_expr(st), val_expr(en)),
        ["slice", d, db, v, st, en, m] => format!(
            "{} var t = V[{v}].slice({}, {}); V[{d}] = t; B[{db}] = t.buffer; return 'ok';",
            need_ta(v), val_expr(st), val_mid_expr(en, m)),
        ["at", v, i] => format!("{} return 'V:' + show(V[{v}].at({}));", need_ta(v), val_expr(i)),
        ["with", d, db, v, i, x] => format!(
            "{} var t = V[{v}].with({}, {}); V[{d}] = t; B[{db}] = t.buffer; return 'ok';", need_ta(v), val_expr(i), val_expr(x)),
        _ => return None,
    };
    Some(format!("R(function(){{ {body} }}) + '|' + dump()"))
}

fn new_context() -> Context {
    let mut ctx = Context::default();
    for (name, f) in [
        ("__hex", n_hex as fn(&JsValue, &[JsValue], &mut Context) -> JsResult<JsValue>),
        ("__bits", n_bits),
        ("__f", n_f),
        ("__detach", n_detach),
    ] {
        ctx.register_global_builtin_callable(boa_engine::JsString::from(name), 1, NativeFunction::from_fn_ptr(f))
            .expect("register native");
    }
    ctx.eval(Source::from_bytes(PRELUDE)).expect("prelude");
    ctx
}

fn main() {
    let args: Vec<String> = std::env::args().collect();
    if args.len() > 1 && args[1] == "--js" {
        // print the JavaScript of every op instead of running it (for replay files / debugging)
        let stdin = std::io::stdin();
        for line in stdin.lock().lines() {
            let line = line.unwrap();
            let p: Vec<&str> = line.split_whitespace().collect();
            if p.is_empty() { continue; }
            if p[0] == "H" { println!("// {line}"); continue; }
            println!("{}", op_js(&p).unwrap_or_else(|| "// badop".into()));
        }
        return;
    }
    let stdin = std::io::stdin();
    let out = std::io::stdout();
    let mut out = out.lock();
    let mut ctx: Option<Context> = None;
    let mut dead = false;
    for line in stdin.lock().lines() {
        let line = line.unwrap();
        let p: Vec<&str> = line.split_whitespace().collect();
        if p.is_empty() { continue; }
        if p[0] == "H" {
            ctx = None;
            dead = false;
            writeln!(out, "{line}").unwrap();
            continue;
        }
        if p[0] == "caps" {
            // which optional builtins this build of boa has (feature-gated: `experimental` for transfer, `float16`)
            let mut c = new_context();
            let probe = "'caps transfer=' + (typeof ArrayBuffer.prototype.transfer === 'function' ? 1 : 0) + ' f16=' + (typeof Float16Array === 'function' ? 1 : 0) + ' resizable=' + (typeof ArrayBuffer.prototype.resize === 'function' ? 1 : 0) + ' growable=' + (typeof SharedArrayBuffer.prototype.grow === 'function' ? 1 : 0)";
            let r = match c.eval(Source::from_bytes(probe)) {
                Ok(v) => v.as_string().map(|s| s.to_std_string_escaped()).unwrap_or_else(|| "caps ?".into()),
                Err(e) => format!("caps error:{}", e.to_string().replace('\n', " ")),
            };
            writeln!(out, "{r}").unwrap();
            continue;
        }
        if dead {
            writeln!(out, "afterpanic").unwrap();
            continue;
        }
        let Some(js) = op_js(&p) else {
            writeln!(out, "badop").unwrap();
            continue;
        };
        let r = bh::guarded(|| -> String {
            if ctx.is_none() {
                ctx = Some(new_context());
            }
            let c = ctx.as_mut().unwrap();
            match c.eval(Source::from_bytes(js.as_bytes())) {
                Ok(v) => match v.as_string() {
                    Some(s) => s.to_std_string_escaped(),
                    None => "evalerr:nonstring".to_string(),
                },
                Err(e) => format!("evalerr:{}", e.to_string().replace('\n', " ")),
            }
        });
        match r {
            Ok(s) => writeln!(out, "{s}").unwrap(),
            Err(msg) => {
                dead = true;
                writeln!(out, "panic:{}", msg.replace('\n', " ")).unwrap();
            }
        }
    }
    out.flush().unwrap();
}
