//! C16: promise-job ordering under different evaluation / scheduling modes.
//!
//! Input, one case per line:   <id> TAB <mode> TAB <escaped JS>
//!   (the JS uses the \\ \n \t \" \uXXXX escapes of bh::unescape_string; pieces separated by a line
//!    `//#CUT` are separate scripts in the `multi` mode, one script otherwise)
//! Modes (a main mode, optionally followed by `+opt` flags):
//!   sync            Context::eval (Script::evaluate) then Context::run_jobs  (SimpleJobExecutor, batched)
//!   budget:<b>      Script::evaluate_async_with_budget(b) polled by hand to completion (every Pending is a
//!                   yield), then SimpleJobExecutor::run_jobs_async polled by hand to completion
//!   split:<k>       evaluate, then a harness-defined strict FIFO executor that runs at most k jobs per
//!                   run_jobs call, called (with a trivial eval in between) until the queue is empty
//!   again           as sync, then a trivial eval, run_jobs, run_jobs once more (must be no-ops)
//!   multi           the pieces between `//#CUT` lines evaluated as separate scripts, then one run_jobs
//!   flags: +loop=<n>  set the loop-iteration limit (a job that exceeds it fails with an engine error)
//!   jloop:<n>:<bump>:<m>   no JavaScript: the third field is a behaviour table of *native* jobs (see `LoopSpec`);
//!                   promise / generic / timeout jobs are enqueued on SimpleJobExecutor under a FixedClock and
//!                   run_jobs_async is polled at most n times; if it is still Pending the host moves the clock
//!                   forward by <bump> ms and a fresh run_jobs_async is polled at most m times.
//!                   trace = <ticket>:<id>:<kind> of the executed jobs; completion = <result1>/<polls1>/<log length 1>;
//!                   jobs result = result of the last phase; extra: jpolls of the last phase
//! Output, one line per case:
//!   <id> TAB <status> TAB <trace as JSON array> TAB <completion> TAB <jobs result> TAB <extra>
//!   status = ok | panic:<msg>;  completion = V:<type>:<ToString> | T:<error class>;
//!   jobs result = J:ok | J:T:<error class>, then `;after=<n>` = number of trace entries produced by a
//!   further run_jobs after the first one returned (0 unless an error left jobs behind)
//!   extra (never compared across modes): polls of the evaluation future and of the job future, jobs run.
use boa_engine::context::ContextBuilder;
use boa_engine::context::time::FixedClock;
use boa_engine::job::{GenericJob, Job, JobExecutor, NativeJob, PromiseJob, SimpleJobExecutor, TimeoutJob};
use boa_engine::{Context, JsError, JsNativeError, JsResult, JsValue, Script, Source};
use std::cell::{Cell, RefCell};
use std::collections::VecDeque;
use std::future::Future;
use std::io::{BufRead, Write};
use std::pin::pin;
use std::rc::Rc;
use std::task::{Context as TaskCx, Poll, Waker};

/// Strict FIFO executor (the specification's HostEnqueuePromiseJob discipline): one queue, pop the
/// front, run it, jobs enqueued meanwhile go to the back; at most `per_call` jobs per `run_jobs`.
struct FifoExecutor {
    q: RefCell<VecDeque<PromiseJob>>,
    other: Cell<usize>,
    per_call: Cell<usize>,
    executed: Cell<usize>,
}

impl JobExecutor for FifoExecutor {
    fn enqueue_job(self: Rc<Self>, job: Job, _: &mut Context) {
        match job {
            Job::PromiseJob(p) => self.q.borrow_mut().push_back(p),
            _ => self.other.set(self.other.get() + 1),
        }
    }

    fn run_jobs(self: Rc<Self>, context: &mut Context) -> JsResult<()> {
        let mut n = 0;
        while n < self.per_call.get() {
            let job = self.q.borrow_mut().pop_front();
            let Some(job) = job else { break };
            self.executed.set(self.executed.get() + 1);
            if let Err(e) = job.call(context) {
                self.q.borrow_mut().clear();
                return Err(e);
            }
            n += 1;
        }
        Ok(())
    }
}

fn drive<F: Future>(fut: F, max_polls: u64) -> (Option<F::Output>, u64) {
    let mut fut = pin!(fut);
    let waker = Waker::noop();
    let mut cx = TaskCx::from_waker(waker);
    let mut polls = 0u64;
    loop {
        polls += 1;
        match fut.as_mut().poll(&mut cx) {
            Poll::Ready(v) => return (Some(v), polls),
            Poll::Pending => {
                if polls >= max_polls {
                    return (None, polls);
                }
            }
        }
    }
}

fn error_class(e: &JsError, ctx: &mut Context) -> String {
    if let Some(en) = e.as_engine() {
        let s = en.to_string();
        return format!("Engine:{}", s.split(':').next().unwrap_or("?"));
    }
    match e.try_native(ctx) {
        Ok(n) => {
            use boa_engine::JsNativeErrorKind as K;
            match n.kind() {
                K::Aggregate(_) => "AggregateError".into(),
                K::Error => "Error".into(),
                K::Eval => "EvalError".into(),
                K::Range => "RangeError".into(),
                K::Reference => "ReferenceError".into(),
                K::Syntax => "SyntaxError".into(),
                K::Type => "TypeError".into(),
                K::Uri => "URIError".into(),
                _ => "OtherError".into(),
            }
        }
        Err(_) => match e.as_opaque() {
            Some(v) => format!("value:{}", show(v, ctx)),
            None => "unknown".into(),
        },
    }
}

fn show(v: &JsValue, ctx: &mut Context) -> String {
    if v.is_object() {
        "object".into()
    } else if v.is_symbol() {
        "symbol".into()
    } else {
        let t = v.type_of();
        match v.to_string(ctx) {
            Ok(s) => format!("{}:{}", t, s.to_std_string_escaped()),
            Err(_) => format!("{t}:?"),
        }
    }
}

fn completion(r: &JsResult<JsValue>, ctx: &mut Context) -> String {
    match r {
        Ok(v) => format!("V:{}", show(v, ctx)),
        Err(e) => format!("T:{}", error_class(e, ctx)),
    }
}

fn jobs_result(r: &JsResult<()>, ctx: &mut Context) -> String {
    match r {
        Ok(()) => "J:ok".into(),
        Err(e) => format!("J:T:{}", error_class(e, ctx)),
    }
}

const MAX_POLLS: u64 = 200_000_000;

/// Behaviour table of native jobs (mode `jloop`), the same table coq/C16/LoopCase.v interprets.
/// Text: sections separated by `;`.  Section 0: the jobs the host enqueues before the first run, each
/// `<kind>:<delay>:<job id>` (kind 0 promise job, 1 generic job, 2 timeout job with that delay in ms).
/// Section i+1 = job i: `<adv> <err> <kind>:<delay>:<id> ...` -- when it runs the job logs its id, moves the
/// clock forward by <adv> ms, enqueues the listed jobs in order, and returns Err iff <err> = 1.
/// Deepening (coq/C16/DeepLoopCase_C16.v): kind 3 = interval job with that period; between <err> and the enqueue
/// list a job section may carry `S` (request a stop through the executor's cancellation flag) and `C<ticket>`
/// (revoke the cancellation token of the clock job with that ticket, now or as soon as it is created).
struct LoopSpec {
    init: Vec<(u8, u64, usize)>,
    jobs: Vec<LoopBeh>,
    /// cancellation tokens of the clock jobs, by ticket
    tokens: RefCell<std::collections::HashMap<usize, boa_engine::job::CancellationToken>>,
    /// tickets whose cancellation was requested
    cancel_req: RefCell<std::collections::HashSet<usize>>,
    /// a job requested a stop and the executor has not been seen to consume it yet
    stop_seen: Cell<bool>,
    clock: Rc<FixedClock>,
    /// executed jobs: (ticket given at enqueue time, job id, kind)
    log: RefCell<Vec<(usize, usize, u8)>>,
    /// next ticket = number of enqueue_job calls so far
    next: Cell<usize>,
    /// number of promise jobs enqueued so far
    penq: Cell<usize>,
}

#[derive(Clone)]
struct LoopBeh {
    adv: u64,
    err: bool,
    stop: bool,
    cancel: Vec<usize>,
    new: Vec<(u8, u64, usize)>,
}

fn parse_enq(s: &str) -> Option<(u8, u64, usize)> {
    let mut it = s.split(':');
    let k = it.next()?.parse().ok()?;
    let d = it.next()?.parse().ok()?;
    let c = it.next()?.parse().ok()?;
    Some((k, d, c))
}

fn parse_loop_spec(src: &str) -> Option<LoopSpec> {
    let mut secs = src.split(';');
    let init = secs.next()?.split_whitespace().map(parse_enq).collect::<Option<Vec<_>>>()?;
    let mut jobs = Vec::new();
    for sec in secs {
        let mut w = sec.split_whitespace();
        let adv: u64 = w.next()?.parse().ok()?;
        let err = w.next()? == "1";
        let mut beh = LoopBeh { adv, err, stop: false, cancel: Vec::new(), new: Vec::new() };
        for tok in w {
            if tok == "S" {
                beh.stop = true;
            } else if let Some(t) = tok.strip_prefix('C') {
                beh.cancel.push(t.parse().ok()?);
            } else {
                beh.new.push(parse_enq(tok)?);
            }
        }
        jobs.push(beh);
    }
    Some(LoopSpec {
        init,
        jobs,
        tokens: RefCell::new(std::collections::HashMap::new()),
        cancel_req: RefCell::new(std::collections::HashSet::new()),
        stop_seen: Cell::new(false),
        clock: Rc::new(FixedClock::from_millis(0)),
        log: RefCell::new(Vec::new()),
        next: Cell::new(0),
        penq: Cell::new(0),
    })
}

fn loop_enqueue(spec: &Rc<LoopSpec>, e: (u8, u64, usize), ctx: &mut Context) {
    let (k, d, c) = e;
    let sp = spec.clone();
    let ticket = spec.next.get();
    spec.next.set(ticket + 1);
    let kind = k.min(3);
    let f = move |ctx: &mut Context| -> JsResult<JsValue> { loop_job(&sp, ticket, c, kind, ctx) };
    let register = |tok: boa_engine::job::CancellationToken, ctx: &mut Context| {
        if spec.cancel_req.borrow().contains(&ticket) {
            tok.cancel(ctx);
        }
        spec.tokens.borrow_mut().insert(ticket, tok);
    };
    match k {
        0 => {
            spec.penq.set(spec.penq.get() + 1);
            ctx.enqueue_job(Job::PromiseJob(PromiseJob::new(f)))
        }
        1 => {
            let realm = ctx.realm().clone();
            ctx.enqueue_job(Job::GenericJob(GenericJob::new(f, realm)))
        }
        2 => {
            let job = TimeoutJob::new(NativeJob::new(f), d);
            register(job.cancellation_token().clone(), ctx);
            ctx.enqueue_job(Job::TimeoutJob(job))
        }
        _ => {
            let job = boa_engine::job::IntervalJob::new(boa_engine::job::NativeJobFn::new(f), d);
            register(job.cancellation_token().clone(), ctx);
            ctx.enqueue_job(Job::IntervalJob(job))
        }
    }
}

fn loop_job(spec: &Rc<LoopSpec>, ticket: usize, id: usize, kind: u8, ctx: &mut Context) -> JsResult<JsValue> {
    spec.log.borrow_mut().push((ticket, id, kind));
    let Some(beh) = spec.jobs.get(id).cloned() else { return Ok(JsValue::undefined()) };
    spec.clock.forward(beh.adv);
    if beh.stop {
        spec.stop_seen.set(true);
        let ex = ctx.downcast_job_executor::<SimpleJobExecutor>().expect("simple executor");
        ex.get_cancellation_token().store(true, std::sync::atomic::Ordering::Relaxed);
    }
    for t in &beh.cancel {
        spec.cancel_req.borrow_mut().insert(*t);
        let tok = spec.tokens.borrow().get(t).cloned();
        if let Some(tok) = tok {
            tok.cancel(ctx);
        }
    }
    for e in beh.new {
        loop_enqueue(spec, e, ctx);
    }
    if beh.err {
        Err(JsNativeError::typ().with_message("job failed").into())
    } else {
        Ok(JsValue::undefined())
    }
}

fn run_loop_case(params: &str, src: &str) -> String {
    let p: Vec<u64> = params.split(':').filter_map(|x| x.parse().ok()).collect();
    if p.len() != 3 {
        return "unsupported\t[]\t-\t-\tbad jloop parameters".into();
    }
    let Some(spec) = parse_loop_spec(src) else { return "unsupported\t[]\t-\t-\tbad table".into() };
    let spec = Rc::new(spec);
    let mut ctx = ContextBuilder::default().clock(spec.clock.clone()).build().expect("context");
    for e in spec.init.clone() {
        loop_enqueue(&spec, e, &mut ctx);
    }
    let ex = ctx.downcast_job_executor::<SimpleJobExecutor>().expect("simple executor");
    let phase = |ctx: &mut Context, max: u64| -> (Option<JsResult<()>>, u64) {
        let cell = RefCell::new(ctx);
        let fut = ex.clone().run_jobs_async(&cell);
        drive(fut, max.max(1))
    };
    let stop_flag = ex.get_cancellation_token();
    let show = |r: &Option<JsResult<()>>, ctx: &mut Context| match r {
        None => "J:fuel".to_string(),
        // Ok because a stop request was consumed (flag reset, queues cleared), not because the queues ran dry
        Some(Ok(())) if spec.stop_seen.get() && !stop_flag.load(std::sync::atomic::Ordering::Relaxed) => {
            spec.stop_seen.set(false);
            "J:stopped".to_string()
        }
        Some(r) => jobs_result(r, ctx),
    };
    let (r1, polls1) = phase(&mut ctx, p[0]);
    let s1 = show(&r1, &mut ctx);
    let len1 = spec.log.borrow().len();
    let (last, polls_last) = if r1.is_none() {
        spec.clock.forward(p[1]);
        let (r2, polls2) = phase(&mut ctx, p[2]);
        (show(&r2, &mut ctx), polls2)
    } else {
        (s1.clone(), polls1)
    };
    let before = spec.log.borrow().len();
    let mut after = 0;
    if last != "J:fuel" {
        // after Ok every queue is empty, after Err every queue was cleared: a further call runs nothing
        let _ = phase(&mut ctx, 3);
        after = spec.log.borrow().len() - before;
    }
    let trace: Vec<String> = spec.log.borrow()[..before].iter().map(|(t, i, k)| format!("\"{t}:{i}:{k}\"")).collect();
    format!(
        "ok\t{}\t{}/{}/{}\t{};after={}\tjpolls={},penq={}",
        bh::json_list(&trace),
        s1,
        polls1,
        len1,
        last,
        after,
        polls_last,
        spec.penq.get()
    )
}

fn run_case(mode: &str, src: &str) -> String {
    let mut parts = mode.split('+');
    let main = parts.next().unwrap_or("sync");
    let mut loop_limit: Option<u64> = None;
    for f in parts {
        if let Some(n) = f.strip_prefix("loop=") {
            loop_limit = n.parse().ok();
        }
    }
    let _ = bh::take_trace();
    if let Some(params) = main.strip_prefix("jloop:") {
        return run_loop_case(params, src);
    }
    let fifo = Rc::new(FifoExecutor {
        q: RefCell::new(VecDeque::new()),
        other: Cell::new(0),
        per_call: Cell::new(usize::MAX),
        executed: Cell::new(0),
    });
    let mut ctx = if main.starts_with("split:") {
        ContextBuilder::default().job_executor(fifo.clone()).build().expect("context")
    } else {
        Context::default()
    };
    bh::install_print(&mut ctx);
    if let Some(n) = loop_limit {
        ctx.runtime_limits_mut().set_loop_iteration_limit(n);
    }
    let mut extra = String::new();
    let comp: String;
    let jobs: JsResult<()>;
    if let Some(b) = main.strip_prefix("budget:") {
        let b: u32 = b.parse().expect("budget");
        let script = match Script::parse(Source::from_bytes(src.as_bytes()), None, &mut ctx) {
            Ok(s) => s,
            Err(e) => return format!("ok\t[]\tT:{}\tJ:none\t", error_class(&e, &mut ctx)),
        };
        let (r, polls) = {
            let fut = script.evaluate_async_with_budget(&mut ctx, b);
            drive(fut, MAX_POLLS)
        };
        let Some(r) = r else { return format!("ok\t[]\tT:poll-limit\tJ:none\tpolls={polls}") };
        comp = completion(&r, &mut ctx);
        let ex = ctx.downcast_job_executor::<SimpleJobExecutor>().expect("simple executor");
        let (jr, jpolls) = {
            let cell = RefCell::new(&mut ctx);
            let fut = ex.run_jobs_async(&cell);
            drive(fut, MAX_POLLS)
        };
        let Some(jr) = jr else { return format!("ok\t[]\tT:job-poll-limit\tJ:none\tpolls={polls}") };
        jobs = jr;
        extra = format!("epolls={polls},jpolls={jpolls}");
    } else if let Some(k) = main.strip_prefix("split:") {
        let k: usize = k.parse().expect("k");
        fifo.per_call.set(k.max(1));
        let r = ctx.eval(Source::from_bytes(src.as_bytes()));
        comp = completion(&r, &mut ctx);
        let mut calls = 0u64;
        let mut res = Ok(());
        loop {
            calls += 1;
            if let Err(e) = ctx.run_jobs() {
                res = Err(e);
                break;
            }
            if fifo.q.borrow().is_empty() {
                break;
            }
            // a further, unrelated evaluation between two drains must not disturb the queue
            let _ = ctx.eval(Source::from_bytes(b"void 0"));
        }
        jobs = res;
        extra = format!("calls={calls},executed={},other={}", fifo.executed.get(), fifo.other.get());
        if fifo.other.get() != 0 {
            return format!("unsupported\t[]\t-\t-\t{extra}");
        }
    } else if main == "multi" {
        let mut last: JsResult<JsValue> = Ok(JsValue::undefined());
        for piece in src.split("\n//#CUT\n") {
            last = ctx.eval(Source::from_bytes(piece.as_bytes()));
            if last.is_err() {
                break;
            }
        }
        comp = completion(&last, &mut ctx);
        jobs = ctx.run_jobs();
    } else {
        // sync / again
        let r = ctx.eval(Source::from_bytes(src.as_bytes()));
        comp = completion(&r, &mut ctx);
        jobs = ctx.run_jobs();
    }
    let jr = jobs_result(&jobs, &mut ctx);
    let trace = bh::take_trace();
    // anything left behind?  (after an error every queue must have been cleared)
    if main == "again" {
        let _ = ctx.eval(Source::from_bytes(b"void 0"));
    }
    let _ = ctx.run_jobs();
    let _ = ctx.run_jobs();
    let after = bh::take_trace().len();
    format!("ok\t{}\t{}\t{};after={}\t{}", bh::json_list(&trace), comp, jr, after, extra)
}

fn main() {
    let stdin = std::io::stdin();
    let out = std::io::stdout();
    let mut out = out.lock();
    for line in stdin.lock().lines() {
        let line = line.unwrap();
        if line.is_empty() {
            continue;
        }
        let mut it = line.splitn(3, '\t');
        let id = it.next().unwrap_or("");
        let mode = it.next().unwrap_or("sync");
        let src = bh::unescape_string(it.next().unwrap_or(""));
        let r = bh::guarded(|| run_case(mode, &src));
        match r {
            Ok(s) => writeln!(out, "{id}\t{s}").unwrap(),
            Err(m) => {
                let _ = bh::take_trace();
                writeln!(out, "{id}\tpanic:{}\t[]\t-\t-\t", m.replace(['\t', '\n'], " ")).unwrap()
            }
        }
    }
}
