//! C16: promise-job ordering under different evaluation / scheduling modes.
//!
//! Input, one case per line:   <id> TAB <mode> TAB <escaped JS>
//!   (the JS uses the \\ \n \t \" \uXXXX escapes of bh::unescape_string; pieces separated by a line
//!    `//#CUT` are separate scripts in the `multi` mode, one script otherwise)
//! Modes (a main mode, optionally followed by `+opt` flags):
//!   sync            Context::eval (Script::evaluate) then Context::run_jobs  (SimpleJobExecutor, batched)
//!   budget:<b>      Script::evaluate_async_with_budget(b) polled by hand to completion (every Pending is a
//!                   yield), then SimpleJobExecutor::run_jobs_async polled by hand to completion
//!   split:<k>       evaluate, then a harness-defined strict FIFO executor that runs at most k jobs per
//!                   run_jobs call, called (with a trivial eval in between) until the queue is empty
//!   again           as sync, then a trivial eval, run_jobs, run_jobs once more (must be no-ops)
//!   multi           the pieces between `//#CUT` lines evaluated as separate scripts, then one run_jobs
//!   flags: +loop=<n>  set the loop-iteration limit (a job that exceeds it fails with an engine error)
//! Output, one line per case:
//!   <id> TAB <status> TAB <trace as JSON array> TAB <completion> TAB <jobs result> TAB <extra>
//!   status = ok | panic:<msg>;  completion = V:<type>:<ToString> | T:<error class>;
//!   jobs result = J:ok | J:T:<error class>, then `;after=<n>` = number of trace entries produced by a
//!   further run_jobs after the first one returned (0 unless an error left jobs behind)
//!   extra (never compared across modes): polls of the evaluation future and of the job future, jobs run.
use boa_engine::context::ContextBuilder;
use boa_engine::job::{Job, JobExecutor, PromiseJob, SimpleJobExecutor};
use boa_engine::{Context, JsError, JsResult, JsValue, Script, Source};
use std::cell::{Cell, RefCell};
use std::collections::VecDeque;
use std::future::Future;
use std::io::{BufRead, Write};
use std::pin::pin;
use std::rc::Rc;
use std::task::{Context as TaskCx, Poll, Waker};

/// Strict FIFO executor (the specification's HostEnqueuePromiseJob discipline): one queue, pop the
/// front, run it, jobs enqueued meanwhile go to the back; at most `per_call` jobs per `run_jobs`.
struct FifoExecutor {
    q: RefCell<VecDeque<PromiseJob>>,
    other: Cell<usize>,
    per_call: Cell<usize>,
    executed: Cell<usize>,
}

impl JobExecutor for FifoExecutor {
    fn enqueue_job(self: Rc<Self>, job: Job, _: &mut Context) {
        match job {
            Job::PromiseJob(p) => self.q.borrow_mut().push_back(p),
            _ => self.other.set(self.other.get() + 1),
        }
    }

    fn run_jobs(self: Rc<Self>, context: &mut Context) -> JsResult<()> {
        let mut n = 0;
        while n < self.per_call.get() {
            let job = self.q.borrow_mut().pop_front();
            let Some(job) = job else { break };
            self.executed.set(self.executed.get() + 1);
            if let Err(e) = job.call(context) {
                self.q.borrow_mut().clear();
                return Err(e);
            }
            n += 1;
        }
        Ok(())
    }
}

fn drive<F: Future>(fut: F, max_polls: u64) -> (Option<F::Output>, u64) {
    let mut fut = pin!(fut);
    let waker = Waker::noop();
    let mut cx = TaskCx::from_waker(waker);
    let mut polls = 0u64;
    loop {
        polls += 1;
        match fut.as_mut().poll(&mut cx) {
            Poll::Ready(v) => return (Some(v), polls),
            Poll::Pending => {
                if polls >= max_polls {
                    return (None, polls);
                }
            }
        }
    }
}

fn error_class(e: &JsError, ctx: &mut Context) -> String {
    if let Some(en) = e.as_engine() {
        let s = en.to_string();
        return format!("Engine:{}", s.split(':').next().unwrap_or("?"));
    }
    match e.try_native(ctx) {
        Ok(n) => {
            use boa_engine::JsNativeErrorKind as K;
            match n.kind() {
                K::Aggregate(_) => "AggregateError".into(),
                K::Error => "Error".into(),
                K::Eval => "EvalError".into(),
                K::Range => "RangeError".into(),
                K::Reference => "ReferenceError".into(),
                K::Syntax => "SyntaxError".into(),
                K::Type => "TypeError".into(),
                K::Uri => "URIError".into(),
                _ => "OtherError".into(),
            }
        }
        Err(_) => match e.as_opaque() {
            Some(v) => format!("value:{}", show(v, ctx)),
            None => "unknown".into(),
        },
    }
}

fn show(v: &JsValue, ctx: &mut Context) -> String {
    if v.is_object() {
        "object".into()
    } else if v.is_symbol() {
        "symbol".into()
    } else {
        let t = v.type_of();
        match v.to_string(ctx) {
            Ok(s) => format!("{}:{}", t, s.to_std_string_escaped()),
            Err(_) => format!("{t}:?"),
        }
    }
}

fn completion(r: &JsResult<JsValue>, ctx: &mut Context) -> String {
    match r {
        Ok(v) => format!("V:{}", show(v, ctx)),
        Err(e) => format!("T:{}", error_class(e, ctx)),
    }
}

fn jobs_result(r: &JsResult<()>, ctx: &mut Context) -> String {
    match r {
        Ok(()) => "J:ok".into(),
        Err(e) => format!("J:T:{}", error_class(e, ctx)),
    }
}

const MAX_POLLS: u64 = 200_000_000;

fn run_case(mode: &str, src: &str) -> String {
    let mut parts = mode.split('+');
    let main = parts.next().unwrap_or("sync");
    let mut loop_limit: Option<u64> = None;
    for f in parts {
        if let Some(n) = f.strip_prefix("loop=") {
            loop_limit = n.parse().ok();
        }
    }
    let _ = bh::take_trace();
    let fifo = Rc::new(FifoExecutor {
        q: RefCell::new(VecDeque::new()),
        other: Cell::new(0),
        per_call: Cell::new(usize::MAX),
        executed: Cell::new(0),
    });
    let mut ctx = if main.starts_with("split:") {
        ContextBuilder::default().job_executor(fifo.clone()).build().expect("context")
    } else {
        Context::default()
    };
    bh::install_print(&mut ctx);
    if let Some(n) = loop_limit {
        ctx.runtime_limits_mut().set_loop_iteration_limit(n);
    }
    let mut extra = String::new();
    let comp: String;
    let jobs: JsResult<()>;
    if let Some(b) = main.strip_prefix("budget:") {
        let b: u32 = b.parse().expect("budget");
        let script = match Script::parse(Source::from_bytes(src.as_bytes()), None, &mut ctx) {
            Ok(s) => s,
            Err(e) => return format!("ok\t[]\tT:{}\tJ:none\t", error_class(&e, &mut ctx)),
        };
        let (r, polls) = {
            let fut = script.evaluate_async_with_budget(&mut ctx, b);
            drive(fut, MAX_POLLS)
        };
        let Some(r) = r else { return format!("ok\t[]\tT:poll-limit\tJ:none\tpolls={polls}") };
        comp = completion(&r, &mut ctx);
        let ex = ctx.downcast_job_executor::<SimpleJobExecutor>().expect("simple executor");
        let (jr, jpolls) = {
            let cell = RefCell::new(&mut ctx);
            let fut = ex.run_jobs_async(&cell);
            drive(fut, MAX_POLLS)
        };
        let Some(jr) = jr else { return format!("ok\t[]\tT:job-poll-limit\tJ:none\tpolls={polls}") };
        jobs = jr;
        extra = format!("epolls={polls},jpolls={jpolls}");
    } else if let Some(k) = main.strip_prefix("split:") {
        let k: usize = k.parse().expect("k");
        fifo.per_call.set(k.max(1));
        let r = ctx.eval(Source::from_bytes(src.as_bytes()));
        comp = completion(&r, &mut ctx);
        let mut calls = 0u64;
        let mut res = Ok(());
        loop {
            calls += 1;
            if let Err(e) = ctx.run_jobs() {
                res = Err(e);
                break;
            }
            if fifo.q.borrow().is_empty() {
                break;
            }
            // a further, unrelated evaluation between two drains must not disturb the queue
            let _ = ctx.eval(Source::from_bytes(b"void 0"));
        }
        jobs = res;
        extra = format!("calls={calls},executed={},other={}", fifo.executed.get(), fifo.other.get());
        if fifo.other.get() != 0 {
            return format!("unsupported\t[]\t-\t-\t{extra}");
        }
    } else if main == "multi" {
        let mut last: JsResult<JsValue> = Ok(JsValue::undefined());
        for piece in src.split("\n//#CUT\n") {
            last = ctx.eval(Source::from_bytes(piece.as_bytes()));
            if last.is_err() {
                break;
            }
        }
        comp = completion(&last, &mut ctx);
        jobs = ctx.run_jobs();
    } else {
        // sync / again
        let r = ctx.eval(Source::from_bytes(src.as_bytes()));
        comp = completion(&r, &mut ctx);
        jobs = ctx.run_jobs();
    }
    let jr = jobs_result(&jobs, &mut ctx);
    let trace = bh::take_trace();
    // anything left behind?  (after an error every queue must have been cleared)
    if main == "again" {
        let _ = ctx.eval(Source::from_bytes(b"void 0"));
    }
    let _ = ctx.run_jobs();
    let _ = ctx.run_jobs();
    let after = bh::take_trace().len();
    format!("ok\t{}\t{}\t{};after={}\t{}", bh::json_list(&trace), comp, jr, after, extra)
}

fn main() {
    let stdin = std::io::stdin();
    let out = std::io::stdout();
    let mut out = out.lock();
    for line in stdin.lock().lines() {
        let line = line.unwrap();
        if line.is_empty() {
            continue;
        }
        let mut it = line.splitn(3, '\t');
        let id = it.next().unwrap_or("");
        let mode = it.next().unwrap_or("sync");
        let src = bh::unescape_string(it.next().unwrap_or(""));
        let r = bh::guarded(|| run_case(mode, &src));
        match r {
            Ok(s) => writeln!(out, "{id}\t{s}").unwrap(),
            Err(m) => {
                let _ = bh::take_trace();
                writeln!(out, "{id}\tpanic:{}\t[]\t-\t-\t", m.replace(['\t', '\n'], " ")).unwrap()
            }
        }
    }
}
