//! C06 — inline-cache histories run as JavaScript.
//!
//! Input lines:   run <id> <switch bits> <escaped program text>
//!   switch bits: boa_engine::verif switches (8 = NO_IC: InlineCache::get -> None, set -> no-op; 32 = IC_LOG)
//! Output:        <id>\t<status>\t<trace: JSON array of lines>\t<completion>\t<gc collections during the case>
//!   status ok|panic.  The trace holds the `print` lines of the program and, for every call of the host
//!   function `__ev()`, one line `@ev name:kind,name:kind,...` with the inline-cache events since the
//!   previous call (kinds: h hit, x miss, s stored, m store refused (megamorphic), M lookup on a
//!   megamorphic site).  Host function `__uniq(proto)` creates an ordinary object with a *unique* shape
//!   (JsObject::from_proto_and_data, the public constructor embedders use).
//! Every case runs in a fresh Context, after a forced collection; the last field counts the collections that ran while the
//! program was evaluated (such cases are not compared: a collection clears weak cache entries).
use boa_engine::builtins::object::OrdinaryObject;
use boa_engine::{Context, JsError, JsObject, JsResult, JsValue, NativeFunction, Source, js_string};
use std::io::{BufRead, Write};

fn ev(_this: &JsValue, _args: &[JsValue], _ctx: &mut Context) -> JsResult<JsValue> {
    #[cfg(boa_verif)]
    {
        let evs = boa_engine::verif::take_ic_events();
        let mut s = String::from("@ev ");
        for (i, (name, kind)) in evs.iter().enumerate() {
            if i > 0 {
                s.push(',');
            }
            s.push_str(name);
            s.push(':');
            s.push(*kind);
        }
        bh::TRACE.with(|t| t.borrow_mut().push(bh::json_str(&s)));
    }
    Ok(JsValue::undefined())
}

fn uniq(_this: &JsValue, args: &[JsValue], _ctx: &mut Context) -> JsResult<JsValue> {
    let proto: Option<JsObject> = args.first().and_then(|v| v.as_object());
    let o = JsObject::from_proto_and_data(proto, OrdinaryObject);
    Ok(o.into())
}

fn error_class(e: &JsError, ctx: &mut Context) -> String {
    if let Some(en) = e.as_engine() {
        return format!("P:{}", bh::json_str(&en.to_string()));
    }
    if let Some(n) = e.as_native() {
        let d = format!("{:?}", n.kind());
        let k: String = d.chars().take_while(|c| c.is_alphanumeric()).collect();
        return format!("T:{k}");
    }
    if let Ok(n) = e.try_native(ctx) {
        let d = format!("{:?}", n.kind());
        let k: String = d.chars().take_while(|c| c.is_alphanumeric()).collect();
        return format!("T:{k}");
    }
    "T:throw".to_string()
}

fn gc_collections() -> usize {
    #[cfg(boa_verif)]
    {
        return boa_gc::verif::stats().4;
    }
    #[allow(unreachable_code)]
    0
}

thread_local!(static GC_DURING_EVAL: std::cell::Cell<usize> = const { std::cell::Cell::new(0) });

fn run_case(sw: u32, text: &[u16]) -> String {
    let src = String::from_utf16_lossy(text);
    let mut ctx = Context::default();
    bh::install_print(&mut ctx);
    ctx.register_global_builtin_callable(js_string!("__ev"), 0, NativeFunction::from_fn_ptr(ev)).expect("register __ev");
    ctx.register_global_builtin_callable(js_string!("__uniq"), 1, NativeFunction::from_fn_ptr(uniq)).expect("register __uniq");
    // collect the garbage of earlier cases now, so that no collection is due while the (small) program runs:
    // a collection clears weak cache entries at an allocation-dependent moment
    boa_gc::force_collect();
    #[cfg(boa_verif)]
    {
        boa_engine::verif::set_switches(sw);
        let _ = boa_engine::verif::take_ic_events();
    }
    let _ = sw;
    let gc0 = gc_collections();
    GC_DURING_EVAL.with(|c| c.set(usize::MAX));
    let r = ctx.eval(Source::from_bytes(src.as_bytes()));
    GC_DURING_EVAL.with(|c| c.set(gc_collections() - gc0));
    let comp = match r {
        Ok(_) => "V".to_string(),
        Err(e) => error_class(&e, &mut ctx),
    };
    #[cfg(boa_verif)]
    {
        boa_engine::verif::set_switches(0);
        let _ = boa_engine::verif::take_ic_events();
    }
    comp
}

fn main() {
    let stdin = std::io::stdin();
    let out = std::io::stdout();
    let mut out = out.lock();
    for line in stdin.lock().lines() {
        let line = line.unwrap();
        let Some(rest) = line.strip_prefix("run ") else { continue };
        let mut it = rest.splitn(3, ' ');
        let id = it.next().unwrap_or("?").to_string();
        let sw: u32 = it.next().and_then(|s| s.parse().ok()).unwrap_or(0);
        let text = it.next().unwrap_or("");
        let units = bh::unescape_units(text);
        let r = bh::guarded(|| run_case(sw, &units));
        // collections while the program ran (usize::MAX: the run panicked before the count was taken -> reported as 0,
        // a panic ends the comparison at that operation anyway)
        let gc = GC_DURING_EVAL.with(|c| c.get());
        let gc = if gc == usize::MAX { 0 } else { gc };
        let trace = bh::json_list(&bh::take_trace());
        match r {
            Ok(comp) => writeln!(out, "{id}\t{}\t{trace}\t{comp}\t{gc}", "ok").unwrap(),
            Err(m) => {
                #[cfg(boa_verif)]
                {
                    boa_engine::verif::set_switches(0);
                    let _ = boa_engine::verif::take_ic_events();
                }
                writeln!(out, "{id}\tpanic\t{trace}\tP:{}\t{gc}", bh::json_str(&m)).unwrap()
            }
        }
        out.flush().unwrap();
    }
}
