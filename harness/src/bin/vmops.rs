//! C07: VM balance across host entries.  Executes a history of host entries against real contexts and
//! reports `boa_engine::verif::vm_depths` before/after every entry and at every `probe(id)` call made by
//! the running JavaScript (a host native), plus the register counts of every compiled block of a script.
//!
//! Input, one op per line (fields separated by one blank; JS text uses the bh::unescape_string escapes):
//!   ctx <n> <rec> <stack> <loop>   create context n (limits; 0 = keep default) and make it current
//!   use <n>                        make context n current
//!   limits <rec> <stack> <loop>    change the limits of the current context (0 = keep)
//!   eval <js>                      Script::parse + codeblock (dumped: regs per block) + Script::evaluate
//!   ceval <js>                     Context::eval
//!   call <global> <argc>           JsObject::call(global function, this=undefined, argc numbers)
//!   construct <global> <argc>      JsObject::construct
//!   meth <global> <method> <argc>  obj = global; obj.method fetched, then JsObject::call(method, this=obj, argc numbers)
//!   jobs                           Context::run_jobs
//!   moddef <name> <js>             Module::parse and register under specifier <name> in the context's MapModuleLoader
//!   module <js>                    Module::parse + load_link_evaluate + run_jobs; completion from the promise state (P:pending = still pending)
//!   depths                         no entry
//! Output, one line per op:
//!   <lineno> TAB <op> TAB <before> TAB <after> TAB <completion> TAB <probes> TAB <blocks>
//!   before/after = frames,stack,pending,host_call_depth ;  completion = V | T:<class> | L:<limit> | E:<engine panic> | P:<rust panic> | -
//!   probes = id:frames:stack:pending:hdepth;...   blocks = name:regs:params;...  (eval only, `-` otherwise; script block name is `<main>`)
use boa_engine::builtins::promise::PromiseState;
use boa_engine::module::MapModuleLoader;
use boa_engine::{Context, JsError, JsResult, JsValue, Module, NativeFunction, Script, Source, js_string};
use std::rc::Rc;
use std::cell::RefCell;
use std::io::{BufRead, Write};

thread_local! {
    static PROBES: RefCell<Vec<(i64, (usize, usize, bool, usize))>> = const { RefCell::new(Vec::new()) };
}

#[cfg(boa_verif)]
fn depths(ctx: &Context) -> (usize, usize, bool, usize) {
    boa_engine::verif::vm_depths(ctx)
}
#[cfg(not(boa_verif))]
fn depths(_ctx: &Context) -> (usize, usize, bool, usize) {
    (0, 0, false, 0)
}

fn probe(_this: &JsValue, args: &[JsValue], ctx: &mut Context) -> JsResult<JsValue> {
    let id = args.first().and_then(JsValue::as_number).map_or(-1, |n| n as i64);
    let d = depths(ctx);
    PROBES.with(|p| p.borrow_mut().push((id, d)));
    Ok(JsValue::undefined())
}

fn fmt_d(d: (usize, usize, bool, usize)) -> String {
    format!("{},{},{},{}", d.0, d.1, u8::from(d.2), d.3)
}

fn error_class(e: &JsError, ctx: &mut Context) -> String {
    if let Some(en) = e.as_engine() {
        let s = en.to_string();
        if s.starts_with("RuntimeLimitError") {
            let kind = if s.contains("iteration loops") {
                "LoopIteration"
            } else if s.contains("recursive calls") {
                "Recursion"
            } else if s.contains("stack size") {
                "StackSize"
            } else {
                "Other"
            };
            return format!("L:{kind}");
        }
        return format!("E:{}", s.split(':').next().unwrap_or("?"));
    }
    match e.try_native(ctx) {
        Ok(n) => {
            use boa_engine::JsNativeErrorKind as K;
            let c = match n.kind() {
                K::Aggregate(_) => "AggregateError",
                K::Error => "Error",
                K::Eval => "EvalError",
                K::Range => "RangeError",
                K::Reference => "ReferenceError",
                K::Syntax => "SyntaxError",
                K::Type => "TypeError",
                K::Uri => "URIError",
                _ => "OtherError",
            };
            format!("T:{c}")
        }
        Err(_) => "T:value".into(),
    }
}

thread_local! {
    static LOADERS: RefCell<Vec<(usize, Rc<MapModuleLoader>)>> = const { RefCell::new(Vec::new()) };
    static CUR: std::cell::Cell<usize> = const { std::cell::Cell::new(0) };
}

fn loader_of(n: usize) -> Option<Rc<MapModuleLoader>> {
    LOADERS.with(|l| l.borrow().iter().rev().find(|(k, _)| *k == n).map(|(_, m)| m.clone()))
}

fn new_context(n: usize, rec: usize, stack: usize, lp: u64) -> Context {
    let map = Rc::new(MapModuleLoader::new());
    LOADERS.with(|l| l.borrow_mut().push((n, map.clone())));
    let mut ctx = Context::builder().module_loader(map).build().expect("context");
    ctx.register_global_builtin_callable(js_string!("probe"), 1, NativeFunction::from_fn_ptr(probe))
        .expect("register probe");
    set_limits(&mut ctx, rec, stack, lp);
    ctx
}

fn set_limits(ctx: &mut Context, rec: usize, stack: usize, lp: u64) {
    let l = ctx.runtime_limits_mut();
    if rec != 0 {
        l.set_recursion_limit(rec);
    }
    if stack != 0 {
        l.set_stack_size_limit(stack);
    }
    if lp != 0 {
        l.set_loop_iteration_limit(lp);
    }
}

fn blocks_of(dump: &str) -> String {
    let mut out = Vec::new();
    for l in dump.lines() {
        if let Some(rest) = l.strip_prefix("block ") {
            let mut regs = "";
            let mut params = "";
            let mut name = "";
            for kv in rest.split(' ') {
                if let Some(v) = kv.strip_prefix("regs=") {
                    regs = v;
                } else if let Some(v) = kv.strip_prefix("params=") {
                    params = v;
                } else if let Some(v) = kv.strip_prefix("name=") {
                    name = v;
                }
            }
            out.push(format!("{name}:{regs}:{params}"));
        }
    }
    if out.is_empty() { "-".into() } else { out.join(";") }
}

fn nums(argc: usize) -> Vec<JsValue> {
    (0..argc).map(|i| JsValue::new(i as i32 + 1)).collect()
}

/// Runs one op; returns (completion, blocks).
fn run_op(ctx: &mut Context, op: &str, rest: &str) -> (String, String) {
    let mut blocks = String::from("-");
    let r: JsResult<JsValue> = (|| match op {
        "eval" => {
            let src = bh::unescape_string(rest);
            let script = Script::parse(Source::from_bytes(src.as_bytes()), None, ctx)?;
            let cb = script.codeblock(ctx)?;
            #[cfg(boa_verif)]
            {
                blocks = blocks_of(&cb.verif_dump());
            }
            let _ = cb;
            script.evaluate(ctx)
        }
        "ceval" => {
            let src = bh::unescape_string(rest);
            ctx.eval(Source::from_bytes(src.as_bytes()))
        }
        "call" | "construct" => {
            let mut it = rest.split(' ');
            let name = it.next().unwrap_or("");
            let argc: usize = it.next().and_then(|s| s.parse().ok()).unwrap_or(0);
            let f = ctx.global_object().get(js_string!(name), ctx)?;
            let Some(f) = f.as_object() else {
                return Ok(JsValue::undefined());
            };
            if op == "call" {
                f.call(&JsValue::undefined(), &nums(argc), ctx)
            } else {
                f.construct(&nums(argc), None, ctx).map(JsValue::from)
            }
        }
        "meth" => {
            let mut it = rest.split(' ');
            let name = it.next().unwrap_or("");
            let meth = it.next().unwrap_or("");
            let argc: usize = it.next().and_then(|s| s.parse().ok()).unwrap_or(0);
            let o = ctx.global_object().get(js_string!(name), ctx)?;
            let Some(obj) = o.as_object() else {
                return Ok(JsValue::undefined());
            };
            let m = obj.get(js_string!(meth), ctx)?;
            let Some(m) = m.as_object() else {
                return Ok(JsValue::undefined());
            };
            m.call(&o, &nums(argc), ctx)
        }
        "jobs" => ctx.run_jobs().map(|()| JsValue::undefined()),
        "moddef" => {
            let (name, text) = rest.split_once(' ').unwrap_or((rest, ""));
            let src = bh::unescape_string(text);
            let m = Module::parse(Source::from_bytes(src.as_bytes()), None, ctx)?;
            if let Some(l) = loader_of(CUR.with(std::cell::Cell::get)) {
                l.insert(name, m);
            }
            Ok(JsValue::undefined())
        }
        "module" => {
            let src = bh::unescape_string(rest);
            let m = Module::parse(Source::from_bytes(src.as_bytes()), None, ctx)?;
            let p = m.load_link_evaluate(ctx);
            ctx.run_jobs()?;
            match p.state() {
                PromiseState::Fulfilled(_) => Ok(JsValue::undefined()),
                PromiseState::Rejected(v) => Err(JsError::from_opaque(v)),
                PromiseState::Pending => Err(boa_engine::JsNativeError::eval().with_message("pending").into()),
            }
        }
        _ => Ok(JsValue::undefined()),
    })();
    let comp = match r {
        Ok(_) => "V".to_string(),
        Err(e) => error_class(&e, ctx),
    };
    (comp, blocks)
}

fn main() {
    let stdin = std::io::stdin();
    let out = std::io::stdout();
    let mut out = out.lock();
    let mut ctxs: Vec<Option<Context>> = Vec::new();
    let mut cur: usize = 0;
    for (lineno, line) in stdin.lock().lines().enumerate() {
        let line = line.unwrap();
        let (op, rest) = line.split_once(' ').unwrap_or((line.as_str(), ""));
        let f: Vec<usize> = rest.split(' ').filter_map(|s| s.parse().ok()).collect();
        match op {
            "ctx" => {
                let n = f.first().copied().unwrap_or(0);
                while ctxs.len() <= n {
                    ctxs.push(None);
                }
                let c = bh::guarded(|| {
                    new_context(
                        n,
                        f.get(1).copied().unwrap_or(0),
                        f.get(2).copied().unwrap_or(0),
                        f.get(3).copied().unwrap_or(0) as u64,
                    )
                });
                cur = n;
                CUR.with(|c| c.set(cur));
                match c {
                    Ok(c) => {
                        let d = fmt_d(depths(&c));
                        ctxs[n] = Some(c);
                        writeln!(out, "{lineno}\tctx\t{d}\t{d}\t-\t-\t-").unwrap();
                    }
                    Err(m) => writeln!(out, "{lineno}\tctx\t-\t-\tP:{}\t-\t-", bh::json_str(&m)).unwrap(),
                }
                continue;
            }
            "use" => {
                cur = f.first().copied().unwrap_or(0);
                CUR.with(|c| c.set(cur));
                writeln!(out, "{lineno}\tuse\t-\t-\t-\t-\t-").unwrap();
                continue;
            }
            _ => {}
        }
        let Some(Some(ctx)) = ctxs.get_mut(cur) else {
            writeln!(out, "{lineno}\t{op}\t-\t-\tP:\"no context\"\t-\t-").unwrap();
            continue;
        };
        if op == "limits" {
            set_limits(
                ctx,
                f.first().copied().unwrap_or(0),
                f.get(1).copied().unwrap_or(0),
                f.get(2).copied().unwrap_or(0) as u64,
            );
            let d = fmt_d(depths(ctx));
            writeln!(out, "{lineno}\tlimits\t{d}\t{d}\t-\t-\t-").unwrap();
            continue;
        }
        PROBES.with(|p| p.borrow_mut().clear());
        let before = fmt_d(depths(ctx));
        let r = bh::guarded(|| run_op(ctx, op, rest));
        let after = fmt_d(depths(ctx));
        let probes: Vec<String> = PROBES.with(|p| {
            p.borrow()
                .iter()
                .map(|(id, d)| format!("{}:{}:{}:{}:{}", id, d.0, d.1, u8::from(d.2), d.3))
                .collect()
        });
        let probes = if probes.is_empty() { "-".to_string() } else { probes.join(";") };
        match r {
            Ok((comp, blocks)) => writeln!(out, "{lineno}\t{op}\t{before}\t{after}\t{comp}\t{probes}\t{blocks}").unwrap(),
            Err(m) => writeln!(out, "{lineno}\t{op}\t{before}\t{after}\tP:{}\t{probes}\t-", bh::json_str(&m)).unwrap(),
        }
    }
}
