//! C02: crash oracle (no input makes the engine fail internally) + arithmetic fast-path grid.
//!
//! usage: c02 [stack_mb]          (all work happens in a worker thread with a stack of `stack_mb` MiB, default 512)
//!
//! Input lines (one case per line, one result line per case, flushed):
//!   cfg k=v ...     loop=<n|-> rec=<n|-> stack=<n|-> fresh=0|1 strict=0|1 opt=<bits|default> jobs=0|1 entry=eval|script|module
//!   run <id> <escaped text>      program text in the \uXXXX wire format (bh::unescape_units), fed as UTF-8 bytes
//!   hex <id> <hex bytes>         raw byte string fed to Source::from_bytes unchanged (may be invalid UTF-8)
//!   val <id> <escaped text>      evaluate, print the *variant* of the completion value (I<n> F<bits> B<0|1> ...)
//!   grid <id> <arity> <csv a> <csv b> <escaped function expression>
//!                                evaluates the function expression once, then calls it (JsObject::call) with
//!                                Integer32 arguments for every pair (a,b) (arity 1: every a); prints the variants
//!   api <id> <op> <csv a> <csv b>  JsValue::new(a).<op>(&JsValue::new(b), ctx) for every pair (public API route:
//!                                the Integer32 arms of value/operations.rs, also used by the constant folder)
//! Result lines:
//!   run/hex:  <id>\t<status>\t<detail>     status: ok | throw | syntax | limit | enginepanic | panic
//!             panic detail = <file>:<line>\t<message>; enginepanic detail = message
//!   val:      <id>\t<variant>
//!   grid/api: <id>\t<variant> <variant> ...   (row-major over a x b)
//! variant: I<i32> | F<16 hex digits of the f64 bits> | B0|B1 | U | N | S | O | Y | G | T:<ErrorClass> | L:<limit> |
//!          E:<engine panic> | P:<file>:<line>:<message with blanks replaced by _>
use boa_engine::builtins::promise::PromiseState;
use boa_engine::optimizer::OptimizerOptions;
use boa_engine::value::JsVariant;
use boa_engine::{Context, JsError, JsResult, JsValue, Module, Script, Source};
use std::cell::RefCell;
use std::io::{BufRead, Write};

thread_local! {
    static LAST_PANIC: RefCell<Option<(String, String)>> = const { RefCell::new(None) };
}

fn install_hook() {
    std::panic::set_hook(Box::new(|info| {
        let loc = info.location().map(|l| format!("{}:{}", l.file(), l.line())).unwrap_or_else(|| "?:0".into());
        let msg = if let Some(s) = info.payload().downcast_ref::<&str>() {
            (*s).to_string()
        } else if let Some(s) = info.payload().downcast_ref::<String>() {
            s.clone()
        } else {
            "panic".to_string()
        };
        LAST_PANIC.with(|p| {
            let mut p = p.borrow_mut();
            // keep the FIRST panic of a case (a second one while unwinding would abort anyway)
            if p.is_none() {
                *p = Some((loc, msg));
            }
        });
    }));
}

/// Run `f` under catch_unwind; Err((location, message)) on a panic.
fn guarded<T>(f: impl FnOnce() -> T) -> Result<T, (String, String)> {
    LAST_PANIC.with(|p| *p.borrow_mut() = None);
    match std::panic::catch_unwind(std::panic::AssertUnwindSafe(f)) {
        Ok(v) => Ok(v),
        Err(_) => Err(LAST_PANIC.with(|p| p.borrow_mut().take()).unwrap_or_else(|| ("?:0".into(), "panic".into()))),
    }
}

#[derive(Clone)]
struct Cfg {
    opt: Option<u8>,
    entry: String,
    lim_loop: Option<u64>,
    lim_rec: Option<usize>,
    lim_stack: Option<usize>,
    fresh: bool,
    jobs: bool,
    strict: bool,
}

impl Default for Cfg {
    fn default() -> Self {
        Cfg { opt: None, entry: "eval".into(), lim_loop: None, lim_rec: None, lim_stack: None, fresh: true, jobs: true, strict: false }
    }
}

fn new_context(cfg: &Cfg) -> Context {
    let mut ctx = Context::default();
    bh::install_print(&mut ctx);
    if let Some(bits) = cfg.opt {
        ctx.set_optimizer_options(OptimizerOptions::from_bits_truncate(bits));
    }
    if let Some(n) = cfg.lim_loop { ctx.runtime_limits_mut().set_loop_iteration_limit(n); }
    if let Some(n) = cfg.lim_rec { ctx.runtime_limits_mut().set_recursion_limit(n); }
    if let Some(n) = cfg.lim_stack { ctx.runtime_limits_mut().set_stack_size_limit(n); }
    ctx.strict(cfg.strict);
    ctx
}

fn clean(s: &str) -> String {
    s.chars().map(|c| if c == '\t' || c == '\n' || c == '\r' { ' ' } else { c }).collect()
}

/// (status, detail) of an error completion.
fn classify_err(e: &JsError, ctx: &mut Context) -> (&'static str, String) {
    if let Some(en) = e.as_engine() {
        let s = en.to_string();
        if s.starts_with("RuntimeLimitError") {
            let k = if s.contains("iteration") { "LoopIteration" } else if s.contains("recursive") { "Recursion" } else { "StackSize" };
            return ("limit", k.to_string());
        }
        return ("enginepanic", clean(&s));
    }
    if let Some(n) = e.as_native() {
        if n.is_syntax() {
            return ("syntax", "SyntaxError".into());
        }
        return ("throw", kind_name(&format!("{:?}", n.kind())));
    }
    if let Some(v) = e.as_opaque() {
        if v.is_object() {
            if let Ok(n) = e.try_native(ctx) {
                return ("throw", kind_name(&format!("{:?}", n.kind())));
            }
            return ("throw", "object".into());
        }
        return ("throw", format!("value:{}", v.type_of()));
    }
    ("throw", "?".into())
}

fn kind_name(dbg: &str) -> String {
    let k: String = dbg.chars().take_while(|c| c.is_alphanumeric()).collect();
    match k.as_str() {
        "Aggregate" => "AggregateError".into(),
        "Type" => "TypeError".into(),
        "Range" => "RangeError".into(),
        "Reference" => "ReferenceError".into(),
        "Syntax" => "SyntaxError".into(),
        "Eval" => "EvalError".into(),
        "Uri" => "URIError".into(),
        other => other.to_string(),
    }
}

fn eval_bytes(cfg: &Cfg, ctx: &mut Context, bytes: &[u8]) -> JsResult<JsValue> {
    match cfg.entry.as_str() {
        "script" => {
            let script = Script::parse(Source::from_bytes(bytes), None, ctx)?;
            script.evaluate(ctx)
        }
        "module" => {
            let module = Module::parse(Source::from_bytes(bytes), None, ctx)?;
            let p = module.load_link_evaluate(ctx);
            ctx.run_jobs()?;
            match p.state() {
                PromiseState::Pending => Ok(JsValue::undefined()),
                PromiseState::Fulfilled(v) => Ok(v),
                PromiseState::Rejected(v) => Err(JsError::from_opaque(v)),
            }
        }
        _ => ctx.eval(Source::from_bytes(bytes)),
    }
}

/// One fuzz case: status + detail.  The worst outcome of evaluation and job draining is reported.
fn run_case(cfg: &Cfg, ctx: &mut Context, bytes: &[u8]) -> (String, String) {
    let r = eval_bytes(cfg, ctx, bytes);
    let (mut st, mut det) = match &r {
        Ok(v) => ("ok", format!("V:{}", v.type_of())),
        Err(e) => {
            let (s, d) = classify_err(e, ctx);
            (s, d)
        }
    };
    if cfg.jobs {
        if let Err(e) = ctx.run_jobs() {
            let (s, d) = classify_err(&e, ctx);
            if s == "enginepanic" || st == "ok" {
                st = s;
                det = format!("jobs:{d}");
            }
        }
    }
    let _ = bh::take_trace();
    (st.to_string(), det)
}

fn variant_of(v: &JsValue) -> String {
    match v.variant() {
        JsVariant::Undefined => "U".to_string(),
        JsVariant::Null => "N".to_string(),
        JsVariant::Boolean(b) => format!("B{}", b as u8),
        JsVariant::Integer32(i) => format!("I{i}"),
        JsVariant::Float64(f) => format!("F{:016x}", f.to_bits()),
        JsVariant::BigInt(_) => "G".to_string(),
        JsVariant::Object(_) => "O".to_string(),
        JsVariant::Symbol(_) => "Y".to_string(),
        JsVariant::String(_) => "S".to_string(),
    }
}

fn variant_of_result(r: Result<JsResult<JsValue>, (String, String)>, ctx: &mut Context) -> String {
    match r {
        Ok(Ok(v)) => variant_of(&v),
        Ok(Err(e)) => {
            let (s, d) = classify_err(&e, ctx);
            match s {
                "limit" => format!("L:{d}"),
                "enginepanic" => format!("E:{}", d.replace(' ', "_")),
                _ => format!("T:{d}"),
            }
        }
        Err((loc, msg)) => format!("P:{}:{}", loc, clean(&msg).replace(' ', "_")),
    }
}

fn csv_i32(s: &str) -> Vec<i32> {
    s.split(',').filter(|x| !x.is_empty()).filter_map(|x| x.parse::<i32>().ok()).collect()
}

fn api_op(op: &str, a: i32, b: i32, ctx: &mut Context) -> JsResult<JsValue> {
    let x = JsValue::new(a);
    let y = JsValue::new(b);
    match op {
        "add" => x.add(&y, ctx),
        "sub" => x.sub(&y, ctx),
        "mul" => x.mul(&y, ctx),
        "div" => x.div(&y, ctx),
        "rem" => x.rem(&y, ctx),
        "pow" => x.pow(&y, ctx),
        "bitand" => x.bitand(&y, ctx),
        "bitor" => x.bitor(&y, ctx),
        "bitxor" => x.bitxor(&y, ctx),
        "shl" => x.shl(&y, ctx),
        "shr" => x.shr(&y, ctx),
        "ushr" => x.ushr(&y, ctx),
        "lt" => x.lt(&y, ctx).map(JsValue::new),
        "le" => x.le(&y, ctx).map(JsValue::new),
        "gt" => x.gt(&y, ctx).map(JsValue::new),
        "ge" => x.ge(&y, ctx).map(JsValue::new),
        "eq" => x.equals(&y, ctx).map(JsValue::new),
        "neg" => x.neg(ctx),
        _ => Ok(JsValue::undefined()),
    }
}

fn from_hex(s: &str) -> Vec<u8> {
    let b = s.as_bytes();
    let mut out = Vec::with_capacity(b.len() / 2);
    let mut i = 0;
    while i + 1 < b.len() {
        let h = (b[i] as char).to_digit(16).unwrap_or(0) as u8;
        let l = (b[i + 1] as char).to_digit(16).unwrap_or(0) as u8;
        out.push(h << 4 | l);
        i += 2;
    }
    out
}

fn worker() {
    install_hook();
    let stdin = std::io::stdin();
    let out = std::io::stdout();
    let mut out = out.lock();
    let mut cfg = Cfg::default();
    let mut shared: Option<Context> = None;
    for line in stdin.lock().lines() {
        let Ok(line) = line else { break };
        if let Some(rest) = line.strip_prefix("cfg ") {
            for kv in rest.split_whitespace() {
                let Some((k, v)) = kv.split_once('=') else { continue };
                match k {
                    "opt" => cfg.opt = if v == "default" { None } else { v.parse().ok() },
                    "entry" => cfg.entry = v.into(),
                    "loop" => cfg.lim_loop = v.parse().ok(),
                    "rec" => cfg.lim_rec = v.parse().ok(),
                    "stack" => cfg.lim_stack = v.parse().ok(),
                    "fresh" => cfg.fresh = v == "1",
                    "jobs" => cfg.jobs = v == "1",
                    "strict" => cfg.strict = v == "1",
                    _ => {}
                }
            }
            if let Some(c) = shared.take() {
                // dropping a context is engine code too
                if guarded(move || drop(c)).is_err() {
                    writeln!(out, "-\tpanic\tdrop-context").unwrap();
                }
            }
            continue;
        }
        let (cmd, rest) = line.split_once(' ').unwrap_or((line.as_str(), ""));
        match cmd {
            "run" | "hex" => {
                let (id, text) = rest.split_once(' ').unwrap_or((rest, ""));
                let bytes: Vec<u8> = if cmd == "hex" {
                    from_hex(text)
                } else {
                    String::from_utf16_lossy(&bh::unescape_units(text)).into_bytes()
                };
                let c = cfg.clone();
                let r = if cfg.fresh {
                    guarded(|| {
                        let mut ctx = new_context(&c);
                        let r = run_case(&c, &mut ctx, &bytes);
                        drop(ctx);
                        r
                    })
                } else {
                    if shared.is_none() {
                        shared = Some(new_context(&c));
                    }
                    let ctx = shared.as_mut().unwrap();
                    let r = guarded(|| run_case(&c, ctx, &bytes));
                    if r.is_err() {
                        // the context may be inconsistent after an unwound panic: leak it, start afresh
                        std::mem::forget(shared.take());
                    }
                    r
                };
                match r {
                    Ok((st, det)) => writeln!(out, "{id}\t{st}\t{det}").unwrap(),
                    Err((loc, msg)) => writeln!(out, "{id}\tpanic\t{loc}\t{}", clean(&msg)).unwrap(),
                }
            }
            "val" => {
                let (id, text) = rest.split_once(' ').unwrap_or((rest, ""));
                let bytes = String::from_utf16_lossy(&bh::unescape_units(text)).into_bytes();
                let c = cfg.clone();
                let v = if cfg.fresh {
                    let mut ctx = new_context(&c);
                    let r = guarded(|| eval_bytes(&c, &mut ctx, &bytes));
                    let panicked = r.is_err();
                    let v = variant_of_result(r, &mut ctx);
                    if panicked { std::mem::forget(ctx); }
                    v
                } else {
                    if shared.is_none() {
                        shared = Some(new_context(&c));
                    }
                    let ctx = shared.as_mut().unwrap();
                    let r = guarded(|| eval_bytes(&c, ctx, &bytes));
                    let panicked = r.is_err();
                    let v = variant_of_result(r, ctx);
                    if panicked { std::mem::forget(shared.take()); }
                    v
                };
                writeln!(out, "{id}\t{v}").unwrap();
            }
            "grid" => {
                let mut it = rest.splitn(5, ' ');
                let id = it.next().unwrap_or("");
                let arity: usize = it.next().and_then(|x| x.parse().ok()).unwrap_or(2);
                let avs = csv_i32(it.next().unwrap_or(""));
                let bvs = if arity >= 2 { csv_i32(it.next().unwrap_or("")) } else { let _ = it.next(); vec![0] };
                let text = it.next().unwrap_or("");
                let bytes = String::from_utf16_lossy(&bh::unescape_units(text)).into_bytes();
                let c = cfg.clone();
                let mut res: Vec<String> = Vec::with_capacity(avs.len() * bvs.len());
                let mut ctxf: Option<(Context, JsValue)> = None;
                for &a in &avs {
                    for &b in &bvs {
                        if ctxf.is_none() {
                            let mut ctx = new_context(&c);
                            match guarded(|| ctx.eval(Source::from_bytes(&bytes))) {
                                Ok(Ok(f)) => ctxf = Some((ctx, f)),
                                other => {
                                    let v = variant_of_result(other, &mut ctx);
                                    res.push(format!("setup!{v}"));
                                    std::mem::forget(ctx);
                                    continue;
                                }
                            }
                        }
                        let (ctx, f) = ctxf.as_mut().unwrap();
                        let args: Vec<JsValue> = if arity >= 2 { vec![JsValue::new(a), JsValue::new(b)] } else { vec![JsValue::new(a)] };
                        let r = guarded(|| match f.as_callable() {
                            Some(fo) => fo.call(&JsValue::undefined(), &args, ctx),
                            None => Ok(JsValue::undefined()),
                        });
                        let panicked = r.is_err();
                        res.push(variant_of_result(r, ctx));
                        if panicked {
                            std::mem::forget(ctxf.take());
                        }
                    }
                }
                writeln!(out, "{id}\t{}", res.join(" ")).unwrap();
            }
            "api" => {
                let mut it = rest.splitn(4, ' ');
                let id = it.next().unwrap_or("");
                let op = it.next().unwrap_or("").to_string();
                let avs = csv_i32(it.next().unwrap_or(""));
                let bvs = csv_i32(it.next().unwrap_or("0"));
                let bvs = if op == "neg" { vec![0] } else { bvs };
                let c = cfg.clone();
                let mut ctx = new_context(&c);
                let mut res: Vec<String> = Vec::with_capacity(avs.len() * bvs.len());
                for &a in &avs {
                    for &b in &bvs {
                        let r = guarded(|| api_op(&op, a, b, &mut ctx));
                        res.push(variant_of_result(r, &mut ctx));
                    }
                }
                writeln!(out, "{id}\t{}", res.join(" ")).unwrap();
            }
            _ => {}
        }
        out.flush().unwrap();
    }
    if let Some(c) = shared.take() {
        std::mem::forget(c);
    }
}

fn main() {
    let mb: usize = std::env::args().nth(1).and_then(|s| s.parse().ok()).unwrap_or(512);
    let h = std::thread::Builder::new().name("c02-worker".into()).stack_size(mb << 20).spawn(worker).expect("spawn worker");
    let _ = h.join();
}
