//! C14: histories of array operations executed on real boa arrays through JavaScript on one Context.
//!
//! Input (stdin), one op per line (format shared with ocaml/C14/c14_driver.ml, see checks/c14.py):
//!   H <id> <A|B|C> <elem>*      start a history: A = array literal (fast paths), B = plain array-like
//!                               `{length:n, 0:..}` used through Array.prototype.<m>.apply, C = the array
//!                               wrapped in `new Proxy(arr, {})` (generic paths);  elem = value | `_` (hole)
//!   set k v | get k | del k | len v | lenic v | def k f* | deflen f* | freeze | seal | pe
//!   push v* | pop | shift | unshift v* | splice [s [d v*]] | slice s e | concat [v,_,v]* | reverse
//!   fill v s e | copyWithin t s e | indexOf v f | lastIndexOf v [f] | includes v f | join [sep] | at i
//!   x <name> arg* / q <name> arg*   methods compared by (a)/(b)/(c) differential only (x mutates)
//!   js <source>                 debugging aid
//! Methods whose running time is proportional to `length` are not executed when length > BIG_LEN (an index store
//! near 2^32 makes every such loop effectively endless): the line `<id>.<step> skip biglen` is printed instead and
//! the rest of the history is skipped (`skip dead`); the check stops comparing that history there and counts it.
//! Values: i<int32> d<hex16 bits> u n t f s<k> o<k> (o0 = the subject);  rel args: int | u | +inf | -inf
//! Output: one line per input line:
//!   <id>.<step> <result> | <getter/setter log> | len=<desc> ext=<0|1> | <key>:<desc> ... | form=<storage form>
use boa_engine::object::{IndexProperties, JsObject};
use boa_engine::property::PropertyKey;
use boa_engine::{Context, JsError, JsNativeErrorKind, JsResult, JsString, JsValue, Source, js_string};
use std::collections::HashMap;
use std::io::{BufRead, Write};

const PRELUDE: &str = r#"
"use strict";
var LOG = [];
var OBJ = [null, {id:1}, {id:2}, {id:3}, {id:4}, [1,2], [3,[4]], [], {id:8}, {id:9}];
var GET = [], SET = [];
for (let k = 0; k < 10; k++) {
  GET[k] = function () { LOG.push("g" + k); return 100 + k; };
  SET[k] = function (x) { LOG.push(["s" + k, x]); };
  GET[k].gid = k; SET[k].gid = k;
}
var LENGTH_KEY = "length";
var AP = Array.prototype;
var OPS = {
  set: function (o, k, v) { o[k] = v; },
  get: function (o, k) { return o[k]; },
  del: function (o, k) { delete o[k]; },
  len: function (o, v) { o[LENGTH_KEY] = v; },
  lenic: function (o, v) { o.length = v; },
  def: function (o, k, d) { Object.defineProperty(o, k, d); },
  deflen: function (o, d) { Object.defineProperty(o, "length", d); },
  freeze: function (o) { Object.freeze(o); },
  seal: function (o) { Object.seal(o); },
  pe: function (o) { Object.preventExtensions(o); },
  m: function (o, name, args) { return AP[name].apply(o, args); },
  mkLike: function (a) { var o = {length: a.length}; for (var i = 0; i < a.length; i++) if (i in a) o[i] = a[i]; return o; },
  mkProxy: function (a) { return new Proxy(a, {}); },
};
function DUMP(o) {
  var out = [Object.isExtensible(o)];
  var keys = Reflect.ownKeys(o);
  for (var i = 0; i < keys.length; i++) {
    var k = keys[i], d = Object.getOwnPropertyDescriptor(o, k);
    out.push(k);
    if (d === undefined) { out.push(2, undefined, undefined, false, false); }
    else if ("value" in d) { out.push(0, d.value, d.writable, d.enumerable, d.configurable); }
    else { out.push(1, d.get, d.set, d.enumerable, d.configurable); }
  }
  return out;
}
// result arrays: [flags, length, k, v, k, v, ...]; flags: 1 = real Array with Array.prototype, 2 = all attributes default
function DUMPARR(a) {
  var flags = 0;
  if (Array.isArray(a) && Object.getPrototypeOf(a) === AP) flags |= 1;
  var ok = Object.isExtensible(a);
  var out = [0, a.length];
  var keys = Reflect.ownKeys(a);
  for (var i = 0; i < keys.length; i++) {
    var k = keys[i], d = Object.getOwnPropertyDescriptor(a, k);
    if (k === "length") { if (!(d.writable && !d.enumerable && !d.configurable) || i !== keys.length - 1) ok = false; continue; }
    if (!("value" in d) || !d.writable || !d.enumerable || !d.configurable) ok = false;
    out.push(k, d.value);
  }
  if (ok) flags |= 2;
  out[0] = flags;
  return out;
}
// ---- spec-oracle ops: builtins that write their result into an array handed back by a custom / species constructor,
// and index stores whose receiver is not the array ([[Set]] through `super[i] = v`).  Each op runs the builtin and a
// transliteration of the ECMA-262 algorithm (only CreateDataPropertyOrThrow = defineProperty with a full descriptor,
// HasProperty = `in`, Get, and `A["length"] = n` through the generic [[Set]]) on equal fresh inputs and returns "same"
// or "DIFF ..." (a marker the check reports).  The subject is only read.
function REP(v) {
  if (typeof v === "number") return Object.is(v, -0) ? "-0" : String(v);
  if (typeof v === "object" && v !== null) { var i = OBJ.indexOf(v); return i >= 0 ? "o" + i : "obj"; }
  return typeof v + ":" + String(v);
}
function SIG(a) {
  var keys = Reflect.ownKeys(a), out = [];
  for (var i = 0; i < keys.length; i++) {
    var k = keys[i];
    if (k === "length" || typeof k !== "string") continue;
    var d = Object.getOwnPropertyDescriptor(a, k);
    out.push(k + "=" + ("value" in d ? REP(d.value) + (d.writable ? "w" : "-") + (d.enumerable ? "e" : "-") + (d.configurable ? "c" : "-") : "acc"));
  }
  return String(a.length) + "[" + out.join(",") + "]";
}
function COPY(o) {            // a fresh ordinary array with the subject's elements (holes kept), length <= 12
  var n = Math.min(o.length >>> 0, 12), c = [];
  for (var i = 0; i < n; i++) if (i in o) c[i] = o[i];
  c[LENGTH_KEY] = n;
  return c;
}
function PREFILLED(kind) { return kind ? [91, , 93, 94, , 96, 97, 98] : [91, 92, 93, 94, 95, 96, 97, 98]; }
function CDP(A, k, v) { Object.defineProperty(A, k, {value: v, writable: true, enumerable: true, configurable: true}); }
function SETLEN(A, n) { A[LENGTH_KEY] = n; }
function CMP(tag, got, want) { var g = SIG(got), w = SIG(want); return g === w ? "same" : "DIFF " + tag + " builtin=" + g + " spec=" + w; }
function WITHSPECIES(c, kind) { c.constructor = {}; c.constructor[Symbol.species] = function () { return PREFILLED(kind); }; return c; }
var XS = {
  ofctor: function (o, kind) {
    var c = COPY(o), items = [];
    for (var i = 0; i < Math.min(c.length, 3); i++) items.push(c[i]);
    var got = Array.of.apply(function () { return PREFILLED(kind); }, items);
    var A = PREFILLED(kind);
    for (var k = 0; k < items.length; k++) CDP(A, k, items[k]);
    SETLEN(A, items.length);
    return CMP("Array.of", got, A);
  },
  fromctor: function (o, kind) {
    var c = COPY(o);
    var got = Array.from.call(function () { return PREFILLED(kind); }, c);
    var A = PREFILLED(kind), k = 0;
    for (; k < c.length; k++) CDP(A, k, c[k]);
    SETLEN(A, k);
    var like = {length: c.length};
    for (var i = 0; i < c.length; i++) if (i in c) like[i] = c[i];
    var got2 = Array.from.call(function () { return PREFILLED(kind); }, like);
    var B = PREFILLED(kind);
    for (k = 0; k < c.length; k++) CDP(B, k, like[k]);
    SETLEN(B, c.length);
    var r = CMP("Array.from(iterable)", got, A);
    return r === "same" ? CMP("Array.from(array-like)", got2, B) : r;
  },
  speciesSlice: function (o, kind) {
    var c = WITHSPECIES(COPY(o), kind), len = c.length, k = Math.min(1, len), fin = Math.min(3, len);
    var got = AP.slice.call(c, 1, 3);
    var A = PREFILLED(kind), n = 0;
    for (; k < fin; k++, n++) if (k in c) CDP(A, n, c[k]);
    SETLEN(A, n);
    return CMP("slice", got, A);
  },
  speciesSplice: function (o, kind) {
    var c = WITHSPECIES(COPY(o), kind), d = COPY(o), len = c.length, start = Math.min(1, len), adc = Math.min(2, len - start);
    var got = AP.splice.call(c, 1, 2);
    var A = PREFILLED(kind);
    for (var k = 0; k < adc; k++) if ((start + k) in d) CDP(A, k, d[start + k]);
    SETLEN(A, adc);
    return CMP("splice", got, A);
  },
  speciesConcat: function (o, kind) {
    var c = WITHSPECIES(COPY(o), kind), extra = [7, , 8];
    var got = AP.concat.call(c, extra, 5);
    var A = PREFILLED(kind), n = 0, parts = [c, extra];
    for (var p = 0; p < parts.length; p++) { var E = parts[p]; for (var k = 0; k < E.length; k++, n++) if (k in E) CDP(A, n, E[k]); }
    CDP(A, n, 5); n++;
    SETLEN(A, n);
    return CMP("concat", got, A);
  },
  speciesMap: function (o, kind) {
    var c = WITHSPECIES(COPY(o), kind);
    var got = AP.map.call(c, function (v, i) { return i; });
    var A = PREFILLED(kind);
    for (var k = 0; k < c.length; k++) if (k in c) CDP(A, k, k);
    return CMP("map", got, A);
  },
  speciesFilter: function (o, kind) {
    var c = WITHSPECIES(COPY(o), kind);
    var got = AP.filter.call(c, function (v, i) { return i % 2 === 0; });
    var A = PREFILLED(kind), to = 0;
    for (var k = 0; k < c.length; k++) if (k in c && k % 2 === 0) CDP(A, to++, c[k]);
    return CMP("filter", got, A);
  },
  superset: function (o, i, v) {
    // `super[i] = v`: [[Set]] on the home object's prototype (an array) with receiver `this` (a plain object):
    // the prototype array must stay as it is, the element is created on the receiver
    var proto = COPY(o), before = SIG(proto);
    var home = Object.setPrototypeOf({ m(k, x) { super[k] = x; } }, proto);
    var t = {};
    home.m.call(t, i, v);
    var after = SIG(proto);
    if (after !== before) return "DIFF super[i]=v changed the prototype array: " + before + " -> " + after;
    var d = Object.getOwnPropertyDescriptor(t, i);
    if (!d || !("value" in d) || !Object.is(d.value, v) || !d.writable || !d.enumerable || !d.configurable) return "DIFF super[i]=v did not create the element on the receiver";
    var t2 = {};
    if (!Reflect.set(proto, i, v, t2) || SIG(proto) !== before || !Object.is(t2[i], v)) return "DIFF Reflect.set with another receiver";
    return "same";
  },
  superget: function (o, i) {
    var proto = COPY(o);
    var home = Object.setPrototypeOf({ m(k) { return super[k]; } }, proto);
    var got = home.m.call({}, i), want = Reflect.get(proto, i, {});
    return Object.is(got, want) ? "same" : "DIFF super[i] read";
  },
};
function cb(tag, ret) { return function (v, i, o) { LOG.push([tag, i, v]); return ret(v, i); }; }
var X = {
  sort: function (o) { return AP.sort.call(o); },
  // consistent comparator => the result is specified (stable sort); the sequence of comparator calls is not, and is not logged
  sortnum: function (o) {
    // a total preorder on keys (type, then text): consistent for every mix of values incl. NaN, -0, objects
    var key = function (x) { return (typeof x) + ":" + (Object.is(x, -0) ? "-0" : String(x)); };
    return AP.sort.call(o, function (a, b) { var ka = key(a), kb = key(b); return (ka < kb) ? -1 : (ka > kb) ? 1 : 0; });
  },
  toSorted: function (o) { return AP.toSorted.call(o); },
  flat: function (o, d) { return AP.flat.call(o, d); },
  flatMap: function (o) { return AP.flatMap.call(o, cb("fm", function (v, i) { return (i % 2) ? [v, i] : v; })); },
  forEach: function (o) { return AP.forEach.call(o, cb("fe", function () {})); },
  map: function (o) { return AP.map.call(o, cb("map", function (v, i) { return i; })); },
  filter: function (o) { return AP.filter.call(o, cb("fi", function (v, i) { return i % 2 === 0; })); },
  some: function (o) { return AP.some.call(o, cb("so", function (v) { return v === undefined; })); },
  every: function (o) { return AP.every.call(o, cb("ev", function (v) { return v !== undefined; })); },
  find: function (o) { return AP.find.call(o, cb("fd", function (v) { return v === undefined; })); },
  findIndex: function (o) { return AP.findIndex.call(o, cb("fx", function (v) { return v === undefined; })); },
  findLast: function (o) { return AP.findLast.call(o, cb("fl", function (v) { return v === undefined; })); },
  findLastIndex: function (o) { return AP.findLastIndex.call(o, cb("fy", function (v) { return v === undefined; })); },
  reduce: function (o) { return AP.reduce.call(o, function (acc, v, i) { LOG.push(["rd", i, v]); return acc + 1; }, 0); },
  reduceRight: function (o) { return AP.reduceRight.call(o, function (acc, v, i) { LOG.push(["rr", i, v]); return acc + 1; }, 0); },
  keys: function (o) { return Array.from(AP.keys.call(o)); },
  values: function (o) { return Array.from(AP.values.call(o)); },
  entries: function (o) { var r = []; for (var e of AP.entries.call(o)) r.push(e[0], e[1]); return r; },
  forin: function (o) { var r = []; for (var k in o) r.push(k); return r; },
  objkeys: function (o) { return Object.keys(o); },
  toReversed: function (o) { return AP.toReversed.call(o); },
  toSpliced: function (o, s, d, a, b) { return arguments.length > 3 ? AP.toSpliced.call(o, s, d, a, b) : AP.toSpliced.call(o, s, d); },
  with: function (o, i, v) { return AP.with.call(o, i, v); },
  from: function (o) { return Array.from(o); },
  toString: function (o) { return AP.toString.call(o); },
  hasOwn: function (o, k) { return [Object.prototype.hasOwnProperty.call(o, k), k in o, Object.prototype.propertyIsEnumerable.call(o, k)]; },
  isFrozen: function (o) { return [Object.isFrozen(o), Object.isSealed(o), Object.isExtensible(o)]; },
};
for (var XK in XS) X[XK] = XS[XK];
"#;

struct Env {
    ctx: Context,
    ops: JsObject,
    xops: JsObject,
    dump: JsObject,
    dumparr: JsObject,
    log: JsObject,
    objs: Vec<JsValue>,
    getters: Vec<JsValue>,
    setters: Vec<JsValue>,
    literal_cache: HashMap<String, JsObject>,
}

const BIG_LEN: f64 = 20000.0;

/// ops that never loop over `length` (index / length / descriptor operations, push, pop, at, integrity levels
/// iterate over own keys only)
fn constant_time(op: &str) -> bool {
    matches!(op, "set" | "get" | "del" | "len" | "lenic" | "def" | "deflen" | "freeze" | "seal" | "pe" | "push" | "pop" | "at")
}

struct Hist {
    id: String,
    kind: char,
    dead: bool,
    subject: JsObject,
    target: JsObject, // the object whose storage is observed (== subject unless C)
    step: usize,
}

fn global(ctx: &mut Context, name: &str) -> JsValue {
    let g = ctx.global_object();
    g.get(JsString::from(name), ctx).expect("global")
}

fn err_class(e: &JsError, ctx: &mut Context) -> String {
    match e.try_native(ctx) {
        Ok(n) => match n.kind() {
            JsNativeErrorKind::Type => "TypeError".into(),
            JsNativeErrorKind::Range => "RangeError".into(),
            JsNativeErrorKind::Reference => "ReferenceError".into(),
            JsNativeErrorKind::Syntax => "SyntaxError".into(),
            _ => format!("Other({})", bh::json_str(&n.message().to_string())),
        },
        Err(_) => "Thrown".into(),
    }
}

impl Env {
    fn new() -> Env {
        let mut ctx = Context::default();
        ctx.eval(Source::from_bytes(PRELUDE.as_bytes())).expect("prelude");
        let obj = |ctx: &mut Context, n: &str| global(ctx, n).as_object().expect("object").clone();
        let ops = obj(&mut ctx, "OPS");
        let xops = obj(&mut ctx, "X");
        let dump = obj(&mut ctx, "DUMP");
        let dumparr = obj(&mut ctx, "DUMPARR");
        let log = obj(&mut ctx, "LOG");
        let arr = |ctx: &mut Context, n: &str| -> Vec<JsValue> {
            let a = global(ctx, n).as_object().expect("array").clone();
            (0..10u32).map(|i| a.get(i, ctx).expect("elem")).collect()
        };
        let objs = arr(&mut ctx, "OBJ");
        let getters = arr(&mut ctx, "GET");
        let setters = arr(&mut ctx, "SET");
        Env { ctx, ops, xops, dump, dumparr, log, objs, getters, setters, literal_cache: HashMap::new() }
    }

    fn value(&self, tok: &str, subject: Option<&JsObject>) -> Result<JsValue, String> {
        let rest = &tok[1..];
        Ok(match tok.as_bytes()[0] {
            b'i' => JsValue::new(rest.parse::<i32>().map_err(|e| e.to_string())?),
            b'd' => JsValue::rational(f64::from_bits(u64::from_str_radix(rest, 16).map_err(|e| e.to_string())?)),
            b'u' => JsValue::undefined(),
            b'n' => JsValue::null(),
            b't' => JsValue::new(true),
            b'f' => JsValue::new(false),
            b's' => JsValue::new(JsString::from(tok)),
            b'o' => {
                let k: usize = rest.parse().map_err(|_| "obj id".to_string())?;
                if k == 0 {
                    JsValue::new(subject.ok_or("no subject")?.clone())
                } else {
                    self.objs.get(k).cloned().ok_or("obj id")?
                }
            }
            _ => return Err(format!("value {tok}")),
        })
    }

    fn rel(&self, tok: &str) -> Result<JsValue, String> {
        Ok(match tok {
            "u" => JsValue::undefined(),
            "+inf" => JsValue::rational(f64::INFINITY),
            "-inf" => JsValue::rational(f64::NEG_INFINITY),
            _ => {
                let z: i64 = tok.parse().map_err(|_| format!("rel {tok}"))?;
                if let Ok(i) = i32::try_from(z) { JsValue::new(i) } else { JsValue::rational(z as f64) }
            }
        })
    }

    /// An array built by an array literal in JS source (so that PushValueToArray / PushElisionToArray run).
    fn literal(&mut self, elems: &[Option<JsValue>]) -> Result<JsObject, String> {
        let pattern: String = elems.iter().map(|e| if e.is_some() { 'v' } else { '_' }).collect();
        if !self.literal_cache.contains_key(&pattern) {
            let mut src = String::from("(function(V){ return [");
            for (i, e) in elems.iter().enumerate() {
                if e.is_some() { src.push_str(&format!("V[{i}]")); }
                src.push(',');
            }
            src.push_str("]; })");
            let f = self.ctx.eval(Source::from_bytes(src.as_bytes())).map_err(|e| format!("literal: {e}"))?;
            self.literal_cache.insert(pattern.clone(), f.as_object().ok_or("literal fn")?.clone());
        }
        let f = self.literal_cache[&pattern].clone();
        let vals: Vec<JsValue> = elems.iter().map(|e| e.clone().unwrap_or_default()).collect();
        let v = boa_engine::object::builtins::JsArray::from_iter(vals, &mut self.ctx);
        let r = f.call(&JsValue::undefined(), &[v.into()], &mut self.ctx).map_err(|e| format!("literal call: {e}"))?;
        Ok(r.as_object().ok_or("literal result")?.clone())
    }

    fn call_op(&mut self, name: &str, args: &[JsValue]) -> JsResult<JsValue> {
        let f = self.ops.get(JsString::from(name), &mut self.ctx)?;
        let f = f.as_object().expect("op function").clone();
        f.call(&JsValue::undefined(), args, &mut self.ctx)
    }

    fn call_x(&mut self, name: &str, args: &[JsValue]) -> JsResult<JsValue> {
        let f = self.xops.get(JsString::from(name), &mut self.ctx)?;
        let Some(f) = f.as_object() else {
            return Err(boa_engine::JsNativeError::reference().with_message("no such x op").into());
        };
        f.clone().call(&JsValue::undefined(), args, &mut self.ctx)
    }

    // ---- rendering ----
    fn show(&mut self, v: &JsValue, subject: &JsObject, depth: usize) -> String {
        if let Some(n) = v.as_number() {
            let bits = if n.is_nan() { f64::NAN.to_bits() } else { n.to_bits() };
            return format!("d{bits:016x}");
        }
        if v.is_undefined() { return "u".into(); }
        if v.is_null() { return "n".into(); }
        if let Some(b) = v.as_boolean() { return if b { "t".into() } else { "f".into() }; }
        if let Some(s) = v.as_string() {
            let t = s.to_std_string_escaped();
            if t.len() >= 2 && t.starts_with('s') && t[1..].chars().all(|c| c.is_ascii_digit()) {
                return t;
            }
            return format!("S{}", bh::json_str(&t));
        }
        if let Some(o) = v.as_object() {
            if JsObject::equals(&o, subject) { return "o0".into(); }
            for (k, ob) in self.objs.iter().enumerate() {
                if let Some(ob) = ob.as_object() {
                    if JsObject::equals(&o, &ob) { return format!("o{k}"); }
                }
            }
            if o.is_callable() {
                if let Ok(g) = o.get(js_string!("gid"), &mut self.ctx) {
                    if let Some(k) = g.as_number() { return format!("fn{}", k as i64); }
                }
                return "fn?".into();
            }
            if depth < 4 && o.is_array() {
                return self.show_array(&o, subject, depth + 1);
            }
            return "obj?".into();
        }
        if v.is_symbol() { return "sym".into(); }
        if v.is_bigint() { return "big".into(); }
        "?".into()
    }

    fn show_array(&mut self, a: &JsObject, subject: &JsObject, depth: usize) -> String {
        let d = match self.dumparr.call(&JsValue::undefined(), &[a.clone().into()], &mut self.ctx) {
            Ok(d) => d,
            Err(e) => return format!("arr!{}", err_class(&e, &mut self.ctx)),
        };
        let d = d.as_object().expect("dumparr result").clone();
        let n = d.get(js_string!("length"), &mut self.ctx).ok().and_then(|v| v.as_number()).unwrap_or(0.0) as u32;
        let flags = d.get(0, &mut self.ctx).ok().and_then(|v| v.as_number()).unwrap_or(0.0) as u32;
        let len = d.get(1, &mut self.ctx).unwrap_or_default();
        let len = len.as_number().map(|x| format!("{}", x as u64)).unwrap_or_else(|| "?".into());
        let mut parts = Vec::new();
        let mut i = 2;
        while i + 1 < n {
            let k = d.get(i, &mut self.ctx).unwrap_or_default();
            let v = d.get(i + 1, &mut self.ctx).unwrap_or_default();
            let ks = k.as_string().map(|s| s.to_std_string_escaped()).unwrap_or_else(|| "?".into());
            let vs = self.show(&v, subject, depth);
            parts.push(format!("{ks}={vs}"));
            i += 2;
        }
        let mut s = format!("arr:{len}[{}]", parts.join(","));
        if flags & 1 == 0 { s.push_str("!notarray"); }
        if flags & 2 == 0 { s.push_str("!attrs"); }
        s
    }

    fn take_log(&mut self, subject: &JsObject) -> String {
        let n = self.log.get(js_string!("length"), &mut self.ctx).ok().and_then(|v| v.as_number()).unwrap_or(0.0) as u32;
        if n == 0 { return "-".into(); }
        let mut parts = Vec::new();
        for i in 0..n {
            let e = self.log.get(i, &mut self.ctx).unwrap_or_default();
            if let Some(s) = e.as_string() {
                parts.push(s.to_std_string_escaped());
            } else if let Some(o) = e.as_object() {
                let m = o.get(js_string!("length"), &mut self.ctx).ok().and_then(|v| v.as_number()).unwrap_or(0.0) as u32;
                let tag = o.get(0, &mut self.ctx).unwrap_or_default();
                let tag = tag.as_string().map(|s| s.to_std_string_escaped()).unwrap_or_default();
                let mut vs = Vec::new();
                for j in 1..m {
                    let v = o.get(j, &mut self.ctx).unwrap_or_default();
                    vs.push(self.show(&v, subject, 0));
                }
                if tag.starts_with('s') && vs.len() == 1 { parts.push(format!("{tag}={}", vs[0])); }
                else { parts.push(format!("{tag}({})", vs.join(","))); }
            }
        }
        let _ = self.log.set(js_string!("length"), 0, true, &mut self.ctx);
        parts.join(" ")
    }

    fn show_desc(&mut self, kind: u32, a: &JsValue, b: &JsValue, e: &JsValue, c: &JsValue, subject: &JsObject) -> String {
        let bit = |v: &JsValue| if v.to_boolean() { '1' } else { '0' };
        match kind {
            0 => format!("{},{}{}{}", self.show(a, subject, 0), bit(b), bit(e), bit(c)),
            1 => {
                let acc = |s: String| if s == "u" { "u".to_string() } else { s.trim_start_matches("fn").to_string() };
                let g = self.show(a, subject, 0);
                let s = self.show(b, subject, 0);
                format!("A({},{}),{}{}", acc(g), acc(s), bit(e), bit(c))
            }
            _ => "missing".into(),
        }
    }

    /// `len=<desc> ext=<b> | <k>:<desc> ...` through Reflect.ownKeys / getOwnPropertyDescriptor / isExtensible.
    fn dump_state(&mut self, subject: &JsObject) -> (String, String) {
        let d = match self.dump.call(&JsValue::undefined(), &[subject.clone().into()], &mut self.ctx) {
            Ok(d) => d.as_object().expect("dump").clone(),
            Err(e) => { let c = err_class(&e, &mut self.ctx); return (format!("dump!{c}"), String::new()); }
        };
        let n = d.get(js_string!("length"), &mut self.ctx).ok().and_then(|v| v.as_number()).unwrap_or(0.0) as u32;
        let ext = d.get(0, &mut self.ctx).unwrap_or_default().to_boolean();
        let mut elems = Vec::new();
        let mut lens = String::from("none");
        let mut extra = String::new();
        let mut i = 1;
        let mut seen_len = false;
        let mut last_idx: Option<u64> = None;
        while i + 5 < n + 1 && i + 5 <= n {
            let k = d.get(i, &mut self.ctx).unwrap_or_default();
            let kind = d.get(i + 1, &mut self.ctx).unwrap_or_default().as_number().unwrap_or(9.0) as u32;
            let a = d.get(i + 2, &mut self.ctx).unwrap_or_default();
            let b = d.get(i + 3, &mut self.ctx).unwrap_or_default();
            let e = d.get(i + 4, &mut self.ctx).unwrap_or_default();
            let c = d.get(i + 5, &mut self.ctx).unwrap_or_default();
            let desc = self.show_desc(kind, &a, &b, &e, &c, subject);
            let ks = k.as_string().map(|s| s.to_std_string_escaped()).unwrap_or_else(|| "sym".into());
            if ks == "length" {
                lens = desc;
                seen_len = true;
            } else if ks.parse::<u64>().map(|ix| ix >= 4_294_967_295 && ix.to_string() == ks).unwrap_or(false) {
                // a canonical numeric string that is not an array index (>= 2^32 - 1): an ordinary string-keyed
                // property (e.g. push on an array of length 2^32 - 1); outside the modelled index domain
                extra.push_str(" !bigkey");
            } else {
                if seen_len { extra.push_str(" !order"); }
                if let Ok(ix) = ks.parse::<u64>() {
                    if let Some(p) = last_idx { if p >= ix { extra.push_str(" !unsorted"); } }
                    last_idx = Some(ix);
                } else {
                    extra.push_str(" !key");
                }
                elems.push(format!("{ks}:{desc}"));
            }
            i += 6;
        }
        let es = if elems.is_empty() { "-".to_string() } else { elems.join(" ") };
        (format!("len={lens} ext={}{extra}", if ext { 1 } else { 0 }), es)
    }

    /// Storage form and raw contents through PropertyMap::index_properties().
    fn storage(&mut self, target: &JsObject, subject: &JsObject) -> (String, String) {
        let (form, mut entries) = {
            let b = target.borrow();
            let it = b.properties().index_properties();
            let form = match &it {
                IndexProperties::DenseI32(_) => "DenseI32",
                IndexProperties::DenseF64(_) => "DenseF64",
                IndexProperties::DenseElement(_) => "DenseElement",
                IndexProperties::SparseElement(_) => "SparseElement",
                IndexProperties::SparseProperty(_) => "SparseProperty",
            };
            let entries: Vec<(u32, boa_engine::property::PropertyDescriptor)> = it.collect();
            (form, entries)
        };
        entries.sort_by_key(|e| e.0);
        let mut parts = Vec::new();
        for (k, d) in entries {
            let u = JsValue::undefined();
            let bv = |o: Option<bool>| JsValue::new(o.unwrap_or(false));
            let s = if d.is_accessor_descriptor() {
                let g = d.get().cloned().unwrap_or_default();
                let st = d.set().cloned().unwrap_or_default();
                self.show_desc(1, &g, &st, &bv(d.enumerable()), &bv(d.configurable()), subject)
            } else {
                let v = d.value().cloned().unwrap_or(u);
                self.show_desc(0, &v, &bv(d.writable()), &bv(d.enumerable()), &bv(d.configurable()), subject)
            };
            parts.push(format!("{k}:{s}"));
        }
        (form.to_string(), if parts.is_empty() { "-".into() } else { parts.join(" ") })
    }

    fn observe(&mut self, h: &Hist, res: String) -> String {
        let log = self.take_log(&h.subject);
        let (lens, elems) = self.dump_state(&h.subject);
        let _ = self.take_log(&h.subject); // getters are not called by the dump; clear defensively
        let (form, raw) = self.storage(&h.target, &h.subject);
        let mut line = format!("{}.{} {res} | {log} | {lens} | {elems} | form={form}", h.id, h.step);
        if raw != elems { line.push_str(&format!(" !raw={raw}")); }
        line
    }

    fn result_string(&mut self, r: JsResult<JsValue>, h: &Hist, kind: ResKind) -> String {
        match r {
            Err(e) => format!("E:{}", err_class(&e, &mut self.ctx)),
            Ok(v) => match kind {
                ResKind::None => "-".into(),
                ResKind::SelfOrValue => {
                    if v.as_object().map(|o| JsObject::equals(&o, &h.subject)).unwrap_or(false) { "self".into() }
                    else { format!("v:{}", self.show(&v, &h.subject, 0)) }
                }
                ResKind::Value => {
                    if let Some(o) = v.as_object() {
                        if o.is_array() && !JsObject::equals(&o, &h.subject) && !self.objs.iter().any(|x| x.as_object().map(|x| JsObject::equals(&x, &o)).unwrap_or(false)) {
                            return self.show_array(&o, &h.subject, 1);
                        }
                    }
                    format!("v:{}", self.show(&v, &h.subject, 0))
                }
                ResKind::Str => match v.as_string() {
                    Some(s) => format!("str:{}", bh::json_str(&s.to_std_string_escaped())),
                    None => format!("v:{}", self.show(&v, &h.subject, 0)),
                },
            },
        }
    }
}

#[derive(Clone, Copy)]
enum ResKind { None, Value, SelfOrValue, Str }

fn parse_fields(env: &mut Env, fs: &[&str], subject: &JsObject) -> Result<JsValue, String> {
    let d = JsObject::with_object_proto(env.ctx.intrinsics());
    for f in fs {
        if f.len() < 3 || f.as_bytes()[1] != b'=' { return Err(format!("field {f}")); }
        let v = &f[2..];
        let (name, val) = match f.as_bytes()[0] {
            b'v' => ("value", env.value(v, Some(subject))?),
            b'w' => ("writable", JsValue::new(v == "1")),
            b'e' => ("enumerable", JsValue::new(v == "1")),
            b'c' => ("configurable", JsValue::new(v == "1")),
            b'g' => ("get", if v == "u" { JsValue::undefined() } else { env.getters[v.parse::<usize>().map_err(|_| "getter id")?].clone() }),
            b's' => ("set", if v == "u" { JsValue::undefined() } else { env.setters[v.parse::<usize>().map_err(|_| "setter id")?].clone() }),
            _ => return Err(format!("field {f}")),
        };
        d.create_data_property_or_throw(JsString::from(name), val, &mut env.ctx).map_err(|e| e.to_string())?;
    }
    Ok(d.into())
}

fn parse_arr(env: &mut Env, tok: &str, subject: &JsObject) -> Result<JsValue, String> {
    let inner = tok.strip_prefix('[').and_then(|t| t.strip_suffix(']')).ok_or("array arg")?;
    let mut elems = Vec::new();
    if !inner.is_empty() {
        for t in inner.split(',') {
            elems.push(if t == "_" { None } else { Some(env.value(t, Some(subject))?) });
        }
    }
    Ok(env.literal(&elems)?.into())
}

fn run_op(env: &mut Env, h: &Hist, p: &[&str]) -> Result<String, String> {
    let s = h.subject.clone();
    let sv: JsValue = s.clone().into();
    let idx = |t: &str| -> Result<JsValue, String> {
        let k: u64 = t.parse().map_err(|_| format!("index {t}"))?;
        Ok(if let Ok(i) = i32::try_from(k) { JsValue::new(i) } else { JsValue::rational(k as f64) })
    };
    let method = |env: &mut Env, name: &str, args: Vec<JsValue>, kind: ResKind| -> String {
        let arr = boa_engine::object::builtins::JsArray::from_iter(args, &mut env.ctx);
        let r = env.call_op("m", &[sv.clone(), JsValue::new(JsString::from(name)), arr.into()]);
        env.result_string(r, h, kind)
    };
    Ok(match p[0] {
        "set" => { let a = [sv.clone(), idx(p[1])?, env.value(p[2], Some(&s))?]; let r = env.call_op("set", &a); env.result_string(r, h, ResKind::None) }
        "get" => { let a = [sv.clone(), idx(p[1])?]; let r = env.call_op("get", &a); env.result_string(r, h, ResKind::Value) }
        "del" => { let a = [sv.clone(), idx(p[1])?]; let r = env.call_op("del", &a); env.result_string(r, h, ResKind::None) }
        "len" | "lenic" => { let a = [sv.clone(), env.value(p[1], Some(&s))?]; let r = env.call_op(p[0], &a); env.result_string(r, h, ResKind::None) }
        "def" => { let d = parse_fields(env, &p[2..], &s)?; let a = [sv.clone(), idx(p[1])?, d]; let r = env.call_op("def", &a); env.result_string(r, h, ResKind::None) }
        "deflen" => { let d = parse_fields(env, &p[1..], &s)?; let a = [sv.clone(), d]; let r = env.call_op("deflen", &a); env.result_string(r, h, ResKind::None) }
        "freeze" | "seal" | "pe" => { let r = env.call_op(p[0], &[sv.clone()]); env.result_string(r, h, ResKind::None) }
        "push" | "unshift" => {
            let mut args = Vec::new();
            for t in &p[1..] { args.push(env.value(t, Some(&s))?); }
            method(env, p[0], args, ResKind::Value)
        }
        "pop" | "shift" => method(env, p[0], vec![], ResKind::Value),
        "splice" => {
            let mut args = Vec::new();
            if p.len() > 1 { args.push(env.rel(p[1])?); }
            if p.len() > 2 { args.push(env.rel(p[2])?); }
            for t in p.iter().skip(3) { args.push(env.value(t, Some(&s))?); }
            method(env, "splice", args, ResKind::Value)
        }
        "slice" => { let a = vec![env.rel(p[1])?, env.rel(p[2])?]; method(env, "slice", a, ResKind::Value) }
        "concat" => {
            let mut args = Vec::new();
            for t in &p[1..] { args.push(parse_arr(env, t, &s)?); }
            method(env, "concat", args, ResKind::Value)
        }
        "reverse" => method(env, "reverse", vec![], ResKind::SelfOrValue),
        "fill" => { let a = vec![env.value(p[1], Some(&s))?, env.rel(p[2])?, env.rel(p[3])?]; method(env, "fill", a, ResKind::SelfOrValue) }
        "copyWithin" => { let a = vec![env.rel(p[1])?, env.rel(p[2])?, env.rel(p[3])?]; method(env, "copyWithin", a, ResKind::SelfOrValue) }
        "indexOf" | "includes" => { let a = vec![env.value(p[1], Some(&s))?, env.rel(p[2])?]; method(env, p[0], a, ResKind::Value) }
        "lastIndexOf" => {
            let mut a = vec![env.value(p[1], Some(&s))?];
            if p.len() > 2 { a.push(env.rel(p[2])?); }
            method(env, "lastIndexOf", a, ResKind::Value)
        }
        "join" => {
            let a = match p.get(1).copied() {
                Some("1") => vec![JsValue::new(js_string!("-"))],
                Some("2") => vec![JsValue::new(js_string!(""))],
                _ => vec![],
            };
            method(env, "join", a, ResKind::Str)
        }
        "at" => { let a = vec![env.rel(p[1])?]; method(env, "at", a, ResKind::Value) }
        "x" | "q" => {
            let mut args = vec![sv.clone()];
            for t in p.iter().skip(2) {
                let first = t.as_bytes()[0];
                let is_rel = first == b'-' || first == b'+' || first.is_ascii_digit();
                args.push(if is_rel { env.rel(t)? } else if *t == "u" { JsValue::undefined() } else { env.value(t, Some(&s))? });
            }
            let r = env.call_x(p[1], &args);
            match r {
                Ok(v) if v.as_string().is_some() => env.result_string(Ok(v), h, ResKind::Str),
                Ok(v) if v.as_object().map(|o| JsObject::equals(&o, &h.subject)).unwrap_or(false) => "self".into(),
                r => env.result_string(r, h, ResKind::Value),
            }
        }
        _ => return Err(format!("op {}", p[0])),
    })
}

fn main() {
    let stdin = std::io::stdin();
    let out = std::io::stdout();
    let mut out = std::io::BufWriter::new(out.lock());
    let mut env = Env::new();
    let mut hist: Option<Hist> = None;
    for line in stdin.lock().lines() {
        let line = line.unwrap();
        if let Some(src) = line.strip_prefix("js ") {
            let r = bh::guarded(|| match env.ctx.eval(Source::from_bytes(src.as_bytes())) {
                Ok(v) => format!("ok {}", v.display()),
                Err(e) => format!("err {e}"),
            });
            writeln!(out, "{}", r.unwrap_or_else(|m| format!("panic {}", bh::json_str(&m)))).unwrap();
            continue;
        }
        let p: Vec<&str> = line.split_whitespace().collect();
        if p.is_empty() { continue; }
        if p[0] == "H" {
            let id = p.get(1).copied().unwrap_or("?").to_string();
            let kind = p.get(2).and_then(|k| k.chars().next()).unwrap_or('A');
            let r = bh::guarded(|| -> Result<Hist, String> {
                let mut elems = Vec::new();
                for t in p.iter().skip(3) {
                    elems.push(if *t == "_" { None } else { Some(env.value(t, None)?) });
                }
                let arr = env.literal(&elems)?;
                let (subject, target) = match kind {
                    'B' => {
                        let o = env.call_op("mkLike", &[arr.clone().into()]).map_err(|e| e.to_string())?;
                        let o = o.as_object().ok_or("mkLike")?.clone();
                        (o.clone(), o)
                    }
                    'C' => {
                        let o = env.call_op("mkProxy", &[arr.clone().into()]).map_err(|e| e.to_string())?;
                        (o.as_object().ok_or("mkProxy")?.clone(), arr)
                    }
                    _ => (arr.clone(), arr),
                };
                Ok(Hist { id: id.clone(), kind, dead: false, subject, target, step: 0 })
            });
            match r {
                Ok(Ok(h)) => {
                    let _ = h.kind;
                    let l = bh::guarded(|| env.observe(&h, "-".into()));
                    writeln!(out, "{}", l.unwrap_or_else(|m| format!("{id}.0 panic {}", bh::json_str(&m)))).unwrap();
                    hist = Some(h);
                }
                Ok(Err(m)) => { writeln!(out, "{id}.0 bad {m}").unwrap(); hist = None; }
                Err(m) => { writeln!(out, "{id}.0 panic {}", bh::json_str(&m)).unwrap(); hist = None; }
            }
            continue;
        }
        match hist.as_mut() {
            None => { writeln!(out, "?.0 bad no-history").unwrap(); }
            Some(h) => {
                h.step += 1;
                if !h.dead && !constant_time(p[0]) {
                    let subject = h.subject.clone();
                    let n = bh::guarded(|| subject.get(js_string!("length"), &mut env.ctx).ok().and_then(|v| v.to_number(&mut env.ctx).ok()).unwrap_or(0.0));
                    if !matches!(n, Ok(x) if x.is_nan() || x <= BIG_LEN) {
                        h.dead = true;
                        writeln!(out, "{}.{} skip biglen", h.id, h.step).unwrap();
                        continue;
                    }
                }
                if h.dead {
                    writeln!(out, "{}.{} skip dead", h.id, h.step).unwrap();
                    continue;
                }
                let l = bh::guarded(|| match run_op(&mut env, h, &p) {
                    Ok(res) => env.observe(h, res),
                    Err(m) => format!("{}.{} bad {m}", h.id, h.step),
                });
                match l {
                    Ok(s) => writeln!(out, "{s}").unwrap(),
                    Err(m) => {
                        writeln!(out, "{}.{} panic {}", h.id, h.step, bh::json_str(&m)).unwrap();
                        // the context may be inconsistent after a panic: start over
                        env = Env::new();
                        hist = None;
                    }
                }
            }
        }
    }
    out.flush().unwrap();
}
