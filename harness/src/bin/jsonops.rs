//! C18: JSON.parse / JSON.stringify through the engine, observed structurally.
//!
//! One case per input line, one result line per case (flushed after every case so that a process
//! abort -- stack overflow -- loses only the case that caused it):
//!
//!   parse <escaped text>              JSON.parse(text) -> `ok <dump>` | `err <Class>\t<message>` | `panic <msg>`
//!   stringify <space> <value>         JSON.stringify(value, undefined, space) -> `ok <units>` | `undef` | `err ...`
//!   roundtrip <space> <value>         stringify, then JSON.parse of the produced text -> `ok <units> <dump>`
//!   dumpval <value>                   build the value through the API and dump it (no JSON involved) -> `ok <dump>`
//!   numstr <16 hex digits>            String(x) of the double with these bits -> `ok <units>`
//!   js <escaped program>              evaluate a script; its completion value ToString'ed -> `ok <units>` | `err <Class>`
//!
//! Wire formats.  <escaped text>: bh::unescape_units (\\ \n \r \t \" \uXXXX, anything else literal).
//! <value> / <dump>: blank separated tokens
//!     N | T | F | X (undefined, input only) | D<16 hex: binary64 bits> | S<4 hex per code unit>* | [ v* ] | { (K<4 hex per unit>* v)* }
//!     input only: &n v (label the instance v) | *n (the labelled instance again; inside v itself: a cycle) | J<4 hex per unit>* (JS expression)
//! <units>: U<4 hex per code unit>*.   <space>: `-` (undefined) | `n<16 hex bits>` (a Number) | `s<4 hex per unit>*` (a String).
//! The dumper is this file's own walk over the JS value: own keys through `[[OwnPropertyKeys]]` (so the
//! engine's real key order is observed), every property must be a plain data property
//! (writable/enumerable/configurable), objects must have %Object.prototype% and arrays %Array.prototype%
//! (a `{"__proto__":...}` member must not have changed the prototype); anything else prints a `!...` token
//! that no model output contains.
use boa_engine::object::builtins::JsArray;
use boa_engine::property::PropertyKey;
use boa_engine::{Context, JsObject, JsString, JsValue, Source, js_string};
use std::io::{BufRead, Write};

fn hex_units(prefix: char, u: &[u16]) -> String {
    let mut o = String::with_capacity(1 + 4 * u.len());
    o.push(prefix);
    for c in u {
        o.push_str(&format!("{c:04x}"));
    }
    o
}

fn parse_units(h: &str) -> Vec<u16> {
    let b = h.as_bytes();
    let mut out = Vec::with_capacity(b.len() / 4);
    let mut i = 0;
    while i + 4 <= b.len() {
        out.push(u16::from_str_radix(&h[i..i + 4], 16).expect("hex unit"));
        i += 4;
    }
    out
}

fn units_of(s: &JsString) -> Vec<u16> {
    s.iter().collect()
}

fn err_line(e: boa_engine::JsError, ctx: &mut Context) -> String {
    let (mut name, mut msg) = ("?".to_string(), String::new());
    let v = match e.into_opaque(ctx) {
        Ok(v) => v,
        Err(_) => return "err EngineError\t".to_string(),
    };
    if let Some(o) = v.as_object() {
        if let Ok(n) = o.get(js_string!("name"), ctx) {
            if let Some(s) = n.as_string() {
                name = s.to_std_string_escaped();
            }
        }
        if let Ok(m) = o.get(js_string!("message"), ctx) {
            if let Some(s) = m.as_string() {
                msg = s.to_std_string_escaped();
            }
        }
    } else {
        name = "thrown-non-object".into();
    }
    format!("err {name}\t{}", msg.replace(['\n', '\t', '\r'], " "))
}

struct Env {
    ctx: Context,
    parse: JsObject,
    stringify: JsObject,
    json: JsObject,
    plain: JsObject, // (o,k) -> 1 when o[k] is a writable enumerable configurable data property
    obj_proto: JsObject,
    arr_proto: JsObject,
    labels: std::collections::HashMap<u32, JsValue>, // `&n` instances of the value being built (cleared per case)
}

impl Env {
    fn new() -> Env {
        let mut ctx = Context::default();
        let json = ctx.intrinsics().objects().json();
        let parse = json.get(js_string!("parse"), &mut ctx).unwrap().as_object().unwrap();
        let stringify = json.get(js_string!("stringify"), &mut ctx).unwrap().as_object().unwrap();
        let plain = ctx
            .eval(Source::from_bytes(
                "(function(o,k){var d=Object.getOwnPropertyDescriptor(o,k);\
                 return (d!==undefined&&d.writable===true&&d.enumerable===true&&d.configurable===true&&('value' in d)&&!('get' in d))?1:0})",
            ))
            .unwrap()
            .as_object()
            .unwrap();
        let obj_proto = ctx.intrinsics().constructors().object().prototype();
        let arr_proto = ctx.intrinsics().constructors().array().prototype();
        Env { ctx, parse, stringify, json, plain, obj_proto, arr_proto, labels: Default::default() }
    }

    fn dump(&mut self, v: &JsValue, out: &mut Vec<String>, depth: usize) {
        if depth > 100_000 {
            out.push("!deep".into());
            return;
        }
        if v.is_null() {
            out.push("N".into());
        } else if let Some(b) = v.as_boolean() {
            out.push(if b { "T" } else { "F" }.into());
        } else if let Some(n) = v.as_number() {
            out.push(format!("D{:016x}", n.to_bits()));
        } else if let Some(s) = v.as_string() {
            out.push(hex_units('S', &units_of(&s)));
        } else if let Some(o) = v.as_object() {
            let keys = match o.own_property_keys(&mut self.ctx) {
                Ok(k) => k,
                Err(_) => {
                    out.push("!keys".into());
                    return;
                }
            };
            let proto = o.prototype();
            if o.is_array() {
                if !proto.as_ref().is_some_and(|p| JsObject::equals(p, &self.arr_proto)) {
                    out.push("!arrproto".into());
                }
                let len = o
                    .get(js_string!("length"), &mut self.ctx)
                    .ok()
                    .and_then(|l| l.as_number())
                    .unwrap_or(-1.0);
                // own keys of an array made by JSON.parse: 0..len-1 then "length"
                if keys.len() as f64 != len + 1.0 {
                    out.push(format!("!arrkeys{}", keys.len()));
                }
                out.push("[".into());
                for i in 0..(len.max(0.0) as u32) {
                    match keys.get(i as usize) {
                        Some(PropertyKey::Index(ix)) if ix.get() == i => {}
                        _ => out.push("!arrkey".into()),
                    }
                    let k: JsValue = i.into();
                    let ok = self.plain.call(&JsValue::undefined(), &[o.clone().into(), k], &mut self.ctx);
                    if !matches!(ok.as_ref().ok().and_then(|x| x.as_number()), Some(x) if x == 1.0) {
                        out.push("!attr".into());
                    }
                    match o.get(i, &mut self.ctx) {
                        Ok(e) => self.dump(&e, out, depth + 1),
                        Err(_) => out.push("!get".into()),
                    }
                }
                out.push("]".into());
            } else {
                if o.is_callable() {
                    out.push("!callable".into());
                }
                if !proto.as_ref().is_some_and(|p| JsObject::equals(p, &self.obj_proto)) {
                    out.push("!objproto".into());
                }
                out.push("{".into());
                for k in keys {
                    let (ks, kv): (Vec<u16>, JsValue) = match &k {
                        PropertyKey::String(s) => (units_of(s), s.clone().into()),
                        PropertyKey::Index(i) => {
                            let t = i.get().to_string();
                            (t.encode_utf16().collect(), js_string!(t.as_str()).into())
                        }
                        PropertyKey::Symbol(_) => {
                            out.push("!symkey".into());
                            continue;
                        }
                    };
                    out.push(hex_units('K', &ks));
                    let ok = self.plain.call(&JsValue::undefined(), &[o.clone().into(), kv], &mut self.ctx);
                    if !matches!(ok.as_ref().ok().and_then(|x| x.as_number()), Some(x) if x == 1.0) {
                        out.push("!attr".into());
                    }
                    match o.get(k.clone(), &mut self.ctx) {
                        Ok(e) => self.dump(&e, out, depth + 1),
                        Err(_) => out.push("!get".into()),
                    }
                }
                out.push("}".into());
            }
        } else if v.is_undefined() {
            out.push("!undefined".into());
        } else {
            out.push("!other".into());
        }
    }

    /// Build a JS value from the token stream through the Rust API (no JS source text involved):
    /// objects by CreateDataProperty in the order given (duplicate keys overwrite, the engine decides
    /// the resulting key order), arrays by JsArray::push.
    fn build(&mut self, toks: &[&str], pos: &mut usize) -> Result<JsValue, String> {
        self.build_l(toks, pos, None)
    }

    /// `&n` labels the value that follows (a container is registered *before* it is filled, so `*n` inside it makes a
    /// cycle), `*n` is the same instance again, `J<hex units>` is the value of a JS expression evaluated in this context
    /// (Map, Set, symbol-keyed / non-enumerable-keyed objects, wrappers, objects with toJSON ...).
    fn build_l(&mut self, toks: &[&str], pos: &mut usize, label: Option<u32>) -> Result<JsValue, String> {
        let t = *toks.get(*pos).ok_or("eof")?;
        *pos += 1;
        let c = t.chars().next().ok_or("empty token")?;
        match c {
            '&' => {
                let n: u32 = t[1..].parse().map_err(|_| "bad label")?;
                self.build_l(toks, pos, Some(n))
            }
            '*' => {
                let n: u32 = t[1..].parse().map_err(|_| "bad label")?;
                self.labels.get(&n).cloned().ok_or_else(|| format!("unknown label {n}"))
            }
            'J' => {
                let src = String::from_utf16_lossy(&parse_units(&t[1..]));
                let v = self.ctx.eval(Source::from_bytes(src.as_bytes())).map_err(|_| "J expression threw")?;
                if let Some(n) = label {
                    self.labels.insert(n, v.clone());
                }
                Ok(v)
            }
            'N' => Ok(JsValue::null()),
            'T' => Ok(JsValue::new(true)),
            'F' => Ok(JsValue::new(false)),
            'X' => Ok(JsValue::undefined()),
            'D' => Ok(JsValue::new(f64::from_bits(u64::from_str_radix(&t[1..], 16).map_err(|e| e.to_string())?))),
            'S' => Ok(js_string!(&parse_units(&t[1..])[..]).into()),
            '[' => {
                let a = JsArray::new(&mut self.ctx).map_err(|_| "array")?;
                if let Some(n) = label {
                    self.labels.insert(n, JsObject::from(a.clone()).into());
                }
                loop {
                    if *toks.get(*pos).ok_or("eof in array")? == "]" {
                        *pos += 1;
                        break;
                    }
                    let e = self.build(toks, pos)?;
                    a.push(e, &mut self.ctx).map_err(|_| "push")?;
                }
                Ok(JsObject::from(a).into())
            }
            '{' => {
                let o = JsObject::with_object_proto(self.ctx.intrinsics());
                if let Some(n) = label {
                    self.labels.insert(n, o.clone().into());
                }
                loop {
                    let k = *toks.get(*pos).ok_or("eof in object")?;
                    *pos += 1;
                    if k == "}" {
                        break;
                    }
                    if !k.starts_with('K') {
                        return Err(format!("expected key, got {k}"));
                    }
                    let key: JsString = js_string!(&parse_units(&k[1..])[..]);
                    let e = self.build(toks, pos)?;
                    o.create_data_property_or_throw(key, e, &mut self.ctx).map_err(|_| "define")?;
                }
                Ok(o.into())
            }
            _ => Err(format!("bad token {t}")),
        }
    }

    fn space(&mut self, s: &str) -> Result<JsValue, String> {
        match s.chars().next() {
            Some('-') => Ok(JsValue::undefined()),
            Some('n') => Ok(JsValue::new(f64::from_bits(u64::from_str_radix(&s[1..], 16).map_err(|e| e.to_string())?))),
            Some('s') => Ok(js_string!(&parse_units(&s[1..])[..]).into()),
            _ => Err("bad space".into()),
        }
    }

    fn do_parse(&mut self, text: &[u16]) -> String {
        let arg: JsValue = js_string!(text).into();
        let json: JsValue = self.json.clone().into();
        match self.parse.call(&json, &[arg], &mut self.ctx) {
            Ok(v) => {
                let mut out = Vec::new();
                self.dump(&v, &mut out, 0);
                format!("ok {}", out.join(" "))
            }
            Err(e) => err_line(e, &mut self.ctx),
        }
    }

    fn do_stringify(&mut self, rest: &str, roundtrip: bool) -> String {
        let toks: Vec<&str> = rest.split_whitespace().collect();
        if toks.is_empty() {
            return "badinput".into();
        }
        let space = match self.space(toks[0]) {
            Ok(s) => s,
            Err(e) => return format!("badinput {e}"),
        };
        let mut pos = 1;
        self.labels.clear();
        let v = match self.build(&toks, &mut pos) {
            Ok(v) => v,
            Err(e) => return format!("badinput {e}"),
        };
        let json: JsValue = self.json.clone().into();
        match self.stringify.call(&json, &[v, JsValue::undefined(), space], &mut self.ctx) {
            Ok(r) => {
                if r.is_undefined() {
                    return "undef".into();
                }
                let Some(s) = r.as_string() else { return "!nonstring".into() };
                let u = units_of(&s);
                if roundtrip {
                    let back = self.do_parse(&u);
                    format!("ok {} {}", hex_units('U', &u), back)
                } else {
                    format!("ok {}", hex_units('U', &u))
                }
            }
            Err(e) => err_line(e, &mut self.ctx),
        }
    }
}

fn one(env: &mut Env, line: &str) -> String {
    let (cmd, rest) = match line.split_once(' ') {
        Some((c, r)) => (c, r),
        None => (line, ""),
    };
    match cmd {
        "parse" => {
            let u = bh::unescape_units(rest);
            env.do_parse(&u)
        }
        "stringify" => env.do_stringify(rest, false),
        "roundtrip" => env.do_stringify(rest, true),
        "dumpval" => {
            let toks: Vec<&str> = rest.split_whitespace().collect();
            let mut pos = 0;
            env.labels.clear();
            match env.build(&toks, &mut pos) {
                Ok(v) => {
                    let mut out = Vec::new();
                    env.dump(&v, &mut out, 0);
                    format!("ok {}", out.join(" "))
                }
                Err(e) => format!("badinput {e}"),
            }
        }
        "numstr" => {
            let x = f64::from_bits(u64::from_str_radix(rest.trim(), 16).unwrap_or(0));
            match JsValue::new(x).to_string(&mut env.ctx) {
                Ok(s) => format!("ok {}", hex_units('U', &units_of(&s))),
                Err(e) => err_line(e, &mut env.ctx),
            }
        }
        "js" => {
            // fresh context per program: replacer / toJSON / reviver programs may patch prototypes
            let mut ctx = Context::default();
            let u = bh::unescape_units(rest);
            let src = String::from_utf16_lossy(&u);
            match ctx.eval(Source::from_bytes(src.as_bytes())) {
                Ok(v) => match v.to_string(&mut ctx) {
                    Ok(s) => format!("ok {}", hex_units('U', &units_of(&s))),
                    Err(e) => err_line(e, &mut ctx),
                },
                Err(e) => err_line(e, &mut ctx),
            }
        }
        _ => "badcmd".into(),
    }
}

fn worker() {
    let stdin = std::io::stdin();
    let out = std::io::stdout();
    let mut env = Env::new();
    for line in stdin.lock().lines() {
        let line = line.unwrap();
        if line.is_empty() {
            continue;
        }
        let r = bh::guarded(|| one(&mut env, &line));
        let mut o = out.lock();
        match r {
            Ok(s) => writeln!(o, "{s}").unwrap(),
            Err(m) => {
                writeln!(o, "panic {}", m.replace('\n', " ")).unwrap();
                drop(o);
                env = Env::new(); // the context may be unbalanced after a panic
                continue;
            }
        }
        o.flush().unwrap();
    }
}

fn main() {
    // The engine recurses on nesting depth; the stack of the worker is fixed and stated so that the
    // depth probes are reproducible (JSONOPS_STACK_MB, default 8 = the usual main-thread stack).
    let mb: usize = std::env::var("JSONOPS_STACK_MB").ok().and_then(|s| s.parse().ok()).unwrap_or(8);
    let h = std::thread::Builder::new().stack_size(mb << 20).spawn(worker).unwrap();
    let _ = h.join();
}
