//! C12: JsValue tagging round trips through the public API.
//!   i <i32>  f <hex u64 bits>  b <0|1>  n  u  s  o  y  g      -> one observation line each
//!   sweep-i32 <lo> <hi>        check every i in [lo,hi) internally, print `ok <count>` or first mismatch
//!   sweep-f64 <seed> <random>  structured set (exponent x tag nibble x boundary mantissas) + random
use boa_engine::value::JsVariant;
use boa_engine::{JsBigInt, JsObject, JsSymbol, JsValue, js_string};
use std::io::{BufRead, Write};

fn obs(v: &JsValue) -> String {
    let var = match v.variant() {
        JsVariant::Undefined => "U".to_string(),
        JsVariant::Null => "N".to_string(),
        JsVariant::Boolean(b) => format!("B{}", b as u8),
        JsVariant::Integer32(i) => format!("I{i}"),
        JsVariant::Float64(f) => format!("F{:016x}", f.to_bits()),
        JsVariant::BigInt(_) => "G".to_string(),
        JsVariant::Object(_) => "O".to_string(),
        JsVariant::Symbol(_) => "Y".to_string(),
        JsVariant::String(_) => "S".to_string(),
    };
    let flags = [
        v.is_undefined(), v.is_null(), v.is_null_or_undefined(), v.is_boolean(), v.is_number(),
        v.is_bigint(), v.is_object(), v.is_symbol(), v.is_string(),
    ];
    let fl: String = flags.iter().map(|&b| if b { '1' } else { '0' }).collect();
    let ab = match v.as_boolean() { Some(b) => format!("{}", b as u8), None => "-".into() };
    let an = match v.as_number() { Some(f) => format!("{:016x}", f.to_bits()), None => "-".into() };
    format!("{var} {fl} {ab} {an} {}", v.type_of())
}

fn expect_f64(bits: u64) -> Result<(), String> {
    let x = f64::from_bits(bits);
    let v = JsValue::new(x);
    let want = if x.is_nan() { f64::NAN.to_bits() } else { bits };
    let line = obs(&v);
    let exp = format!("F{want:016x} 000010000 - {want:016x} number");
    if line != exp { return Err(format!("bits={bits:016x} got=[{line}] want=[{exp}]")); }
    // a copy keeps everything
    let w = v.clone();
    if obs(&w) != exp { return Err(format!("bits={bits:016x} clone differs")); }
    if v.to_boolean() != (x != 0.0 && !x.is_nan()) { return Err(format!("bits={bits:016x} to_boolean")); }
    Ok(())
}

fn expect_i32(i: i32) -> Result<(), String> {
    let v = JsValue::new(i);
    match v.variant() {
        JsVariant::Integer32(j) if j == i => {}
        _ => return Err(format!("i={i} variant={}", obs(&v))),
    }
    if !(v.is_number() && !v.is_undefined() && !v.is_null() && !v.is_null_or_undefined() && !v.is_boolean()
        && !v.is_bigint() && !v.is_object() && !v.is_symbol() && !v.is_string()) {
        return Err(format!("i={i} flags={}", obs(&v)));
    }
    if v.as_i32() != Some(i) || v.as_number().map(f64::to_bits) != Some(f64::from(i).to_bits()) || v.as_boolean().is_some() {
        return Err(format!("i={i} accessors={}", obs(&v)));
    }
    if v.to_boolean() != (i != 0) { return Err(format!("i={i} to_boolean")); }
    Ok(())
}

struct Rng(u64);
impl Rng {
    fn next(&mut self) -> u64 {
        self.0 ^= self.0 << 13; self.0 ^= self.0 >> 7; self.0 ^= self.0 << 17; self.0
    }
}

fn main() {
    let stdin = std::io::stdin();
    let out = std::io::stdout();
    let mut out = out.lock();
    for line in stdin.lock().lines() {
        let line = line.unwrap();
        let p: Vec<&str> = line.split_whitespace().collect();
        if p.is_empty() { continue; }
        let r = bh::guarded(|| -> String {
            match p[0] {
                "i" => obs(&JsValue::new(p[1].parse::<i32>().unwrap())),
                "f" => obs(&JsValue::new(f64::from_bits(u64::from_str_radix(p[1], 16).unwrap()))),
                "b" => obs(&JsValue::new(p[1] == "1")),
                "n" => obs(&JsValue::null()),
                "u" => obs(&JsValue::undefined()),
                "s" => {
                    let s = js_string!("payload\u{e9}");
                    let v = JsValue::new(s.clone());
                    let same = v.as_string().map(|t| t == s).unwrap_or(false);
                    format!("{} same={}", obs(&v), same as u8)
                }
                "o" => {
                    let o = JsObject::with_null_proto();
                    let v = JsValue::new(o.clone());
                    let same = v.as_object().map(|t| JsObject::equals(&t, &o)).unwrap_or(false);
                    format!("{} same={}", obs(&v), same as u8)
                }
                "y" => {
                    let y = JsSymbol::new(Some(js_string!("d"))).unwrap();
                    let v = JsValue::new(y.clone());
                    let same = v.as_symbol().map(|t| t == y).unwrap_or(false);
                    format!("{} same={}", obs(&v), same as u8)
                }
                "g" => {
                    let g = JsBigInt::from(-12345678901234567i64);
                    let v = JsValue::new(g.clone());
                    let same = v.as_bigint().map(|t| t == g).unwrap_or(false);
                    format!("{} same={}", obs(&v), same as u8)
                }
                "sweep-i32" => {
                    let lo: i64 = p[1].parse().unwrap();
                    let hi: i64 = p[2].parse().unwrap();
                    let mut n = 0u64;
                    for i in lo..hi {
                        if let Err(e) = expect_i32(i as i32) { return format!("mismatch {e}"); }
                        n += 1;
                    }
                    format!("ok {n}")
                }
                "sweep-f64" => {
                    let seed: u64 = p[1].parse().unwrap();
                    let nrand: u64 = p[2].parse().unwrap();
                    let mut n = 0u64;
                    let mans: [u64; 14] = [0, 1, 2, 0xffff_ffff, 0x1_0000_0000, 0x7fff_ffff_ffff, 0x8000_0000_0000,
                        0xffff_ffff_fffe, 0xffff_ffff_ffff, 0x0000_8000_0000, 0x0000_7fff_ffff, 0x5555_5555_5555, 0xaaaa_aaaa_aaaa, 0x1234_5678_9abc];
                    for sign in 0..2u64 {
                        for exp in 0..2048u64 {
                            for nib in 0..16u64 {
                                for m in mans {
                                    let bits = (sign << 63) | (exp << 52) | (nib << 48) | m;
                                    if let Err(e) = expect_f64(bits) { return format!("mismatch {e}"); }
                                    n += 1;
                                }
                            }
                        }
                    }
                    let mut r = Rng(seed | 1);
                    for k in 0..nrand {
                        let mut bits = r.next();
                        if k % 4 == 0 { bits |= 0x7ff0_0000_0000_0000; }      // bias to the NaN space
                        if k % 8 == 1 { bits &= 0xffff_0000_0000_ffff; }
                        if let Err(e) = expect_f64(bits) { return format!("mismatch {e}"); }
                        n += 1;
                    }
                    format!("ok {n}")
                }
                _ => "unknown".to_string(),
            }
        });
        match r {
            Ok(s) => writeln!(out, "{s}").unwrap(),
            Err(m) => writeln!(out, "panic {}", bh::json_str(&m)).unwrap(),
        }
    }
}
