//! C20 harness: run a program under a *history* and print its trace.
//!
//! Input lines (tab separated):   <id> \t <mode> \t <escaped program> [\t <escaped aux program>]
//!   mode = comma separated k=v:
//!     kind=fresh          new Context, run the program
//!     kind=sab            aux runs first in another Context on this thread (kept alive unless drop=1), then as fresh
//!     kind=realm          one Context: aux runs in the first realm, the program in a second realm (create_realm/enter_realm)
//!     noise=<n>           before anything else: n rounds of unrelated allocation in a throw-away Context
//!     collect=0|1         force a collection after the noise
//!     gc=<n>              boa_gc::verif::set_stress(n) while the program runs (0 = off)
//!     kind=tree,realms=K  realm-mechanism probe: K realms (globals __gid, T; Array.prototype.__rid), natives T.nat[k]/T.natc[k](ops, ...);
//!                         aux = definitions `k|src` separated by U+001E evaluated in realm k; the program runs in realm 0 between two host probes
//!     leak=1              SELF-TEST of the oracle only: deliberately break isolation (aux and program share the context/realm)
//! Output:  <id> \t ok|panic \t <trace: JSON array of print lines> \t <completion>
//! Host object `$iso` (per realm): createRealm() -> the new realm's $iso; evalScript(src); global; gc();
//! nativeForEach(mapOrSet) -> number of entries visited through the Rust API JsMap/JsSet::for_each_native.
use boa_engine::object::ObjectInitializer;
use boa_engine::property::Attribute;
use boa_engine::{Context, JsError, JsObject, JsResult, JsValue, NativeFunction, Source, js_string};
use std::io::{BufRead, Write};

fn type_and_text(v: &JsValue, ctx: &mut Context) -> String {
    let ty = v.type_of();
    if v.is_object() {
        return format!("{}:[{}]", ty, if v.is_callable() { "function" } else { "object" });
    }
    if v.is_symbol() {
        return format!("symbol:{}", bh::json_str(&v.display().to_string()));
    }
    match v.to_string(ctx) {
        Ok(s) => format!("{}:{}", ty, bh::json_units(&s.iter().collect::<Vec<u16>>())),
        Err(_) => format!("{}:?", ty),
    }
}

/// Completion with the full error text: messages (with positions) are part of the compared trace.
fn completion(r: JsResult<JsValue>, ctx: &mut Context) -> String {
    match r {
        Ok(v) => format!("V:{}", type_and_text(&v, ctx)),
        Err(e) => error_text(&e, ctx),
    }
}

fn error_text(e: &JsError, ctx: &mut Context) -> String {
    if let Some(en) = e.as_engine() {
        return format!("P:{}", bh::json_str(&en.to_string()));
    }
    if let Some(n) = e.as_native() {
        return format!("T:{}", bh::json_str(&n.to_string()));
    }
    if let Some(v) = e.as_opaque() {
        if v.is_object() {
            if let Ok(n) = e.try_native(ctx) {
                return format!("T:{}", bh::json_str(&n.to_string()));
            }
            return "T:throw:object".to_string();
        }
        let v = v.clone();
        return format!("T:throw:{}", type_and_text(&v, ctx));
    }
    "T:?".to_string()
}

fn iso_create_realm(_: &JsValue, _: &[JsValue], ctx: &mut Context) -> JsResult<JsValue> {
    let realm = ctx.create_realm()?;
    let old = ctx.enter_realm(realm);
    let iso = install_host(ctx);
    ctx.enter_realm(old);
    Ok(JsValue::new(iso))
}

fn iso_eval_script(_: &JsValue, args: &[JsValue], ctx: &mut Context) -> JsResult<JsValue> {
    // a native function runs in the realm it was created in, so this evaluates in `$iso`'s realm
    match args.first().and_then(JsValue::as_string) {
        Some(src) => ctx.eval(Source::from_bytes(&src.to_std_string_escaped())),
        None => Ok(JsValue::undefined()),
    }
}

fn iso_gc(_: &JsValue, _: &[JsValue], _: &mut Context) -> JsResult<JsValue> {
    boa_gc::force_collect();
    Ok(JsValue::undefined())
}

fn iso_native_for_each(_: &JsValue, args: &[JsValue], _ctx: &mut Context) -> JsResult<JsValue> {
    use boa_engine::object::builtins::{JsMap, JsSet};
    let mut n = 0i32;
    if let Some(o) = args.first().and_then(JsValue::as_object) {
        if let Ok(m) = JsMap::from_object(o.clone()) {
            m.for_each_native(|_, _| {
                n += 1;
                Ok(())
            })?;
        } else if let Ok(s) = JsSet::from_object(o.clone()) {
            s.for_each_native(|_| {
                n += 1;
                Ok(())
            })?;
        }
    }
    Ok(JsValue::new(n))
}

/// Install `print` and `$iso` into the current realm of `ctx`; returns the `$iso` object.
fn install_host(ctx: &mut Context) -> JsObject {
    bh::install_print(ctx);
    let global = ctx.global_object();
    let iso = ObjectInitializer::new(ctx)
        .function(NativeFunction::from_fn_ptr(iso_create_realm), js_string!("createRealm"), 0)
        .function(NativeFunction::from_fn_ptr(iso_eval_script), js_string!("evalScript"), 1)
        .function(NativeFunction::from_fn_ptr(iso_gc), js_string!("gc"), 0)
        .function(NativeFunction::from_fn_ptr(iso_native_for_each), js_string!("nativeForEach"), 1)
        .property(js_string!("global"), global, Attribute::WRITABLE | Attribute::CONFIGURABLE)
        .build();
    ctx.register_global_property(js_string!("$iso"), iso.clone(), Attribute::WRITABLE | Attribute::CONFIGURABLE)
        .expect("register $iso");
    iso
}

// ---------------------------------------------------------------------------------------------
// realm-mechanism probe (kind=tree): see coq/C20/Deep_Realm_C20.v
thread_local! {
    static REALMS: std::cell::RefCell<Vec<boa_engine::realm::Realm>> = const { std::cell::RefCell::new(Vec::new()) };
}

fn current_gid(ctx: &mut Context) -> String {
    let g = ctx.global_object();
    match g.get(js_string!("__gid"), ctx) {
        Ok(v) => v.display().to_string(),
        Err(_) => "?".to_string(),
    }
}

fn log_line(s: String) {
    bh::TRACE.with(|t| t.borrow_mut().push(bh::json_str(&s)));
}

/// T.nat[k](ops, a0, a1, ...): a native function of realm k interpreting `ops`:
/// p probe | e<k> enter_realm(k) without restoring | c<i> call a_i | y<i> call a_i, swallow its error | s<i> eval a_i |
/// z<i> eval a_i, swallow | r create_realm | t throw
fn tree_invoke(_this: &JsValue, args: &[JsValue], ctx: &mut Context) -> JsResult<JsValue> {
    let ops = args.first().and_then(JsValue::as_string).map(|s| s.to_std_string_escaped()).unwrap_or_default();
    for tok in ops.split(' ').filter(|t| !t.is_empty()) {
        let (op, num) = tok.split_at(1);
        let n: usize = num.parse().unwrap_or(0);
        match op {
            "p" => {
                let g = current_gid(ctx);
                log_line(format!("P {g}"));
            }
            "e" => {
                let r = REALMS.with(|v| v.borrow().get(n).cloned());
                if let Some(r) = r {
                    let _ = ctx.enter_realm(r);
                }
            }
            "c" | "y" => {
                let f = args.get(1 + n).and_then(JsValue::as_object);
                let res = match f {
                    Some(f) => f.call(&JsValue::undefined(), &[], ctx),
                    None => Ok(JsValue::undefined()),
                };
                if op == "c" {
                    res?;
                } else if res.is_err() {
                    log_line("C".to_string());
                }
            }
            "s" | "z" => {
                let src = args.get(1 + n).and_then(JsValue::as_string).map(|s| s.to_std_string_escaped()).unwrap_or_default();
                let res = ctx.eval(Source::from_bytes(src.as_bytes()));
                if op == "s" {
                    res?;
                } else if res.is_err() {
                    log_line("C".to_string());
                }
            }
            "r" => {
                let _ = ctx.create_realm()?;
            }
            "t" => {
                return Err(boa_engine::JsNativeError::typ().with_message("nat").into());
            }
            _ => {}
        }
    }
    Ok(JsValue::undefined())
}

fn run_tree(nrealms: usize, prog: &str, aux: &str) -> (String, String) {
    use boa_engine::object::FunctionObjectBuilder;
    let mut ctx = Context::default();
    let mut realms = vec![ctx.realm().clone()];
    for _ in 1..nrealms.max(1) {
        realms.push(ctx.create_realm().expect("create_realm"));
    }
    REALMS.with(|v| *v.borrow_mut() = realms.clone());
    bh::install_print(&mut ctx);
    let shared = ctx.eval(Source::from_bytes(b"({nat:[],natc:[]})")).expect("shared table");
    for (k, r) in realms.iter().enumerate() {
        let old = ctx.enter_realm(r.clone());
        if k > 0 {
            bh::install_print(&mut ctx);
        }
        let f = FunctionObjectBuilder::new(ctx.realm(), NativeFunction::from_fn_ptr(tree_invoke)).name(js_string!("nat")).length(1).build();
        let fc = FunctionObjectBuilder::new(ctx.realm(), NativeFunction::from_fn_ptr(tree_invoke)).name(js_string!("natc")).length(1).constructor(true).build();
        let _ = ctx.register_global_property(js_string!("T"), shared.clone(), Attribute::all());
        let _ = ctx.register_global_property(js_string!("__gid"), k as i32, Attribute::all());
        let _ = ctx.register_global_property(js_string!("__nat"), f, Attribute::all());
        let _ = ctx.register_global_property(js_string!("__natc"), fc, Attribute::all());
        let _ = ctx.eval(Source::from_bytes(b"Array.prototype.__rid=__gid;T.nat[__gid]=__nat;T.natc[__gid]=__natc;"));
        ctx.enter_realm(old);
    }
    for def in aux.split('\u{1e}').filter(|d| !d.is_empty()) {
        if let Some((k, src)) = def.split_once('|') {
            let k: usize = k.parse().unwrap_or(0);
            let old = ctx.enter_realm(realms[k.min(realms.len() - 1)].clone());
            let _ = ctx.eval(Source::from_bytes(src.as_bytes()));
            ctx.enter_realm(old);
        }
    }
    let _ = bh::take_trace();
    let g = current_gid(&mut ctx);
    log_line(format!("P {g}"));
    let r = eval_in(&mut ctx, prog);
    if r.is_err() {
        log_line("C".to_string());
    }
    let g = current_gid(&mut ctx);
    log_line(format!("P {g}"));
    let comp = completion(r, &mut ctx);
    let trace = bh::take_trace();
    REALMS.with(|v| v.borrow_mut().clear());
    (bh::json_list(&trace), comp)
}

struct Mode {
    kind: String,
    noise: usize,
    collect: bool,
    gc: usize,
    drop_first: bool,
    leak: bool,
    realms: usize,
}

fn parse_mode(s: &str) -> Mode {
    let mut m = Mode { kind: "fresh".into(), noise: 0, collect: false, gc: 0, drop_first: false, leak: false, realms: 2 };
    for kv in s.split(',') {
        if let Some((k, v)) = kv.split_once('=') {
            match k {
                "kind" => m.kind = v.to_string(),
                "noise" => m.noise = v.parse().unwrap_or(0),
                "collect" => m.collect = v == "1",
                "gc" => m.gc = v.parse().unwrap_or(0),
                "drop" => m.drop_first = v == "1",
                "leak" => m.leak = v == "1",
                "realms" => m.realms = v.parse().unwrap_or(2),
                _ => {}
            }
        }
    }
    m
}

const NOISE_JS: &str = r#"
(function(n){
  var keep = [];
  for (var i = 0; i < n; i++) {
    var o = {}; o["k" + i] = i; o[Symbol("s" + i)] = "v" + i; o[i * 7 % 13] = i;
    var m = new Map([[o, i], ["x" + i, o]]); var s = new Set([i, "y" + i, o]);
    var w = new WeakMap(); w.set(o, m);
    if (i % 3 == 0) keep.push(o); if (i % 5 == 0) keep.push(m.keys());
    try { null.x } catch (e) { keep.push(String(e)) }
    (function f(a){ return function(){ return a + i } })(i)();
  }
  return keep.length;
})
"#;

fn noise(n: usize, collect: bool) {
    if n == 0 {
        return;
    }
    let mut ctx = Context::default();
    let src = format!("{}({})", NOISE_JS, n * 40);
    let _ = ctx.eval(Source::from_bytes(src.as_bytes()));
    drop(ctx);
    if collect {
        boa_gc::force_collect();
    }
}

fn eval_in(ctx: &mut Context, src: &str) -> JsResult<JsValue> {
    let r = ctx.eval(Source::from_bytes(src.as_bytes()));
    let _ = ctx.run_jobs();
    r
}

fn run_case(mode: &Mode, prog: &str, aux: &str) -> (String, String) {
    #[cfg(boa_verif)]
    boa_gc::verif::set_stress(0);
    noise(mode.noise, mode.collect);
    if mode.kind == "tree" {
        return run_tree(mode.realms, prog, aux);
    }
    let mut keep_alive: Option<Context> = None;
    let mut ctx;
    match mode.kind.as_str() {
        "sab" => {
            let mut a = Context::default();
            install_host(&mut a);
            let _ = eval_in(&mut a, aux);
            let _ = bh::take_trace();
            if mode.leak {
                // self-test: the "other" context is the same context
                ctx = a;
                install_host(&mut ctx);
            } else {
                if !mode.drop_first {
                    keep_alive = Some(a);
                }
                ctx = Context::default();
                install_host(&mut ctx);
            }
        }
        "realm" => {
            ctx = Context::default();
            install_host(&mut ctx);
            let _ = eval_in(&mut ctx, aux);
            let _ = bh::take_trace();
            if !mode.leak {
                let realm = ctx.create_realm().expect("create_realm");
                let _old = ctx.enter_realm(realm);
            }
            install_host(&mut ctx);
        }
        _ => {
            ctx = Context::default();
            install_host(&mut ctx);
        }
    }
    #[cfg(boa_verif)]
    boa_gc::verif::set_stress(mode.gc);
    let r = eval_in(&mut ctx, prog);
    #[cfg(boa_verif)]
    boa_gc::verif::set_stress(0);
    let comp = completion(r, &mut ctx);
    let trace = bh::take_trace();
    drop(keep_alive);
    (bh::json_list(&trace), comp)
}

/// Process lines from `start` on the current thread until the end or the first panic; returns the next index.
fn process(lines: &[String], start: usize) -> usize {
    let out = std::io::stdout();
    let mut k = start;
    while k < lines.len() {
        let line = &lines[k];
        k += 1;
        if line.is_empty() {
            continue;
        }
        let parts: Vec<&str> = line.split('\t').collect();
        let mut out = out.lock();
        if parts.len() < 3 {
            let _ = writeln!(out, "?\tbad-input\t[]\t-");
            continue;
        }
        let id = parts[0].to_string();
        let mode = parse_mode(parts[1]);
        let prog = bh::unescape_string(parts[2]);
        let aux = if parts.len() > 3 { bh::unescape_string(parts[3]) } else { String::new() };
        match bh::guarded(|| run_case(&mode, &prog, &aux)) {
            Ok((trace, comp)) => {
                let _ = writeln!(out, "{id}\tok\t{trace}\t{comp}");
                let _ = out.flush();
            }
            Err(msg) => {
                let _ = bh::take_trace();
                let _ = writeln!(out, "{id}\tpanic\t[]\tP:{}", bh::json_str(&msg));
                let _ = out.flush();
                // the thread-locals of this thread may be poisoned: let the caller continue on a new thread
                return k;
            }
        }
    }
    k
}

fn main() {
    // All cases run one after the other on ONE worker thread (so that the thread-local state of the engine —
    // GC heap, caches, counters — carries the history of the earlier cases); a new thread only after a panic.
    let lines: Vec<String> = std::io::stdin().lock().lines().map_while(Result::ok).collect();
    let lines = std::sync::Arc::new(lines);
    let mut next = 0usize;
    while next < lines.len() {
        let l = lines.clone();
        let start = next;
        let res = std::thread::Builder::new()
            .stack_size(256 << 20)
            .spawn(move || process(&l, start))
            .expect("spawn")
            .join();
        match res {
            Ok(n) => next = n,
            Err(_) => {
                println!("?\tpanic\t[]\tP:\"thread\"");
                next = lines.len();
            }
        }
    }
}
