//! C08: runs a script with the per-instruction depth log on and reports, per case,
//!   * the code-block dump of the script (so block ids match the log),
//!   * the set of observed intra-activation transitions `block:pc>pc'` (consecutive executed instructions of the
//!     same activation, including the resumption of a caller after a return or a catch),
//!   * every revisit of a pc by one activation without an IncrementLoopIteration / suspension / IteratorReturn in
//!     between (`repeats`): the dynamic form of the cut property.
//!
//! Input:  `cfg loop=<n|-> rec=<n|-> stack=<n|-> jobs=0|1`   then   `run <id> <escaped program>`
//! Output: `<id>\t<status>\t<completion>\t<executed>\t<transitions: b:p>q ...>\t<repeats: b:p:Opcode ...>\t<dump: JSON array of lines>`
use boa_engine::{Context, JsError, JsResult, JsValue, Script, Source};
use std::collections::{BTreeSet, HashSet};
use std::io::{BufRead, Write};

#[derive(Clone, Default)]
struct Cfg {
    lim_loop: Option<u64>,
    lim_rec: Option<usize>,
    lim_stack: Option<usize>,
    jobs: bool,
}

fn error_class(e: &JsError) -> String {
    if let Some(en) = e.as_engine() {
        let s = en.to_string();
        if s.starts_with("RuntimeLimitError") {
            let k = if s.contains("iteration") { "LoopIteration" } else if s.contains("recursive") { "Recursion" } else { "StackSize" };
            return format!("L:{k}");
        }
        return format!("P:{}", bh::json_str(&s));
    }
    "T:error".to_string()
}

fn is_cut(name: &str) -> bool {
    matches!(name, "IncrementLoopIteration" | "GeneratorYield" | "AsyncGeneratorYield" | "Await" | "IteratorReturn")
}

#[cfg(boa_verif)]
fn run_case(cfg: &Cfg, text: &[u16]) -> (String, usize, String, String, String) {
    use boa_engine::verif;
    let src = String::from_utf16_lossy(text);
    let mut ctx = Context::default();
    bh::install_print(&mut ctx);
    if let Some(n) = cfg.lim_loop { ctx.runtime_limits_mut().set_loop_iteration_limit(n); }
    if let Some(n) = cfg.lim_rec { ctx.runtime_limits_mut().set_recursion_limit(n); }
    if let Some(n) = cfg.lim_stack { ctx.runtime_limits_mut().set_stack_size_limit(n); }
    let mut dump = String::new();
    let result: JsResult<JsValue> = (|| {
        let script = Script::parse(Source::from_bytes(src.as_bytes()), None, &mut ctx)?;
        let cb = script.codeblock(&mut ctx)?;
        dump = cb.verif_dump();
        verif::set_switches(verif::DEPTH_LOG);
        let _ = verif::take_depth_log();
        let r = script.evaluate(&mut ctx);
        r
    })();
    let mut comp = match &result {
        Ok(_) => "V".to_string(),
        Err(e) => error_class(e),
    };
    if cfg.jobs {
        if let Err(e) = ctx.run_jobs() {
            comp.push_str(&format!(" jobs:{}", error_class(&e)));
        }
    }
    verif::set_switches(0);
    let log = verif::take_depth_log();
    let _ = bh::take_trace();
    // per depth: (block, last pc) and the pcs visited since the last cut instruction
    // an activation that executed `Return` is gone: the next record at the same depth is a new activation (a native
    // calling a callback repeatedly produces such sequences without any record at the caller's depth in between)
    let mut last: Vec<Option<(u64, u32)>> = Vec::new();
    let mut ended: Vec<bool> = Vec::new();
    let mut seen: Vec<HashSet<u32>> = Vec::new();
    let mut trans: BTreeSet<(u64, u32, u32)> = BTreeSet::new();
    let mut repeats: BTreeSet<(u64, u32, &'static str)> = BTreeSet::new();
    for r in &log {
        let d = r.frames as usize;
        if last.len() > d + 1 {
            last.truncate(d + 1);
            seen.truncate(d + 1);
            ended.truncate(d + 1);
        }
        while last.len() < d + 1 {
            last.push(None);
            seen.push(HashSet::new());
            ended.push(false);
        }
        if ended[d] {
            last[d] = None;
            seen[d].clear();
            ended[d] = false;
        }
        if let Some((b, p)) = last[d] {
            if b == r.block {
                trans.insert((b, p, r.pc));
            } else {
                seen[d].clear();
            }
        }
        last[d] = Some((r.block, r.pc));
        let name = verif::opcode_name(r.opcode);
        if name == "Return" {
            ended[d] = true;
        }
        if is_cut(name) {
            seen[d].clear();
        } else if !seen[d].insert(r.pc) {
            repeats.insert((r.block, r.pc, name));
        }
    }
    let t: Vec<String> = trans.iter().map(|(b, p, q)| format!("{b}:{p}>{q}")).collect();
    let rp: Vec<String> = repeats.iter().map(|(b, p, n)| format!("{b}:{p}:{n}")).collect();
    let dl: Vec<String> = dump.lines().map(bh::json_str).collect();
    (comp, log.len(), t.join(" "), rp.join(" "), bh::json_list(&dl))
}

#[cfg(not(boa_verif))]
fn run_case(_cfg: &Cfg, _text: &[u16]) -> (String, usize, String, String, String) {
    ("nohooks".into(), 0, String::new(), String::new(), "[]".into())
}

fn main() {
    let stdin = std::io::stdin();
    let out = std::io::stdout();
    let mut out = out.lock();
    let mut cfg = Cfg { jobs: true, ..Cfg::default() };
    for line in stdin.lock().lines() {
        let line = line.unwrap();
        if let Some(rest) = line.strip_prefix("cfg ") {
            cfg = Cfg { jobs: true, ..Cfg::default() };
            for kv in rest.split_whitespace() {
                let Some((k, v)) = kv.split_once('=') else { continue };
                match k {
                    "loop" => cfg.lim_loop = v.parse().ok(),
                    "rec" => cfg.lim_rec = v.parse().ok(),
                    "stack" => cfg.lim_stack = v.parse().ok(),
                    "jobs" => cfg.jobs = v == "1",
                    _ => {}
                }
            }
            continue;
        }
        let Some(rest) = line.strip_prefix("run ") else { continue };
        let (id, text) = rest.split_once(' ').unwrap_or((rest, ""));
        let units = bh::unescape_units(text);
        let c = cfg.clone();
        match bh::guarded(|| run_case(&c, &units)) {
            Ok((comp, n, t, rp, dump)) => writeln!(out, "{id}\tok\t{comp}\t{n}\t{t}\t{rp}\t{dump}").unwrap(),
            Err(m) => {
                #[cfg(boa_verif)]
                {
                    boa_engine::verif::set_switches(0);
                    let _ = boa_engine::verif::take_depth_log();
                }
                let _ = bh::take_trace();
                writeln!(out, "{id}\tpanic\tP:{}\t0\t\t\t[]", bh::json_str(&m)).unwrap()
            }
        }
        out.flush().unwrap();
    }
}
