//! C13: Number <-> text conversions through the real engine.
//!
//! One case per input line, one result line per case.  Doubles travel as 16 hex digits of the
//! binary64 pattern, strings in the `\uXXXX` wire format of `bh::unescape_units`, results are
//! `S:<json string>` / `N:<16 hex digits>` (every NaN prints as `N:nan`) / `T:<ErrorClass>`;
//! several observation paths of one conversion are printed separated by ` | `.
//!
//!   tostr  <bits>            String(x), ""+x, x.toString(), `${x}`, [x].join(), Object.keys({[x]:0})[0], x.toString(10)
//!   radix  <bits> <r>        x.toString(r)
//!   fixed  <bits> <d|u>      x.toFixed(d)
//!   exp    <bits> <d|u>      x.toExponential(d)
//!   prec   <bits> <d|u>      x.toPrecision(d)
//!   num    <string>          Number(s), +s, s-0, new Number(s).valueOf()
//!   pf     <string>          parseFloat(s)
//!   pi     <string> <r|u>    parseInt(s, r)
//!   lit    <string>          source literal: script `(lit)`, strict script, direct eval, new Function, JSON.parse
//!   rt     <bits>            Number(String(x)), parseFloat(String(x)), eval(String(x)) as bits
//!   sweep-rt <seed> <n>      property oracle inside the harness: round trips on structured + n random doubles
//!   sweep-int <seed> <n>     parseInt(x.toString(r), r) == x for integers |x| <= 2^53, all radices
use boa_engine::{Context, JsError, JsObject, JsString, JsValue, Source, js_string};
use std::io::{BufRead, Write};

const PRELUDE: &str = r#"
(function () {
  function cls(e) { try { return "T:" + ((e && e.constructor && e.constructor.name) || "thrown"); } catch (_) { return "T:thrown"; } }
  function guard(f) { return function () { try { return f.apply(null, arguments); } catch (e) { return cls(e); } }; }
  var R = {};
  R.tostr = [
    function (x) { return "S" + String(x); },
    function (x) { return "S" + ("" + x); },
    function (x) { return "S" + x.toString(); },
    function (x) { return "S" + `${x}`; },
    function (x) { return "S" + [x].join(); },
    function (x) { var o = {}; o[x] = 0; return "S" + Object.keys(o)[0]; },
    function (x) { return "S" + x.toString(10); },
    function (x) { return "S" + Number.prototype.toString.call(new Number(x)); }
  ].map(guard);
  R.radix = [function (x, r) { return "S" + x.toString(r); }].map(guard);
  R.fixed = [function (x, d) { return "S" + x.toFixed(d); }].map(guard);
  R.exp = [function (x, d) { return "S" + x.toExponential(d); }].map(guard);
  R.prec = [function (x, d) { return "S" + x.toPrecision(d); }].map(guard);
  R.num = [
    function (s) { return Number(s); },
    function (s) { return +s; },
    function (s) { return s - 0; },
    function (s) { return new Number(s).valueOf(); }
  ].map(guard);
  R.pf = [function (s) { return parseFloat(s); }].map(guard);
  R.pi = [function (s, r) { return parseInt(s, r); }].map(guard);
  R.lit = [
    function (s) { return eval("(" + s + ")"); },
    function (s) { return new Function("return (" + s + ")")(); },
    function (s) { return JSON.parse(s); }
  ].map(guard);
  R.rt = [
    function (x) { return Number(String(x)); },
    function (x) { return parseFloat(String(x)); },
    function (x) { return eval(String(x)); }
  ].map(guard);
  return R;
})()
"#;

struct Eng {
    ctx: Context,
    table: JsObject,
}

fn new_engine() -> Eng {
    let mut ctx = Context::default();
    let v = ctx.eval(Source::from_bytes(PRELUDE)).expect("prelude");
    let table = v.as_object().expect("prelude object").clone();
    Eng { ctx, table }
}

fn err_class(e: &JsError, ctx: &mut Context) -> String {
    match e.try_native(ctx) {
        Ok(n) => {
            let d = format!("{:?}", n.kind());
            let name: String = d.chars().take_while(|c| c.is_ascii_alphanumeric()).collect();
            let name = match name.as_str() {
                "Syntax" => "SyntaxError", "Range" => "RangeError", "Type" => "TypeError", "Reference" => "ReferenceError",
                "Error" => "Error", "Eval" => "EvalError", "Uri" => "URIError", "Aggregate" => "AggregateError",
                other => return format!("T:{other}"),
            };
            format!("T:{name}")
        }
        Err(_) => "T:thrown".to_string(),
    }
}

fn show(v: &JsValue) -> String {
    if let Some(s) = v.as_string() {
        let u: Vec<u16> = s.iter().collect();
        if u.first() == Some(&(b'S' as u16)) {
            return format!("S:{}", bh::json_units(&u[1..]));
        }
        if u.len() >= 2 && u[0] == b'T' as u16 && u[1] == b':' as u16 {
            return String::from_utf16_lossy(&u);
        }
        return format!("?:{}", bh::json_units(&u));
    }
    match v.as_number() {
        Some(f) if f.is_nan() => "N:nan".to_string(),
        Some(f) => format!("N:{:016x}", f.to_bits()),
        None => format!("?:{}", v.type_of()),
    }
}

fn call_all(eng: &mut Eng, name: &str, args: &[JsValue]) -> Vec<String> {
    let arr = eng.table.get(JsString::from(name), &mut eng.ctx).expect("table entry");
    let arr = arr.as_object().expect("array").clone();
    let len = arr.get(js_string!("length"), &mut eng.ctx).unwrap().as_number().unwrap() as u32;
    let mut out = Vec::new();
    for i in 0..len {
        let f = arr.get(i, &mut eng.ctx).unwrap();
        let f = f.as_object().expect("function").clone();
        match f.call(&JsValue::undefined(), args, &mut eng.ctx) {
            Ok(v) => out.push(show(&v)),
            Err(e) => out.push(err_class(&e, &mut eng.ctx)),
        }
    }
    out
}

fn num_arg(bits: u64) -> Vec<JsValue> {
    let x = f64::from_bits(bits);
    let mut v = vec![JsValue::new(x)];
    // the Integer32 representation of the same number takes different code paths
    if x == x.trunc() && x.abs() <= 2147483647.0 && !(x == 0.0 && x.is_sign_negative()) {
        v.push(JsValue::new(x as i32));
    }
    v
}

fn opt_int(s: &str) -> JsValue {
    match s {
        "u" => JsValue::undefined(),
        "inf" => JsValue::new(f64::INFINITY),
        "-inf" => JsValue::new(f64::NEG_INFINITY),
        "nan" => JsValue::new(f64::NAN),
        _ => match s.parse::<i32>() {
            Ok(i) => JsValue::new(i),
            Err(_) => JsValue::new(s.parse::<f64>().unwrap_or(f64::NAN)),
        },
    }
}

fn uniq(mut v: Vec<String>) -> String {
    v.dedup();
    let mut seen: Vec<String> = Vec::new();
    for s in v {
        if !seen.contains(&s) {
            seen.push(s);
        }
    }
    seen.join(" | ")
}

fn js_str(units: &[u16]) -> JsValue {
    JsValue::new(JsString::from(units))
}

fn eval_script(eng: &mut Eng, text: &[u16], strict: bool) -> String {
    let mut src: Vec<u16> = Vec::new();
    if strict {
        src.extend("\"use strict\"; ".encode_utf16());
    }
    src.push(b'(' as u16);
    src.extend_from_slice(text);
    src.push(b')' as u16);
    let s = String::from_utf16_lossy(&src);
    match eng.ctx.eval(Source::from_bytes(s.as_bytes())) {
        Ok(v) => show(&v),
        Err(e) => err_class(&e, &mut eng.ctx),
    }
}

struct Rng(u64);
impl Rng {
    fn next(&mut self) -> u64 {
        self.0 ^= self.0 << 13;
        self.0 ^= self.0 >> 7;
        self.0 ^= self.0 << 17;
        self.0
    }
}

fn rt_one(eng: &mut Eng, bits: u64) -> Result<(), String> {
    let x = f64::from_bits(bits);
    if !x.is_finite() {
        return Ok(());
    }
    for arg in num_arg(bits) {
        let r = call_all(eng, "rt", &[arg]);
        let want = if x == 0.0 { format!("N:{:016x}", 0u64) } else { format!("N:{:016x}", bits) };
        // String(-0) is "0", so the sign of zero is not expected to survive
        for (k, got) in r.iter().enumerate() {
            if *got != want {
                return Err(format!("bits={bits:016x} path={k} got={got} want={want}"));
            }
        }
    }
    Ok(())
}

fn structured(seed: u64) -> Vec<u64> {
    let mut v = Vec::new();
    for e in 0..2047u64 {
        for m in [0u64, 1, 2, (1 << 52) - 1, (1 << 52) - 2, 1 << 51, (1 << 51) + 1, 0x5555555555555, 0xaaaaaaaaaaaaa] {
            if (e + seed) % 8 == 0 || e < 3 || e > 2043 || (1020..1080).contains(&e) {
                v.push((e << 52) | m);
                v.push((1 << 63) | (e << 52) | m);
            }
        }
    }
    // powers of ten and neighbours
    let mut p = 1e-323f64;
    while p.is_finite() {
        for d in [-2i64, -1, 0, 1, 2] {
            v.push((p.to_bits() as i64 + d) as u64);
        }
        p *= 10.0;
        if p == 0.0 { break; }
    }
    for k in -330i32..310 {
        let t: f64 = format!("1e{k}").parse().unwrap();
        if t.is_finite() && t > 0.0 {
            for d in [-1i64, 0, 1] {
                v.push((t.to_bits() as i64 + d) as u64);
            }
        }
    }
    v
}

fn main() {
    let stdin = std::io::stdin();
    let out = std::io::stdout();
    let mut out = out.lock();
    let mut eng = new_engine();
    for line in stdin.lock().lines() {
        let line = line.unwrap();
        let line = line.trim_end_matches(['\r', '\n']);
        if line.is_empty() {
            continue;
        }
        let (op, rest) = match line.find(' ') {
            Some(i) => (&line[..i], &line[i + 1..]),
            None => (line, ""),
        };
        let r = bh::guarded(|| -> String {
            let eng = &mut eng;
            match op {
                "tostr" | "rt" => {
                    let bits = u64::from_str_radix(rest.trim(), 16).unwrap();
                    let mut all = Vec::new();
                    for a in num_arg(bits) {
                        all.extend(call_all(eng, op, &[a]));
                    }
                    uniq(all)
                }
                "radix" | "fixed" | "exp" | "prec" => {
                    let mut p = rest.split_whitespace();
                    let bits = u64::from_str_radix(p.next().unwrap(), 16).unwrap();
                    let d = opt_int(p.next().unwrap_or("u"));
                    let mut all = Vec::new();
                    for a in num_arg(bits) {
                        all.extend(call_all(eng, op, &[a, d.clone()]));
                    }
                    uniq(all)
                }
                "num" | "pf" => {
                    let u = bh::unescape_units(rest);
                    uniq(call_all(eng, op, &[js_str(&u)]))
                }
                "pi" => {
                    // the radix is the last blank-separated field; the string may contain blanks
                    let (s, r) = match rest.rfind(' ') {
                        Some(i) => (&rest[..i], &rest[i + 1..]),
                        None => (rest, "u"),
                    };
                    let u = bh::unescape_units(s);
                    uniq(call_all(eng, op, &[js_str(&u), opt_int(r)]))
                }
                "lit" => {
                    let u = bh::unescape_units(rest);
                    let mut all = vec![eval_script(eng, &u, false), eval_script(eng, &u, true)];
                    all.extend(call_all(eng, "lit", &[js_str(&u)]));
                    all.join(" | ")
                }
                "sweep-rt" => {
                    let mut p = rest.split_whitespace();
                    let seed: u64 = p.next().unwrap().parse().unwrap();
                    let n: u64 = p.next().unwrap().parse().unwrap();
                    let mut cnt = 0u64;
                    for b in structured(seed) {
                        if let Err(e) = rt_one(eng, b) {
                            return format!("mismatch {e}");
                        }
                        cnt += 1;
                    }
                    let mut rng = Rng(seed.wrapping_mul(0x9E3779B97F4A7C15) | 1);
                    for _ in 0..n {
                        let b = rng.next();
                        if let Err(e) = rt_one(eng, b) {
                            return format!("mismatch {e}");
                        }
                        cnt += 1;
                    }
                    format!("ok {cnt}")
                }
                "sweep-int" => {
                    let mut p = rest.split_whitespace();
                    let seed: u64 = p.next().unwrap().parse().unwrap();
                    let n: u64 = p.next().unwrap().parse().unwrap();
                    let mut rng = Rng(seed.wrapping_mul(0x9E3779B97F4A7C15) | 1);
                    let mut cnt = 0u64;
                    let tbl = eng.table.clone();
                    let _ = tbl;
                    for i in 0..n {
                        let width = 1 + (rng.next() % 53);
                        let mut v = rng.next() & ((1u64 << width) - 1);
                        if i % 7 == 0 { v = (1u64 << width) - 1 - (v & 3); }
                        if i % 11 == 0 { v = 1u64 << width; }
                        let x = if rng.next() & 1 == 0 { v as f64 } else { -(v as f64) };
                        let radix = 2 + (rng.next() % 35) as i32;
                        let s = call_all(eng, "radix", &[JsValue::new(x), JsValue::new(radix)]);
                        let s0 = &s[0];
                        if !s0.starts_with("S:\"") {
                            return format!("mismatch x={:016x} radix={radix} toString={s0}", x.to_bits());
                        }
                        let text: Vec<u16> = s0[3..s0.len() - 1].encode_utf16().collect();
                        let back = call_all(eng, "pi", &[js_str(&text), JsValue::new(radix)]);
                        let want = if x == 0.0 { "N:0000000000000000".to_string() } else { format!("N:{:016x}", x.to_bits()) };
                        if back[0] != want {
                            return format!("mismatch x={:016x} radix={radix} toString={s0} parseInt={}", x.to_bits(), back[0]);
                        }
                        cnt += 1;
                    }
                    format!("ok {cnt}")
                }
                _ => format!("?op {op}"),
            }
        });
        let text = match r {
            Ok(s) => s,
            Err(m) => {
                // a panic may leave the context unusable: start from a fresh one
                eng = new_engine();
                format!("P:{}", bh::json_str(&m))
            }
        };
        writeln!(out, "{text}").unwrap();
    }
    out.flush().unwrap();
}
