//! C19 harness: parser totality + print/parse round trips on boa's real parser and printer.
//!
//! Input lines:
//!   rt <id> <escaped text>      full round-trip analysis of one source text (script goal)
//!   cfg k=v ...                 timeout=<ms per case>  dump=0|1 (emit the fragment S-expression of the first AST)
//! Output: one JSON object per case on one line:
//!   {"id":..,"st":"ok","p1":<printed text>,"re":"ok"|"err"|"panic","re_msg":..,"eq12":b,"p2eq":b,"eq23":b,
//!    "grow1":n,"grow2":n,"sexp":<string|null>,"unsup":<string|null>}
//!   {"id":..,"st":"err","kind":..,"line":n|null,"col":n|null,"inside":b,"msg":..}
//!   {"id":..,"st":"panic","msg":..}
//!   {"id":..,"st":"timeout"}   (then the process exits with code 3; the driver restarts after that case)
use boa_ast::scope::Scope;
use boa_interner::{Interner, ToInternedString};
use boa_parser::{Error as PErr, Parser, Source};
use std::io::{BufRead, Write};
use std::sync::atomic::{AtomicU64, Ordering};
use std::sync::{Arc, Mutex};

mod c19dump {
    //! boa AST -> S-expression in the constructor vocabulary of coq/C19/Model_C19.v; Err(kind) for any node
    //! outside the fragment.
    use boa_ast::declaration::{Binding, Declaration, LexicalDeclaration, Variable};
    use boa_ast::expression::access::{PropertyAccess, PropertyAccessField};
    use boa_ast::expression::literal::{LiteralKind, PropertyDefinition};
    use boa_ast::expression::operator::assign::AssignTarget;
    use boa_ast::expression::operator::update::{UpdateOp, UpdateTarget};
    use boa_ast::expression::Expression;
    use boa_ast::function::{FormalParameterList, FunctionBody};
    use boa_ast::property::PropertyName;
    use boa_ast::statement::iteration::{ForLoopInitializer, IterableLoopInitializer};
    use boa_ast::statement::{LabelledItem, Statement};
    use boa_ast::{StatementList, StatementListItem};
    use boa_interner::{Interner, Sym};

    type R = Result<String, String>;

    pub fn qs(s: &str) -> String {
        let mut o = String::from("\"");
        for c in s.chars() {
            match c {
                '"' => o.push_str("\\\""),
                '\\' => o.push_str("\\\\"),
                '!'..='~' => o.push(c),
                c => {
                    let mut b = [0u16; 2];
                    for u in c.encode_utf16(&mut b) {
                        o.push_str(&format!("\\u{:04x}", u));
                    }
                }
            }
        }
        o.push('"');
        o
    }

    fn sym(s: Sym, i: &Interner) -> String {
        qs(&i.resolve_expect(s).to_string())
    }

    fn binop(op: &str) -> Result<&'static str, String> {
        Ok(match op {
            "+" => "Add", "-" => "Sub", "*" => "Mul", "/" => "Div", "%" => "Mod", "**" => "Exp", "<<" => "Shl", ">>" => "Shr",
            ">>>" => "UShr", "<" => "Lt", ">" => "Gt", "<=" => "Le", ">=" => "Ge", "==" => "Eq", "!=" => "Ne", "===" => "SEq",
            "!==" => "SNe", "&" => "BitAnd", "|" => "BitOr", "^" => "BitXor", "&&" => "LAnd", "||" => "LOr", "??" => "Coal",
            "in" => "In", "instanceof" => "InstanceOf", "," => "Comma",
            o => return Err(format!("binop:{o}")),
        })
    }

    fn params(p: &FormalParameterList, i: &Interner) -> R {
        let mut out = Vec::new();
        for fp in p.as_ref() {
            if fp.is_rest_param() || fp.init().is_some() {
                return Err("param:rest-or-default".into());
            }
            match fp.variable().binding() {
                Binding::Identifier(id) => out.push(sym(id.sym(), i)),
                Binding::Pattern(_) => return Err("param:pattern".into()),
            }
        }
        Ok(format!("[{}]", out.join(" ")))
    }

    fn body(b: &FunctionBody, i: &Interner) -> R {
        if b.strict() {
            return Err("strict-body".into());
        }
        items(b.statement_list(), i)
    }

    fn list(v: Vec<String>) -> String {
        format!("[{}]", v.join(" "))
    }

    fn access(a: &PropertyAccess, i: &Interner) -> R {
        match a {
            PropertyAccess::Simple(s) => {
                let t = expr(s.target(), i)?;
                match s.field() {
                    PropertyAccessField::Const(id) => Ok(format!("(EMember {} {})", t, sym(id.sym(), i))),
                    PropertyAccessField::Expr(e) => Ok(format!("(EIndex {} {})", t, expr(e, i)?)),
                }
            }
            PropertyAccess::Private(_) => Err("access:private".into()),
            PropertyAccess::Super(_) => Err("access:super".into()),
        }
    }

    pub fn expr(e: &Expression, i: &Interner) -> R {
        Ok(match e {
            Expression::This(_) => "EThis".into(),
            Expression::Identifier(id) => format!("(EId {})", sym(id.sym(), i)),
            Expression::Literal(l) => match l.kind() {
                LiteralKind::String(s) => format!("(EStr {})", sym(*s, i)),
                LiteralKind::Int(n) if *n >= 0 => format!("(ENum {n})"),
                LiteralKind::Int(_) => return Err("lit:negative-int".into()),
                LiteralKind::Num(x) => {
                    if x.fract() == 0.0 && *x >= 0.0 && *x <= 9007199254740991.0 {
                        format!("(ENum {})", *x as u64)
                    } else {
                        return Err("lit:non-integer".into());
                    }
                }
                LiteralKind::BigInt(_) => return Err("lit:bigint".into()),
                LiteralKind::Bool(b) => format!("(EBool {b})"),
                LiteralKind::Null => "ENull".into(),
                LiteralKind::Undefined => return Err("lit:undefined".into()),
            },
            Expression::ArrayLiteral(a) => {
                let mut v = Vec::new();
                for el in a.as_ref() {
                    match el {
                        None => v.push("None".to_string()),
                        Some(Expression::Spread(_)) => return Err("spread".into()),
                        Some(x) => v.push(format!("(Some {})", expr(x, i)?)),
                    }
                }
                format!("(EArray {})", list(v))
            }
            Expression::ObjectLiteral(o) => {
                let mut v = Vec::new();
                for p in o.properties() {
                    match p {
                        PropertyDefinition::IdentifierReference(id) => v.push(format!("(PShort {})", sym(id.sym(), i))),
                        PropertyDefinition::Property(PropertyName::Literal(k), val) => {
                            v.push(format!("(PKV {} {})", sym(k.sym(), i), expr(val, i)?))
                        }
                        PropertyDefinition::Property(PropertyName::Computed(k), val) => {
                            v.push(format!("(PComputed {} {})", expr(k, i)?, expr(val, i)?))
                        }
                        PropertyDefinition::MethodDefinition(_) => return Err("prop:method".into()),
                        PropertyDefinition::SpreadObject(_) => return Err("prop:spread".into()),
                        PropertyDefinition::CoverInitializedName(..) => return Err("prop:cover-init".into()),
                    }
                }
                format!("(EObject {})", list(v))
            }
            Expression::Parenthesized(p) => format!("(EParen {})", expr(p.expression(), i)?),
            Expression::FunctionExpression(f) => {
                let name = match (f.has_binding_identifier(), f.name()) {
                    (true, Some(n)) => format!("(Some {})", sym(n.sym(), i)),
                    _ => "None".to_string(),
                };
                format!("(EFunc {} {} {})", name, params(f.parameters(), i)?, body(f.body(), i)?)
            }
            Expression::ArrowFunction(f) => format!("(EArrow {} {})", params(f.parameters(), i)?, body(f.body(), i)?),
            Expression::PropertyAccess(a) => access(a, i)?,
            Expression::Call(c) => {
                let mut v = Vec::new();
                for a in c.args() {
                    if matches!(a, Expression::Spread(_)) {
                        return Err("spread".into());
                    }
                    v.push(expr(a, i)?);
                }
                format!("(ECall {} {})", expr(c.function(), i)?, list(v))
            }
            Expression::New(n) => {
                let mut v = Vec::new();
                for a in n.arguments() {
                    if matches!(a, Expression::Spread(_)) {
                        return Err("spread".into());
                    }
                    v.push(expr(a, i)?);
                }
                format!("(ENew {} {})", expr(n.constructor(), i)?, list(v))
            }
            Expression::Update(u) => {
                let (pre, inc) = match u.op() {
                    UpdateOp::IncrementPost => (false, true),
                    UpdateOp::IncrementPre => (true, true),
                    UpdateOp::DecrementPost => (false, false),
                    UpdateOp::DecrementPre => (true, false),
                };
                let t = match u.target() {
                    UpdateTarget::Identifier(id) => format!("(EId {})", sym(id.sym(), i)),
                    UpdateTarget::PropertyAccess(a) => access(a, i)?,
                };
                format!("(EUpdate {pre} {inc} {t})")
            }
            Expression::Unary(u) => {
                let o = match u.op().to_string().as_str() {
                    "delete" => "UDelete", "void" => "UVoid", "typeof" => "UTypeof", "+" => "UPlus", "-" => "UMinus",
                    "~" => "UTilde", "!" => "UNot",
                    o => return Err(format!("unop:{o}")),
                };
                format!("(EUnary {} {})", o, expr(u.target(), i)?)
            }
            Expression::Binary(b) => {
                format!("(EBin {} {} {})", binop(&b.op().to_string())?, expr(b.lhs(), i)?, expr(b.rhs(), i)?)
            }
            Expression::Conditional(c) => {
                format!("(ECond {} {} {})", expr(c.condition(), i)?, expr(c.if_true(), i)?, expr(c.if_false(), i)?)
            }
            Expression::Assign(a) => {
                let ops = a.op().to_string();
                let o = if ops == "=" { "AAssign".to_string() } else { format!("(AOp {})", binop(&ops[..ops.len() - 1])?) };
                let t = match a.lhs() {
                    AssignTarget::Identifier(id) => format!("(EId {})", sym(id.sym(), i)),
                    AssignTarget::Access(acc) => access(acc, i)?,
                    AssignTarget::Pattern(_) => return Err("assign:pattern".into()),
                };
                format!("(EAssign {} {} {})", o, t, expr(a.rhs(), i)?)
            }
            Expression::RegExpLiteral(_) => return Err("regexp".into()),
            Expression::Spread(_) => return Err("spread".into()),
            Expression::AsyncArrowFunction(_) => return Err("async-arrow".into()),
            Expression::GeneratorExpression(_) => return Err("generator".into()),
            Expression::AsyncFunctionExpression(_) => return Err("async-function".into()),
            Expression::AsyncGeneratorExpression(_) => return Err("async-generator".into()),
            Expression::ClassExpression(_) => return Err("class".into()),
            Expression::TemplateLiteral(_) => return Err("template".into()),
            Expression::SuperCall(_) => return Err("super-call".into()),
            Expression::ImportCall(_) => return Err("import-call".into()),
            Expression::Optional(_) => return Err("optional".into()),
            Expression::TaggedTemplate(_) => return Err("tagged-template".into()),
            Expression::NewTarget(_) => return Err("new-target".into()),
            Expression::ImportMeta(_) => return Err("import-meta".into()),
            Expression::BinaryInPrivate(_) => return Err("in-private".into()),
            Expression::Await(_) => return Err("await".into()),
            Expression::Yield(_) => return Err("yield".into()),
            #[allow(unreachable_patterns)]
            _ => return Err("expr:other".into()),
        })
    }

    fn var(v: &Variable, i: &Interner) -> R {
        let name = match v.binding() {
            Binding::Identifier(id) => sym(id.sym(), i),
            Binding::Pattern(_) => return Err("binding:pattern".into()),
        };
        let init = match v.init() {
            Some(e) => format!("(Some {})", expr(e, i)?),
            None => "None".into(),
        };
        Ok(format!("(Pair {name} {init})"))
    }

    fn vars(vs: &[Variable], i: &Interner) -> R {
        let mut out = Vec::new();
        for v in vs {
            out.push(var(v, i)?);
        }
        Ok(list(out))
    }

    fn bind_name(b: &Binding, i: &Interner) -> R {
        match b {
            Binding::Identifier(id) => Ok(sym(id.sym(), i)),
            Binding::Pattern(_) => Err("binding:pattern".into()),
        }
    }

    fn head(h: &IterableLoopInitializer, i: &Interner) -> R {
        Ok(match h {
            IterableLoopInitializer::Identifier(id) => format!("(FHTarget (EId {}))", sym(id.sym(), i)),
            IterableLoopInitializer::Access(a) => format!("(FHTarget {})", access(a, i)?),
            IterableLoopInitializer::Var(v) => {
                if v.init().is_some() {
                    return Err("forin:var-init".into());
                }
                format!("(FHVar {})", bind_name(v.binding(), i)?)
            }
            IterableLoopInitializer::Let(b) => format!("(FHLet {})", bind_name(b, i)?),
            IterableLoopInitializer::Const(b) => format!("(FHConst {})", bind_name(b, i)?),
            IterableLoopInitializer::Pattern(_) => return Err("forin:pattern".into()),
        })
    }

    fn opt_e(e: Option<&Expression>, i: &Interner) -> R {
        Ok(match e {
            Some(x) => format!("(Some {})", expr(x, i)?),
            None => "None".into(),
        })
    }

    fn opt_sym(s: Option<Sym>, i: &Interner) -> String {
        match s {
            Some(x) => format!("(Some {})", sym(x, i)),
            None => "None".into(),
        }
    }

    pub fn stmt(s: &Statement, i: &Interner) -> R {
        Ok(match s {
            Statement::Block(b) => format!("(SBlock {})", items(b.statement_list(), i)?),
            Statement::Var(v) => format!("(SVar {})", vars(v.0.as_ref(), i)?),
            Statement::Empty => "SEmpty".into(),
            Statement::Expression(e) => format!("(SExpr {})", expr(e, i)?),
            Statement::If(x) => {
                let f = match x.else_node() {
                    Some(e) => format!("(Some {})", stmt(e, i)?),
                    None => "None".into(),
                };
                format!("(SIf {} {} {})", expr(x.cond(), i)?, stmt(x.body(), i)?, f)
            }
            Statement::DoWhileLoop(x) => format!("(SDoWhile {} {})", stmt(x.body(), i)?, expr(x.cond(), i)?),
            Statement::WhileLoop(x) => format!("(SWhile {} {})", expr(x.condition(), i)?, stmt(x.body(), i)?),
            Statement::ForLoop(x) => {
                let init = match x.init() {
                    None => "FINone".to_string(),
                    Some(ForLoopInitializer::Expression(e)) => format!("(FIExpr {})", expr(e, i)?),
                    Some(ForLoopInitializer::Var(v)) => format!("(FIVar {})", vars(v.0.as_ref(), i)?),
                    Some(ForLoopInitializer::Lexical(l)) => match l.declaration() {
                        LexicalDeclaration::Let(vl) => format!("(FILet {})", vars(vl.as_ref(), i)?),
                        LexicalDeclaration::Const(vl) => format!("(FIConst {})", vars(vl.as_ref(), i)?),
                        _ => return Err("using".into()),
                    },
                };
                format!("(SFor {} {} {} {})", init, opt_e(x.condition(), i)?, opt_e(x.final_expr(), i)?, stmt(x.body(), i)?)
            }
            Statement::ForInLoop(x) => {
                format!("(SForIn {} {} {})", head(x.initializer(), i)?, expr(x.target(), i)?, stmt(x.body(), i)?)
            }
            Statement::ForOfLoop(x) => {
                if x.r#await() {
                    return Err("for-await".into());
                }
                format!("(SForOf {} {} {})", head(x.initializer(), i)?, expr(x.iterable(), i)?, stmt(x.body(), i)?)
            }
            Statement::Switch(x) => {
                let mut cs = Vec::new();
                for c in x.cases() {
                    cs.push(format!("(Pair {} {})", opt_e(c.condition(), i)?, items(c.body(), i)?));
                }
                format!("(SSwitch {} {})", expr(x.val(), i)?, list(cs))
            }
            Statement::Continue(c) => format!("(SContinue {})", opt_sym(c.label(), i)),
            Statement::Break(c) => format!("(SBreak {})", opt_sym(c.label(), i)),
            Statement::Return(r) => format!("(SReturn {})", opt_e(r.target(), i)?),
            Statement::Labelled(l) => match l.item() {
                LabelledItem::Statement(x) => format!("(SLabelled {} {})", sym(l.label(), i), stmt(x, i)?),
                LabelledItem::FunctionDeclaration(_) => return Err("labelled-function".into()),
            },
            Statement::Throw(t) => format!("(SThrow {})", expr(t.target(), i)?),
            Statement::Try(t) => {
                let c = match t.catch() {
                    Some(c) => {
                        let p = match c.parameter() {
                            Some(b) => format!("(Some {})", bind_name(b, i)?),
                            None => "None".into(),
                        };
                        format!("(Some (Pair {} {}))", p, items(c.block().statement_list(), i)?)
                    }
                    None => "None".into(),
                };
                let f = match t.finally() {
                    Some(f) => format!("(Some {})", items(f.block().statement_list(), i)?),
                    None => "None".into(),
                };
                format!("(STry {} {} {})", items(t.block().statement_list(), i)?, c, f)
            }
            Statement::With(_) => return Err("with".into()),
            Statement::Debugger => "SDebugger".into(),
            #[allow(unreachable_patterns)]
            _ => return Err("stmt:other".into()),
        })
    }

    fn item(it: &StatementListItem, i: &Interner) -> R {
        match it {
            StatementListItem::Statement(s) => stmt(s, i),
            StatementListItem::Declaration(d) => match d.as_ref() {
                Declaration::FunctionDeclaration(f) => {
                    Ok(format!("(SFunDecl {} {} {})", sym(f.name().sym(), i), params(f.parameters(), i)?, body(f.body(), i)?))
                }
                Declaration::Lexical(LexicalDeclaration::Let(vl)) => Ok(format!("(SLet {})", vars(vl.as_ref(), i)?)),
                Declaration::Lexical(LexicalDeclaration::Const(vl)) => Ok(format!("(SConst {})", vars(vl.as_ref(), i)?)),
                Declaration::Lexical(_) => Err("using".into()),
                Declaration::GeneratorDeclaration(_) => Err("generator".into()),
                Declaration::AsyncFunctionDeclaration(_) => Err("async-function".into()),
                Declaration::AsyncGeneratorDeclaration(_) => Err("async-generator".into()),
                Declaration::ClassDeclaration(_) => Err("class".into()),
            },
        }
    }

    pub fn items(l: &StatementList, i: &Interner) -> R {
        if l.strict() {
            return Err("strict".into());
        }
        let mut out = Vec::new();
        for it in l.statements() {
            out.push(item(it, i)?);
        }
        Ok(list(out))
    }

    pub fn script(s: &boa_ast::Script, i: &Interner) -> R {
        items(s.statements(), i)
    }
}

mod feats {
    //! Syntactic features of an AST that the check uses to label a failing round trip, computed from the
    //! failing case itself (BUILDERS.md: class labels are predicates over the case).
    use boa_ast::declaration::LexicalDeclaration;
    use boa_ast::expression::access::{PropertyAccess, PropertyAccessField};
    use boa_ast::expression::literal::{Literal, LiteralKind, TemplateElement, TemplateLiteral};
    use boa_ast::expression::{Expression, RegExpLiteral, TaggedTemplate, Optional};
    use boa_ast::property::PropertyName;
    use boa_ast::statement::iteration::ForOfLoop;
    use boa_ast::statement::Statement;
    use boa_ast::visitor::{VisitWith, Visitor};
    use boa_ast::{StatementList, StatementListItem};
    use boa_interner::{Interner, Sym};
    use std::collections::BTreeSet;
    use std::ops::ControlFlow;

    pub struct F<'a> {
        pub i: &'a Interner,
        pub set: BTreeSet<&'static str>,
    }

    impl<'a> F<'a> {
        /// a string-literal expression statement in directive position whose value is "use strict" although the
        /// list is not strict (written with an escape or a line continuation): printed, it becomes a directive
        pub fn directives(&mut self, node: &StatementList) {
            if !node.strict() {
                for it in node.statements() {
                    if let StatementListItem::Statement(st) = it {
                        if let Statement::Expression(Expression::Literal(l)) = st.as_ref() {
                            if let LiteralKind::String(s) = l.kind() {
                                if self.text(*s).0 == "use strict" {
                                    self.set.insert("directive-escape");
                                }
                                continue;
                            }
                        }
                    }
                    break;
                }
            }
        }

        fn text(&self, s: Sym) -> (String, bool) {
            let r = self.i.resolve_expect(s);
            (r.to_string(), r.utf8().is_none() && String::from_utf16(r.utf16()).is_err())
        }
    }

    fn ident_like(s: &str) -> bool {
        let mut cs = s.chars();
        match cs.next() {
            Some(c) if c.is_alphabetic() || c == '_' || c == '$' => {}
            _ => return false,
        }
        cs.all(|c| c.is_alphanumeric() || c == '_' || c == '$' || c == '\u{200c}' || c == '\u{200d}')
    }

    impl<'a, 'ast> Visitor<'ast> for F<'a> {
        type BreakTy = ();

        fn visit_literal(&mut self, node: &'ast Literal) -> ControlFlow<()> {
            match node.kind() {
                LiteralKind::String(s) => {
                    let (t, lone) = self.text(*s);
                    if lone || t.chars().any(|c| matches!(c, '"' | '\\' | '\n' | '\r' | '\u{2028}' | '\u{2029}')) {
                        self.set.insert("str-escape");
                    }
                }
                LiteralKind::Num(x) if !x.is_finite() => {
                    self.set.insert("num-nonfinite");
                }
                LiteralKind::BigInt(_) => {
                    self.set.insert("bigint");
                }
                _ => {}
            }
            node.visit_with(self)
        }

        fn visit_property_name(&mut self, node: &'ast PropertyName) -> ControlFlow<()> {
            if let PropertyName::Literal(id) = node {
                let (t, lone) = self.text(id.sym());
                if lone || !ident_like(&t) {
                    self.set.insert("key-quote");
                }
            }
            node.visit_with(self)
        }

        fn visit_template_literal(&mut self, node: &'ast TemplateLiteral) -> ControlFlow<()> {
            self.set.insert("template");
            for e in node.elements() {
                if let TemplateElement::String(s) = e {
                    let (t, lone) = self.text(*s);
                    if lone || t.contains('`') || t.contains('\\') || t.contains("${") || t.contains('\r') {
                        self.set.insert("template-escape");
                    }
                }
            }
            node.visit_with(self)
        }

        fn visit_tagged_template(&mut self, node: &'ast TaggedTemplate) -> ControlFlow<()> {
            self.set.insert("tagged-template");
            node.visit_with(self)
        }

        fn visit_reg_exp_literal(&mut self, node: &'ast RegExpLiteral) -> ControlFlow<()> {
            self.set.insert("regexp");
            node.visit_with(self)
        }

        fn visit_optional(&mut self, node: &'ast Optional) -> ControlFlow<()> {
            self.set.insert("optional-chain");
            node.visit_with(self)
        }

        fn visit_property_access(&mut self, node: &'ast PropertyAccess) -> ControlFlow<()> {
            if let PropertyAccess::Simple(a) = node {
                if let (PropertyAccessField::Const(_), Expression::Literal(l)) = (a.field(), a.target()) {
                    match l.kind() {
                        LiteralKind::Int(_) => {
                            self.set.insert("num-dot");
                        }
                        LiteralKind::Num(x) => {
                            let t = x.to_string();
                            if !t.contains('.') && !t.contains('e') && !t.contains('n') {
                                self.set.insert("num-dot");
                            }
                        }
                        _ => {}
                    }
                }
            }
            node.visit_with(self)
        }

        fn visit_for_of_loop(&mut self, node: &'ast ForOfLoop) -> ControlFlow<()> {
            if node.r#await() {
                self.set.insert("for-await");
            }
            node.visit_with(self)
        }

        fn visit_lexical_declaration(&mut self, node: &'ast LexicalDeclaration) -> ControlFlow<()> {
            match node {
                LexicalDeclaration::AwaitUsing(_) => {
                    self.set.insert("await-using");
                }
                LexicalDeclaration::Using(_) => {
                    self.set.insert("using");
                }
                _ => {}
            }
            node.visit_with(self)
        }

        fn visit_statement_list(&mut self, node: &'ast StatementList) -> ControlFlow<()> {
            self.directives(node);
            node.visit_with(self)
        }

        fn visit_function_body(&mut self, node: &'ast boa_ast::function::FunctionBody) -> ControlFlow<()> {
            self.directives(node.statement_list());
            node.visit_with(self)
        }

        fn visit_statement(&mut self, node: &'ast Statement) -> ControlFlow<()> {
            // an expression statement whose printed form would start with `{`, `function`, `class`, `async function`
            // or `let [`: the leftmost operand (through the positions the printer prints first) is such a node
            // and is not parenthesised (the parser dropped the parentheses of an assignment / update target)
            if let Statement::Expression(e) = node {
                let mut cur = e;
                loop {
                    match cur {
                        Expression::ObjectLiteral(_) | Expression::FunctionExpression(_) | Expression::ClassExpression(_)
                        | Expression::GeneratorExpression(_) | Expression::AsyncFunctionExpression(_)
                        | Expression::AsyncGeneratorExpression(_) => {
                            self.set.insert("stmt-start");
                            break;
                        }
                        Expression::Binary(b) => cur = b.lhs(),
                        Expression::Conditional(c) => cur = c.condition(),
                        Expression::Call(c) => cur = c.function(),
                        Expression::TaggedTemplate(t) => cur = t.tag(),
                        Expression::Optional(o) => cur = o.target(),
                        Expression::PropertyAccess(PropertyAccess::Simple(a)) => {
                            if let (Expression::Identifier(id), PropertyAccessField::Expr(_)) = (a.target(), a.field()) {
                                if self.text(id.sym()).0 == "let" {
                                    self.set.insert("stmt-start");
                                }
                            }
                            cur = a.target()
                        }
                        Expression::PropertyAccess(PropertyAccess::Private(a)) => cur = a.target(),
                        Expression::Assign(a) => match a.lhs() {
                            boa_ast::expression::operator::assign::AssignTarget::Access(PropertyAccess::Simple(acc)) => {
                                if let (Expression::Identifier(id), PropertyAccessField::Expr(_)) = (acc.target(), acc.field()) {
                                    if self.text(id.sym()).0 == "let" {
                                        self.set.insert("stmt-start");
                                    }
                                }
                                cur = acc.target()
                            }
                            boa_ast::expression::operator::assign::AssignTarget::Access(PropertyAccess::Private(acc)) => cur = acc.target(),
                            boa_ast::expression::operator::assign::AssignTarget::Pattern(_) => {
                                self.set.insert("stmt-start");
                                break;
                            }
                            _ => break,
                        },
                        Expression::Update(u) => {
                            let post = matches!(u.op(), boa_ast::expression::operator::update::UpdateOp::IncrementPost
                                | boa_ast::expression::operator::update::UpdateOp::DecrementPost);
                            match (post, u.target()) {
                                (true, boa_ast::expression::operator::update::UpdateTarget::PropertyAccess(PropertyAccess::Simple(acc))) => cur = acc.target(),
                                (true, boa_ast::expression::operator::update::UpdateTarget::PropertyAccess(PropertyAccess::Private(acc))) => cur = acc.target(),
                                _ => break,
                            }
                        }
                        _ => break,
                    }
                }
            }
            node.visit_with(self)
        }

        fn visit_expression(&mut self, node: &'ast Expression) -> ControlFlow<()> {
            match node {
                Expression::ClassExpression(_) => { self.set.insert("class"); }
                Expression::AsyncArrowFunction(_) | Expression::AsyncFunctionExpression(_) => { self.set.insert("async"); }
                Expression::GeneratorExpression(_) | Expression::AsyncGeneratorExpression(_) | Expression::Yield(_) => { self.set.insert("generator"); }
                Expression::Await(_) => { self.set.insert("await"); }
                Expression::Spread(_) => { self.set.insert("spread"); }
                Expression::ArrowFunction(_) => { self.set.insert("arrow"); }
                Expression::NewTarget(_) => { self.set.insert("new-target"); }
                Expression::ImportCall(_) => { self.set.insert("import-call"); }
                Expression::SuperCall(_) => { self.set.insert("super"); }
                _ => {}
            }
            node.visit_with(self)
        }
    }

    pub fn of_item(it: &StatementListItem, i: &Interner) -> Vec<&'static str> {
        let mut f = F { i, set: BTreeSet::new() };
        // wrap: directive detection needs the list; a single item is never in directive position after printing
        let _ = f.visit_statement_list_item(it);
        f.set.into_iter().collect()
    }

    pub fn of_script(s: &boa_ast::Script, i: &Interner) -> Vec<&'static str> {
        let mut f = F { i, set: BTreeSet::new() };
        f.directives(s.statements());
        let _ = f.visit_script(s);
        f.set.into_iter().collect()
    }

    /// Debug rendering without positions and scope data (used to compare two ASTs modulo spans)
    pub fn norm_debug<T: std::fmt::Debug>(x: &T) -> String {
        let s = format!("{x:?}");
        let b = s.as_bytes();
        let names: [&[u8]; 6] = [b"Span", b"LinearSpan", b"LinearSpanIgnoreEq", b"LinearPosition", b"Scope", b"FunctionScopes"];
        let mut out = String::with_capacity(s.len() / 2);
        let mut i = 0;
        while i < b.len() {
            let c = b[i];
            let at_word_start = i == 0 || !(b[i - 1].is_ascii_alphanumeric() || b[i - 1] == b'_');
            if at_word_start && c.is_ascii_uppercase() {
                let mut j = i;
                while j < b.len() && (b[j].is_ascii_alphanumeric() || b[j] == b'_') {
                    j += 1;
                }
                let word = &b[i..j];
                if names.iter().any(|n| *n == word) {
                    // skip optional blank and one balanced group
                    let mut k = j;
                    while k < b.len() && b[k] == b' ' {
                        k += 1;
                    }
                    if k < b.len() && (b[k] == b'(' || b[k] == b'{') {
                        let mut depth = 0i32;
                        let mut in_str = false;
                        while k < b.len() {
                            let ch = b[k];
                            if in_str {
                                if ch == b'\\' {
                                    k += 1;
                                } else if ch == b'"' {
                                    in_str = false;
                                }
                            } else if ch == b'"' {
                                in_str = true;
                            } else if ch == b'(' || ch == b'{' || ch == b'[' {
                                depth += 1;
                            } else if ch == b')' || ch == b'}' || ch == b']' {
                                depth -= 1;
                                if depth == 0 {
                                    k += 1;
                                    break;
                                }
                            }
                            k += 1;
                        }
                        out.push('_');
                        i = k;
                        continue;
                    }
                }
                out.push_str(&s[i..j]);
                i = j;
                continue;
            }
            // copy one UTF-8 char
            let ch_len = match c {
                0..=0x7f => 1,
                0xc0..=0xdf => 2,
                0xe0..=0xef => 3,
                _ => 4,
            };
            out.push_str(&s[i..(i + ch_len).min(b.len())]);
            i += ch_len;
        }
        out
    }
}

fn now_ms() -> u64 {
    std::time::SystemTime::now().duration_since(std::time::UNIX_EPOCH).map(|d| d.as_millis() as u64).unwrap_or(0)
}

fn parse(text: &str, interner: &mut Interner) -> Result<boa_ast::Script, PErr> {
    let mut parser = Parser::new(Source::from_bytes(text.as_bytes()));
    let scope = Scope::new_global();
    parser.parse_script(&scope, interner)
}

/// (kind, line, col, message)
fn err_info(e: &PErr) -> (&'static str, Option<u32>, Option<u32>, String) {
    let msg = e.to_string();
    match e {
        PErr::Expected { span, .. } => ("Expected", Some(span.start().line_number()), Some(span.start().column_number()), msg),
        PErr::Unexpected { span, .. } => ("Unexpected", Some(span.start().line_number()), Some(span.start().column_number()), msg),
        PErr::AbruptEnd => ("AbruptEnd", None, None, msg),
        PErr::Lex { err } => match err {
            boa_parser::lexer::Error::Syntax(_, pos) => ("Lex", Some(pos.line_number()), Some(pos.column_number()), msg),
            boa_parser::lexer::Error::IO(_) => ("LexIO", None, None, msg),
        },
        PErr::ScopeAnalysis { .. } => ("ScopeAnalysis", None, None, msg),
        PErr::General { position, .. } => ("General", Some(position.line_number()), Some(position.column_number()), msg),
        #[allow(unreachable_patterns)]
        _ => ("Other", None, None, msg),
    }
}

/// lengths (in code points) of the lines of `text` as boa's lexer counts them (LF, CR, CRLF, LS, PS terminate a line)
fn line_lengths(text: &str) -> Vec<u32> {
    let mut out = Vec::new();
    let mut cur = 0u32;
    let cs: Vec<char> = text.chars().collect();
    let mut i = 0;
    while i < cs.len() {
        let c = cs[i];
        if c == '\r' && i + 1 < cs.len() && cs[i + 1] == '\n' {
            out.push(cur + 2);
            cur = 0;
            i += 2;
            continue;
        }
        if c == '\n' || c == '\r' || c == '\u{2028}' || c == '\u{2029}' {
            out.push(cur + 1);
            cur = 0;
        } else {
            cur += 1;
        }
        i += 1;
    }
    out.push(cur);
    out
}

fn inside(text: &str, line: Option<u32>, col: Option<u32>) -> bool {
    match (line, col) {
        (Some(l), Some(c)) => {
            let ll = line_lengths(text);
            if l == 0 || c == 0 {
                return false;
            }
            // the end-of-input position is one past the last character; a position on the line after a
            // trailing terminator is (nlines, 1)
            if (l as usize) > ll.len() {
                return false;
            }
            c <= ll[l as usize - 1] + 1
        }
        _ => true, // AbruptEnd / scope analysis carry no position
    }
}

fn jb(b: bool) -> &'static str {
    if b { "true" } else { "false" }
}

fn opt_u(v: Option<u32>) -> String {
    v.map(|x| x.to_string()).unwrap_or_else(|| "null".into())
}

fn analyse(id: &str, text: &str, dump: bool) -> String {
    let mut interner = Interner::default();
    let first = bh::guarded(|| parse(text, &mut interner));
    let ast1 = match first {
        Err(m) => return format!("{{\"id\":{},\"st\":\"panic\",\"msg\":{}}}", bh::json_str(id), bh::json_str(&m)),
        Ok(Err(e)) => {
            let (k, l, c, m) = err_info(&e);
            return format!(
                "{{\"id\":{},\"st\":\"err\",\"kind\":\"{}\",\"line\":{},\"col\":{},\"inside\":{},\"msg\":{}}}",
                bh::json_str(id), k, opt_u(l), opt_u(c), jb(inside(text, l, c)), bh::json_str(&m)
            );
        }
        Ok(Ok(a)) => a,
    };
    let (sexp, unsup) = if dump {
        match bh::guarded(|| c19dump::script(&ast1, &interner)) {
            Ok(Ok(s)) => (bh::json_str(&s), "null".to_string()),
            Ok(Err(u)) => ("null".to_string(), bh::json_str(&u)),
            Err(m) => ("null".to_string(), bh::json_str(&format!("dump-panic:{m}"))),
        }
    } else {
        ("null".to_string(), "null".to_string())
    };
    let p1 = match bh::guarded(|| ast1.to_interned_string(&interner)) {
        Ok(s) => s,
        Err(m) => return format!("{{\"id\":{},\"st\":\"panic\",\"msg\":{}}}", bh::json_str(id), bh::json_str(&format!("print: {m}"))),
    };
    let len1 = interner.len();
    let second = bh::guarded(|| parse(&p1, &mut interner));
    let grow1 = interner.len() - len1;
    let fl: Vec<String> = feats::of_script(&ast1, &interner).iter().map(|f| format!("\"{f}\"")).collect();
    let head = format!("{{\"id\":{},\"st\":\"ok\",\"p1\":{},\"sexp\":{},\"unsup\":{},\"feats\":[{}]", bh::json_str(id), bh::json_str(&p1), sexp, unsup, fl.join(","));
    let ast2 = match second {
        Err(m) => return format!("{head},\"re\":\"panic\",\"re_msg\":{},\"grow1\":{grow1}}}", bh::json_str(&m)),
        Ok(Err(e)) => {
            let (k, l, c, m) = err_info(&e);
            return format!("{head},\"re\":\"err\",\"re_kind\":\"{k}\",\"re_msg\":{},\"re_inside\":{},\"grow1\":{grow1}}}", bh::json_str(&m), jb(inside(&p1, l, c)));
        }
        Ok(Ok(a)) => a,
    };
    let eq12 = ast1 == ast2;
    let p2 = ast2.to_interned_string(&interner);
    let len2 = interner.len();
    let third = bh::guarded(|| parse(&p2, &mut interner));
    let grow2 = interner.len() - len2;
    let (eq23, re3) = match third {
        Ok(Ok(a3)) => (a3 == ast2, "ok"),
        Ok(Err(_)) => (false, "err"),
        Err(_) => (false, "panic"),
    };
    let p2f = if p2 == p1 { "null".to_string() } else { bh::json_str(&p2) };
    format!(
        "{head},\"re\":\"ok\",\"eq12\":{},\"p2eq\":{},\"p2\":{},\"eq23\":{},\"re3\":\"{re3}\",\"grow1\":{grow1},\"grow2\":{grow2}}}",
        jb(eq12), jb(p2 == p1), p2f, jb(eq23)
    )
}

/// per top-level item: print it alone, re-parse, compare modulo spans; used to localise and label a failing round trip
fn analyse_items(id: &str, text: &str) -> String {
    use boa_interner::ToIndentedString;
    let mut interner = Interner::default();
    let ast1 = match bh::guarded(|| parse(text, &mut interner)) {
        Ok(Ok(a)) => a,
        _ => return format!("{{\"id\":{},\"st\":\"err\"}}", bh::json_str(id)),
    };
    let p1 = ast1.to_interned_string(&interner);
    let ast2 = bh::guarded(|| parse(&p1, &mut interner)).ok().and_then(|r| r.ok());
    let items1 = ast1.statements().statements();
    let mut out = Vec::new();
    for (k, it) in items1.iter().enumerate() {
        let t = it.to_indented_string(&interner, 0);
        let fl: Vec<String> = feats::of_item(it, &interner).iter().map(|f| format!("\"{f}\"")).collect();
        let r = bh::guarded(|| parse(&t, &mut interner));
        let (re, stable, same) = match r {
            Ok(Ok(a)) => {
                let t2 = a.to_interned_string(&interner);
                let same = a.statements().statements().len() == 1
                    && feats::norm_debug(&a.statements().statements()[0]) == feats::norm_debug(it);
                ("ok", t2.trim_end() == t.trim_end(), same)
            }
            Ok(Err(_)) => ("err", false, false),
            Err(_) => ("panic", false, false),
        };
        // the same item in the re-parse of the whole printed script
        let same_whole = match &ast2 {
            Some(a2) => {
                let i2 = a2.statements().statements();
                i2.len() == items1.len() && feats::norm_debug(&i2[k]) == feats::norm_debug(it)
            }
            None => false,
        };
        out.push(format!(
            "{{\"k\":{k},\"text\":{},\"re\":\"{re}\",\"stable\":{},\"same\":{},\"same_whole\":{},\"feats\":[{}]}}",
            bh::json_str(&t), jb(stable), jb(same), jb(same_whole), fl.join(",")
        ));
    }
    let whole_strict_same = match &ast2 {
        Some(a2) => a2.statements().strict() == ast1.statements().strict(),
        None => false,
    };
    let fl: Vec<String> = feats::of_script(&ast1, &interner).iter().map(|f| format!("\"{f}\"")).collect();
    format!("{{\"id\":{},\"st\":\"ok\",\"strict_same\":{},\"feats\":[{}],\"items\":[{}]}}", bh::json_str(id), jb(whole_strict_same), fl.join(","), out.join(","))
}

/// boa's own lexer on a text (default goal symbol: a `/` starts a regular expression, so the check only sends texts
/// without `/`): the token stream in the word vocabulary of the model driver
fn lex_words(id: &str, text: &str) -> String {
    use boa_parser::lexer::{Lexer, TokenKind, token::Numeric};
    let mut interner = Interner::default();
    let r = bh::guarded(|| {
        struct Chars(std::vec::IntoIter<char>);
        impl boa_parser::source::ReadChar for Chars {
            fn next_char(&mut self) -> std::io::Result<Option<u32>> {
                Ok(self.0.next().map(|c| c as u32))
            }
        }
        let mut lexer = Lexer::new(Chars(text.chars().collect::<Vec<char>>().into_iter()));
        let mut out: Vec<String> = Vec::new();
        loop {
            match lexer.next(&mut interner) {
                Ok(Some(tok)) => {
                    let w = match tok.kind() {
                        TokenKind::BooleanLiteral((b, _)) => format!("B:{b}"),
                        TokenKind::NullLiteral(_) => "NULL".to_string(),
                        TokenKind::IdentifierName((s, _)) => format!("I:{}", interner.resolve_expect(*s)),
                        TokenKind::Keyword((k, _)) => format!("K:{}", k.as_str().0),
                        TokenKind::Punctuator(p) => p.to_string(),
                        TokenKind::NumericLiteral(Numeric::Integer(n)) => format!("N:{n}"),
                        TokenKind::NumericLiteral(Numeric::Rational(x)) => {
                            if x.fract() == 0.0 && *x >= 0.0 && *x <= 9007199254740991.0 { format!("N:{}", *x as u64) } else { format!("O:{x}") }
                        }
                        TokenKind::NumericLiteral(_) => "O:bigint".to_string(),
                        TokenKind::StringLiteral((s, _)) => format!("S:{}", c19dump::qs(&interner.resolve_expect(*s).to_string())),
                        TokenKind::LineTerminator | TokenKind::Comment => continue,
                        TokenKind::EOF => break,
                        _ => "O:other".to_string(),
                    };
                    out.push(w);
                }
                Ok(None) => break,
                Err(e) => return Err(e.to_string()),
            }
        }
        Ok(out)
    });
    match r {
        Ok(Ok(ws)) => format!("{{\"id\":{},\"st\":\"ok\",\"words\":{}}}", bh::json_str(id), bh::json_str(&ws.join(" "))),
        Ok(Err(m)) => format!("{{\"id\":{},\"st\":\"err\",\"msg\":{}}}", bh::json_str(id), bh::json_str(&m)),
        Err(m) => format!("{{\"id\":{},\"st\":\"panic\",\"msg\":{}}}", bh::json_str(id), bh::json_str(&m)),
    }
}

fn main() {
    let busy_since = Arc::new(AtomicU64::new(0));
    let cur_id = Arc::new(Mutex::new(String::new()));
    let timeout_ms = Arc::new(AtomicU64::new(10_000));
    {
        let busy_since = busy_since.clone();
        let cur_id = cur_id.clone();
        let timeout_ms = timeout_ms.clone();
        std::thread::spawn(move || loop {
            std::thread::sleep(std::time::Duration::from_millis(50));
            let b = busy_since.load(Ordering::SeqCst);
            if b != 0 && now_ms().saturating_sub(b) > timeout_ms.load(Ordering::SeqCst) {
                let id = cur_id.lock().map(|g| g.clone()).unwrap_or_default();
                let out = std::io::stdout();
                let mut out = out.lock();
                let _ = writeln!(out, "{{\"id\":{},\"st\":\"timeout\"}}", bh::json_str(&id));
                let _ = out.flush();
                std::process::exit(3);
            }
        });
    }
    let stack_mb: usize = std::env::var("C19_STACK_MB").ok().and_then(|s| s.parse().ok()).unwrap_or(64);
    let worker = std::thread::Builder::new().stack_size(stack_mb << 20).spawn(move || {
        let stdin = std::io::stdin();
        let mut dump = false;
        for line in stdin.lock().lines() {
            let Ok(line) = line else { break };
            if let Some(rest) = line.strip_prefix("cfg ") {
                for kv in rest.split_whitespace() {
                    if let Some((k, v)) = kv.split_once('=') {
                        match k {
                            "timeout" => timeout_ms.store(v.parse().unwrap_or(10_000), Ordering::SeqCst),
                            "dump" => dump = v == "1",
                            _ => {}
                        }
                    }
                }
                continue;
            }
            let (is_items, rest) = if let Some(r) = line.strip_prefix("rt ") {
                (0, r)
            } else if let Some(r) = line.strip_prefix("it ") {
                (1, r)
            } else if let Some(r) = line.strip_prefix("lx ") {
                (2, r)
            } else {
                continue;
            };
            let (id, text) = rest.split_once(' ').unwrap_or((rest, ""));
            let text = bh::unescape_string(text);
            if let Ok(mut g) = cur_id.lock() {
                *g = id.to_string();
            }
            busy_since.store(now_ms().max(1), Ordering::SeqCst);
            let res = match is_items { 1 => analyse_items(id, &text), 2 => lex_words(id, &text), _ => analyse(id, &text, dump) };
            busy_since.store(0, Ordering::SeqCst);
            let out = std::io::stdout();
            let mut out = out.lock();
            let _ = writeln!(out, "{res}");
            let _ = out.flush();
        }
    });
    match worker {
        Ok(h) => {
            let _ = h.join();
        }
        Err(_) => std::process::exit(2),
    }
}
