//! C17: module graphs through the public module API.
//!
//! One case per input line, one result line per case.
//!
//!   case   := mods '|' ops
//!   mods   := module (';' module)*            module k is named `m<k>` (specifier and path)
//!   module := flags ':' decls                 flags: '-' none | any of
//!                                               'T' throw before the awaits, 't' throw after the awaits,
//!                                               'a' one `await 0;` each, 'p' one `await Promise.resolve();` each
//!   decls  := '' | decl (',' decl)*           in source order; each decl is one import/export-from declaration
//!   decl   := 'i' t        import "m<t>";
//!           | 'n' t        import {v as n<j>} from "m<t>";            reads n<j>
//!           | 's' t        import * as s<j> from "m<t>";              reads s<j>.v
//!           | 'x' t        export {v as x<t>} from "m<t>";
//!           | 'e' t        export * from "m<t>";
//!           | 'r' t '.' u  import {x<u> as r<j>} from "m<t>";         reads r<j>   (link error unless m<t> exports x<u>)
//!           | 'b' t        import {nope as b<j>} from "m<t>";         always a link error
//!   ops    := op (',' op)*     op := 'L' k    -> m<k>.load_link_evaluate(ctx); ctx.run_jobs()
//!                              | 'P' k    -> m<k>.load(ctx); ctx.run_jobs()                 (state: of the load promise)
//!                              | 'E' k    -> m<k>.link(ctx); m<k>.evaluate(ctx)  WITHOUT draining the job queue
//!                                            (state: of the evaluation promise right now, usually P)
//!                              | 'J'      -> ctx.run_jobs()   (state: the states of all promises returned by E ops so far,
//!                                            in order, joined by '/')
//!   a target index >= number of modules names a module that is not registered (load error).
//!
//! Every module body is
//!   <decls>  export var v;  print("start:m<k>:"+reads);  v = 1;  [throw]  [awaits]  [throw]  v = 2;  print("end:m<k>:"+reads);
//! (flag 'l': `export let v = 1;` after the first print instead of `export var v; ... v = 1;`; other flag letters,
//! e.g. 'E' = "the model should expect a link error", are ignored here)
//! where `reads` is one character per reading declaration: first character of String(value) (u, 1, 2), or '!' when
//! reading throws (uninitialised binding).
//!
//! Result line:   op ';' op ...    op := 'L'k '=' state '~' trace(,) '~' loads(,)
//!   state: F | P | R:<ErrorName>[(<message>)] | X:<panic message>      (after X the case stops)
//!   loads: <referrer>'>'<specifier> for every ModuleLoader::load_imported_module call, in call order
//! `src <case>` prints the generated sources instead (one JSON string per module).
use boa_engine::builtins::promise::PromiseState;
use boa_engine::module::{MapModuleLoader, ModuleLoader, ModuleRequest, Referrer};
use boa_engine::{Context, JsResult, JsValue, Module, Source, js_string};
use std::cell::RefCell;
use std::io::{BufRead, Write};
use std::path::Path;
use std::rc::Rc;

thread_local! {
    static LOADS: RefCell<Vec<String>> = const { RefCell::new(Vec::new()) };
}

/// A loader that logs every request and then delegates to boa's `MapModuleLoader`.
/// The map is replaced for every case, so one `Context` can serve many cases (building a `Context` costs far more
/// than a case).  The context is thrown away after any op that did not fulfil (a throwing body leaves entries on the
/// engine's value stack — DESIGN.md section 5 #13 — which would accumulate), after a panic, and after 128 cases.
struct LogLoader {
    map: RefCell<Rc<MapModuleLoader>>,
}

thread_local! {
    static CTX: RefCell<Option<(Context, Rc<LogLoader>, u32)>> = const { RefCell::new(None) };
}

impl ModuleLoader for LogLoader {
    async fn load_imported_module(
        self: Rc<Self>,
        referrer: Referrer,
        request: ModuleRequest,
        context: &RefCell<&mut Context>,
    ) -> JsResult<Module> {
        let from = referrer
            .path()
            .map(|p| p.to_string_lossy().into_owned())
            .unwrap_or_else(|| "?".into());
        let spec = request.specifier().to_std_string_escaped();
        LOADS.with(|l| l.borrow_mut().push(format!("{from}>{spec}")));
        let map = self.map.borrow().clone();
        map.load_imported_module(referrer, request, context).await
    }
}

struct Decl {
    kind: char,
    t: usize,
    u: usize,
}

struct Mod {
    flags: String,
    decls: Vec<Decl>,
}

#[derive(Clone, Copy, PartialEq)]
enum OpKind {
    L,
    P,
    E,
    J,
}

fn parse_case(s: &str) -> Result<(Vec<Mod>, Vec<(OpKind, usize)>), String> {
    let (m, o) = s.split_once('|').ok_or("missing |")?;
    let mut mods = Vec::new();
    for ms in m.trim().split(';') {
        let (fl, ds) = ms.trim().split_once(':').ok_or("missing : in module")?;
        let mut decls = Vec::new();
        for d in ds.split(',') {
            let d = d.trim();
            if d.is_empty() {
                continue;
            }
            let kind = d.chars().next().unwrap();
            let rest = &d[1..];
            let (t, u) = if let Some((a, b)) = rest.split_once('.') {
                (a.parse::<usize>().map_err(|e| e.to_string())?, b.parse::<usize>().map_err(|e| e.to_string())?)
            } else {
                (rest.parse::<usize>().map_err(|e| e.to_string())?, 0)
            };
            if !"insxerb".contains(kind) {
                return Err(format!("bad decl kind {kind}"));
            }
            decls.push(Decl { kind, t, u });
        }
        mods.push(Mod { flags: fl.trim().to_string(), decls });
    }
    let mut ops = Vec::new();
    for op in o.trim().split(',') {
        let op = op.trim();
        if op.is_empty() {
            continue;
        }
        let kind = match op.chars().next().unwrap() {
            'L' => OpKind::L,
            'P' => OpKind::P,
            'E' => OpKind::E,
            'J' => OpKind::J,
            _ => return Err(format!("bad op {op}")),
        };
        if kind == OpKind::J {
            ops.push((kind, 0));
        } else {
            ops.push((kind, op[1..].parse::<usize>().map_err(|e| e.to_string())?));
        }
    }
    Ok((mods, ops))
}

fn source_of(k: usize, m: &Mod) -> String {
    let mut s = String::new();
    let mut reads = Vec::new();
    for (j, d) in m.decls.iter().enumerate() {
        match d.kind {
            'i' => s.push_str(&format!("import \"m{}\";\n", d.t)),
            'n' => {
                s.push_str(&format!("import {{v as n{j}}} from \"m{}\";\n", d.t));
                reads.push(format!("n{j}"));
            }
            's' => {
                s.push_str(&format!("import * as s{j} from \"m{}\";\n", d.t));
                reads.push(format!("s{j}.v"));
            }
            'x' => s.push_str(&format!("export {{v as x{}}} from \"m{}\";\n", d.t, d.t)),
            'e' => s.push_str(&format!("export * from \"m{}\";\n", d.t)),
            'r' => {
                s.push_str(&format!("import {{x{} as r{j}}} from \"m{}\";\n", d.u, d.t));
                reads.push(format!("r{j}"));
            }
            'b' => {
                s.push_str(&format!("import {{nope as b{j}}} from \"m{}\";\n", d.t));
            }
            _ => {}
        }
    }
    // every read is wrapped: an uninitialised binding (ReferenceError) prints as '!'
    let rd = reads.iter().map(|r| format!("rd(() => {r})")).collect::<Vec<_>>().join(" + ");
    let rd = if rd.is_empty() { "\"\"".to_string() } else { rd };
    let is_let = m.flags.contains('l');
    s.push_str("function rd(f) { try { return String(f())[0]; } catch (e) { return \"!\"; } }\n");
    if !is_let {
        s.push_str("export var v;\n");
    }
    s.push_str(&format!("print(\"start:m{k}:\" + {rd});\n"));
    if is_let {
        s.push_str("export let v = 1;\n");
    } else {
        s.push_str("v = 1;\n");
    }
    if m.flags.contains('T') {
        s.push_str(&format!("throw new Error(\"m{k}\");\n"));
    }
    for c in m.flags.chars() {
        match c {
            'a' => s.push_str("await 0;\n"),
            'p' => s.push_str("await Promise.resolve();\n"),
            _ => {}
        }
    }
    if m.flags.contains('t') {
        s.push_str(&format!("throw new Error(\"m{k}\");\n"));
    }
    s.push_str("v = 2;\n");
    s.push_str(&format!("print(\"end:m{k}:\" + {rd});\n"));
    s
}

fn describe_error(v: &JsValue, ctx: &mut Context) -> String {
    if let Some(o) = v.as_object() {
        let name = o
            .get(js_string!("name"), ctx)
            .ok()
            .and_then(|n| n.to_string(ctx).ok())
            .map(|s| s.to_std_string_escaped())
            .unwrap_or_else(|| "?".into());
        if name == "Error" {
            let msg = o
                .get(js_string!("message"), ctx)
                .ok()
                .and_then(|n| n.to_string(ctx).ok())
                .map(|s| s.to_std_string_escaped())
                .unwrap_or_default();
            return format!("Error({msg})");
        }
        return name;
    }
    "nonobject".into()
}

fn unquote(s: String) -> String {
    s.trim_matches('"').to_string()
}

fn run_case(line: &str) -> String {
    let (mods, ops) = match parse_case(line) {
        Ok(x) => x,
        Err(e) => return format!("bad-input {e}"),
    };
    LOADS.with(|l| l.borrow_mut().clear());
    let _ = bh::take_trace();
    let map = Rc::new(MapModuleLoader::new());
    let reuse = std::env::var_os("MODOPS_FRESH_CONTEXT").is_none();
    let cached = if reuse { CTX.with(|c| c.borrow_mut().take()) } else { None };
    let (mut ctx, loader, uses) = match cached {
        Some(x) => x,
        None => {
            let loader = Rc::new(LogLoader { map: RefCell::new(map.clone()) });
            let mut ctx = match Context::builder().module_loader(loader.clone()).build() {
                Ok(c) => c,
                Err(e) => return format!("bad-context {e}"),
            };
            bh::install_print(&mut ctx);
            (ctx, loader, 0)
        }
    };
    *loader.map.borrow_mut() = map.clone();
    let mut clean = true;
    let mut handles = Vec::new();
    for (k, m) in mods.iter().enumerate() {
        let src = source_of(k, m);
        let name = format!("m{k}");
        let parsed = Module::parse(Source::from_bytes(src.as_bytes()).with_path(Path::new(&name)), None, &mut ctx);
        match parsed {
            Ok(md) => {
                map.insert(&name, md.clone());
                handles.push(md);
            }
            Err(e) => return format!("parse-error m{k} {e}"),
        }
    }
    let mut out = Vec::new();
    let mut eval_promises: Vec<boa_engine::object::builtins::JsPromise> = Vec::new();
    for &(kind, k) in &ops {
        if kind != OpKind::L {
            // the split ops: the case is never reused for the next one (pending evaluations stay in the context)
            clean = false;
            let name = match kind {
                OpKind::P => format!("P{k}"),
                OpKind::E => format!("E{k}"),
                _ => "J".to_string(),
            };
            if kind != OpKind::J && k >= handles.len() {
                out.push(format!("{name}=bad-op~~"));
                continue;
            }
            let r = bh::guarded(|| -> Result<String, String> {
                match kind {
                    OpKind::P => {
                        let p = handles[k].load(&mut ctx);
                        let jr = ctx.run_jobs();
                        let st = match p.state() {
                            PromiseState::Pending => "P".to_string(),
                            PromiseState::Fulfilled(_) => "F".to_string(),
                            PromiseState::Rejected(v) => format!("R:{}", describe_error(&v, &mut ctx)),
                        };
                        Ok(if jr.is_err() { format!("{st}!jobs-error") } else { st })
                    }
                    OpKind::E => {
                        if let Err(e) = handles[k].link(&mut ctx) {
                            let v = e.into_opaque(&mut ctx).map_err(|e| e.to_string())?;
                            return Ok(format!("R:{}", describe_error(&v, &mut ctx)));
                        }
                        match handles[k].evaluate(&mut ctx) {
                            Ok(p) => {
                                let st = match p.state() {
                                    PromiseState::Pending => "P".to_string(),
                                    PromiseState::Fulfilled(_) => "F".to_string(),
                                    PromiseState::Rejected(v) => format!("R:{}", describe_error(&v, &mut ctx)),
                                };
                                eval_promises.push(p);
                                Ok(st)
                            }
                            Err(e) => Ok(format!("R!evaluate-err:{e}")),
                        }
                    }
                    _ => {
                        let jr = ctx.run_jobs();
                        let mut sts = Vec::new();
                        for p in &eval_promises {
                            sts.push(match p.state() {
                                PromiseState::Pending => "P".to_string(),
                                PromiseState::Fulfilled(_) => "F".to_string(),
                                PromiseState::Rejected(v) => format!("R:{}", describe_error(&v, &mut ctx)),
                            });
                        }
                        let st = sts.join("/");
                        Ok(if jr.is_err() { format!("{st}!jobs-error") } else { st })
                    }
                }
            });
            let trace: Vec<String> = bh::take_trace().into_iter().map(unquote).collect();
            let loads: Vec<String> = LOADS.with(|l| std::mem::take(&mut *l.borrow_mut()));
            match r {
                Ok(Ok(st)) => out.push(format!("{name}={st}~{}~{}", trace.join(","), loads.join(","))),
                Ok(Err(msg)) => {
                    out.push(format!("{name}=X:{}~{}~{}", msg.replace(['\n', ';', '~'], " "), trace.join(","), loads.join(",")));
                    break;
                }
                Err(msg) => {
                    let msg = msg.replace(['\n', ';', '~'], " ");
                    out.push(format!("{name}=X:{msg}~{}~{}", trace.join(","), loads.join(",")));
                    break;
                }
            }
            continue;
        }
        if k >= handles.len() {
            out.push(format!("L{k}=bad-op~~"));
            continue;
        }
        let md = handles[k].clone();
        let r = bh::guarded(|| {
            let p = md.load_link_evaluate(&mut ctx);
            let jr = ctx.run_jobs();
            (p, jr.is_err())
        });
        let trace: Vec<String> = bh::take_trace().into_iter().map(unquote).collect();
        let loads: Vec<String> = LOADS.with(|l| std::mem::take(&mut *l.borrow_mut()));
        match r {
            Ok((p, jobs_err)) => {
                let st = match p.state() {
                    PromiseState::Pending => "P".to_string(),
                    PromiseState::Fulfilled(_) => "F".to_string(),
                    PromiseState::Rejected(v) => format!("R:{}", describe_error(&v, &mut ctx)),
                };
                if st != "F" {
                    clean = false;
                }
                if jobs_err {
                    clean = false;
                }
                let st = if jobs_err { format!("{st}!jobs-error") } else { st };
                out.push(format!("L{k}={st}~{}~{}", trace.join(","), loads.join(",")));
            }
            Err(msg) => {
                let msg = msg.replace(['\n', ';', '~'], " ");
                out.push(format!("L{k}=X:{msg}~{}~{}", trace.join(","), loads.join(",")));
                clean = false;
                break;
            }
        }
    }
    drop(handles);
    if clean && reuse && uses < 128 {
        CTX.with(|c| *c.borrow_mut() = Some((ctx, loader, uses + 1)));
    }
    out.join(";")
}

fn main() {
    let stdin = std::io::stdin();
    let out = std::io::stdout();
    let mut out = out.lock();
    for line in stdin.lock().lines() {
        let line = line.unwrap();
        let line = line.trim();
        if line.is_empty() {
            continue;
        }
        if let Some(rest) = line.strip_prefix("src ") {
            match parse_case(rest) {
                Ok((mods, _)) => {
                    let v: Vec<String> = mods.iter().enumerate().map(|(k, m)| bh::json_str(&source_of(k, m))).collect();
                    writeln!(out, "{}", bh::json_list(&v)).unwrap();
                }
                Err(e) => writeln!(out, "bad-input {e}").unwrap(),
            }
            continue;
        }
        // the whole case (context construction included) is guarded as well
        let r = match bh::guarded(|| run_case(line)) {
            Ok(s) => s,
            Err(msg) => format!("X-outer:{}", msg.replace('\n', " ")),
        };
        writeln!(out, "{r}").unwrap();
        out.flush().unwrap();
    }
}
