//! C10 runner: evaluates a program under a collection schedule and checks that nothing is left behind.
//!
//! Input lines:
//!   cfg gc=<n> nogc=0|1 init=0|1
//!                         gc: force a full collection at every n-th allocation (0 = the engine's own policy);
//!                         nogc=1: the host functions gc()/gcstress() do nothing (baseline run);
//!                         init=1: the schedule is already active while the context and its intrinsics are built
//!   run <id> <escaped program text>
//! Output: `<id>\t<status>\t<trace>\t<completion>\t<leak>\t<collections>`
//!   leak = `ds,dw,dm` : boxes / ephemerons / weak maps alive after the context was dropped and a
//!   collection ran, minus the numbers before the context was created (after a warm-up context, so that
//!   thread-local caches that are filled once per thread do not count).
//! Host functions installed next to `print`: `gc()` (collect now), `gcstress(n)` (change the schedule).
use boa_engine::{Context, JsError, JsResult, JsValue, NativeFunction, Source, js_string};
use std::io::{BufRead, Write};

fn type_and_text(v: &JsValue, ctx: &mut Context) -> String {
    let ty = v.type_of();
    if v.is_object() {
        return format!("{}:[{}]", ty, if v.is_callable() { "function" } else { "object" });
    }
    if v.is_symbol() {
        return format!("symbol:{}", bh::json_str(&v.display().to_string()));
    }
    match v.to_string(ctx) {
        Ok(s) => format!("{}:{}", ty, bh::json_units(&s.iter().collect::<Vec<u16>>())),
        Err(_) => format!("{}:?", ty),
    }
}

fn kind_name(dbg: &str) -> String {
    let k: String = dbg.chars().take_while(|c| c.is_alphanumeric()).collect();
    match k.as_str() {
        "Error" => "Error".into(),
        "Aggregate" => "AggregateError".into(),
        "Type" => "TypeError".into(),
        "Range" => "RangeError".into(),
        "Reference" => "ReferenceError".into(),
        "Syntax" => "SyntaxError".into(),
        "Eval" => "EvalError".into(),
        "Uri" => "URIError".into(),
        other => other.to_string(),
    }
}

fn error_class(e: &JsError, ctx: &mut Context) -> String {
    if let Some(en) = e.as_engine() {
        let s = en.to_string();
        if s.starts_with("RuntimeLimitError") {
            return "L:limit".to_string();
        }
        return format!("P:{}", bh::json_str(&s));
    }
    if let Some(n) = e.as_native() {
        return format!("T:{}", kind_name(&format!("{:?}", n.kind())));
    }
    if let Some(v) = e.as_opaque() {
        if v.is_object() {
            if let Ok(n) = e.try_native(ctx) {
                return format!("T:{}", kind_name(&format!("{:?}", n.kind())));
            }
            return "T:throw:object".to_string();
        }
        let v = v.clone();
        return format!("T:throw:{}", type_and_text(&v, ctx));
    }
    "T:?".to_string()
}

thread_local! { static NOGC: std::cell::Cell<bool> = const { std::cell::Cell::new(false) }; }

fn host_gc(_this: &JsValue, _args: &[JsValue], _ctx: &mut Context) -> JsResult<JsValue> {
    if NOGC.with(std::cell::Cell::get) {
        return Ok(JsValue::undefined());
    }
    boa_gc::force_collect();
    Ok(JsValue::undefined())
}

fn host_gcstress(_this: &JsValue, args: &[JsValue], ctx: &mut Context) -> JsResult<JsValue> {
    let n = args.first().cloned().unwrap_or_default().to_u32(ctx)? as usize;
    #[cfg(boa_verif)]
    if !NOGC.with(std::cell::Cell::get) {
        boa_gc::verif::set_stress(n);
    }
    let _ = n;
    Ok(JsValue::undefined())
}

#[cfg(boa_verif)]
fn stats() -> (usize, usize, usize, usize) {
    let s = boa_gc::verif::stats();
    (s.0, s.1, s.2, s.4)
}
#[cfg(not(boa_verif))]
fn stats() -> (usize, usize, usize, usize) {
    (0, 0, 0, 0)
}

fn run_case(gc: usize, init: bool, text: &[u16]) -> (String, String, String, usize) {
    let src = String::from_utf16_lossy(text);
    boa_gc::force_collect();
    let before = stats();
    let (trace, comp) = {
        #[cfg(boa_verif)]
        if init {
            boa_gc::verif::set_stress(gc);
        }
        let _ = init;
        let mut ctx = Context::default();
        bh::install_print(&mut ctx);
        ctx.register_global_builtin_callable(js_string!("gc"), 0, NativeFunction::from_fn_ptr(host_gc)).expect("gc");
        ctx.register_global_builtin_callable(js_string!("gcstress"), 1, NativeFunction::from_fn_ptr(host_gcstress)).expect("gcstress");
        #[cfg(boa_verif)]
        boa_gc::verif::set_stress(gc);
        let _ = gc;
        let r = ctx.eval(Source::from_bytes(src.as_bytes()));
        let mut comp = match r {
            Ok(v) => format!("V:{}", type_and_text(&v, &mut ctx)),
            Err(e) => error_class(&e, &mut ctx),
        };
        // Drain the job queue.  A cleanup callback of a FinalizationRegistry may throw (the generator marks such
        // errors with the message prefix "FRCB"): whether it runs at all depends on the collection schedule, so
        // it is a weak observation (line `F!:<message>`), and the queue is drained again afterwards (with a
        // collection in between when collections are allowed, so that a second clean-up pass can happen).
        for round in 0..12 {
            match ctx.run_jobs() {
                Ok(()) => {
                    if round >= 2 || !src.contains("FRCB") {
                        break;
                    }
                    if !NOGC.with(std::cell::Cell::get) {
                        boa_gc::force_collect();
                    }
                }
                Err(e) => {
                    let msg = e.try_native(&mut ctx).map(|n| n.message().to_string()).unwrap_or_default();
                    if msg.starts_with("FRCB") {
                        bh::TRACE.with(|t| t.borrow_mut().push(bh::json_str(&format!("F!:{msg}"))));
                        if !NOGC.with(std::cell::Cell::get) {
                            boa_gc::force_collect();
                        }
                    } else {
                        comp.push_str(&format!(" jobs:{}", error_class(&e, &mut ctx)));
                        break;
                    }
                }
            }
        }
        #[cfg(boa_verif)]
        boa_gc::verif::set_stress(0);
        (bh::json_list(&bh::take_trace()), comp)
    };
    // the context is gone: everything it allocated must be reclaimable now
    boa_gc::force_collect();
    boa_gc::force_collect();
    let after = stats();
    let leak = format!(
        "{},{},{}",
        after.0 as i64 - before.0 as i64,
        after.1 as i64 - before.1 as i64,
        after.2 as i64 - before.2 as i64
    );
    (trace, comp, leak, after.3 - before.3)
}

fn main() {
    let stdin = std::io::stdin();
    let out = std::io::stdout();
    let mut out = out.lock();
    let mut gc = 0usize;
    let mut init = false;
    // warm-up: thread-local, once-per-thread caches (static shapes, symbols, ...) are filled here
    let _ = bh::guarded(|| {
        let mut c = Context::default();
        let _ = c.eval(Source::from_bytes(b"[1,2,3].map(x => x + 1); new Map(); ({a: 1}).a"));
        let _ = c.run_jobs();
    });
    for line in stdin.lock().lines() {
        let line = line.unwrap();
        if let Some(rest) = line.strip_prefix("cfg ") {
            for kv in rest.split_whitespace() {
                match kv.split_once('=') {
                    Some(("gc", v)) => gc = v.parse().unwrap_or(0),
                    Some(("nogc", v)) => NOGC.with(|c| c.set(v == "1")),
                    Some(("init", v)) => init = v == "1",
                    _ => {}
                }
            }
            continue;
        }
        let Some(rest) = line.strip_prefix("run ") else { continue };
        let (id, text) = rest.split_once(' ').unwrap_or((rest, ""));
        let units = bh::unescape_units(text);
        match bh::guarded(|| run_case(gc, init, &units)) {
            Ok((trace, comp, leak, cols)) => writeln!(out, "{id}\tok\t{trace}\t{comp}\t{leak}\t{cols}").unwrap(),
            Err(m) => {
                #[cfg(boa_verif)]
                boa_gc::verif::set_stress(0);
                let trace = bh::json_list(&bh::take_trace());
                writeln!(out, "{id}\tpanic\t{trace}\tP:{}\t-\t0", bh::json_str(&m)).unwrap()
            }
        }
        out.flush().unwrap();
    }
}
