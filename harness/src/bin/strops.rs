//! C11: string behaviour depends only on the code-unit sequence.
//!
//! Every string is built through every constructor of boa_string's public API, every operation is
//! run on every constructor (pair), and the results are printed grouped by the representation
//! (L = Latin-1 buffer, U = UTF-16 buffer) so that the check can diff them against the Coq model;
//! a native oracle on plain `Vec<u16>` is evaluated next to it.
//!
//! Lines (tokens separated by blanks; a unit list is comma separated hex, `-` = empty):
//!   case <id> <A> <B> <from> <p1> <p2> <byte>   all unary fields of A, all binary fields of (A,B)
//!   sweep <seed> <count> <maxlen> [skip] [full] random cases, oracle checked inside, `ok <n> <evals> <known>` or `mismatch <case line> :: <what>`
//!   exh <len_a> <len_b> <part> <parts> <seed> <stride> [skip]   exhaustive alphabet strings of the given lengths (A x B), oracle checked inside
//!        full: binary operations on every constructor pair (default in sweeps: every constructor of A x the REP_B constructors of B)
//!        skip = 1: `JsStr == str` mismatches of the two known classes of the unpatched tree are counted, not reported
//!   units1 <lo> <hi> [skip]                     every one-unit string in [lo,hi) in every representation against the oracle (trim predicates, code points, == str ...)
//!   js <id> <escaped source>                    evaluate a script, print V:<string> or T:<ErrorName>
//!   ctors <A>                                   list constructor names with repr/static flags
//! Output of `case`: `<id>\t<field>@<G>=<value>...` with G in {L,U} (unary) or {LL,LU,UL,UU}; a
//! constructor disagreeing with the first of its group gives `!<field>@<G>:<ctor>=<value>`, a
//! constructor disagreeing with the native oracle gives `?<field>@<G>:<ctor>=<value>~<oracle>`.
use boa_engine::{Context, JsString, Source, js_string};
use boa_string::{
    CodePoint, CommonJsStringBuilder, JsStr, Latin1JsStringBuilder, StaticString, Utf16JsStringBuilder,
};
use std::cmp::Ordering;
use std::collections::hash_map::DefaultHasher;
use std::hash::{Hash, Hasher};
use std::io::{BufRead, Write};

// ------------------------------------------------------------------------------------------------
// encoders (must match the `enc_*` functions of coq/C11/Eval_C11.v)

fn e_bool(b: bool) -> String { if b { "1".into() } else { "0".into() } }
fn e_units(u: &[u16]) -> String {
    let mut s = u.len().to_string();
    for x in u { s.push(','); s.push_str(&x.to_string()); }
    s
}
fn e_u32s(u: &[u32]) -> String {
    let mut s = u.len().to_string();
    for x in u { s.push(','); s.push_str(&x.to_string()); }
    s
}
fn e_opt_usize(o: Option<usize>) -> String { match o { None => "0".into(), Some(n) => format!("1,{n}") } }
fn e_opt_u16(o: Option<u16>) -> String { match o { None => "0".into(), Some(n) => format!("1,{n}") } }
fn e_ord(o: Ordering) -> String { match o { Ordering::Less => "0", Ordering::Equal => "1", Ordering::Greater => "2" }.into() }
fn e_cp(c: CodePoint) -> String {
    match c { CodePoint::Unicode(c) => format!("0,{}", c as u32), CodePoint::UnpairedSurrogate(u) => format!("1,{u}") }
}
fn e_cps(v: &[CodePoint]) -> String {
    let mut s = v.len().to_string();
    for c in v { s.push(','); s.push_str(&e_cp(*c)); }
    s
}
fn e_opt_scalars(o: Option<Vec<u32>>) -> String { match o { None => "0".into(), Some(v) => format!("1,{}", e_u32s(&v)) } }
fn scalars(s: &str) -> Vec<u32> { s.chars().map(|c| c as u32).collect() }

/// Records the sequence of Hasher calls (0 = write_usize, 1 = write_u16, 9 = anything else).
#[derive(Default)]
struct Rec(Vec<u64>, usize);
impl Hasher for Rec {
    fn finish(&self) -> u64 { 0 }
    fn write(&mut self, bytes: &[u8]) { self.1 += 1; self.0.push(9); self.0.push(bytes.len() as u64); }
    fn write_u16(&mut self, i: u16) { self.1 += 1; self.0.push(1); self.0.push(u64::from(i)); }
    fn write_usize(&mut self, i: usize) { self.1 += 1; self.0.push(0); self.0.push(i as u64); }
}
fn e_hash<T: Hash>(v: &T) -> String {
    let mut r = Rec::default();
    v.hash(&mut r);
    let mut s = r.1.to_string();
    for x in &r.0 { s.push(','); s.push_str(&x.to_string()); }
    s
}
fn sip<T: Hash>(v: &T) -> String {
    let mut h = DefaultHasher::new();
    v.hash(&mut h);
    format!("{}", h.finish())
}

// ------------------------------------------------------------------------------------------------
// constructors

/// Owns the buffers that `'static` views (static strings) point into; dropped after the strings.
#[derive(Default)]
struct Keep { bytes: Vec<Box<[u8]>>, units: Vec<Box<[u16]>>, statics: Vec<Box<StaticString>> }
impl Keep {
    fn bytes(&mut self, b: Vec<u8>) -> &'static [u8] {
        self.bytes.push(b.into_boxed_slice());
        let r: &[u8] = self.bytes.last().unwrap();
        // SAFETY: the box is kept alive (and never moved) until the Keep is dropped, after every string built from it.
        unsafe { std::slice::from_raw_parts(r.as_ptr(), r.len()) }
    }
    fn units(&mut self, b: Vec<u16>) -> &'static [u16] {
        self.units.push(b.into_boxed_slice());
        let r: &[u16] = self.units.last().unwrap();
        // SAFETY: as above.
        unsafe { std::slice::from_raw_parts(r.as_ptr(), r.len()) }
    }
    fn stat(&mut self, s: JsStr<'static>) -> &'static StaticString {
        self.statics.push(Box::new(StaticString::new(s)));
        let r: &StaticString = self.statics.last().unwrap();
        // SAFETY: as above.
        unsafe { &*(r as *const StaticString) }
    }
}

fn latin1_of(u: &[u16]) -> Option<Vec<u8>> {
    u.iter().map(|&x| u8::try_from(x).ok()).collect()
}
fn best<'a>(u: &'a [u16], l: &'a Option<Vec<u8>>) -> JsStr<'a> {
    match l { Some(b) => JsStr::latin1(b), None => JsStr::utf16(u) }
}
fn decode(u: &[u16]) -> Vec<Result<char, u16>> {
    char::decode_utf16(u.iter().copied()).map(|r| r.map_err(|e| e.unpaired_surrogate())).collect()
}

struct Built { name: &'static str, s: JsString }

fn build_all(u: &[u16], keep: &mut Keep) -> Vec<Built> {
    let n = u.len();
    let mut out: Vec<Built> = Vec::new();
    let mut add = |name: &'static str, s: JsString| out.push(Built { name, s });
    let lat = latin1_of(u);
    let std_string = String::from_utf16(u).ok();

    add("u16", JsString::from(u));
    add("macro", js_string!(u));
    add("jsstr_u", JsString::from(JsStr::utf16(u)));
    if let Some(s) = &std_string {
        add("str", JsString::from(s.as_str()));
        add("string", JsString::from(s.clone()));
        add("cow", JsString::from(std::borrow::Cow::Borrowed(s.as_str())));
        add("fromstr", s.parse::<JsString>().unwrap());
    }
    if let Some(b) = &lat {
        add("jsstr_l", JsString::from(JsStr::latin1(b)));
        let sb = keep.bytes(b.clone());
        add("static_l", JsString::from_static(keep.stat(JsStr::latin1(sb))));
    }
    let su = keep.units(u.to_vec());
    add("static_u", JsString::from_static(keep.stat(JsStr::utf16(su))));

    // slices of longer strings
    {
        let mut pu: Vec<u16> = vec![0x3c0, 0x79];
        pu.extend_from_slice(u);
        pu.push(0xd800);
        let parent = JsString::from(&pu[..]);
        add("slice_u", parent.slice(2, 2 + n));
        add("get_u", parent.get(2..2 + n).expect("in range"));
        add("get_u_incl", if n > 0 { parent.get(2..=1 + n).expect("in range") } else { parent.get(2..2).unwrap() });
        let mid = parent.slice(1, 3 + n);
        add("slice2_u", mid.slice(1, 1 + n));
        let tail = parent.get(2..).unwrap();
        add("slice_tail_u", tail.get(..n).unwrap());
    }
    if let Some(b) = &lat {
        let mut pb: Vec<u8> = vec![b'x', 0xe9];
        pb.extend_from_slice(b);
        pb.push(b'z');
        let parent = JsString::from(JsStr::latin1(&pb));
        add("slice_l", parent.slice(2, 2 + n));
        add("get_l", parent.get(2..2 + n).expect("in range"));
        let mid = parent.slice(1, 3 + n);
        add("slice2_l", mid.slice(1, 1 + n));
        // slice of a static parent
        let sp = keep.bytes(pb.clone());
        let sparent = JsString::from_static(keep.stat(JsStr::latin1(sp)));
        add("slice_static_l", sparent.slice(2, 2 + n));
    }
    // trimming a padded string (only when the content itself does not start/end with whitespace)
    if n > 0 && JsString::from(u).trim().len() == n {
        let mut pu: Vec<u16> = vec![0x20, 0xfeff];
        pu.extend_from_slice(u);
        pu.extend_from_slice(&[0x0a, 0x2028]);
        add("trim_u", JsString::from(&pu[..]).trim());
        add("trim_se_u", JsString::from(&pu[..]).trim_start().trim_end());
        if let Some(b) = &lat {
            let mut pb: Vec<u8> = vec![0x20, 0xa0];
            pb.extend_from_slice(b);
            pb.extend_from_slice(&[0x0a, 0x09]);
            add("trim_l", JsString::from(JsStr::latin1(&pb)).trim());
            add("trim_es_l", JsString::from(JsStr::latin1(&pb)).trim_end().trim_start());
        }
    }
    // concatenations
    {
        let k = n / 2;
        let (a, b) = u.split_at(k);
        let (la, lb) = (latin1_of(a), latin1_of(b));
        add("concat_uu", JsString::concat(JsStr::utf16(a), JsStr::utf16(b)));
        add("concat_best", JsString::concat(best(a, &la), best(b, &lb)));
        if let Some(la) = &la { add("concat_lu", JsString::concat(JsStr::latin1(la), JsStr::utf16(b))); }
        if let Some(lb) = &lb { add("concat_ul", JsString::concat(JsStr::utf16(a), JsStr::latin1(lb))); }
        let k1 = n / 3;
        let k2 = n - n / 3;
        let (p, q, r) = (&u[..k1], &u[k1..k2], &u[k2..]);
        let (lp, lq, lr) = (latin1_of(p), latin1_of(q), latin1_of(r));
        add("concat_arr", JsString::concat_array(&[JsStr::EMPTY, best(p, &lp), best(q, &lq), JsStr::utf16(&[]), best(r, &lr)]));
        let parts = [JsString::from(best(p, &lp)), JsString::from(best(q, &lq)), JsString::from(best(r, &lr))];
        add("from_arr", JsString::from(&parts[..]));
        add("from_arr3", JsString::from(&parts));
        add("macro2", js_string!(&parts[0], &JsString::concat(parts[1].as_str(), parts[2].as_str())));
        add("macro3", js_string!(&parts[0], &parts[1], &parts[2]));
    }
    // builders
    if let Some(b) = &lat {
        let mut bl = Latin1JsStringBuilder::new();
        for &x in b { bl.push(x); }
        let ascii = bl.is_ascii();
        let s = if ascii {
            bl.build().expect("ascii builder builds")
        } else {
            assert!(bl.clone().build().is_none(), "Latin1JsStringBuilder::build must refuse non-ASCII");
            // SAFETY: every element is a Latin-1 code point by construction.
            unsafe { bl.build_as_latin1() }
        };
        add("b_latin1", s);
        let mut bl2 = Latin1JsStringBuilder::with_capacity(1);
        bl2.extend_from_slice(&b[..n / 2]);
        bl2.extend(b[n / 2..].iter().copied());
        // SAFETY: as above.
        add("b_latin1_ext", unsafe { bl2.build_as_latin1() });
    }
    {
        let mut bu = Utf16JsStringBuilder::new();
        bu.extend_from_slice(&u[..n / 2]);
        for &x in &u[n / 2..] { bu.push(x); }
        add("b_utf16", bu.build());
        let bu2: Utf16JsStringBuilder = u.iter().copied().collect();
        add("b_utf16_iter", bu2.build());
        let mut bu3 = Utf16JsStringBuilder::from(&u[..n / 2]);
        bu3 += &u[n / 2..];
        add("b_utf16_from", bu3.clone().build());
    }
    {
        // CommonJsStringBuilder: code points as chars, unpaired surrogates as one-unit JsStr segments
        let lone: Vec<[u16; 1]> = decode(u).iter().filter_map(|r| r.err().map(|x| [x])).collect();
        let mut cb = CommonJsStringBuilder::new();
        let mut cb_u = CommonJsStringBuilder::with_capacity(4);
        let mut li = 0;
        for r in decode(u) {
            match r {
                Ok(c) => {
                    if (c as u32) < 0x80 && (c as u32) % 2 == 0 { cb.push(c as u8); } else { cb.push(c); }
                    cb_u.push(c);
                }
                Err(_) => { cb.push(JsStr::utf16(&lone[li])); cb_u.push(JsStr::utf16(&lone[li])); li += 1; }
            }
        }
        if let Some(l1) = cb.build_from_latin1() { add("b_common_l1", l1); }
        add("b_common", cb.build());
        add("b_common_u", cb_u.build_from_utf16());
        let tail_l = latin1_of(&u[n / 2..]);
        let mut cs = CommonJsStringBuilder::new();
        cs.push(JsString::from(&u[..n / 2]));
        cs.push(best(&u[n / 2..], &tail_l));
        let cs = cs + JsStr::EMPTY;
        add("b_common_str", cs.build());
    }
    let first = out[0].s.clone();
    out.push(Built { name: "clone", s: first });
    out
}

fn tag(s: &JsString) -> char {
    if s.as_str().is_latin1() { 'L' } else { 'U' }
}
fn rflag(s: &JsString) -> String {
    if s.is_static() { "2".into() } else if s.as_str().is_latin1() { "0".into() } else { "1".into() }
}

// ------------------------------------------------------------------------------------------------
// observations on the implementation

#[derive(Clone, Copy)]
struct Args { from: usize, p1: usize, p2: usize, byte: u8 }

type Obs = Vec<(&'static str, String)>;

fn obs_unary(s: &JsString, a: Args) -> Obs {
    let mut o: Obs = Vec::new();
    let js = s.as_str();
    o.push(("len", s.len().to_string()));
    o.push(("jlen", js.len().to_string()));
    o.push(("empty", e_bool(s.is_empty())));
    o.push(("vec", e_units(&s.to_vec())));
    o.push(("iter", e_units(&s.iter().collect::<Vec<u16>>())));
    o.push(("into_iter", e_units(&s.into_iter().collect::<Vec<u16>>())));
    o.push(("hash", e_hash(s)));
    o.push(("jhash", e_hash(&js)));
    o.push(("sip", sip(s)));
    o.push(("get1", e_opt_u16(js.get(a.p1))));
    o.push(("get2", e_opt_u16(s.code_unit_at(a.p2))));
    for (k, p) in [("cpa1", a.p1), ("cpa2", a.p2)] {
        let r = bh::guarded(|| s.code_point_at(p));
        o.push((k, match r { Ok(c) => e_cp(c), Err(_) => "2".into() }));
    }
    o.push(("cps", e_cps(&s.code_points().collect::<Vec<_>>())));
    o.push(("jcps", e_cps(&js.code_points().collect::<Vec<_>>())));
    o.push(("has", e_bool(s.contains(a.byte))));
    for (k, kr, t) in [("trim", "trim.r", s.trim()), ("trims", "trims.r", s.trim_start()), ("trime", "trime.r", s.trim_end())] {
        o.push((k, e_units(&t.to_vec())));
        o.push((kr, rflag(&t)));
    }
    let sl = s.slice(a.p1, a.p2);
    o.push(("slice", e_units(&sl.to_vec())));
    o.push(("slice.r", rflag(&sl)));
    match if a.p1 <= a.p2 { s.get(a.p1..a.p2) } else { None } {
        Some(t) => { o.push(("sget", format!("1,{}", e_units(&t.to_vec())))); o.push(("sget.r", rflag(&t))); }
        None => { o.push(("sget", "0".into())); o.push(("sget.r", "3".into())); }
    }
    match if a.p1 <= a.p2 { js.get(a.p1..a.p2) } else { None } {
        Some(t) => { o.push(("jget", format!("1,{}", e_units(&t.to_vec())))); o.push(("jget.r", if t.is_latin1() { "0".into() } else { "1".into() })); }
        None => { o.push(("jget", "0".into())); o.push(("jget.r", "3".into())); }
    }
    o.push(("std", e_opt_scalars(s.to_std_string().ok().map(|x| scalars(&x)))));
    o.push(("lossy", e_u32s(&scalars(&s.to_std_string_lossy()))));
    o.push(("esc", e_u32s(&scalars(&s.to_std_string_escaped()))));
    // operations without a Coq model: compared between constructors / representation groups (and `surr`, `mapid` with the oracle)
    let num = s.to_number();
    o.push(("num", if num.is_nan() { "nan".into() } else { format!("{:016x}", num.to_bits()) }));
    o.push(("jnum", { let x = js.to_number(); if x.is_nan() { "nan".into() } else { format!("{:016x}", x.to_bits()) } }));
    o.push(("surr", e_surr(s.to_std_string_with_surrogates())));
    o.push(("mapid", e_units(&s.map_valid_segments(|x| x).to_vec())));
    o
}

fn e_surr(it: impl Iterator<Item = Result<String, u16>>) -> String {
    // count, then per part: 0,len,scalars.. (a run of scalar values) | 1,unit (an unpaired surrogate)  -- enc_surr of Eval_C11.v
    let mut n = 0usize;
    let mut out = String::new();
    for part in it {
        n += 1;
        match part {
            Ok(st) => { out.push_str(",0,"); out.push_str(&e_u32s(&scalars(&st))); }
            Err(u) => { out.push_str(&format!(",1,{u}")); }
        }
    }
    format!("{n}{out}")
}

fn obs_binary(s: &JsString, t: &JsString, su: &[u16], tu: &[u16], tstr: Option<&str>, a: Args) -> Obs {
    let mut o: Obs = Vec::new();
    let (js, jt) = (s.as_str(), t.as_str());
    o.push(("eq", e_bool(s == t)));
    o.push(("eqj", e_bool(js == jt)));
    o.push(("eqx", e_bool(*s == jt && jt == *s)));
    o.push(("equ", e_bool(su[..] == *t)));
    o.push(("eqr", e_bool(*s == tu[..])));
    o.push(("equj", e_bool(su[..] == jt)));
    o.push(("cmp", e_ord(s.cmp(t))));
    o.push(("pcmp", e_ord(js.partial_cmp(&jt).expect("total"))));
    o.push(("idx", e_opt_usize(s.index_of(jt, a.from))));
    o.push(("sw", e_bool(s.starts_with(jt))));
    o.push(("ew", e_bool(s.ends_with(jt))));
    let c = JsString::concat(js, jt);
    o.push(("cat", e_units(&c.to_vec())));
    o.push(("cat.r", rflag(&c)));
    let _ = tstr;
    o
}

/// Comparison of a string with a Rust `str` (all four impls).
fn obs_eqstr(s: &JsString, ts: &str) -> Obs {
    let js = s.as_str();
    vec![
        ("eqs", e_bool(*s == *ts)),
        ("eqs_j", e_bool(js == *ts)),
        ("eqs_rev", e_bool(*ts == *s)),
        ("eqs_ref", e_bool(*s == ts && js == ts)),
    ]
}

// ------------------------------------------------------------------------------------------------
// the native oracle: the same operations on plain Vec<u16>

const WS: [u16; 25] = [
    0x09, 0x0a, 0x0b, 0x0c, 0x0d, 0x20, 0xa0, 0x1680, 0x2000, 0x2001, 0x2002, 0x2003, 0x2004, 0x2005, 0x2006, 0x2007,
    0x2008, 0x2009, 0x200a, 0x2028, 0x2029, 0x202f, 0x205f, 0x3000, 0xfeff,
];
fn o_cp_at(u: &[u16], p: usize) -> Option<(CodePoint, usize)> {
    let first = *u.get(p)?;
    let lead = (0xd800..=0xdbff).contains(&first);
    let trail = (0xdc00..=0xdfff).contains(&first);
    if !lead && !trail { return Some((CodePoint::Unicode(char::from_u32(u32::from(first)).unwrap()), 1)); }
    if trail || p + 1 == u.len() { return Some((CodePoint::UnpairedSurrogate(first), 1)); }
    let second = u[p + 1];
    if !(0xdc00..=0xdfff).contains(&second) { return Some((CodePoint::UnpairedSurrogate(first), 1)); }
    let cp = (u32::from(first) - 0xd800) * 0x400 + (u32::from(second) - 0xdc00) + 0x10000;
    Some((CodePoint::Unicode(char::from_u32(cp).unwrap()), 2))
}
fn o_cps(u: &[u16]) -> Vec<CodePoint> {
    let mut v = Vec::new();
    let mut p = 0;
    while let Some((c, k)) = o_cp_at(u, p) { v.push(c); p += k; }
    v
}
fn o_trim_start(u: &[u16]) -> &[u16] {
    let mut i = 0;
    while i < u.len() && WS.contains(&u[i]) { i += 1; }
    &u[i..]
}
fn o_trim_end(u: &[u16]) -> &[u16] {
    let mut j = u.len();
    while j > 0 && WS.contains(&u[j - 1]) { j -= 1; }
    &u[..j]
}
fn o_index_of(u: &[u16], s: &[u16], from: usize) -> Option<usize> {
    if s.is_empty() { return if from <= u.len() { Some(from) } else { None }; }
    let mut i = from;
    while i.checked_add(s.len()).is_some_and(|e| e <= u.len()) {
        if &u[i..i + s.len()] == s { return Some(i); }
        i += 1;
    }
    None
}
fn o_hash(u: &[u16]) -> String {
    let mut s = (u.len() + 1).to_string();
    s.push_str(&format!(",0,{}", u.len()));
    for x in u { s.push_str(&format!(",1,{x}")); }
    s
}
fn o_esc(u: &[u16]) -> Vec<u32> {
    let mut v = Vec::new();
    for c in o_cps(u) {
        match c {
            CodePoint::Unicode(c) => v.push(c as u32),
            CodePoint::UnpairedSurrogate(x) => v.extend(format!("\\u{x:04X}").chars().map(|c| c as u32)),
        }
    }
    v
}

fn oracle_unary(u: &[u16], a: Args) -> Obs {
    let mut o: Obs = Vec::new();
    let n = u.len();
    for k in ["len", "jlen"] { o.push((k, n.to_string())); }
    o.push(("empty", e_bool(n == 0)));
    for k in ["vec", "iter", "into_iter"] { o.push((k, e_units(u))); }
    for k in ["hash", "jhash"] { o.push((k, o_hash(u))); }
    o.push(("get1", e_opt_u16(u.get(a.p1).copied())));
    o.push(("get2", e_opt_u16(u.get(a.p2).copied())));
    for (k, p) in [("cpa1", a.p1), ("cpa2", a.p2)] {
        o.push((k, match o_cp_at(u, p) { Some((c, _)) => e_cp(c), None => "2".into() }));
    }
    let cps = o_cps(u);
    for k in ["cps", "jcps"] { o.push((k, e_cps(&cps))); }
    o.push(("has", e_bool(u.contains(&u16::from(a.byte)))));
    o.push(("trim", e_units(o_trim_end(o_trim_start(u)))));
    o.push(("trims", e_units(o_trim_start(u))));
    o.push(("trime", e_units(o_trim_end(u))));
    let p2 = a.p2.min(n);
    o.push(("slice", e_units(if a.p1 < p2 { &u[a.p1..p2] } else { &[] })));
    let g = if a.p1 <= a.p2 && a.p2 <= n { format!("1,{}", e_units(&u[a.p1..a.p2])) } else { "0".into() };
    o.push(("sget", g.clone()));
    o.push(("jget", g));
    let all: Option<Vec<u32>> = cps.iter().map(|c| c.as_char().map(|c| c as u32)).collect();
    o.push(("std", e_opt_scalars(all)));
    o.push(("lossy", e_u32s(&cps.iter().map(|c| c.as_char().map_or(0xfffd, |c| c as u32)).collect::<Vec<_>>())));
    o.push(("esc", e_u32s(&o_esc(u))));
    // to_std_string_with_surrogates: maximal runs of scalar values, unpaired surrogates on their own
    let mut surr = String::new();
    let mut nparts = 0usize;
    let mut runv: Vec<u32> = Vec::new();
    for c in &cps {
        match c {
            CodePoint::Unicode(c) => runv.push(*c as u32),
            CodePoint::UnpairedSurrogate(x) => {
                if !runv.is_empty() { nparts += 1; surr.push_str(",0,"); surr.push_str(&e_u32s(&runv)); runv.clear(); }
                nparts += 1;
                surr.push_str(&format!(",1,{x}"));
            }
        }
    }
    if !runv.is_empty() { nparts += 1; surr.push_str(",0,"); surr.push_str(&e_u32s(&runv)); }
    let surr = format!("{nparts}{surr}");
    o.push(("surr", surr));
    o.push(("mapid", e_units(u)));
    o
}

fn oracle_binary(u: &[u16], v: &[u16], vstr: Option<&str>, a: Args) -> Obs {
    let mut o: Obs = Vec::new();
    for k in ["eq", "eqj", "eqx", "equ", "eqr", "equj"] { o.push((k, e_bool(u == v))); }
    // lexicographic order written out (not via <[u16] as Ord>)
    let mut ord = Ordering::Equal;
    let mut i = 0;
    loop {
        match (u.get(i), v.get(i)) {
            (None, None) => break,
            (None, Some(_)) => { ord = Ordering::Less; break; }
            (Some(_), None) => { ord = Ordering::Greater; break; }
            (Some(x), Some(y)) if x < y => { ord = Ordering::Less; break; }
            (Some(x), Some(y)) if x > y => { ord = Ordering::Greater; break; }
            _ => i += 1,
        }
    }
    o.push(("cmp", e_ord(ord)));
    o.push(("pcmp", e_ord(ord)));
    o.push(("idx", e_opt_usize(o_index_of(u, v, a.from))));
    o.push(("sw", e_bool(u.len() >= v.len() && &u[..v.len()] == v)));
    o.push(("ew", e_bool(u.len() >= v.len() && &u[u.len() - v.len()..] == v)));
    let mut c = u.to_vec();
    c.extend_from_slice(v);
    o.push(("cat", e_units(&c)));
    let _ = vstr;
    o
}

// ------------------------------------------------------------------------------------------------
// one case

struct CaseOut { line: String, bad: Vec<String>, evals: u64, known: u64 }

/// The two known classes of `JsStr == str` on the unpatched tree (DESIGN.md section 5 #14), as predicates over the case.
fn known_eqs_class(field: &str, group: usize, ua: &[u16], ub: &[u16]) -> bool {
    if !(field == "eqs" || field == "eqs_j" || field == "eqs_rev" || field == "eqs_ref") { return false; }
    if group == 0 { ub.iter().any(|&x| x >= 0x80) } else { ua.len() != ub.len() }
}

/// Constructors of B used for the binary operations in the sweeps (`sweep`/`exh`): one per string kind (sequence,
/// slice, slice of a static, static, builder/concat output, from `str`) and buffer encoding.  The `case` command
/// (correspondence stream) always runs the full constructor x constructor product; A always uses every constructor.
const REP_B: [&str; 12] = [
    "u16", "str", "jsstr_l", "static_l", "static_u", "slice_u", "slice_l", "slice_static_l", "get_u", "concat_best", "b_common", "b_latin1",
];

fn run_case(id: &str, ua: &[u16], ub: &[u16], a: Args, skip_known: bool, full: bool) -> CaseOut {
    let mut keep = Keep::default();
    let mut line = String::from(id);
    let mut bad: Vec<String> = Vec::new();
    let mut evals = 0u64;
    let mut known = 0u64;
    {
        let ca = build_all(ua, &mut keep);
        let mut cb = build_all(ub, &mut keep);
        if !full { cb.retain(|b| REP_B.contains(&b.name)); }
        let bstr = String::from_utf16(ub).ok();
        // which buffer kind every constructor chose (s = static)
        line.push_str("\tctors=");
        line.push_str(&ca.iter().map(|b| format!("{}:{}{}", b.name, tag(&b.s), if b.s.is_static() { "s" } else { "" })).collect::<Vec<_>>().join(","));
        // unary on A
        let mut ou = oracle_unary(ua, a);
        if bstr.is_some() {
            for k in ["eqs", "eqs_j", "eqs_rev", "eqs_ref"] { ou.push((k, e_bool(ua == ub))); }
        }
        let mut first: [Option<(Obs, &'static str)>; 2] = [None, None];
        let mut sip_all: Option<String> = None;
        for c in &ca {
            let g = if tag(&c.s) == 'L' { 0 } else { 1 };
            let mut o = obs_unary(&c.s, a);
            if let Some(ts) = &bstr { o.extend(obs_eqstr(&c.s, ts)); }
            evals += o.len() as u64;
            for (k, v) in &o {
                if *k == "sip" {
                    match &sip_all { None => sip_all = Some(v.clone()), Some(x) if x != v => bad.push(format!("!sip:{}={}~{}", c.name, v, x)), _ => {} }
                }
                if let Some((_, ov)) = ou.iter().find(|(ok, _)| ok == k) {
                    if ov != v {
                        if skip_known && known_eqs_class(k, g, ua, ub) { known += 1; } else { bad.push(format!("?{}@{}:{}={}~{}", k, ["L", "U"][g], c.name, v, ov)); }
                    }
                }
            }
            match &mut first[g] {
                None => first[g] = Some((o, c.name)),
                Some((f, fname)) => {
                    for ((k, v), (_, fv)) in o.iter().zip(f.iter_mut()) {
                        // result representation flags may legitimately differ between a static hit and a heap string
                        if k.ends_with(".r") && fv == "2" { *fv = v.clone(); }
                        if v != fv && !(k.ends_with(".r") && v == "2") {
                            bad.push(format!("!{}@{}:{}={}~{}:{}", k, ["L", "U"][g], c.name, v, fname, fv));
                        }
                    }
                }
            }
        }
        for (g, f) in first.iter().enumerate() {
            if let Some((o, _)) = f {
                for (k, v) in o { line.push_str(&format!("\t{}@{}={}", k, ["L", "U"][g], v)); }
            }
        }
        // binary on (A, B)
        let ob = oracle_binary(ua, ub, bstr.as_deref(), a);
        let mut firstb: [Option<(Obs, String)>; 4] = [None, None, None, None];
        for c in &ca {
            for d in &cb {
                let g = (if tag(&c.s) == 'L' { 0 } else { 2 }) + (if tag(&d.s) == 'L' { 0 } else { 1 });
                let o = obs_binary(&c.s, &d.s, ua, ub, bstr.as_deref(), a);
                evals += o.len() as u64;
                for (k, v) in &o {
                    if let Some((_, ov)) = ob.iter().find(|(ok, _)| ok == k) {
                        if ov != v { bad.push(format!("?{}@{}:{}/{}={}~{}", k, ["LL", "LU", "UL", "UU"][g], c.name, d.name, v, ov)); }
                    }
                }
                match &mut firstb[g] {
                    None => firstb[g] = Some((o, format!("{}/{}", c.name, d.name))),
                    Some((f, fname)) => {
                        for ((k, v), (_, fv)) in o.iter().zip(f.iter_mut()) {
                            if k.ends_with(".r") && fv == "2" { *fv = v.clone(); }
                            if v != fv && !(k.ends_with(".r") && v == "2") {
                                bad.push(format!("!{}@{}:{}/{}={}~{}:{}", k, ["LL", "LU", "UL", "UU"][g], c.name, d.name, v, fname, fv));
                            }
                        }
                    }
                }
            }
        }
        for (g, f) in firstb.iter().enumerate() {
            if let Some((o, _)) = f {
                for (k, v) in o { line.push_str(&format!("\t{}@{}={}", k, ["LL", "LU", "UL", "UU"][g], v)); }
            }
        }
    }
    drop(keep);
    for b in bad.iter().take(40) { line.push('\t'); line.push_str(b); }
    CaseOut { line, bad, evals, known }
}

// ------------------------------------------------------------------------------------------------
// generators used inside the binary (sweeps)

struct Rng(u64);
impl Rng {
    fn next(&mut self) -> u64 { self.0 ^= self.0 << 13; self.0 ^= self.0 >> 7; self.0 ^= self.0 << 17; self.0 }
    fn below(&mut self, n: u64) -> u64 { self.next() % n.max(1) }
}

/// The alphabet of the exhaustive enumeration: one entry may be two units (the astral pair).
const ALPHA: [&[u16]; 15] = [
    &[0x61], &[0x41], &[0x20], &[0x30], &[0x7f], &[0xe9], &[0xff], &[0xa0], &[0x3c0], &[0x2028], &[0xfeff], &[0xd800],
    &[0xdc00], &[0xd83d, 0xde00], &[0x0a],
];
const POOL: [u16; 40] = [
    0x61, 0x62, 0x41, 0x20, 0x30, 0x7f, 0x00, 0x09, 0x0a, 0x0b, 0x0c, 0x0d, 0x80, 0x85, 0xa0, 0xe9, 0xff, 0x100, 0x3c0, 0x1680, 0x2000,
    0x200a, 0x200b, 0x2028, 0x2029, 0x202f, 0x205f, 0x3000, 0xfeff, 0xd7ff, 0xd800, 0xdbff, 0xdc00, 0xdfff, 0xe000, 0xfffd, 0xffff,
    0xd83d, 0xde00, 0x180e,
];

fn rand_units(r: &mut Rng, maxlen: usize) -> Vec<u16> {
    let n = if r.below(4) == 0 { r.below(4) as usize } else { r.below(maxlen as u64 + 1) as usize };
    let mode = r.below(5);
    (0..n)
        .map(|_| match mode {
            0 => POOL[r.below(7) as usize],                              // ASCII only
            1 => POOL[r.below(17) as usize],                             // Latin-1 only
            2 => [0x20u16, 0x09, 0xa0, 0xfeff, 0x2028, 0x61, 0xe9, 0x3c0][r.below(8) as usize], // whitespace heavy
            3 => r.below(0x10000) as u16,
            _ => POOL[r.below(POOL.len() as u64) as usize],
        })
        .collect()
}

fn exh_string(mut idx: usize, len: usize) -> Vec<u16> {
    let mut v = Vec::new();
    for _ in 0..len { v.extend_from_slice(ALPHA[idx % ALPHA.len()]); idx /= ALPHA.len(); }
    v
}

fn hexlist(u: &[u16]) -> String {
    if u.is_empty() { "-".into() } else { u.iter().map(|x| format!("{x:x}")).collect::<Vec<_>>().join(",") }
}
fn parse_units(s: &str) -> Vec<u16> {
    if s == "-" { Vec::new() } else { s.split(',').map(|x| u16::from_str_radix(x, 16).expect("hex unit")).collect() }
}
fn case_line(ua: &[u16], ub: &[u16], a: Args) -> String {
    format!("case x {} {} {} {} {} {}", hexlist(ua), hexlist(ub), a.from, a.p1, a.p2, a.byte)
}

fn needle_of(r: &mut Rng, ua: &[u16], maxlen: usize) -> Vec<u16> {
    match r.below(6) {
        0 | 1 if !ua.is_empty() => { let i = r.below(ua.len() as u64) as usize; let j = i + r.below((ua.len() - i) as u64 + 1) as usize; ua[i..j].to_vec() }
        2 => { let k = r.below(ua.len() as u64 + 1) as usize; ua[..k].to_vec() }
        3 => { let k = r.below(ua.len() as u64 + 1) as usize; ua[k..].to_vec() }
        4 => { let mut v = ua.to_vec(); if !v.is_empty() { let i = r.below(v.len() as u64) as usize; v[i] = POOL[r.below(POOL.len() as u64) as usize]; } if r.below(2) == 0 { v.push(0x3c0); } v }
        _ => rand_units(r, maxlen.min(6)),
    }
}

fn js_eval(src: &str) -> String {
    let mut ctx = Context::default();
    match ctx.eval(Source::from_bytes(src.as_bytes())) {
        Ok(v) => match v.to_string(&mut ctx) {
            Ok(s) => format!("V:{}", bh::json_units(&s.iter().collect::<Vec<u16>>())),
            Err(_) => "V:<unprintable>".into(),
        },
        Err(e) => {
            let v = e.into_opaque(&mut ctx);
            let name = v
                .ok()
                .and_then(|v| v.as_object())
                .and_then(|o| o.get(js_string!("name"), &mut ctx).ok())
                .and_then(|n| n.as_string().map(|s| s.to_std_string_escaped()))
                .unwrap_or_else(|| "?".into());
            format!("T:{name}")
        }
    }
}

fn main() {
    let stdin = std::io::stdin();
    let out = std::io::stdout();
    let mut out = out.lock();
    for line in stdin.lock().lines() {
        let line = line.unwrap();
        let p: Vec<&str> = line.split_whitespace().collect();
        if p.is_empty() { continue; }
        let r = bh::guarded(|| -> String {
            match p[0] {
                "case" => {
                    let (ua, ub) = (parse_units(p[2]), parse_units(p[3]));
                    let a = Args { from: p[4].parse().unwrap(), p1: p[5].parse().unwrap(), p2: p[6].parse().unwrap(), byte: p[7].parse().unwrap() };
                    run_case(p[1], &ua, &ub, a, false, true).line
                }
                "ctors" => {
                    let u = parse_units(p[1]);
                    let mut keep = Keep::default();
                    let s = {
                        let c = build_all(&u, &mut keep);
                        c.iter().map(|b| format!("{}:{}{}", b.name, tag(&b.s), if b.s.is_static() { "s" } else { "" })).collect::<Vec<_>>().join(" ")
                    };
                    drop(keep);
                    s
                }
                "sweep" => {
                    let mut r = Rng(p[1].parse::<u64>().unwrap().wrapping_mul(0x9e3779b97f4a7c15) | 1);
                    let count: u64 = p[2].parse().unwrap();
                    let maxlen: usize = p[3].parse().unwrap();
                    let skip = p.get(4).is_some_and(|x| *x == "1");
                    let full = p.get(5).is_some_and(|x| *x == "full");
                    let mut evals = 0u64;
                    let mut known = 0u64;
                    for _ in 0..count {
                        let ua = rand_units(&mut r, maxlen);
                        let ub = needle_of(&mut r, &ua, maxlen);
                        let n = ua.len();
                        let from = if r.below(8) == 0 { usize::MAX - r.below(3) as usize } else { r.below(n as u64 + 3) as usize };
                        let a = Args { from, p1: r.below(n as u64 + 2) as usize, p2: r.below(n as u64 + 3) as usize, byte: POOL[r.below(17) as usize] as u8 };
                        let c = run_case("x", &ua, &ub, a, skip, full);
                        evals += c.evals;
                        known += c.known;
                        if !c.bad.is_empty() { return format!("mismatch {} :: {}", case_line(&ua, &ub, a), c.bad[..c.bad.len().min(6)].join(" ")); }
                    }
                    format!("ok {count} {evals} {known}")
                }
                "exh" => {
                    let (la, lb): (usize, usize) = (p[1].parse().unwrap(), p[2].parse().unwrap());
                    let (part, parts): (usize, usize) = (p[3].parse().unwrap(), p[4].parse().unwrap());
                    let mut r = Rng(p[5].parse::<u64>().unwrap().wrapping_mul(0x9e3779b97f4a7c15) | 1);
                    let stride: usize = p[6].parse().unwrap();
                    let skip = p.get(7).is_some_and(|x| *x == "1");
                    let full = p.get(8).is_some_and(|x| *x == "full");
                    let mut known = 0u64;
                    let (na, nb) = (ALPHA.len().pow(la as u32), ALPHA.len().pow(lb as u32));
                    let mut count = 0u64;
                    let mut evals = 0u64;
                    let mut k = part + parts * (r.below(stride as u64) as usize);
                    while k < na * nb {
                        let ua = exh_string(k / nb, la);
                        let ub = exh_string(k % nb, lb);
                        let n = ua.len();
                        for (p1, p2) in [(0usize, n), (1, n + 1), (n, 1)] {
                            let a = Args { from: p1, p1, p2, byte: ua.get(p1).map_or(0x61, |x| *x as u8) };
                            let c = run_case("x", &ua, &ub, a, skip, full);
                            evals += c.evals;
                            known += c.known;
                            if !c.bad.is_empty() { return format!("mismatch {} :: {}", case_line(&ua, &ub, a), c.bad[..c.bad.len().min(6)].join(" ")); }
                        }
                        count += 1;
                        k += parts * stride;
                    }
                    format!("ok {count} {evals} {known}")
                }
                "units1" => {
                    // every one-unit string x in [lo, hi): all three ways to get it (UTF-16 buffer, Latin-1 buffer, from a Rust str)
                    // against the plain code-unit oracle; exhaustive over the 2^16 code units when the ranges cover 0..65536
                    let (lo, hi): (u32, u32) = (p[1].parse().unwrap(), p[2].parse().unwrap());
                    let skip = p.get(3).is_some_and(|x| *x == "1");
                    let (mut evals, mut known, mut count) = (0u64, 0u64, 0u64);
                    for x in lo..hi.min(0x10000) {
                        let x = x as u16;
                        let u = [x];
                        let a = Args { from: 0, p1: 0, p2: 1, byte: x as u8 };
                        let mut reps: Vec<(&'static str, JsString)> = vec![("u16", JsString::from(&u[..]))];
                        let lb = [x as u8];
                        if x < 256 { reps.push(("jsstr_l", JsString::from(JsStr::latin1(&lb)))); }
                        let ch = char::from_u32(u32::from(x));
                        let chs = ch.map(|c| c.to_string());
                        if let Some(cs) = &chs { reps.push(("str", JsString::from(cs.as_str()))); }
                        let mut bad: Vec<String> = Vec::new();
                        let mut bad_empty: Vec<String> = Vec::new();     // failures of the comparison with the empty str (replayed with B = empty)
                        let ws = WS.contains(&x);
                        let want_cp = o_cp_at(&u, 0).map(|(c, _)| e_cp(c)).unwrap();
                        for (name, r) in &reps {
                            let g = if tag(r) == 'L' { 0 } else { 1 };
                            let mut chk = |what: &str, ok: bool| { evals += 1; if !ok { bad.push(format!("?{}@{}:{}", what, ["L", "U"][g], name)); } };
                            chk("vec", r.to_vec() == u);
                            chk("len", r.len() == 1);
                            chk("trim", r.trim().len() == usize::from(!ws));
                            chk("trims", r.trim_start().len() == usize::from(!ws));
                            chk("trime", r.trim_end().len() == usize::from(!ws));
                            chk("cpa1", e_cp(r.code_point_at(0)) == want_cp);
                            chk("cps", r.code_points().map(e_cp).collect::<Vec<_>>() == vec![want_cp.clone()]);
                            chk("std", r.to_std_string().ok() == chs);
                            chk("has", r.contains(a.byte) == (u16::from(a.byte) == x));
                            chk("has", r.contains(a.byte.wrapping_add(1)) == (u16::from(a.byte.wrapping_add(1)) == x));
                            chk("hash", e_hash(r) == o_hash(&u));
                            chk("get1", r.code_unit_at(0) == Some(x) && r.code_unit_at(1).is_none());
                            chk("idx", r.index_of(JsStr::utf16(&u), 0) == Some(0) && r.index_of(JsStr::utf16(&u), 1).is_none());
                            for (oname, o) in &reps {
                                chk("eq", r == o && r.cmp(o) == Ordering::Equal && sip(r) == sip(o) && r.starts_with(o.as_str()) && o.ends_with(r.as_str()));
                                let _ = oname;
                            }
                            if let Some(cs) = &chs {
                                evals += 2;
                                if !(*r == *cs.as_str()) {
                                    if skip && known_eqs_class("eqs", g, &u, &u) { known += 1; } else { bad.push(format!("?eqs@{}:{}=0~1", ["L", "U"][g], name)); }
                                }
                            }
                            evals += 1;
                            if *r == *"" {
                                if skip && known_eqs_class("eqs", g, &u, &[]) { known += 1; } else { bad_empty.push(format!("?eqs@{}:{}=1~0", ["L", "U"][g], name)); }
                            }
                        }
                        count += 1;
                        if !bad.is_empty() {
                            return format!("mismatch {} :: {}", case_line(&u, &u, a), bad[..bad.len().min(6)].join(" "));
                        }
                        if !bad_empty.is_empty() {
                            return format!("mismatch {} :: {}", case_line(&u, &[], a), bad_empty[..bad_empty.len().min(6)].join(" "));
                        }
                    }
                    format!("ok {count} {evals} {known}")
                }
                "js" => format!("{}\t{}", p[1], js_eval(&bh::unescape_string(&line.splitn(3, ' ').nth(2).unwrap_or("")))),
                _ => "unknown-command".into(),
            }
        });
        match r {
            Ok(s) => writeln!(out, "{s}").unwrap(),
            Err(e) => writeln!(out, "{}\tPANIC {}", p.get(1).unwrap_or(&"?"), e.replace(['\n', '\t'], " ")).unwrap(),
        }
        out.flush().unwrap();
    }
}
