//! Code-block dumper (C03, reused by C08).
//!
//! Compiles a JavaScript program (script) with boa and prints `CodeBlock::verif_dump()` of the main block and,
//! recursively, of every function constant; optionally evaluates the script with the per-instruction depth log
//! switched on and prints one record per executed instruction.
//!
//! Input lines:
//!   cfg k=v ...     run=0|1 (evaluate after dumping, print the depth log)  strict=0|1  loop=<n|->  rec=<n|->
//!                   stack=<n|->  maxlog=<n> (depth records printed per case, default 200000)  jobs=0|1
//!   run <id> <program text, escaped as in bh::unescape_units>
//! Output per `run` line (a block of lines, always closed by `endcase`):
//!   case <id>
//!   <the lines of CodeBlock::verif_dump(), verbatim: see /repo/core/engine/src/verif.rs>
//!       block <id> regs=<n> params=<n> len=<n> flags=<bits> bytes=<n> consts=<n> bindings=<n> ics=<n> handlers=<n> name=<escaped>
//!       const <i> S|B|C|F [<nested block id>]
//!       binding <i> <scope: GlobalObject|GlobalDeclarative|Stack(<n>)> <binding index> <escaped name>
//!       handler <i> <start> <end> <environment_count>
//!       ins <pc> <next pc> <opcode byte> <Debug of the decoded instruction>
//!       end <id>
//!   d <block id> <frames> <pc> <opcode byte> <stack_extra> <env_depth> <binding_stack> <iterators>     (run=1; state *before* the instruction)
//!   dcut <records dropped>                                                                  (run=1, log longer than maxlog)
//!   status <ok|syntax|panic> <detail>
//!   endcase <id>
use boa_engine::{Context, JsError, Script, Source};
use std::io::{BufRead, Write};

#[derive(Clone)]
struct Cfg {
    run: bool,
    strict: bool,
    lim_loop: Option<u64>,
    lim_rec: Option<usize>,
    lim_stack: Option<usize>,
    maxlog: usize,
    jobs: bool,
}

fn error_class(e: &JsError) -> String {
    if let Some(en) = e.as_engine() {
        let s = en.to_string();
        if s.starts_with("RuntimeLimitError") {
            return "limit".into();
        }
        return format!("engine:{}", bh::json_str(&s));
    }
    if let Some(n) = e.as_native() {
        let d = format!("{:?}", n.kind());
        let k: String = d.chars().take_while(|c| c.is_alphanumeric()).collect();
        return format!("throw:{k}");
    }
    "throw:value".into()
}

fn run_case(cfg: &Cfg, text: &[u16], out: &mut String) -> String {
    let src = String::from_utf16_lossy(text);
    let mut ctx = Context::default();
    bh::install_print(&mut ctx);
    if let Some(n) = cfg.lim_loop { ctx.runtime_limits_mut().set_loop_iteration_limit(n); }
    if let Some(n) = cfg.lim_rec { ctx.runtime_limits_mut().set_recursion_limit(n); }
    if let Some(n) = cfg.lim_stack { ctx.runtime_limits_mut().set_stack_size_limit(n); }
    ctx.strict(cfg.strict);
    let script = match Script::parse(Source::from_bytes(src.as_bytes()), None, &mut ctx) {
        Ok(s) => s,
        Err(e) => return format!("syntax {}", error_class(&e)),
    };
    let cb = match script.codeblock(&mut ctx) {
        Ok(cb) => cb,
        Err(e) => return format!("syntax {}", error_class(&e)),
    };
    #[cfg(boa_verif)]
    {
        out.push_str(&cb.verif_dump());
    }
    let _ = &cb;
    if !cfg.run {
        return "ok compiled".into();
    }
    #[cfg(boa_verif)]
    {
        let _ = boa_engine::verif::take_depth_log();
        boa_engine::verif::set_switches(boa_engine::verif::DEPTH_LOG);
    }
    let r = script.evaluate(&mut ctx);
    let mut st = match &r {
        Ok(_) => "ok value".to_string(),
        Err(e) => format!("ok {}", error_class(e)),
    };
    if cfg.jobs {
        if let Err(e) = ctx.run_jobs() {
            st.push_str(&format!(" jobs:{}", error_class(&e)));
        }
    }
    #[cfg(boa_verif)]
    {
        boa_engine::verif::set_switches(0);
        let log = boa_engine::verif::take_depth_log();
        use std::fmt::Write as _;
        for (i, d) in log.iter().enumerate() {
            if i >= cfg.maxlog {
                let _ = writeln!(out, "dcut {}", log.len() - i);
                break;
            }
            let _ = writeln!(out, "d {} {} {} {} {} {} {} {}", d.block, d.frames, d.pc, d.opcode, d.stack_extra, d.env_depth, d.binding_stack, d.iterators);
        }
    }
    let _ = bh::take_trace();
    st
}

fn main() {
    let stdin = std::io::stdin();
    let out = std::io::stdout();
    let mut out = out.lock();
    let mut cfg = Cfg { run: false, strict: false, lim_loop: None, lim_rec: None, lim_stack: None, maxlog: 200_000, jobs: true };
    for line in stdin.lock().lines() {
        let line = line.unwrap();
        if let Some(rest) = line.strip_prefix("cfg ") {
            for kv in rest.split_whitespace() {
                let Some((k, v)) = kv.split_once('=') else { continue };
                match k {
                    "run" => cfg.run = v == "1",
                    "strict" => cfg.strict = v == "1",
                    "loop" => cfg.lim_loop = v.parse().ok(),
                    "rec" => cfg.lim_rec = v.parse().ok(),
                    "stack" => cfg.lim_stack = v.parse().ok(),
                    "maxlog" => cfg.maxlog = v.parse().unwrap_or(200_000),
                    "jobs" => cfg.jobs = v == "1",
                    _ => {}
                }
            }
            continue;
        }
        let Some(rest) = line.strip_prefix("run ") else { continue };
        let (id, text) = rest.split_once(' ').unwrap_or((rest, ""));
        let units = bh::unescape_units(text);
        let c = cfg.clone();
        let mut body = String::new();
        let r = bh::guarded(|| run_case(&c, &units, &mut body));
        #[cfg(boa_verif)]
        {
            boa_engine::verif::set_switches(0);
        }
        writeln!(out, "case {id}").unwrap();
        out.write_all(body.as_bytes()).unwrap();
        match r {
            Ok(st) => writeln!(out, "status {st}").unwrap(),
            Err(m) => writeln!(out, "status panic {}", bh::json_str(&m)).unwrap(),
        }
        writeln!(out, "endcase {id}").unwrap();
        out.flush().unwrap();
    }
}
