//! C05: print boa's (optimized) AST of a script.
//!
//! Input lines:   ast <id> <optbits> <escaped program text>
//! Output lines:  <id>\tok\t<JSON string: ToInternedString of the statement list after
//!                           Context::optimize_statement_list with exactly these option bits>
//!                <id>\tsyntax\t""            (the parser rejected the text)
//!                <id>\tpanic\t<JSON message>  (parser / optimizer / printer panicked)
//! optbits: OptimizerOptions bits (2 constant folding, 4 strength reduction, 8 dead code elimination);
//! 0 = parse and print only (used to re-print the model's output through the same printer).
use boa_engine::optimizer::OptimizerOptions;
use boa_engine::{Context, Source};
use boa_interner::ToInternedString;
use std::io::{BufRead, Write};

fn one(bits: u8, text: &[u16]) -> Result<String, ()> {
    let src = String::from_utf16_lossy(text);
    let mut ctx = Context::default();
    ctx.set_optimizer_options(OptimizerOptions::from_bits_truncate(bits));
    let mut parser = boa_parser::Parser::new(Source::from_bytes(src.as_bytes()));
    let scope = ctx.realm().scope().clone();
    let mut script = parser.parse_script(&scope, ctx.interner_mut()).map_err(|_| ())?;
    if !ctx.optimizer_options().is_empty() {
        ctx.optimize_statement_list(script.statements_mut());
    }
    Ok(script.to_interned_string(ctx.interner()))
}

fn main() {
    let stdin = std::io::stdin();
    let out = std::io::stdout();
    let mut out = out.lock();
    for line in stdin.lock().lines() {
        let line = line.unwrap();
        let Some(rest) = line.strip_prefix("ast ") else { continue };
        let mut it = rest.splitn(3, ' ');
        let id = it.next().unwrap_or("");
        let bits: u8 = it.next().and_then(|b| b.parse().ok()).unwrap_or(0);
        let text = it.next().unwrap_or("");
        let units = bh::unescape_units(text);
        match bh::guarded(|| one(bits, &units)) {
            Ok(Ok(s)) => writeln!(out, "{id}\tok\t{}", bh::json_str(&s)).unwrap(),
            Ok(Err(())) => writeln!(out, "{id}\tsyntax\t\"\"").unwrap(),
            Err(m) => writeln!(out, "{id}\tpanic\t{}", bh::json_str(&m)).unwrap(),
        }
        out.flush().unwrap();
    }
}
