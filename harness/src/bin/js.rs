//! General JavaScript runner used by the trace-comparing checks.
//!
//! Input lines:
//!   cfg k=v ...        opt=<bits|default> entry=eval|script|call origin=bytes|reader sw=<bits> esc=0|1
//!                      loop=<n|-> rec=<n|-> stack=<n|-> gc=<n> fresh=0|1 jobs=0|1 strict=0|1 budget=<n|0>
//!                      dump=0|1 (print the code-block dump instead of running) prelude=<escaped JS run first in every fresh context>
//!   run <id> <escaped program text>
//! Output: `<id>\t<status>\t<trace: JSON array of print lines>\t<completion>`; status ok|panic.
//! completion: V:<type>:<text> | T:<ErrorClass> | T:throw:<type>:<text> | E:SyntaxError | L:<limit> | P:<engine panic>
use boa_engine::optimizer::OptimizerOptions;
use boa_engine::{Context, JsError, JsResult, JsValue, Script, Source, js_string};
use std::io::{BufRead, Write};

#[derive(Clone)]
struct Cfg {
    opt: Option<u8>,
    entry: String,
    origin: String,
    sw: u32,
    esc: bool,
    lim_loop: Option<u64>,
    lim_rec: Option<usize>,
    lim_stack: Option<usize>,
    gc: usize,
    fresh: bool,
    jobs: bool,
    strict: bool,
    budget: u32,
    dump: bool,
    prelude: String,
}

impl Default for Cfg {
    fn default() -> Self {
        Cfg { opt: None, entry: "eval".into(), origin: "bytes".into(), sw: 0, esc: false, lim_loop: None, lim_rec: None,
              lim_stack: None, gc: 0, fresh: true, jobs: true, strict: false, budget: 0, dump: false, prelude: String::new() }
    }
}

fn type_and_text(v: &JsValue, ctx: &mut Context) -> String {
    let ty = v.type_of();
    if v.is_object() {
        return format!("{}:[{}]", ty, if v.is_callable() { "function" } else { "object" });
    }
    if v.is_symbol() {
        return format!("symbol:{}", bh::json_str(&v.display().to_string()));
    }
    match v.to_string(ctx) {
        Ok(s) => format!("{}:{}", ty, bh::json_units(&s.iter().collect::<Vec<u16>>())),
        Err(_) => format!("{}:?", ty),
    }
}

fn completion(r: JsResult<JsValue>, ctx: &mut Context) -> String {
    match r {
        Ok(v) => format!("V:{}", type_and_text(&v, ctx)),
        Err(e) => error_class(&e, ctx),
    }
}

fn error_class(e: &JsError, ctx: &mut Context) -> String {
    if let Some(en) = e.as_engine() {
        let s = en.to_string();
        if s.starts_with("RuntimeLimitError") {
            let k = if s.contains("iteration") { "LoopIteration" } else if s.contains("recursive") { "Recursion" } else { "StackSize" };
            return format!("L:{k}");
        }
        return format!("P:{}", bh::json_str(&s));
    }
    if let Some(n) = e.as_native() {
        return format!("T:{}", kind_name(&format!("{:?}", n.kind())));
    }
    if let Some(v) = e.as_opaque() {
        if v.is_object() {
            if let Ok(n) = e.try_native(ctx) {
                return format!("T:{}", kind_name(&format!("{:?}", n.kind())));
            }
            return "T:throw:object".to_string();
        }
        let v = v.clone();
        return format!("T:throw:{}", type_and_text(&v, ctx));
    }
    "T:?".to_string()
}

fn kind_name(dbg: &str) -> String {
    let k: String = dbg.chars().take_while(|c| c.is_alphanumeric()).collect();
    match k.as_str() {
        "Error" => "Error".into(),
        "Aggregate" => "AggregateError".into(),
        "Type" => "TypeError".into(),
        "Range" => "RangeError".into(),
        "Reference" => "ReferenceError".into(),
        "Syntax" => "SyntaxError".into(),
        "Eval" => "EvalError".into(),
        "Uri" => "URIError".into(),
        other => other.to_string(),
    }
}

fn new_context(cfg: &Cfg) -> Context {
    let mut ctx = Context::default();
    bh::install_print(&mut ctx);
    apply(cfg, &mut ctx);
    if !cfg.prelude.is_empty() {
        let _ = ctx.eval(Source::from_bytes(cfg.prelude.as_bytes()));
        let _ = ctx.run_jobs();
        let _ = bh::take_trace();
    }
    ctx
}

fn apply(cfg: &Cfg, ctx: &mut Context) {
    if let Some(bits) = cfg.opt {
        ctx.set_optimizer_options(OptimizerOptions::from_bits_truncate(bits));
    }
    if let Some(n) = cfg.lim_loop { ctx.runtime_limits_mut().set_loop_iteration_limit(n); }
    if let Some(n) = cfg.lim_rec { ctx.runtime_limits_mut().set_recursion_limit(n); }
    if let Some(n) = cfg.lim_stack { ctx.runtime_limits_mut().set_stack_size_limit(n); }
    ctx.strict(cfg.strict);
}

fn block_on<F: std::future::Future>(f: F) -> F::Output {
    use std::task::{Context as TCtx, Poll, RawWaker, RawWakerVTable, Waker};
    fn noop(_: *const ()) {}
    fn clone(_: *const ()) -> RawWaker { RawWaker::new(std::ptr::null(), &VT) }
    static VT: RawWakerVTable = RawWakerVTable::new(clone, noop, noop, noop);
    let waker = unsafe { Waker::from_raw(RawWaker::new(std::ptr::null(), &VT)) };
    let mut cx = TCtx::from_waker(&waker);
    let mut f = std::pin::pin!(f);
    loop {
        if let Poll::Ready(v) = f.as_mut().poll(&mut cx) { return v; }
    }
}

fn run_case(cfg: &Cfg, ctx: &mut Context, text: &[u16]) -> (String, String) {
    let src = String::from_utf16_lossy(text);
    #[cfg(boa_verif)]
    {
        boa_engine::verif::set_switches(cfg.sw);
        boa_ast::scope::verif::set_force_escapes(cfg.esc);
        boa_gc::verif::set_stress(cfg.gc);
    }
    let result: JsResult<JsValue> = (|| {
        if cfg.dump {
            let script = Script::parse(Source::from_bytes(src.as_bytes()), None, ctx)?;
            let cb = script.codeblock(ctx)?;
            #[cfg(boa_verif)]
            {
                let d = cb.verif_dump();
                for l in d.lines() {
                    bh::TRACE.with(|t| t.borrow_mut().push(bh::json_str(l)));
                }
            }
            let _ = cb;
            return Ok(JsValue::undefined());
        }
        let r = match (cfg.entry.as_str(), cfg.budget) {
            ("eval", 0) => {
                if cfg.origin == "reader" {
                    ctx.eval(Source::from_reader(std::io::Cursor::new(src.as_bytes().to_vec()), None))
                } else {
                    ctx.eval(Source::from_bytes(src.as_bytes()))
                }
            }
            ("call", _) => {
                ctx.eval(Source::from_bytes(src.as_bytes()))?;
                let f = ctx.global_object().get(js_string!("main"), ctx)?;
                match f.as_callable() {
                    Some(f) => f.call(&JsValue::undefined(), &[], ctx),
                    None => Ok(JsValue::undefined()),
                }
            }
            (_, b) => {
                let script = if cfg.origin == "reader" {
                    Script::parse(Source::from_reader(std::io::Cursor::new(src.as_bytes().to_vec()), None), None, ctx)?
                } else {
                    Script::parse(Source::from_bytes(src.as_bytes()), None, ctx)?
                };
                if b == 0 { script.evaluate(ctx) } else { block_on(script.evaluate_async_with_budget(ctx, b)) }
            }
        };
        r
    })();
    let mut comp = match &result {
        Err(e) if e.as_native().map(|n| n.is_syntax()).unwrap_or(false) && bh::TRACE.with(|t| t.borrow().is_empty()) => {
            // a SyntaxError before anything ran: early error (program printed nothing)
            "E:SyntaxError".to_string()
        }
        _ => completion(result, ctx),
    };
    if cfg.jobs {
        if let Err(e) = ctx.run_jobs() {
            comp.push_str(&format!(" jobs:{}", error_class(&e, ctx)));
        }
    }
    #[cfg(boa_verif)]
    {
        boa_gc::verif::set_stress(0);
    }
    let trace = bh::take_trace();
    (bh::json_list(&trace), comp)
}

fn main() {
    let stdin = std::io::stdin();
    let out = std::io::stdout();
    let mut out = out.lock();
    let mut cfg = Cfg::default();
    let mut shared: Option<Context> = None;
    for line in stdin.lock().lines() {
        let line = line.unwrap();
        if let Some(rest) = line.strip_prefix("cfg ") {
            for kv in rest.split_whitespace() {
                let Some((k, v)) = kv.split_once('=') else { continue };
                match k {
                    "opt" => cfg.opt = if v == "default" { None } else { v.parse().ok() },
                    "entry" => cfg.entry = v.into(),
                    "origin" => cfg.origin = v.into(),
                    "sw" => cfg.sw = v.parse().unwrap_or(0),
                    "esc" => cfg.esc = v == "1",
                    "loop" => cfg.lim_loop = v.parse().ok(),
                    "rec" => cfg.lim_rec = v.parse().ok(),
                    "stack" => cfg.lim_stack = v.parse().ok(),
                    "gc" => cfg.gc = v.parse().unwrap_or(0),
                    "fresh" => cfg.fresh = v == "1",
                    "jobs" => cfg.jobs = v == "1",
                    "strict" => cfg.strict = v == "1",
                    "budget" => cfg.budget = v.parse().unwrap_or(0),
                    "dump" => cfg.dump = v == "1",
                    "prelude" => cfg.prelude = bh::unescape_string(v),
                    _ => {}
                }
            }
            shared = None;
            continue;
        }
        let Some(rest) = line.strip_prefix("run ") else { continue };
        let (id, text) = rest.split_once(' ').unwrap_or((rest, ""));
        let units = bh::unescape_units(text);
        let c = cfg.clone();
        let r = if cfg.fresh {
            bh::guarded(|| {
                let mut ctx = new_context(&c);
                run_case(&c, &mut ctx, &units)
            })
        } else {
            if shared.is_none() {
                shared = Some(new_context(&c));
            }
            let ctx = shared.as_mut().unwrap();
            let r = bh::guarded(|| run_case(&c, ctx, &units));
            if r.is_err() { shared = None; }
            r
        };
        match r {
            Ok((trace, comp)) => writeln!(out, "{id}\tok\t{trace}\t{comp}").unwrap(),
            Err(m) => {
                let trace = bh::json_list(&bh::take_trace());
                writeln!(out, "{id}\tpanic\t{trace}\tP:{}", bh::json_str(&m)).unwrap()
            }
        }
        out.flush().unwrap();
    }
}
