//! Common helpers of the verification harness binaries (`src/bin/*.rs`).
//! Every binary is line oriented: one case per input line, one result line per case.
use boa_engine::{Context, JsResult, JsValue, NativeFunction, js_string};
use std::cell::RefCell;

thread_local! {
    pub static TRACE: RefCell<Vec<String>> = const { RefCell::new(Vec::new()) };
}

/// JSON string literal of an arbitrary Rust string.
pub fn json_str(s: &str) -> String {
    let mut o = String::with_capacity(s.len() + 2);
    o.push('"');
    for c in s.chars() {
        match c {
            '"' => o.push_str("\\\""),
            '\\' => o.push_str("\\\\"),
            '\n' => o.push_str("\\n"),
            '\r' => o.push_str("\\r"),
            '\t' => o.push_str("\\t"),
            c if (c as u32) < 0x20 || (c as u32) == 0x7f => o.push_str(&format!("\\u{:04x}", c as u32)),
            c => o.push(c),
        }
    }
    o.push('"');
    o
}

/// JSON string literal of a sequence of UTF-16 code units (lone surrogates escaped).
pub fn json_units(u: &[u16]) -> String {
    let mut o = String::from("\"");
    for &c in u {
        match c {
            0x22 => o.push_str("\\\""),
            0x5c => o.push_str("\\\\"),
            0x20..=0x7e => o.push(c as u8 as char),
            _ => o.push_str(&format!("\\u{:04x}", c)),
        }
    }
    o.push('"');
    o
}

pub fn json_list(items: &[String]) -> String {
    format!("[{}]", items.join(","))
}

/// The host function `print`: appends the ToString of its arguments (joined by a blank) to TRACE.
pub fn print(_this: &JsValue, args: &[JsValue], ctx: &mut Context) -> JsResult<JsValue> {
    let mut units: Vec<u16> = Vec::new();
    for (i, a) in args.iter().enumerate() {
        let s = a.to_string(ctx)?;
        if i > 0 {
            units.push(0x20);
        }
        units.extend(s.iter());
    }
    TRACE.with(|t| t.borrow_mut().push(json_units(&units)));
    Ok(JsValue::undefined())
}

pub fn install_print(ctx: &mut Context) {
    ctx.register_global_builtin_callable(js_string!("print"), 0, NativeFunction::from_fn_ptr(print))
        .expect("register print");
}

pub fn take_trace() -> Vec<String> {
    TRACE.with(|t| std::mem::take(&mut *t.borrow_mut()))
}

/// Decode the `\uXXXX`-escaped wire format used for program texts and strings: the line is a JSON
/// string literal without the quotes restricted to the escapes \\ \n \r \t \" \uXXXX.
pub fn unescape_units(s: &str) -> Vec<u16> {
    let b: Vec<char> = s.chars().collect();
    let mut out = Vec::new();
    let mut i = 0;
    while i < b.len() {
        if b[i] == '\\' && i + 1 < b.len() {
            match b[i + 1] {
                'n' => { out.push(10); i += 2; }
                'r' => { out.push(13); i += 2; }
                't' => { out.push(9); i += 2; }
                '"' => { out.push(34); i += 2; }
                '\\' => { out.push(92); i += 2; }
                'u' if i + 5 < b.len() + 0 && i + 6 <= b.len() => {
                    let h: String = b[i + 2..i + 6].iter().collect();
                    out.push(u16::from_str_radix(&h, 16).unwrap_or(0xfffd));
                    i += 6;
                }
                _ => { out.push(b[i] as u16); i += 1; }
            }
        } else {
            let mut buf = [0u16; 2];
            out.extend_from_slice(b[i].encode_utf16(&mut buf));
            i += 1;
        }
    }
    out
}

pub fn unescape_string(s: &str) -> String {
    String::from_utf16_lossy(&unescape_units(s))
}

/// Run `f` catching panics; Err(message) on panic.  The default panic hook is silenced once.
pub fn guarded<T>(f: impl FnOnce() -> T) -> Result<T, String> {
    static ONCE: std::sync::Once = std::sync::Once::new();
    ONCE.call_once(|| {
        std::panic::set_hook(Box::new(|_| {}));
    });
    match std::panic::catch_unwind(std::panic::AssertUnwindSafe(f)) {
        Ok(v) => Ok(v),
        Err(e) => {
            let msg = if let Some(s) = e.downcast_ref::<&str>() {
                (*s).to_string()
            } else if let Some(s) = e.downcast_ref::<String>() {
                s.clone()
            } else {
                "panic".to_string()
            };
            Err(msg)
        }
    }
}
