(* C10 (collector level) — a collection is unobservable to the mutator and leaves nothing behind:
   A. the set of reachable strong boxes is the same before and after Collector::collect;
   B. the reachable sub-heap (payload handles, finalizer field, ephemeron data whose key is reachable,
      root lists, allocation counters) is identical after the collection;
   C. the registry ephemerons of weak maps always carry a unit value (an invariant of every history),
      and dropping every root and collecting twice leaves an empty heap. *)
From Coq Require Import List Arith Bool PeanoNat NArith Lia.
From C09 Require Import GcModel Spec_C09 Mark_C09 Fin_C09 Step_C09 Collect_C09.
Import ListNotations.

(* ---------------------------------------------------------------------------------------------- *)
(* the registry after the weak_maps.retain pass: exactly the entries whose WeakGc still upgrades *)

Lemma In_remove1_nodup w w0 l : NoDup l -> (In w (remove1 w0 l) <-> In w l /\ w <> w0).
Proof.
  intro Hnd. split.
  - intro H. split; [eapply In_remove1; exact H|]. intro E. subst w0.
    revert H. induction Hnd as [|a l Hn Hd IH]; cbn [remove1]; [intros []|].
    destruct (N.eqb_spec w a) as [->|Ne]; [exact Hn|].
    intros [H|H]; [congruence|]. apply IH. exact H.
  - intros [H Hn]. apply In_remove1_other; assumption.
Qed.

Lemma wm_one_wmaps s w0 : Inv s -> poisoned s = false ->
  forall w, In w (wmaps (wm_one s w0)) <-> In w (wmaps s) /\ (w = w0 -> has_data (weaks s) w0 = true).
Proof.
  intros I Hp w. unfold wm_one, has_data.
  destruct (find_e w0 (weaks s)) as [x|] eqn:Hf.
  - destruct (e_data x) as [[m v]|] eqn:Hd.
    + destruct (clear_entries_inv s m I Hp) as (_ & _ & _ & D). rewrite D. tauto.
    + cbn [wmaps set_wmaps]. rewrite (In_remove1_nodup w w0 _ (inv_wm_nodup _ I)).
      split; intros [A B]; (split; [exact A|]).
      * intro E. contradiction.
      * intro E. apply B in E. discriminate.
  - cbn [wmaps set_wmaps]. rewrite (In_remove1_nodup w w0 _ (inv_wm_nodup _ I)).
    split; intros [A B]; (split; [exact A|]).
    * intro E. contradiction.
    * intro E. apply B in E. discriminate.
Qed.

Lemma wm_fold_wmaps : forall l s, Inv s -> poisoned s = false -> NoDup l -> incl l (wmaps s) ->
  forall w, In w (wmaps (fold_left wm_one l s)) <->
            In w (wmaps s) /\ (In w l -> has_data (weaks s) w = true).
Proof.
  induction l as [|w0 l IH]; intros s I Hp Hnd Hi w.
  - cbn [fold_left In]. tauto.
  - cbn [fold_left]. inversion Hnd as [|? ? Hni Hnd']; subst.
    destruct (wm_one_spec s w0 I Hp (Hi w0 (or_introl eq_refl))) as (A & B & C & D).
    assert (Hi' : incl l (wmaps (wm_one s w0))).
    { intros w' Hw'. apply D; [apply Hi; right; exact Hw'|]. intro E. subst w'. contradiction. }
    rewrite (IH (wm_one s w0) A B Hnd' Hi' w).
    rewrite (wm_one_wmaps s w0 I Hp w).
    rewrite (has_data_frame _ _ C w).
    cbn [In]. split.
    + intros [[H1 H2] H3]. split; [exact H1|].
      intros [E|H]; [subst w0; apply H2; reflexivity|apply H3; exact H].
    + intros [H1 H2]. split; [split; [exact H1|]|].
      * intro E. subst w0. apply H2. left. reflexivity.
      * intro H. apply H2. right. exact H.
Qed.

Lemma collect_wmaps s s' g :
  Inv s -> poisoned s = false -> dead_no_res s -> collect s = (s', g) ->
  forall w, In w (wmaps s') <-> In w (wmaps s) /\ has_data (weaks s') w = true.
Proof.
  intros I Hp Hd Hc w. destruct (collect_cases s) as [(ES & EW & E)|E]; rewrite E in Hc.
  - injection Hc as <- <-. split; [intro H; exfalso|intros [_ H]; exfalso].
    + apply (inv_wm _ I) in H. rewrite EW in H. exact H.
    + unfold has_data in H. rewrite EW in H. discriminate.
  - apply collect_core_spec in Hc; try assumption.
    destruct Hc as (ms & me & Hms & Hme & Hc). cbv zeta in Hc. destruct Hc as (Es & I' & Hp' & F & Eg).
    set (dead := filter (fun n => negb (memb n ms)) (ids_s (strongs s))) in *.
    set (pend := filter (fun x => negb (fst (eph_trace x ms me))) (weaks s)) in *.
    pose proof (Inv_s2 s I ms me dead pend Hms Hme eq_refl eq_refl) as I2.
    assert (Hp2 : poisoned (s2 s ms me dead pend) = false) by exact Hp.
    pose proof (wm_fold_wmaps (wmaps s) (s2 s ms me dead pend) I2 Hp2 (inv_wm_nodup _ I) (incl_refl _) w) as W.
    rewrite <- Es in W. change (wmaps (s2 s ms me dead pend)) with (wmaps s) in W.
    rewrite <- (has_data_frame _ _ F w) in W. rewrite W.
    split; intros [A B]; (split; [exact A|]).
    + apply B. exact A.
    + intros _. exact B.
Qed.

(* ---------------------------------------------------------------------------------------------- *)
(* A and B: one collection *)

Section AfterCollect.
Variables (s s' : state) (g : gc_out).
Hypothesis I : Inv s.
Hypothesis Hp : poisoned s = false.
Hypothesis Hd : dead_no_res s.
Hypothesis Hc : collect s = (s', g).

Lemma ac_ext : ext_s s' = ext_s s /\ ext_e s' = ext_e s /\ next_s s' = next_s s /\ next_e s' = next_e s.
Proof.
  destruct (collect_exact_lemma s s' g I Hp Hd Hc) as (_ & _ & _ & _ & _ & _ & _ & _ & _ & H). exact H.
Qed.

(* a reachable strong box survives with the same payload handles *)
Lemma ac_surv_s n b : Reach s n -> find_s n (strongs s) = Some b ->
  exists b', find_s n (strongs s') = Some b' /\ s_kids b' = s_kids b /\ s_fin b' = s_fin b /\
             s_map b' = s_map b /\
             (s_ephs b' = s_ephs b \/ s_ephs b' = filter (has_data (weaks s')) (s_ephs b)).
Proof.
  intros Hr Hf.
  destruct (collect_exact_lemma s s' g I Hp Hd Hc) as (_ & _ & ES & _).
  destruct (collect_frame_lemma s s' g I Hp Hd Hc) as (FS & _).
  destruct (find_s n (strongs s')) as [b'|] eqn:F'.
  - destruct (FS n b' F') as (b0 & F0 & R). rewrite Hf in F0. inversion F0; subst b0.
    exists b'. split; [reflexivity|exact R].
  - exfalso. apply find_s_None in F'. apply F'. apply ES. split; [|exact Hr].
    destruct (find_s_In _ _ _ Hf) as [Hb Hid]. rewrite <- Hid. unfold ids_s. apply in_map. exact Hb.
Qed.

(* a reachable ephemeron box survives; its data can only be taken when the key is unreachable *)
Lemma ac_surv_e e x : ReachE s e -> find_e e (weaks s) = Some x ->
  exists x', find_e e (weaks s') = Some x' /\
    (e_data x' = e_data x \/ (e_data x' = None /\ exists k v, e_data x = Some (k, v) /\ ~ Reach s k)).
Proof.
  intros Hr Hf.
  destruct (collect_exact_lemma s s' g I Hp Hd Hc) as (_ & _ & _ & EE & _).
  destruct (collect_frame_lemma s s' g I Hp Hd Hc) as (_ & FE & _).
  destruct (find_e e (weaks s')) as [x'|] eqn:F'.
  - destruct (FE e x' F') as (x0 & F0 & R). rewrite Hf in F0. inversion F0; subst x0.
    exists x'. split; [reflexivity|exact R].
  - exfalso. apply find_e_None in F'. apply F'. apply EE. split; [|exact Hr].
    destruct (find_e_In _ _ _ Hf) as [Hb Hid]. rewrite <- Hid. unfold ids_e. apply in_map. exact Hb.
Qed.

Lemma ac_data e x k v : ReachE s e -> find_e e (weaks s) = Some x -> e_data x = Some (k, v) -> Reach s k ->
  exists x', find_e e (weaks s') = Some x' /\ e_data x' = Some (k, v).
Proof.
  intros Hr Hf Hdx Hk. destruct (ac_surv_e e x Hr Hf) as (x' & F' & [D|(D & k' & v' & Dx & Nr)]).
  - exists x'. split; [exact F'|congruence].
  - exfalso. apply Nr. assert (k' = k) by congruence. subst k'. exact Hk.
Qed.

Lemma ac_has_data e x k v : ReachE s e -> find_e e (weaks s) = Some x -> e_data x = Some (k, v) -> Reach s k ->
  has_data (weaks s') e = true.
Proof.
  intros Hr Hf Hdx Hk. destruct (ac_data e x k v Hr Hf Hdx Hk) as (x' & F' & D).
  unfold has_data. rewrite F', D. reflexivity.
Qed.

(* forward: what is reachable stays reachable; an ephemeron box stays reachable as long as it keeps
   its data (a reachable ephemeron that loses its data is dropped from the tables that held it and
   may be garbage for the next cycle) *)
Lemma reach_fwd :
  (forall n, Reach s n -> Reach s' n) /\
  (forall e, ReachE s e -> forall x k v, find_e e (weaks s) = Some x -> e_data x = Some (k, v) ->
                                         Reach s k -> ReachE s' e).
Proof.
  destruct ac_ext as (XS & XE & _ & _).
  apply (Reach_mutind s (fun n => Reach s' n)
           (fun e => forall x k v, find_e e (weaks s) = Some x -> e_data x = Some (k, v) ->
                                   Reach s k -> ReachE s' e)).
  - intros n Hn. apply R_ext. rewrite XS. exact Hn.
  - intros a b n Ra Ra' Hf Hn. destruct (ac_surv_s a b Ra Hf) as (b' & F' & K & _).
    eapply R_kid; [exact Ra'|exact F'|]. rewrite K. exact Hn.
  - intros e x k v Re PE Hf Hdx Rk Rk'.
    destruct (ac_data e x k (Some v) Re Hf Hdx Rk) as (x' & F' & D).
    eapply R_val; [exact (PE x k (Some v) Hf Hdx Rk)|exact F'|exact D|exact Rk'].
  - intros e He x k v Hf Hdx Rk. apply RE_ext. rewrite XE. exact He.
  - intros e He x k v Hf Hdx Rk. apply RE_wm.
    apply (collect_wmaps s s' g I Hp Hd Hc). split; [exact He|].
    apply (ac_has_data e x k v); try assumption. apply RE_wm. exact He.
  - intros a b e Ra Ra' Hf He x k v Hfe Hdx Rk.
    destruct (ac_surv_s a b Ra Hf) as (b' & F' & _ & _ & _ & Ee).
    eapply RE_sto; [exact Ra'|exact F'|].
    destruct Ee as [Ee|Ee]; rewrite Ee; [exact He|].
    apply filter_In. split; [exact He|].
    apply (ac_has_data e x k v); try assumption. exact (RE_sto s a b e Ra Hf He).
Qed.

(* backward: the collection creates no path *)
Lemma reach_bwd :
  (forall n, Reach s' n -> Reach s n) /\ (forall e, ReachE s' e -> ReachE s e).
Proof.
  destruct ac_ext as (XS & XE & _ & _).
  destruct (collect_frame_lemma s s' g I Hp Hd Hc) as (FS & FE & FW & _).
  apply (Reach_mutind s' (fun n => Reach s n) (fun e => ReachE s e)).
  - intros n Hn. apply R_ext. rewrite <- XS. exact Hn.
  - intros a b' n _ Ra Hf Hn. destruct (FS a b' Hf) as (b & F0 & K & _).
    eapply R_kid; [exact Ra|exact F0|]. rewrite <- K. exact Hn.
  - intros e x' k v _ Re Hf Hdx _ Rk. destruct (FE e x' Hf) as (x & F0 & [D|[D _]]).
    + eapply R_val; [exact Re|exact F0| |exact Rk]. rewrite <- D. exact Hdx.
    + congruence.
  - intros e He. apply RE_ext. rewrite <- XE. exact He.
  - intros e He. apply RE_wm. apply FW. exact He.
  - intros a b' e _ Ra Hf He. destruct (FS a b' Hf) as (b & F0 & _ & _ & _ & Ee).
    eapply RE_sto; [exact Ra|exact F0|].
    destruct Ee as [Ee|Ee]; rewrite Ee in He; [exact He|]. apply filter_In in He. tauto.
Qed.

End AfterCollect.

Theorem collect_reach_iff s s' g :
  Inv s -> poisoned s = false -> dead_no_res s -> collect s = (s', g) ->
  forall n, Reach s' n <-> Reach s n.
Proof.
  intros I Hp Hd Hc n. split.
  - apply (proj1 (reach_bwd s s' g I Hp Hd Hc)).
  - apply (proj1 (reach_fwd s s' g I Hp Hd Hc)).
Qed.

(* ephemeron boxes: the collection creates no path to an ephemeron box, and a reachable ephemeron
   box that still has its data (its key is reachable) stays reachable *)
Theorem collect_reachE s s' g :
  Inv s -> poisoned s = false -> dead_no_res s -> collect s = (s', g) ->
  (forall e, ReachE s' e -> ReachE s e) /\
  (forall e x k v, ReachE s e -> find_e e (weaks s) = Some x -> e_data x = Some (k, v) -> Reach s k ->
                   ReachE s' e).
Proof.
  intros I Hp Hd Hc. split.
  - apply (proj2 (reach_bwd s s' g I Hp Hd Hc)).
  - intros e x k v Re. apply (proj2 (reach_fwd s s' g I Hp Hd Hc) e Re).
Qed.

Theorem collect_preserves_reachable s s' g :
  Inv s -> poisoned s = false -> dead_no_res s -> collect s = (s', g) ->
  ext_s s' = ext_s s /\ ext_e s' = ext_e s /\ next_s s' = next_s s /\ next_e s' = next_e s /\
  (forall n b, Reach s n -> find_s n (strongs s) = Some b ->
     exists b', find_s n (strongs s') = Some b' /\ s_kids b' = s_kids b /\ s_fin b' = s_fin b /\
                s_map b' = s_map b /\
                (forall e, In e (s_ephs b') <->
                           In e (s_ephs b) /\ (s_ephs b' = s_ephs b \/ has_data (weaks s') e = true))) /\
  (forall e x k v, ReachE s e -> find_e e (weaks s) = Some x -> e_data x = Some (k, v) -> Reach s k ->
     exists x', find_e e (weaks s') = Some x' /\ e_data x' = Some (k, v)).
Proof.
  intros I Hp Hd Hc. destruct (ac_ext s s' g I Hp Hd Hc) as (XS & XE & NS & NE).
  split; [exact XS|]. split; [exact XE|]. split; [exact NS|]. split; [exact NE|]. split.
  - intros n b Hr Hf. destruct (ac_surv_s s s' g I Hp Hd Hc n b Hr Hf) as (b' & F' & K & Fn & M & Ee).
    exists b'. split; [exact F'|]. split; [exact K|]. split; [exact Fn|]. split; [exact M|].
    intro e. destruct Ee as [Ee|Ee].
    + rewrite Ee. split; [intro H; split; [exact H|left; reflexivity]|tauto].
    + split.
      * intro H. rewrite Ee in H. apply filter_In in H. destruct H as [H1 H2]. split; [exact H1|right; exact H2].
      * intros [H1 [H2|H2]]; [rewrite H2; exact H1|]. rewrite Ee. apply filter_In. split; assumption.
  - intros e x k v. apply (ac_data s s' g I Hp Hd Hc).
Qed.

(* the same, with the entry list described as a list *)
Theorem collect_preserves_ephs s s' g :
  Inv s -> poisoned s = false -> dead_no_res s -> collect s = (s', g) ->
  forall n b, Reach s n -> find_s n (strongs s) = Some b ->
    exists b', find_s n (strongs s') = Some b' /\
               (s_ephs b' = s_ephs b \/ s_ephs b' = filter (has_data (weaks s')) (s_ephs b)).
Proof.
  intros I Hp Hd Hc n b Hr Hf. destruct (ac_surv_s s s' g I Hp Hd Hc n b Hr Hf) as (b' & F' & _ & _ & _ & Ee).
  exists b'. split; assumption.
Qed.

(* ---------------------------------------------------------------------------------------------- *)
(* C: the registry ephemerons (the WeakGc of each WeakMapBox) carry a unit value *)

Definition wm_unit (s : state) : Prop :=
  forall w x k v, In w (wmaps s) -> find_e w (weaks s) = Some x -> e_data x = Some (k, v) -> v = None.

Lemma wm_unit_init : wm_unit init.
Proof. intros w x k v []. Qed.

(* the data of the ephemeron boxes, in allocation order *)
Definition datas (W : list ebox) : list (id * option (id * option id)) :=
  map (fun x => (e_id x, e_data x)) W.

Lemma In_datas_ids w d W : In (w, d) (datas W) -> In w (ids_e W).
Proof.
  unfold datas, ids_e. intro H. apply in_map_iff in H. destruct H as [x [E Hx]]. inversion E; subst.
  apply in_map. exact Hx.
Qed.

Lemma wm_unit_alt s : NoDup (ids_e (weaks s)) ->
  (wm_unit s <-> forall w k v, In w (wmaps s) -> In (w, Some (k, v)) (datas (weaks s)) -> v = None).
Proof.
  intro Hnd. unfold wm_unit. split.
  - intros U w k v Hw Hin. unfold datas in Hin. apply in_map_iff in Hin. destruct Hin as [x [E Hx]].
    inversion E; subst w. apply (U (e_id x) x k v Hw); [apply find_e_nodup; assumption|assumption].
  - intros U w x k v Hw Hf Hdx. destruct (find_e_In _ _ _ Hf) as [Hx Hid]. apply (U w k v Hw).
    unfold datas. apply in_map_iff. exists x. split; [rewrite Hid, Hdx; reflexivity|exact Hx].
Qed.

Lemma datas_upd_e n f W : (forall b, e_id (f b) = e_id b) -> (forall b, e_data (f b) = e_data b) ->
  datas (upd_e n f W) = datas W.
Proof.
  intros H1 H2. unfold datas, upd_e. rewrite map_map. apply map_ext. intro b.
  destruct (N.eqb (e_id b) n); [rewrite H1, H2|]; reflexivity.
Qed.

Lemma datas_snoc W x : datas (W ++ [x]) = datas W ++ [(e_id x, e_data x)].
Proof. unfold datas. rewrite map_app. reflexivity. Qed.

Lemma weaks_dec_s n s : weaks (dec_s n s) = weaks s.
Proof. unfold dec_s. destruct (find_s n (strongs s)) as [b|]; [destruct (s_rc b)|]; reflexivity. Qed.
Lemma wmaps_dec_s n s : wmaps (dec_s n s) = wmaps s.
Proof. unfold dec_s. destruct (find_s n (strongs s)) as [b|]; [destruct (s_rc b)|]; reflexivity. Qed.
Lemma next_e_dec_s n s : next_e (dec_s n s) = next_e s.
Proof. unfold dec_s. destruct (find_s n (strongs s)) as [b|]; [destruct (s_rc b)|]; reflexivity. Qed.
Lemma wmaps_dec_e n s : wmaps (dec_e n s) = wmaps s.
Proof. unfold dec_e. destruct (find_e n (weaks s)) as [b|]; [destruct (e_rc b)|]; reflexivity. Qed.
Lemma next_e_dec_e n s : next_e (dec_e n s) = next_e s.
Proof. unfold dec_e. destruct (find_e n (weaks s)) as [b|]; [destruct (e_rc b)|]; reflexivity. Qed.
Lemma datas_dec_e n s : datas (weaks (dec_e n s)) = datas (weaks s).
Proof.
  unfold dec_e. destruct (find_e n (weaks s)) as [b|]; [destruct (e_rc b)|]; try reflexivity.
  cbn [weaks set_weaks]. apply datas_upd_e; intro; reflexivity.
Qed.

(* what a mutator operation does to the ephemeron data and to the registry: nothing, or a new
   ephemeron box with a fresh id; only WmNew registers one, and its value is () *)
Definition dstep (s s' : state) : Prop :=
  (datas (weaks s') = datas (weaks s) /\ wmaps s' = wmaps s) \/
  (exists d, datas (weaks s') = datas (weaks s) ++ [(next_e s, d)] /\ wmaps s' = wmaps s) \/
  (exists m, datas (weaks s') = datas (weaks s) ++ [(next_e s, Some (m, None))] /\
             wmaps s' = wmaps s ++ [next_e s]).

Ltac dt :=
  repeat first [ rewrite weaks_dec_s | rewrite wmaps_dec_s | rewrite next_e_dec_s
               | rewrite datas_dec_e | rewrite wmaps_dec_e | rewrite next_e_dec_e
               | rewrite datas_upd_e by (intro; reflexivity)
               | rewrite datas_snoc
               | progress sp
               | progress cbn [e_id e_data] ].

Lemma step_dstep s o : o <> Collect -> dstep s (fst (step s o)).
Proof.
  intro Ho. destruct o; try congruence; unfold step; brk; cbn [fst]; unfold dstep; dt;
    first [ left; split; reflexivity
          | right; left; eexists; split; reflexivity
          | right; right; eexists; split; reflexivity ].
Qed.

Lemma dstep_wm_unit s s' : Inv s -> NoDup (ids_e (weaks s')) -> dstep s s' -> wm_unit s -> wm_unit s'.
Proof.
  intros I Hnd' D U. apply (wm_unit_alt s' Hnd').
  pose proof (proj1 (wm_unit_alt s (inv_nodup_e _ I)) U) as U'.
  assert (fresh : forall d, ~ In (next_e s, d) (datas (weaks s))).
  { intros d H. apply In_datas_ids in H. apply (inv_fresh_e _ I) in H. apply N.lt_irrefl in H. exact H. }
  assert (freshw : ~ In (next_e s) (wmaps s)).
  { intro H. apply (inv_wm _ I) in H. apply (inv_fresh_e _ I) in H. apply N.lt_irrefl in H. exact H. }
  intros w k v Hw Hin. destruct D as [[D1 D2]|[(d & D1 & D2)|(m & D1 & D2)]]; rewrite D1 in Hin; rewrite D2 in Hw.
  - apply (U' w k v Hw Hin).
  - apply in_app_or in Hin. destruct Hin as [Hin|[Hin|[]]]; [apply (U' w k v Hw Hin)|].
    inversion Hin; subst. contradiction.
  - apply in_app_or in Hw. apply in_app_or in Hin.
    destruct Hw as [Hw|[Hw|[]]]; destruct Hin as [Hin|[Hin|[]]].
    + apply (U' w k v Hw Hin).
    + inversion Hin; subst. contradiction.
    + subst w. exfalso. apply (fresh _ Hin).
    + inversion Hin. reflexivity.
Qed.

Lemma collect_wm_unit s s' g :
  Inv s -> poisoned s = false -> dead_no_res s -> collect s = (s', g) -> wm_unit s -> wm_unit s'.
Proof.
  intros I Hp Hd Hc U w x' k v Hw Hf Hdx.
  destruct (collect_frame_lemma s s' g I Hp Hd Hc) as (_ & FE & FW & _).
  destruct (FE w x' Hf) as (x & F0 & [D|[D _]]); [|congruence].
  apply (U w x k v); [apply FW; exact Hw|exact F0|congruence].
Qed.

Theorem step_wm_unit s o :
  Inv s -> poisoned s = false -> dead_no_res s -> wm_unit s -> wm_unit (fst (step s o)).
Proof.
  intros I Hp Hd U.
  assert (Ho : o = Collect \/ o <> Collect) by (destruct o; first [left; reflexivity|right; discriminate]).
  destruct Ho as [->|Ho].
  - cbn [step]. destruct (collect s) as [s' g] eqn:Hc. cbn [fst].
    apply (collect_wm_unit s s' g I Hp Hd Hc U).
  - destruct (step_inv s o Ho I Hp) as [I' _].
    apply (dstep_wm_unit s); [exact I|apply (inv_nodup_e _ I')|apply step_dstep; exact Ho|exact U].
Qed.

(* with no root left, nothing is reachable except the registry ephemerons *)
Lemma no_roots_no_reach s : wm_unit s -> ext_s s = [] -> ext_e s = [] ->
  (forall n, Reach s n -> False) /\ (forall e, ReachE s e -> In e (wmaps s)).
Proof.
  intros U XS XE.
  apply (Reach_mutind s (fun _ => False) (fun e => In e (wmaps s))).
  - intros n Hn. rewrite XS in Hn. exact Hn.
  - intros a b n _ F _ _. exact F.
  - intros e x k v _ Hw Hf Hdx _ _. pose proof (U e x k (Some v) Hw Hf Hdx). discriminate.
  - intros e He. rewrite XE in He. destruct He.
  - intros e He. exact He.
  - intros a b e _ F _ _. destruct F.
Qed.

Lemma no_elem_nil {A} (l : list A) : (forall x, ~ In x l) -> l = [].
Proof. destruct l as [|a t]; [reflexivity|]. intro H. exfalso. apply (H a). left. reflexivity. Qed.

Lemma ids_s_nil Sb : ids_s Sb = [] -> Sb = [].
Proof. destruct Sb; [reflexivity|discriminate]. Qed.

Lemma ids_e_nil W : ids_e W = [] -> W = [].
Proof. destruct W; [reflexivity|discriminate]. Qed.

Theorem drop_all_then_collect_empties s s1 g1 s2 g2 :
  Inv s -> poisoned s = false -> no_res s -> wm_unit s -> ext_s s = [] -> ext_e s = [] ->
  collect s = (s1, g1) -> collect s1 = (s2, g2) ->
  strongs s1 = [] /\ wmaps s1 = [] /\ strongs s2 = [] /\ weaks s2 = [] /\ wmaps s2 = [].
Proof.
  intros I Hp Hnr U XS XE Hc1 Hc2.
  assert (Hd : dead_no_res s) by (intros b Hb _; apply Hnr; exact Hb).
  destruct (no_roots_no_reach s U XS XE) as [NR _].
  destruct (collect_exact_lemma s s1 g1 I Hp Hd Hc1)
    as (I1 & Hp1 & ES1 & _ & _ & _ & _ & _ & _ & XS1 & XE1 & _).
  (* first collection *)
  assert (S1 : strongs s1 = []).
  { apply ids_s_nil. apply no_elem_nil. intros n Hn. apply ES1 in Hn. apply (NR n). tauto. }
  assert (W1 : wmaps s1 = []).
  { apply no_elem_nil. intros w Hw. apply (collect_wmaps s s1 g1 I Hp Hd Hc1) in Hw. destruct Hw as [_ Hw].
    unfold has_data in Hw. destruct (find_e w (weaks s1)) as [x|] eqn:Hf; [|discriminate].
    destruct (e_data x) as [[k v]|] eqn:Hdx; [|discriminate].
    destruct (find_e_In _ _ _ Hf) as [Hx _]. pose proof (inv_key _ I1 x k v Hx Hdx) as Hk.
    rewrite S1 in Hk. exact Hk. }
  split; [exact S1|]. split; [exact W1|].
  (* second collection *)
  assert (Hd1 : dead_no_res s1) by (intros b Hb; rewrite S1 in Hb; destruct Hb).
  assert (NRE : forall e, ~ ReachE s1 e).
  { intros e He. inversion He as [e' H|e' H|a b e' Ra Hf H]; subst.
    - rewrite XE1, XE in H. exact H.
    - rewrite W1 in H. exact H.
    - rewrite S1 in Hf. discriminate. }
  destruct (collect_exact_lemma s1 s2 g2 I1 Hp1 Hd1 Hc2) as (_ & _ & ES2 & EE2 & _).
  destruct (collect_frame_lemma s1 s2 g2 I1 Hp1 Hd1 Hc2) as (_ & _ & FW2 & _).
  split; [|split].
  - apply ids_s_nil. apply no_elem_nil. intros n Hn. apply ES2 in Hn. rewrite S1 in Hn. tauto.
  - apply ids_e_nil. apply no_elem_nil. intros e He. apply EE2 in He. apply (NRE e). tauto.
  - apply no_elem_nil. intros w Hw. apply FW2 in Hw. rewrite W1 in Hw. exact Hw.
Qed.

