(* C09 — the marking phase: mark_heap computes exactly the abstractly reachable sets (first pass), and a
   pass started from closed mark sets changes nothing (second pass after finalization). *)
From Coq Require Import List Arith Bool PeanoNat NArith Lia.
From C09 Require Import GcModel Spec_C09.
Import ListNotations.

(* ---------------------------------------------------------------------------------------------- *)
(* unfolding equations (so that no proof has to `simpl` a call whose fuel is a closed numeral) *)

Lemma drain_O Sb q ms me : drain 0 Sb q ms me = (ms, me).
Proof. reflexivity. Qed.

Lemma drain_nil fuel Sb ms me : drain fuel Sb [] ms me = (ms, me).
Proof. destruct fuel; reflexivity. Qed.

Lemma drain_cons f Sb n q ms me :
  drain (S f) Sb (n :: q) ms me =
  if memb n ms then drain f Sb q ms me
  else match find_s n Sb with
       | Some b => drain f Sb (q ++ s_kids b) (n :: ms) (s_ephs b ++ me)
       | None => drain f Sb q (n :: ms) me
       end.
Proof. reflexivity. Qed.

Lemma phase0_nil fuel Sb tabS ms me dead : phase0 fuel Sb tabS [] ms me dead = (ms, me, dead).
Proof. reflexivity. Qed.

Lemma phase0_cons fuel Sb tabS b l ms me dead :
  phase0 fuel Sb tabS (b :: l) ms me dead =
  if rooted tabS (s_id b) (s_rc b) then
    let '(ms1, me1) := drain fuel Sb [s_id b] ms me in phase0 fuel Sb tabS l ms1 me1 dead
  else if memb (s_id b) ms then phase0 fuel Sb tabS l ms me dead
  else phase0 fuel Sb tabS l ms me (dead ++ [s_id b]).
Proof. reflexivity. Qed.

Definition root_add (tabE : list (id * nat)) (e : ebox) (me : list id) : list id :=
  if rooted tabE (e_id e) (e_rc e) then e_id e :: me else me.

Lemma phase1_nil fuel Sb tabE ms me pending : phase1 fuel Sb tabE [] ms me pending = (ms, me, pending).
Proof. reflexivity. Qed.

Lemma phase1_cons fuel Sb tabE e l ms me pending :
  phase1 fuel Sb tabE (e :: l) ms me pending =
  let '(ok, q) := eph_trace e ms (root_add tabE e me) in
  let '(ms2, me2) := drain fuel Sb q ms (root_add tabE e me) in
  phase1 fuel Sb tabE l ms2 me2 (if ok then pending else pending ++ [e]).
Proof.
  unfold root_add. cbn [phase1].
  destruct (eph_trace e ms (if rooted tabE (e_id e) (e_rc e) then e_id e :: me else me)) as [ok q].
  reflexivity.
Qed.

Lemma retain_pass_nil fuel Sb ms me : retain_pass fuel Sb [] ms me = ([], ms, me).
Proof. reflexivity. Qed.

Lemma retain_pass_cons fuel Sb e l ms me :
  retain_pass fuel Sb (e :: l) ms me =
  let '(ok, q) := eph_trace e ms me in
  let '(ms1, me1) := drain fuel Sb q ms me in
  let '(kept, ms2, me2) := retain_pass fuel Sb l ms1 me1 in
  (if ok then kept else e :: kept, ms2, me2).
Proof. reflexivity. Qed.

Lemma eph_loop_O fuel Sb pending ms me : eph_loop 0 fuel Sb pending ms me = (pending, ms, me).
Proof. reflexivity. Qed.

Lemma eph_loop_S r fuel Sb pending ms me :
  eph_loop (S r) fuel Sb pending ms me =
  let '(kept, ms1, me1) := retain_pass fuel Sb pending ms me in
  if Nat.eqb (length kept) (length pending) then (kept, ms1, me1)
  else eph_loop r fuel Sb kept ms1 me1.
Proof. reflexivity. Qed.

(* ---------------------------------------------------------------------------------------------- *)
(* unmarked *)

Lemma unmarked_app ms a b : unmarked ms (a ++ b) = unmarked ms a ++ unmarked ms b.
Proof. unfold unmarked. apply filter_app. Qed.

Lemma unmarked_cons ms n l : unmarked ms (n :: l) = unmarked ms [n] ++ unmarked ms l.
Proof. change (n :: l) with ([n] ++ l). apply unmarked_app. Qed.

Lemma unmarked_cons_in ms n l : In n ms -> unmarked ms (n :: l) = unmarked ms l.
Proof.
  intro H. apply memb_In in H. unfold unmarked. cbn [filter]. rewrite H. reflexivity.
Qed.

(* ---------------------------------------------------------------------------------------------- *)
(* the fuel measure of the worklist: queue length + handles stored in the not yet marked boxes *)

Fixpoint wsum (Sb : list sbox) (ms : list id) : nat :=
  match Sb with
  | [] => 0
  | b :: t => (if memb (s_id b) ms then 0 else length (s_kids b)) + wsum t ms
  end.

Lemma wsum_total Sb ms : wsum Sb ms <= length (flat_map s_kids Sb).
Proof.
  induction Sb as [|b t IH]; cbn [wsum flat_map]; [apply Nat.le_refl|].
  rewrite app_length. destruct (memb (s_id b) ms); lia.
Qed.

Lemma wsum_cons_le Sb n ms : wsum Sb (n :: ms) <= wsum Sb ms.
Proof.
  induction Sb as [|b t IH]; cbn [wsum]; [apply Nat.le_refl|].
  rewrite memb_cons. destruct (N.eqb (s_id b) n); cbn [orb]; destruct (memb (s_id b) ms); lia.
Qed.

Lemma wsum_find Sb n ms b :
  memb n ms = false -> find_s n Sb = Some b ->
  wsum Sb (n :: ms) + length (s_kids b) <= wsum Sb ms.
Proof.
  intros Hm. unfold find_s. induction Sb as [|c t IH]; cbn [find wsum]; [discriminate|].
  rewrite memb_cons. destruct (N.eqb_spec (s_id c) n) as [E|E]; intro H; cbn [orb].
  - injection H as ->. rewrite E, Hm. pose proof (wsum_cons_le t n ms). lia.
  - specialize (IH H). destruct (memb (s_id c) ms); lia.
Qed.

(* ---------------------------------------------------------------------------------------------- *)
(* Tracer::trace_until_empty *)

Section Drain.
Variable Sb : list sbox.

(* the marked boxes are closed under stored handles, up to the handles still in the queue *)
Definition closed_mod (q ms me : list id) : Prop :=
  forall n b, In n ms -> find_s n Sb = Some b ->
    (forall k, In k (s_kids b) -> In k ms \/ In k q) /\ (forall e, In e (s_ephs b) -> In e me).

Lemma closed_mod_me q ms me me' : incl me me' -> closed_mod q ms me -> closed_mod q ms me'.
Proof.
  intros Hi Hc n b Hn Hb. destruct (Hc n b Hn Hb) as [C1 C2]. split; [exact C1|].
  intros e He. apply Hi. apply C2. exact He.
Qed.

Lemma closed_mod_q q ms me : closed_mod [] ms me -> closed_mod q ms me.
Proof.
  intros Hc n b Hn Hb. destruct (Hc n b Hn Hb) as [C1 C2]. split; [|exact C2].
  intros k Hk. destruct (C1 k Hk) as [H|[]]. left. exact H.
Qed.

Lemma drain_mono fuel : forall q ms me ms' me',
  drain fuel Sb q ms me = (ms', me') -> incl ms ms' /\ incl me me'.
Proof.
  induction fuel as [|f IH]; intros q ms me ms' me' H.
  - rewrite drain_O in H. inversion H; subst. split; apply incl_refl.
  - destruct q as [|n q].
    + rewrite drain_nil in H. inversion H; subst. split; apply incl_refl.
    + rewrite drain_cons in H. destruct (memb n ms).
      * apply IH in H. exact H.
      * destruct (find_s n Sb) as [b|].
        -- apply IH in H. destruct H as [H1 H2]. split.
           ++ intros x Hx. apply H1. right. exact Hx.
           ++ intros x Hx. apply H2. apply in_or_app. right. exact Hx.
        -- apply IH in H. destruct H as [H1 H2]. split; [|exact H2].
           intros x Hx. apply H1. right. exact Hx.
Qed.

Lemma drain_closed fuel : forall q ms me ms' me',
  length q + wsum Sb ms < fuel -> drain fuel Sb q ms me = (ms', me') ->
  closed_mod q ms me -> incl q ms' /\ closed_mod [] ms' me'.
Proof.
  induction fuel as [|f IH]; intros q ms me ms' me' Hf H Hc; [lia|].
  destruct q as [|n q].
  - rewrite drain_nil in H. inversion H; subst. split; [intros x []|exact Hc].
  - rewrite drain_cons in H. cbn [length] in Hf. destruct (memb n ms) eqn:Hm.
    + apply memb_In in Hm.
      assert (Hc' : closed_mod q ms me).
      { intros a b Ha Hb. destruct (Hc a b Ha Hb) as [C1 C2]. split; [|exact C2].
        intros k Hk. destruct (C1 k Hk) as [Hk1|[Hk1|Hk1]].
        - left. exact Hk1.
        - left. rewrite <- Hk1. exact Hm.
        - right. exact Hk1. }
      pose proof (drain_mono _ _ _ _ _ _ H) as [M1 _].
      apply IH in H; [|lia|exact Hc']. destruct H as [H1 H2]. split; [|exact H2].
      intros x [Hx|Hx]; [rewrite <- Hx; apply M1; exact Hm|apply H1; exact Hx].
    + destruct (find_s n Sb) as [b|] eqn:Hb.
      * pose proof (wsum_find _ _ _ _ Hm Hb) as Hw.
        pose proof (drain_mono _ _ _ _ _ _ H) as [M1 _].
        apply IH in H.
        -- destruct H as [H1 H2]. split; [|exact H2].
           intros x [Hx|Hx]; [rewrite <- Hx; apply M1; left; reflexivity|].
           apply H1. apply in_or_app. left. exact Hx.
        -- rewrite app_length. lia.
        -- intros a c Ha Hc0. destruct Ha as [Ha|Ha].
           ++ subst a. rewrite Hb in Hc0. injection Hc0 as <-. split.
              ** intros k Hk. right. apply in_or_app. right. exact Hk.
              ** intros e He. apply in_or_app. left. exact He.
           ++ destruct (Hc a c Ha Hc0) as [C1 C2]. split.
              ** intros k Hk. destruct (C1 k Hk) as [Hk1|[Hk1|Hk1]].
                 --- left. right. exact Hk1.
                 --- left. left. exact Hk1.
                 --- right. apply in_or_app. left. exact Hk1.
              ** intros e He. apply in_or_app. right. apply C2. exact He.
      * pose proof (wsum_cons_le Sb n ms) as Hw.
        pose proof (drain_mono _ _ _ _ _ _ H) as [M1 _].
        apply IH in H.
        -- destruct H as [H1 H2]. split; [|exact H2].
           intros x [Hx|Hx]; [rewrite <- Hx; apply M1; left; reflexivity|].
           apply H1. exact Hx.
        -- lia.
        -- intros a c Ha Hc0. destruct Ha as [Ha|Ha].
           ++ subst a. rewrite Hb in Hc0. discriminate.
           ++ destruct (Hc a c Ha Hc0) as [C1 C2]. split; [|exact C2].
              intros k Hk. destruct (C1 k Hk) as [Hk1|[Hk1|Hk1]].
              --- left. right. exact Hk1.
              --- left. left. exact Hk1.
              --- right. exact Hk1.
Qed.

(* a queue of already marked boxes is skipped entry by entry *)
Lemma drain_stable fuel : forall q ms me,
  (forall n, In n q -> memb n ms = true) -> drain fuel Sb q ms me = (ms, me).
Proof.
  induction fuel as [|f IH]; intros q ms me Hq; [apply drain_O|].
  destruct q as [|n q]; [apply drain_nil|].
  rewrite drain_cons. rewrite (Hq n (or_introl eq_refl)). apply IH.
  intros k Hk. apply Hq. right. exact Hk.
Qed.

(* soundness w.r.t. any pair of predicates closed under stored handles *)
Variables P PE : id -> Prop.
Hypothesis HP : forall n b, P n -> find_s n Sb = Some b ->
  (forall k, In k (s_kids b) -> P k) /\ (forall e, In e (s_ephs b) -> PE e).

Definition sound (ms me : list id) : Prop := (forall n, In n ms -> P n) /\ (forall e, In e me -> PE e).

Lemma drain_sound fuel : forall q ms me ms' me',
  drain fuel Sb q ms me = (ms', me') -> (forall n, In n q -> P n) -> sound ms me -> sound ms' me'.
Proof.
  induction fuel as [|f IH]; intros q ms me ms' me' H Hq Hs.
  - rewrite drain_O in H. inversion H; subst. exact Hs.
  - destruct q as [|n q].
    + rewrite drain_nil in H. inversion H; subst. exact Hs.
    + rewrite drain_cons in H. destruct (memb n ms).
      * apply IH in H; [exact H| |exact Hs]. intros k Hk. apply Hq. right. exact Hk.
      * assert (Pn : P n) by (apply Hq; left; reflexivity).
        destruct Hs as [S1 S2].
        destruct (find_s n Sb) as [b|] eqn:Hb.
        -- destruct (HP n b Pn Hb) as [K1 K2].
           apply IH in H; [exact H| |].
           ++ intros k Hk. apply in_app_or in Hk. destruct Hk as [Hk|Hk]; [apply Hq; right; exact Hk|apply K1; exact Hk].
           ++ split.
              ** intros k [Hk|Hk]; [rewrite <- Hk; exact Pn|apply S1; exact Hk].
              ** intros e He. apply in_app_or in He. destruct He as [He|He]; [apply K2; exact He|apply S2; exact He].
        -- apply IH in H; [exact H| |].
           ++ intros k Hk. apply Hq. right. exact Hk.
           ++ split; [|exact S2]. intros k [Hk|Hk]; [rewrite <- Hk; exact Pn|apply S1; exact Hk].
Qed.

End Drain.

(* ---------------------------------------------------------------------------------------------- *)
(* ErasedEphemeronBox::trace *)

(* the ephemeron box is marked and its value has been traced *)
Definition Good (ms me : list id) (x : ebox) : Prop :=
  In (e_id x) me /\
  (e_data x = None \/
   exists k v, e_data x = Some (k, v) /\ In k ms /\ (forall y, v = Some y -> In y ms)).

Definition bad (ms me : list id) (x : ebox) : bool := negb (fst (eph_trace x ms me)).

Lemma Good_mono ms me ms' me' x : incl ms ms' -> incl me me' -> Good ms me x -> Good ms' me' x.
Proof.
  intros I1 I2 [G1 G2]. split; [apply I2; exact G1|].
  destruct G2 as [G2|(k & v & Hd & Hk & Hv)]; [left; exact G2|].
  right. exists k, v. split; [exact Hd|]. split; [apply I1; exact Hk|].
  intros y Hy. apply I1. apply Hv. exact Hy.
Qed.

Lemma Good_not_bad ms me x : Good ms me x -> bad ms me x = false.
Proof.
  intros [G1 G2]. unfold bad, eph_trace. apply memb_In in G1. rewrite G1.
  destruct G2 as [G2|(k & v & Hd & Hk & _)].
  - rewrite G2. reflexivity.
  - rewrite Hd. apply memb_In in Hk. rewrite Hk. reflexivity.
Qed.

Lemma bad_inv ms me x k v :
  bad ms me x = true -> In (e_id x) me -> e_data x = Some (k, v) -> In k ms -> False.
Proof.
  unfold bad, eph_trace. intros H H1 H2 H3. apply memb_In in H1. apply memb_In in H3.
  rewrite H1, H2, H3 in H. cbn [fst negb] in H. discriminate.
Qed.

Lemma eph_trace_true x ms me q :
  eph_trace x ms me = (true, q) ->
  In (e_id x) me /\
  ((e_data x = None /\ q = []) \/
   exists k v, e_data x = Some (k, v) /\ In k ms /\ q = match v with Some y => [y] | None => [] end).
Proof.
  unfold eph_trace. destruct (memb (e_id x) me) eqn:Hm; [|discriminate].
  apply memb_In in Hm. destruct (e_data x) as [[k v]|].
  - destruct (memb k ms) eqn:Hk; [|discriminate]. apply memb_In in Hk.
    intro H. injection H as Hq. subst q. split; [exact Hm|]. right. exists k, v. auto.
  - intro H. injection H as Hq. subst q. split; [exact Hm|]. left. auto.
Qed.

Lemma eph_trace_false x ms me q : eph_trace x ms me = (false, q) -> q = [].
Proof.
  unfold eph_trace. destruct (memb (e_id x) me); [|intro H; inversion H; reflexivity].
  destruct (e_data x) as [[k v]|]; [|intro H; inversion H].
  destruct (memb k ms); intro H; inversion H; reflexivity.
Qed.

Lemma eph_trace_len x ms me ok q : eph_trace x ms me = (ok, q) -> length q <= 1.
Proof.
  destruct ok; intro H.
  - apply eph_trace_true in H. destruct H as [_ [[_ ->]|(k & v & _ & _ & ->)]]; [cbn; lia|].
    destruct v; cbn; lia.
  - apply eph_trace_false in H. subst q. cbn. lia.
Qed.

(* a successfully traced ephemeron is Good once its queue has been drained *)
Lemma eph_trace_Good x ms me q ms' me' :
  eph_trace x ms me = (true, q) -> incl ms ms' -> incl me me' -> incl q ms' -> Good ms' me' x.
Proof.
  intros H I1 I2 I3. apply eph_trace_true in H. destruct H as [H1 H2]. split; [apply I2; exact H1|].
  destruct H2 as [[H2 _]|(k & v & Hd & Hk & Hq)]; [left; exact H2|].
  right. exists k, v. split; [exact Hd|]. split; [apply I1; exact Hk|].
  intros y Hy. subst v. subst q. apply I3. left. reflexivity.
Qed.

(* ---------------------------------------------------------------------------------------------- *)
(* the phases of mark_heap, for any fuel that is enough for a queue of length one *)

Section Phases.
Variable Sb : list sbox.
Variable fuel : nat.
Hypothesis Hfuel : S (length (flat_map s_kids Sb)) < fuel.
Variables P PE : id -> Prop.
Hypothesis HP : forall n b, P n -> find_s n Sb = Some b ->
  (forall k, In k (s_kids b) -> P k) /\ (forall e, In e (s_ephs b) -> PE e).
Variable W : list ebox.
Hypothesis HV : forall x k v, In x W -> PE (e_id x) -> e_data x = Some (k, Some v) -> P k -> P v.

Definition St (ms me : list id) : Prop := closed_mod Sb [] ms me /\ sound P PE ms me.

Lemma drain_all q ms me ms' me' :
  length q <= 1 -> drain fuel Sb q ms me = (ms', me') -> (forall n, In n q -> P n) -> St ms me ->
  St ms' me' /\ incl ms ms' /\ incl me me' /\ incl q ms'.
Proof.
  intros Hl H Hq [Hc Hs].
  pose proof (drain_mono _ _ _ _ _ _ _ H) as [M1 M2].
  pose proof (drain_sound Sb P PE HP _ _ _ _ _ _ H Hq Hs) as Hs'.
  pose proof (wsum_total Sb ms) as Hw.
  assert (Hf : length q + wsum Sb ms < fuel) by lia.
  destruct (drain_closed Sb _ _ _ _ _ _ Hf H (closed_mod_q Sb q ms me Hc)) as [C1 C2].
  split; [split; assumption|]. split; [exact M1|]. split; [exact M2|exact C1].
Qed.

Lemma St_me ms me me' : incl me me' -> (forall e, In e me' -> In e me \/ PE e) -> St ms me -> St ms me'.
Proof.
  intros I Hn [Hc [S1 S2]]. split; [eapply closed_mod_me; eauto|]. split; [exact S1|].
  intros e He. destruct (Hn e He) as [H|H]; [apply S2; exact H|exact H].
Qed.

Section Phase0.
Variable tabS : list (id * nat).

Lemma phase0_spec : forall l ms me dead ms' me' dead',
  phase0 fuel Sb tabS l ms me dead = (ms', me', dead') ->
  (forall b, In b l -> rooted tabS (s_id b) (s_rc b) = true -> P (s_id b)) ->
  St ms me ->
  St ms' me' /\ incl ms ms' /\ incl me me' /\
  (forall b, In b l -> rooted tabS (s_id b) (s_rc b) = true -> In (s_id b) ms') /\
  (forall msF, incl ms' msF -> unmarked msF dead' = unmarked msF dead ++ unmarked msF (ids_s l)).
Proof.
  induction l as [|b l IH]; intros ms me dead ms' me' dead' H Hr Hst.
  - rewrite phase0_nil in H. inversion H; subst.
    split; [exact Hst|]. split; [apply incl_refl|]. split; [apply incl_refl|].
    split; [intros b []|]. intros msF _. cbn. rewrite app_nil_r. reflexivity.
  - assert (Hr' : forall c, In c l -> rooted tabS (s_id c) (s_rc c) = true -> P (s_id c)).
    { intros c Hc. apply Hr. right. exact Hc. }
    rewrite phase0_cons in H. destruct (rooted tabS (s_id b) (s_rc b)) eqn:Hb.
    + destruct (drain fuel Sb [s_id b] ms me) as [ms1 me1] eqn:Hd.
      assert (Hq : forall n, In n [s_id b] -> P n).
      { intros n [Hn|[]]. subst n. apply Hr; [left; reflexivity|exact Hb]. }
      destruct (drain_all [s_id b] _ _ _ _ (Nat.le_refl 1) Hd Hq Hst) as (St1 & I1 & I2 & I3).
      destruct (IH _ _ _ _ _ _ H Hr' St1) as (St2 & J1 & J2 & J3 & J4).
      assert (Hin : In (s_id b) ms') by (apply J1; apply I3; left; reflexivity).
      split; [exact St2|]. split; [eapply incl_tran; eauto|]. split; [eapply incl_tran; eauto|].
      split.
      * intros c [Hc|Hc] Hrc; [subst c; exact Hin|apply J3; assumption].
      * intros msF HF. rewrite (J4 msF HF). unfold ids_s. cbn [map].
        rewrite unmarked_cons_in; [reflexivity|]. apply HF. exact Hin.
    + destruct (memb (s_id b) ms) eqn:Hm.
      * destruct (IH _ _ _ _ _ _ H Hr' Hst) as (St2 & J1 & J2 & J3 & J4).
        apply memb_In in Hm.
        split; [exact St2|]. split; [exact J1|]. split; [exact J2|]. split.
        -- intros c [Hc|Hc] Hrc; [subst c; congruence|apply J3; assumption].
        -- intros msF HF. rewrite (J4 msF HF). unfold ids_s. cbn [map].
           rewrite unmarked_cons_in; [reflexivity|]. apply HF. apply J1. exact Hm.
      * destruct (IH _ _ _ _ _ _ H Hr' Hst) as (St2 & J1 & J2 & J3 & J4).
        split; [exact St2|]. split; [exact J1|]. split; [exact J2|]. split.
        -- intros c [Hc|Hc] Hrc; [subst c; congruence|apply J3; assumption].
        -- intros msF HF. rewrite (J4 msF HF). unfold ids_s. cbn [map].
           rewrite unmarked_app. rewrite <- app_assoc. rewrite <- unmarked_cons. reflexivity.
Qed.

End Phase0.

Lemma eph_q_sound x ms me ok q :
  In x W -> sound P PE ms me -> eph_trace x ms me = (ok, q) -> forall n, In n q -> P n.
Proof.
  intros Hx [S1 S2] H n Hn. destruct ok.
  - apply eph_trace_true in H. destruct H as [H1 [[_ Hq]|(k & v & Hd & Hk & Hq)]]; subst q; [destruct Hn|].
    destruct v as [y|]; [|destruct Hn]. destruct Hn as [Hn|[]]. subst n.
    apply (HV x k y Hx (S2 _ H1) Hd (S1 _ Hk)).
  - apply eph_trace_false in H. subst q. destruct Hn.
Qed.

Section Phase1.
Variable tabE : list (id * nat).

Lemma phase1_spec : forall l ms me pending ms' me' pending',
  phase1 fuel Sb tabE l ms me pending = (ms', me', pending') ->
  incl l W ->
  (forall x, In x l -> rooted tabE (e_id x) (e_rc x) = true -> PE (e_id x)) ->
  St ms me ->
  St ms' me' /\ incl ms ms' /\ incl me me' /\
  (forall x, In x l -> rooted tabE (e_id x) (e_rc x) = true -> In (e_id x) me') /\
  (forall x, In x pending' -> In x pending \/ In x l) /\
  incl pending pending' /\
  (forall x, In x l -> In x pending' \/ Good ms' me' x) /\
  (forall msF meF, incl ms' msF -> incl me' meF ->
     filter (bad msF meF) pending' = filter (bad msF meF) pending ++ filter (bad msF meF) l).
Proof.
  induction l as [|x l IH]; intros ms me pending ms' me' pending' H HW Hr Hst.
  - rewrite phase1_nil in H. inversion H; subst.
    split; [exact Hst|]. split; [apply incl_refl|]. split; [apply incl_refl|].
    split; [intros x []|]. split; [intros x Hx; left; exact Hx|]. split; [apply incl_refl|].
    split; [intros x []|]. intros msF meF _ _. cbn [filter]. rewrite app_nil_r. reflexivity.
  - assert (HW' : incl l W) by (intros y Hy; apply HW; right; exact Hy).
    assert (Hr' : forall y, In y l -> rooted tabE (e_id y) (e_rc y) = true -> PE (e_id y))
      by (intros y Hy; apply Hr; right; exact Hy).
    assert (HxW : In x W) by (apply HW; left; reflexivity).
    rewrite phase1_cons in H.
    assert (Ia : incl me (root_add tabE x me)).
    { unfold root_add. destruct (rooted tabE (e_id x) (e_rc x)); [apply incl_tl|]; apply incl_refl. }
    assert (Ra : rooted tabE (e_id x) (e_rc x) = true -> In (e_id x) (root_add tabE x me)).
    { unfold root_add. intros ->. left. reflexivity. }
    assert (Sta : St ms (root_add tabE x me)).
    { apply (St_me ms me); [exact Ia| |exact Hst]. unfold root_add.
      destruct (rooted tabE (e_id x) (e_rc x)) eqn:Hrx.
      - intros e [He|He]; [right; subst e; apply Hr; [left; reflexivity|exact Hrx]|left; exact He].
      - intros e He; left; exact He. }
    remember (root_add tabE x me) as me1 eqn:Eme1. clear Eme1.
    destruct (eph_trace x ms me1) as [ok q] eqn:Ht.
    destruct (drain fuel Sb q ms me1) as [ms2 me2] eqn:Hd.
    pose proof (eph_q_sound x ms me1 ok q HxW (proj2 Sta) Ht) as Hq.
    destruct (drain_all q _ _ _ _ (eph_trace_len _ _ _ _ _ Ht) Hd Hq Sta) as (St2 & I1 & I2 & I3).
    destruct ok; cbv iota in H.
    + destruct (IH _ _ _ _ _ _ H HW' Hr' St2) as (St3 & J1 & J2 & J3 & J4 & J5 & J6 & J7).
      assert (Ime : incl me1 me') by (eapply incl_tran; eauto).
      split; [exact St3|]. split; [eapply incl_tran; eauto|].
      split; [eapply incl_tran; eauto|].
      split. { intros y [Hy|Hy] Hry; [subst y; apply Ime; apply Ra; exact Hry|apply J3; assumption]. }
      assert (G : Good ms' me' x).
      { apply (Good_mono ms2 me2); [exact J1|exact J2|]. apply (eph_trace_Good x ms me1 q); assumption. }
      split. { intros y Hy. destruct (J4 y Hy) as [K|K]; [left; exact K|right; right; exact K]. }
      split; [exact J5|].
      split. { intros y [Hy|Hy]; [subst y; right; exact G|apply J6; exact Hy]. }
      intros msF meF F1 F2. rewrite (J7 msF meF F1 F2). cbn [filter].
      rewrite (Good_not_bad msF meF x); [reflexivity|]. apply (Good_mono ms' me'); assumption.
    + destruct (IH _ _ _ _ _ _ H HW' Hr' St2) as (St3 & J1 & J2 & J3 & J4 & J5 & J6 & J7).
      assert (Ime : incl me1 me') by (eapply incl_tran; eauto).
      split; [exact St3|]. split; [eapply incl_tran; eauto|].
      split; [eapply incl_tran; eauto|].
      split. { intros y [Hy|Hy] Hry; [subst y; apply Ime; apply Ra; exact Hry|apply J3; assumption]. }
      split. { intros y Hy. destruct (J4 y Hy) as [K|K]; [|right; right; exact K].
               apply in_app_or in K. destruct K as [K|[K|[]]]; [left; exact K|right; left; exact K]. }
      split. { intros y Hy. apply J5. apply in_or_app. left. exact Hy. }
      split. { intros y [Hy|Hy]; [|apply J6; exact Hy].
               subst y. left. apply J5. apply in_or_app. right. left. reflexivity. }
      intros msF meF F1 F2. rewrite (J7 msF meF F1 F2). rewrite filter_app. rewrite <- app_assoc.
      cbn [filter]. destruct (bad msF meF x); reflexivity.
Qed.

End Phase1.

Lemma phase2_spec : forall wm me,
  incl me (phase2 W wm me) /\ forall e, In e (phase2 W wm me) -> In e me \/ In e wm.
Proof.
  induction wm as [|w wm IH]; intros me; cbn [phase2].
  - split; [apply incl_refl|]. intros e He. left. exact He.
  - assert (Hskip : incl me (phase2 W wm me) /\
                    forall e, In e (phase2 W wm me) -> In e me \/ In e (w :: wm)).
    { destruct (IH me) as [A B]. split; [exact A|]. intros e He.
      destruct (B e He) as [K|K]; [left; exact K|right; right; exact K]. }
    destruct (find_e w W) as [x|]; [|exact Hskip].
    destruct (e_data x); [|exact Hskip].
    destruct (IH (w :: me)) as [A B]. split.
    + intros y Hy. apply A. right. exact Hy.
    + intros e He. destruct (B e He) as [[K|K]|K].
      * right. left. exact K.
      * left. exact K.
      * right. right. exact K.
Qed.

Lemma retain_pass_spec : forall l ms me kept ms' me',
  retain_pass fuel Sb l ms me = (kept, ms', me') ->
  incl l W -> St ms me ->
  St ms' me' /\ incl ms ms' /\ incl me me' /\ incl kept l /\
  (forall x, In x l -> In x kept \/ Good ms' me' x) /\
  (forall msF meF, incl ms' msF -> incl me' meF ->
     filter (bad msF meF) kept = filter (bad msF meF) l) /\
  length kept <= length l /\
  (length kept = length l -> ms' = ms /\ me' = me /\ forall x, In x kept -> bad ms me x = true).
Proof.
  induction l as [|x l IH]; intros ms me kept ms' me' H HW Hst.
  - rewrite retain_pass_nil in H. inversion H; subst.
    split; [exact Hst|]. split; [apply incl_refl|]. split; [apply incl_refl|].
    split; [apply incl_refl|]. split; [intros x []|]. split; [reflexivity|].
    split; [apply Nat.le_refl|]. intros _. split; [reflexivity|]. split; [reflexivity|]. intros x [].
  - assert (HW' : incl l W) by (intros y Hy; apply HW; right; exact Hy).
    assert (HxW : In x W) by (apply HW; left; reflexivity).
    rewrite retain_pass_cons in H.
    destruct (eph_trace x ms me) as [ok q] eqn:Ht.
    destruct (drain fuel Sb q ms me) as [ms1 me1] eqn:Hd.
    destruct (retain_pass fuel Sb l ms1 me1) as [[kept0 ms2] me2] eqn:Hp.
    pose proof (eph_q_sound x ms me ok q HxW (proj2 Hst) Ht) as Hq.
    destruct (drain_all q _ _ _ _ (eph_trace_len _ _ _ _ _ Ht) Hd Hq Hst) as (St1 & I1 & I2 & I3).
    destruct (IH _ _ _ _ _ Hp HW' St1) as (St2 & J1 & J2 & J3 & J4 & J5 & J6 & J7).
    destruct ok; inversion H; subst; clear H.
    + assert (G : Good ms' me' x).
      { apply (Good_mono ms1 me1); [exact J1|exact J2|]. apply (eph_trace_Good x ms me q); assumption. }
      split; [exact St2|]. split; [eapply incl_tran; eauto|]. split; [eapply incl_tran; eauto|].
      split. { intros y Hy. right. apply J3. exact Hy. }
      split. { intros y [Hy|Hy]; [subst y; right; exact G|apply J4; exact Hy]. }
      split. { intros msF meF F1 F2. rewrite (J5 msF meF F1 F2). cbn [filter].
               rewrite (Good_not_bad msF meF x); [reflexivity|]. apply (Good_mono ms' me'); assumption. }
      split. { cbn [length]. lia. }
      cbn [length]. intro E. exfalso. lia.
    + apply eph_trace_false in Ht as Hq0. subst q. rewrite drain_nil in Hd. inversion Hd; subst ms1 me1.
      split; [exact St2|]. split; [exact J1|]. split; [exact J2|].
      split. { intros y [Hy|Hy]; [left; exact Hy|right; apply J3; exact Hy]. }
      split. { intros y [Hy|Hy]; [left; left; exact Hy|].
               destruct (J4 y Hy) as [K|K]; [left; right; exact K|right; exact K]. }
      split. { intros msF meF F1 F2. cbn [filter]. rewrite (J5 msF meF F1 F2). reflexivity. }
      split. { cbn [length]. lia. }
      cbn [length]. intro E. injection E as E. destruct (J7 E) as (E1 & E2 & E3).
      split; [exact E1|]. split; [exact E2|].
      intros y [Hy|Hy]; [|apply E3; exact Hy]. subst y. unfold bad. rewrite Ht. reflexivity.
Qed.

Lemma eph_loop_spec : forall rounds pending ms me pend' ms' me',
  eph_loop rounds fuel Sb pending ms me = (pend', ms', me') ->
  length pending < rounds -> incl pending W -> St ms me ->
  St ms' me' /\ incl ms ms' /\ incl me me' /\ incl pend' pending /\
  (forall x, In x pending -> In x pend' \/ Good ms' me' x) /\
  (forall msF meF, incl ms' msF -> incl me' meF ->
     filter (bad msF meF) pend' = filter (bad msF meF) pending) /\
  (forall x, In x pend' -> bad ms' me' x = true).
Proof.
  induction rounds as [|r IH]; intros pending ms me pend' ms' me' H Hl HW Hst; [lia|].
  rewrite eph_loop_S in H.
  destruct (retain_pass fuel Sb pending ms me) as [[kept ms1] me1] eqn:Hp.
  destruct (retain_pass_spec _ _ _ _ _ _ Hp HW Hst) as (St1 & I1 & I2 & I3 & I4 & I5 & I6 & I7).
  destruct (Nat.eqb_spec (length kept) (length pending)) as [E|E].
  - inversion H; subst; clear H. destruct (I7 E) as (E1 & E2 & E3).
    split; [exact St1|]. split; [exact I1|]. split; [exact I2|]. split; [exact I3|].
    split; [exact I4|]. split; [exact I5|]. rewrite E1, E2. exact E3.
  - assert (Hl' : length kept < r) by lia.
    assert (HW' : incl kept W) by (eapply incl_tran; eauto).
    destruct (IH _ _ _ _ _ _ H Hl' HW' St1) as (St2 & J1 & J2 & J3 & J4 & J5 & J6).
    split; [exact St2|]. split; [eapply incl_tran; eauto|]. split; [eapply incl_tran; eauto|].
    split; [eapply incl_tran; eauto|].
    split. { intros x Hx. destruct (I4 x Hx) as [K|K]; [apply J4; exact K|].
             right. apply (Good_mono ms1 me1); assumption. }
    split. { intros msF meF F1 F2. rewrite (J5 msF meF F1 F2). apply I5; eapply incl_tran; eauto. }
    exact J6.
Qed.

End Phases.

(* ---------------------------------------------------------------------------------------------- *)
(* mark_heap: the early return for an empty ephemeron queue is the general path *)

Definition mark_heap_gen (Sb : list sbox) (W : list ebox) (wm : list id) (tabS tabE : list (id * nat))
                         (ms me : list id) : list id * list id * list id * list ebox :=
  let fuel := mark_fuel Sb in
  let '(ms0, me0, dead0) := phase0 fuel Sb tabS Sb ms me [] in
  let '(ms1, me1, pend1) := phase1 fuel Sb tabE W ms0 me0 [] in
  let me2 := phase2 W wm me1 in
  let '(pend3, ms3, me3) := eph_loop (S (length pend1)) fuel Sb pend1 ms1 me2 in
  (ms3, me3, unmarked ms3 dead0, pend3).

Lemma phase2_nilW wm me : phase2 [] wm me = me.
Proof. induction wm as [|w wm IH]; cbn [phase2 find_e find]; [reflexivity|exact IH]. Qed.

Lemma mark_heap_gen_eq Sb W wm tabS tabE ms me :
  mark_heap Sb W wm tabS tabE ms me = mark_heap_gen Sb W wm tabS tabE ms me.
Proof.
  unfold mark_heap, mark_heap_gen. cbv zeta.
  destruct (phase0 (mark_fuel Sb) Sb tabS Sb ms me []) as [[ms0 me0] dead0].
  destruct W as [|x W']; [|reflexivity].
  rewrite phase1_nil. cbv iota. rewrite phase2_nilW. reflexivity.
Qed.

Lemma mark_fuel_enough Sb : S (length (flat_map s_kids Sb)) < mark_fuel Sb.
Proof. unfold mark_fuel. lia. Qed.

Lemma filter_all {A} (f : A -> bool) l : (forall x, In x l -> f x = true) -> filter f l = l.
Proof.
  induction l as [|a l IH]; intro H; cbn [filter]; [reflexivity|].
  rewrite (H a (or_introl eq_refl)). f_equal. apply IH. intros x Hx. apply H. right. exact Hx.
Qed.

Lemma mark_heap_gen_exact s tabS tabE ms me dead pend :
  Inv s -> rootedS_ok s tabS -> rootedE_ok s tabE ->
  mark_heap_gen (strongs s) (weaks s) (wmaps s) tabS tabE [] [] = (ms, me, dead, pend) ->
  (forall n, memb n ms = true <-> Reach s n) /\
  (forall e, memb e me = true <-> ReachE s e) /\
  dead = filter (fun n => negb (memb n ms)) (ids_s (strongs s)) /\
  pend = filter (fun x => negb (fst (eph_trace x ms me))) (weaks s).
Proof.
  intros HI HrS HrE H. unfold mark_heap_gen in H. cbv zeta in H.
  pose proof (mark_fuel_enough (strongs s)) as Hfuel.
  remember (mark_fuel (strongs s)) as fuel eqn:Efuel. clear Efuel.
  assert (HP : forall n b, Reach s n -> find_s n (strongs s) = Some b ->
            (forall k, In k (s_kids b) -> Reach s k) /\ (forall e, In e (s_ephs b) -> ReachE s e)).
  { intros n b Hn Hb. split.
    - intros k Hk. eapply R_kid; eauto.
    - intros e He. eapply RE_sto; eauto. }
  assert (HV : forall x k v, In x (weaks s) -> ReachE s (e_id x) -> e_data x = Some (k, Some v) ->
            Reach s k -> Reach s v).
  { intros x k v Hx He Hd Hk.
    apply (R_val s (e_id x) x k v He (find_e_nodup _ _ (inv_nodup_e s HI) Hx) Hd Hk). }
  destruct (phase0 fuel (strongs s) tabS (strongs s) [] [] []) as [[ms0 me0] dead0] eqn:H0.
  destruct (phase1 fuel (strongs s) tabE (weaks s) ms0 me0 []) as [[ms1 me1] pend1] eqn:H1.
  destruct (eph_loop (S (length pend1)) fuel (strongs s) pend1 ms1 (phase2 (weaks s) (wmaps s) me1))
    as [[pend3 ms3] me3] eqn:H3.
  inversion H; subst ms me dead pend; clear H.
  (* phase 0 *)
  assert (St0 : St (strongs s) (Reach s) (ReachE s) [] []).
  { split; [intros n b []|]. split; intros n []. }
  assert (Hroot0 : forall b, In b (strongs s) -> rooted tabS (s_id b) (s_rc b) = true -> Reach s (s_id b)).
  { intros b Hb Hr. apply R_ext. apply (HrS b Hb). exact Hr. }
  destruct (phase0_spec _ _ Hfuel _ _ HP _ _ _ _ _ _ _ _ H0 Hroot0 St0) as (St1 & A1 & A2 & A3 & A4).
  (* phase 1 *)
  assert (Hroot1 : forall x, In x (weaks s) -> rooted tabE (e_id x) (e_rc x) = true -> ReachE s (e_id x)).
  { intros x Hx Hr. apply (HrE x Hx) in Hr. destruct Hr as [Hr|Hr]; [apply RE_ext|apply RE_wm]; exact Hr. }
  destruct (phase1_spec _ _ Hfuel _ _ HP _ HV _ _ _ _ _ _ _ _ H1 (incl_refl _) Hroot1 St1)
    as (St2 & B1 & B2 & B3 & B4 & B5 & B6 & B7).
  (* phase 2 *)
  destruct (phase2_spec (weaks s) (wmaps s) me1) as [C1 C2].
  assert (St2' : St (strongs s) (Reach s) (ReachE s) ms1 (phase2 (weaks s) (wmaps s) me1)).
  { apply (St_me _ _ _ ms1 me1); [exact C1| |exact St2].
    intros e He. destruct (C2 e He) as [K|K]; [left; exact K|right; apply RE_wm; exact K]. }
  (* phase 3 *)
  assert (HpW : incl pend1 (weaks s)).
  { intros x Hx. destruct (B4 x Hx) as [[]|K]. exact K. }
  destruct (eph_loop_spec _ _ Hfuel _ _ HP _ HV _ _ _ _ _ _ _ H3 (Nat.lt_succ_diag_r _) HpW St2')
    as (St3 & D1 & D2 & D3 & D4 & D5 & D6).
  assert (Ims0 : incl ms0 ms3) by (eapply incl_tran; eauto).
  assert (Ime1 : incl me1 me3) by (eapply incl_tran; eauto).
  destruct St3 as [Cl3 [So1 So2]].
  (* every ephemeron is either left pending or fully traced *)
  assert (GP : forall x, In x (weaks s) -> In x pend3 \/ Good ms3 me3 x).
  { intros x Hx. destruct (B6 x Hx) as [K|K]; [apply D4; exact K|].
    right. apply (Good_mono ms1 me1); assumption. }
  assert (HVal : forall x k v, In x (weaks s) -> In (e_id x) me3 -> e_data x = Some (k, Some v) ->
                 In k ms3 -> In v ms3).
  { intros x k v Hx He Hd Hk. destruct (GP x Hx) as [K|[_ K]].
    - exfalso. apply (bad_inv ms3 me3 x k (Some v) (D6 x K) He Hd Hk).
    - destruct K as [K|(k' & v' & Hd' & _ & Hv)]; [congruence|].
      rewrite Hd in Hd'. injection Hd' as E1 E2. apply Hv. symmetry. exact E2. }
  (* completeness *)
  assert (Hc : (forall n, Reach s n -> In n ms3) /\ (forall e, ReachE s e -> In e me3)).
  { apply (Reach_mutind s (fun n => In n ms3) (fun e => In e me3)).
    - intros n Hn. apply (inv_ext_s s HI) in Hn as Hi. unfold ids_s in Hi. apply in_map_iff in Hi.
      destruct Hi as (b & Eb & Hb). subst n. apply Ims0. apply (A3 b Hb). apply (HrS b Hb). exact Hn.
    - intros a b n _ Ha Hb Hn. destruct (Cl3 a b Ha Hb) as [K _].
      destruct (K n Hn) as [K1|[]]. exact K1.
    - intros e x k v _ He Hx Hd _ Hk. apply find_e_In in Hx. destruct Hx as [Hx Ex]. subst e.
      apply (HVal x k v Hx He Hd Hk).
    - intros e He. apply (inv_ext_e s HI) in He as Hi. unfold ids_e in Hi. apply in_map_iff in Hi.
      destruct Hi as (x & Ex & Hx). subst e. apply Ime1. apply (B3 x Hx). apply (HrE x Hx). left. exact He.
    - intros e He. apply (inv_wm s HI) in He as Hi. unfold ids_e in Hi. apply in_map_iff in Hi.
      destruct Hi as (x & Ex & Hx). subst e. apply Ime1. apply (B3 x Hx). apply (HrE x Hx). right. exact He.
    - intros a b e _ Ha Hb He. destruct (Cl3 a b Ha Hb) as [_ K]. apply K. exact He. }
  destruct Hc as [Hc1 Hc2].
  split. { intro n. rewrite memb_In. split; [apply So1|apply Hc1]. }
  split. { intro e. rewrite memb_In. split; [apply So2|apply Hc2]. }
  split.
  - rewrite (A4 ms3 Ims0). reflexivity.
  - assert (E : pend3 = filter (bad ms3 me3) (weaks s)).
    { rewrite <- (filter_all (bad ms3 me3) pend3 D6).
      rewrite (D5 ms3 me3 (incl_refl _) (incl_refl _)).
      rewrite (B7 ms3 me3 D1 (incl_tran C1 D2)). reflexivity. }
    exact E.
Qed.

Theorem mark_heap_exact s tabS tabE ms me dead pend :
  Inv s -> rootedS_ok s tabS -> rootedE_ok s tabE ->
  mark_heap (strongs s) (weaks s) (wmaps s) tabS tabE [] [] = (ms, me, dead, pend) ->
  (forall n, memb n ms = true <-> Reach s n) /\
  (forall e, memb e me = true <-> ReachE s e) /\
  dead = filter (fun n => negb (memb n ms)) (ids_s (strongs s)) /\
  pend = filter (fun x => negb (fst (eph_trace x ms me))) (weaks s).
Proof.
  intros HI HrS HrE H. rewrite mark_heap_gen_eq in H.
  apply (mark_heap_gen_exact s tabS tabE ms me dead pend HI HrS HrE H).
Qed.

(* ---------------------------------------------------------------------------------------------- *)
(* a pass started from closed mark sets: every popped handle is already marked *)

Lemma phase0_stable fuel Sb tabS ms me : forall l dead,
  (forall b, In b l -> rooted tabS (s_id b) (s_rc b) = true -> memb (s_id b) ms = true) ->
  exists dead', phase0 fuel Sb tabS l ms me dead = (ms, me, dead').
Proof.
  induction l as [|b l IH]; intros dead H.
  - exists dead. apply phase0_nil.
  - assert (H' : forall c, In c l -> rooted tabS (s_id c) (s_rc c) = true -> memb (s_id c) ms = true).
    { intros c Hc. apply H. right. exact Hc. }
    rewrite phase0_cons. destruct (rooted tabS (s_id b) (s_rc b)) eqn:Hr.
    + assert (Hq : forall n, In n [s_id b] -> memb n ms = true).
      { intros n [Hn|[]]. subst n. apply H; [left; reflexivity|exact Hr]. }
      rewrite (drain_stable Sb fuel [s_id b] ms me Hq). cbv beta iota. apply IH. exact H'.
    + destruct (memb (s_id b) ms); apply IH; exact H'.
Qed.

Section Stable.
Variables (Sb : list sbox) (W : list ebox) (fuel : nat) (ms me : list id).
Hypothesis H5 : forall x k v, In x W -> memb (e_id x) me = true -> e_data x = Some (k, Some v) ->
  memb k ms = true -> memb v ms = true.

Definition meq (me1 : list id) : Prop := forall e, memb e me1 = memb e me.

Lemma eph_q_marked x me1 ok q :
  In x W -> meq me1 -> eph_trace x ms me1 = (ok, q) -> forall n, In n q -> memb n ms = true.
Proof.
  intros Hx Hq Ht n Hn. destruct ok.
  - apply eph_trace_true in Ht. destruct Ht as [T1 [[_ E]|(k & v & Hd & Hk & E)]]; subst q; [destruct Hn|].
    destruct v as [y|]; [|destruct Hn]. destruct Hn as [Hn|[]]. subst n.
    apply (H5 x k y Hx); [|exact Hd|apply memb_In; exact Hk].
    rewrite <- Hq. apply memb_In. exact T1.
  - apply eph_trace_false in Ht. subst q. destruct Hn.
Qed.

Lemma phase1_stable tabE :
  (forall x, In x W -> rooted tabE (e_id x) (e_rc x) = true -> memb (e_id x) me = true) ->
  forall l me0 pending, incl l W -> meq me0 ->
  exists me1 pend', phase1 fuel Sb tabE l ms me0 pending = (ms, me1, pend') /\ meq me1 /\
                    (forall x, In x pend' -> In x pending \/ In x l).
Proof.
  intros H3. induction l as [|x l IH]; intros me0 pending HW Hq.
  - exists me0, pending. split; [apply phase1_nil|]. split; [exact Hq|]. intros x Hx. left. exact Hx.
  - assert (HW' : incl l W) by (intros y Hy; apply HW; right; exact Hy).
    assert (HxW : In x W) by (apply HW; left; reflexivity).
    rewrite phase1_cons.
    assert (Hq1 : meq (root_add tabE x me0)).
    { unfold root_add. destruct (rooted tabE (e_id x) (e_rc x)) eqn:Hr; [|exact Hq].
      intro e. rewrite memb_cons. destruct (N.eqb_spec e (e_id x)) as [E|E]; cbn [orb]; [|apply Hq].
      subst e. symmetry. apply H3; assumption. }
    remember (root_add tabE x me0) as me1 eqn:Eme1. clear Eme1.
    destruct (eph_trace x ms me1) as [ok q] eqn:Ht.
    rewrite (drain_stable Sb fuel q ms me1 (eph_q_marked x me1 ok q HxW Hq1 Ht)). cbv beta iota.
    destruct (IH me1 (if ok then pending else pending ++ [x]) HW' Hq1) as (me2 & pend' & E & Q & K).
    exists me2, pend'. split; [exact E|]. split; [exact Q|].
    intros y Hy. destruct (K y Hy) as [K1|K1]; [|right; right; exact K1].
    destruct ok; [left; exact K1|]. apply in_app_or in K1.
    destruct K1 as [K1|[K1|[]]]; [left; exact K1|right; left; exact K1].
Qed.

Lemma phase2_stable wm :
  (forall w x, In w wm -> find_e w W = Some x -> e_data x <> None -> memb w me = true) ->
  forall wm' me0, incl wm' wm -> meq me0 -> meq (phase2 W wm' me0).
Proof.
  intros H4. induction wm' as [|w wm' IH]; intros me0 HW Hq; cbn [phase2]; [exact Hq|].
  assert (HW' : incl wm' wm) by (intros y Hy; apply HW; right; exact Hy).
  destruct (find_e w W) as [x|] eqn:Hf; [|apply IH; assumption].
  destruct (e_data x) as [d|] eqn:Hd; [|apply IH; assumption].
  apply IH; [exact HW'|]. intro e. rewrite memb_cons.
  destruct (N.eqb_spec e w) as [E|E]; cbn [orb]; [|apply Hq].
  subst e. symmetry. apply (H4 w x); [apply HW; left; reflexivity|exact Hf|].
  rewrite Hd. discriminate.
Qed.

Lemma retain_pass_stable : forall l me0, incl l W -> meq me0 ->
  exists kept, retain_pass fuel Sb l ms me0 = (kept, ms, me0) /\ incl kept l.
Proof.
  induction l as [|x l IH]; intros me0 HW Hq.
  - exists []. split; [apply retain_pass_nil|apply incl_refl].
  - assert (HW' : incl l W) by (intros y Hy; apply HW; right; exact Hy).
    assert (HxW : In x W) by (apply HW; left; reflexivity).
    rewrite retain_pass_cons. destruct (eph_trace x ms me0) as [ok q] eqn:Ht.
    rewrite (drain_stable Sb fuel q ms me0 (eph_q_marked x me0 ok q HxW Hq Ht)). cbv beta iota.
    destruct (IH me0 HW' Hq) as (kept & E & K). rewrite E. cbv beta iota.
    exists (if ok then kept else x :: kept). split; [reflexivity|].
    destruct ok.
    + intros y Hy. right. apply K. exact Hy.
    + intros y [Hy|Hy]; [left; exact Hy|right; apply K; exact Hy].
Qed.

Lemma eph_loop_stable : forall rounds pending me0, incl pending W -> meq me0 ->
  exists pend', eph_loop rounds fuel Sb pending ms me0 = (pend', ms, me0).
Proof.
  induction rounds as [|r IH]; intros pending me0 HW Hq.
  - exists pending. apply eph_loop_O.
  - rewrite eph_loop_S. destruct (retain_pass_stable pending me0 HW Hq) as (kept & E & K).
    rewrite E. cbv beta iota. destruct (Nat.eqb (length kept) (length pending)).
    + exists kept. reflexivity.
    + apply IH; [|exact Hq]. eapply incl_tran; eauto.
Qed.

End Stable.

Theorem mark_heap_stable Sb W wm tabS tabE ms me ms' me' d p :
  (forall b, In b Sb -> rooted tabS (s_id b) (s_rc b) = true -> memb (s_id b) ms = true) ->
  (forall n b, memb n ms = true -> find_s n Sb = Some b ->
      (forall k, In k (s_kids b) -> memb k ms = true) /\ (forall e, In e (s_ephs b) -> memb e me = true)) ->
  (forall x, In x W -> rooted tabE (e_id x) (e_rc x) = true -> memb (e_id x) me = true) ->
  (forall w x, In w wm -> find_e w W = Some x -> e_data x <> None -> memb w me = true) ->
  (forall x k v, In x W -> memb (e_id x) me = true -> e_data x = Some (k, Some v) -> memb k ms = true -> memb v ms = true) ->
  mark_heap Sb W wm tabS tabE ms me = (ms', me', d, p) ->
  ms' = ms /\ (forall e, memb e me' = memb e me).
Proof.
  intros H1 _ H3 H4 H5 H. rewrite mark_heap_gen_eq in H. unfold mark_heap_gen in H. cbv zeta in H.
  remember (mark_fuel Sb) as fuel eqn:Efuel. clear Efuel.
  destruct (phase0_stable fuel Sb tabS ms me Sb [] H1) as [dead0 E0].
  rewrite E0 in H. cbv beta iota in H.
  destruct (phase1_stable Sb W fuel ms me H5 tabE H3 W me [] (incl_refl _) (fun e => eq_refl))
    as (me1 & pend1 & E1 & Q1 & K1).
  rewrite E1 in H. cbv beta iota in H.
  pose proof (phase2_stable W me wm H4 wm me1 (incl_refl _) Q1) as Q2.
  assert (HpW : incl pend1 W).
  { intros x Hx. destruct (K1 x Hx) as [[]|K]. exact K. }
  destruct (eph_loop_stable Sb W fuel ms me H5 (S (length pend1)) pend1 (phase2 W wm me1) HpW Q2)
    as [pend3 E3].
  rewrite E3 in H. cbv beta iota in H. inversion H; subst. split; [reflexivity|exact Q2].
Qed.

