(* C09 — weak observations only ever hand out live targets: after any history (no resurrecting finalizer),
   WeakGc::upgrade / Ephemeron::key answering Some k means box k is in the heap (it has not been freed), and
   Ephemeron::value answering Some v means both the key and v are in the heap. *)
From Coq Require Import List Arith Bool PeanoNat NArith Lia.
From C09 Require Import GcModel Spec_C09 Step_C09 Collect_C09 Hist_C09.
Import ListNotations.

Lemma data_of_In s e k v : data_of s e = Some (k, v) -> exists x, In x (weaks s) /\ e_data x = Some (k, v).
Proof.
  unfold data_of. destruct (find_e e (weaks s)) as [x|] eqn:F; [|discriminate]. intro H.
  exists x. split; [apply (find_e_In _ _ _ F)|exact H].
Qed.

Lemma upgrade_some_live_lemma ops e k :
  Forall op_no_res ops -> let s := exec init ops in
  snd (step s (Upgrade e)) = OSome k -> In k (ids_s (strongs s)).
Proof.
  intros Hops s H. destruct (exec_inv ops Hops) as (I & _ & _). fold s in I.
  cbn [step] in H. destruct (helde s e); [|discriminate].
  destruct (data_of s e) as [[k' v]|] eqn:D; [|discriminate]. cbn [snd] in H. inversion H; subst k'.
  destruct (data_of_In _ _ _ _ D) as (x & Hx & Hd). apply (inv_key _ I x k v Hx Hd).
Qed.

Lemma value_some_live_lemma ops e v :
  Forall op_no_res ops -> let s := exec init ops in
  snd (step s (EphValue e)) = OSome v ->
  In v (ids_s (strongs s)) /\ exists k, data_of s e = Some (k, Some v) /\ In k (ids_s (strongs s)).
Proof.
  intros Hops s H. destruct (exec_inv ops Hops) as (I & _ & _). fold s in I.
  cbn [step] in H. destruct (helde s e); [|discriminate].
  destruct (data_of s e) as [[k [v'|]]|] eqn:D; try discriminate. cbn [snd] in H. inversion H; subst v'.
  destruct (data_of_In _ _ _ _ D) as (x & Hx & Hd). split; [apply (inv_val _ I x k v Hx Hd)|].
  exists k. split; [reflexivity|apply (inv_key _ I x k (Some v) Hx Hd)].
Qed.
