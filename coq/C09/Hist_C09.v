(* C09 — from single operations to whole operation histories.

   Step_C09 (mutator operations) and Collect_C09 (one collection) are per-operation results.  This file
   lifts them to arbitrary histories of operations whose finalizers do not resurrect:
   * exec_inv: the representation invariant holds, and boa has not panicked, after any history;
   * freed_once: over a whole history no payload is dropped twice, and the finalizer calls are exactly
     the drops, in the same order (drop_log / fin_log of the output list);
   * never_freed_while_reachable: at any point of any history a collection only finalizes / drops
     boxes that are unreachable at that point. *)
From Coq Require Import List Arith Bool PeanoNat NArith Lia.
From C09 Require Import GcModel Spec_C09 Step_C09 Collect_C09.
Import ListNotations.

(* ---------------------------------------------------------------------------------------------- *)
(* 1. collections keep `no_res` *)

Lemma no_res_dead_no_res s : no_res s -> dead_no_res s.
Proof. intros H b Hb _. apply H. exact Hb. Qed.

Lemma collect_no_res s : Inv s -> poisoned s = false -> no_res s -> no_res (fst (collect s)).
Proof.
  intros I P H. destruct (collect s) as [s' g] eqn:Hc. cbn [fst].
  pose proof (no_res_dead_no_res s H) as Hd.
  destruct (collect_exact_lemma s s' g I P Hd Hc) as (I' & _).
  destruct (collect_frame_lemma s s' g I P Hd Hc) as (Fr & _).
  intros b' Hb'.
  pose proof (find_s_nodup _ _ (inv_nodup_s _ I') Hb') as F.
  destruct (Fr _ _ F) as (b & Fb & _ & Ef & _).
  rewrite Ef. apply H. apply (find_s_In _ _ _ Fb).
Qed.

(* ---------------------------------------------------------------------------------------------- *)
(* 2. the invariant along a history *)

Lemma op_collect_dec o : o = Collect \/ o <> Collect.
Proof. destruct o; first [left; reflexivity | right; discriminate]. Qed.

Lemma step_collect s : step s Collect = (fst (collect s), OGc (snd (collect s))).
Proof.
  change (step s Collect) with (let '(s', g) := collect s in (s', OGc g)).
  destruct (collect s) as [s' g]. reflexivity.
Qed.

Lemma step_all s o : op_no_res o -> Inv s -> poisoned s = false -> no_res s ->
  Inv (fst (step s o)) /\ poisoned (fst (step s o)) = false /\ no_res (fst (step s o)).
Proof.
  intros Ho I P H. destruct (op_collect_dec o) as [E|E].
  - subst o. rewrite step_collect. cbn [fst].
    pose proof (collect_no_res s I P H) as X.
    destruct (collect s) as [s' g] eqn:Hc. cbn [fst] in *.
    destruct (collect_exact_lemma s s' g I P (no_res_dead_no_res s H) Hc) as (I' & P' & _).
    split; [exact I'|]. split; [exact P'|exact X].
  - destruct (step_inv s o E I P) as [I' P'].
    split; [exact I'|]. split; [exact P'|]. apply step_no_res; assumption.
Qed.

Lemma exec_cons s o t : exec s (o :: t) = exec (fst (step s o)) t.
Proof. reflexivity. Qed.

Lemma exec_inv_gen ops : forall s,
  Inv s -> poisoned s = false -> no_res s -> Forall op_no_res ops ->
  Inv (exec s ops) /\ poisoned (exec s ops) = false /\ no_res (exec s ops).
Proof.
  induction ops as [|o t IH]; intros s I P H Hops.
  - cbn. split; [exact I|]. split; [exact P|exact H].
  - inversion Hops as [|? ? Ho Ht]; subst. rewrite exec_cons.
    destruct (step_all s o Ho I P H) as (I' & P' & H'). apply IH; assumption.
Qed.

Lemma no_res_init : no_res init.
Proof. intros b Hb. destruct Hb. Qed.

Theorem exec_inv ops : Forall op_no_res ops ->
  Inv (exec init ops) /\ poisoned (exec init ops) = false /\ no_res (exec init ops).
Proof. intro H. apply exec_inv_gen; [exact Inv_init|reflexivity|exact no_res_init|exact H]. Qed.

Lemma run_cons s o t :
  run s (o :: t) = (fst (run (fst (step s o)) t), snd (step s o) :: snd (run (fst (step s o)) t)).
Proof. cbn [run]. destruct (step s o) as [s1 x]. cbn [fst snd]. destruct (run s1 t) as [s2 xs]. reflexivity. Qed.

Lemma run_exec s ops : fst (run s ops) = exec s ops.
Proof.
  revert s. induction ops as [|o t IH]; intro s; [reflexivity|].
  rewrite run_cons, exec_cons. cbn [fst]. apply IH.
Qed.

Corollary run_inv ops : Forall op_no_res ops ->
  Inv (fst (run init ops)) /\ poisoned (fst (run init ops)) = false /\ no_res (fst (run init ops)).
Proof. rewrite run_exec. apply exec_inv. Qed.

(* ---------------------------------------------------------------------------------------------- *)
(* 3. exactly once over a whole history *)

Fixpoint drop_log (l : list out) : list id :=
  match l with [] => [] | OGc g :: t => g_drop g ++ drop_log t | _ :: t => drop_log t end.
Fixpoint fin_log (l : list out) : list id :=
  match l with [] => [] | OGc g :: t => g_fin g ++ fin_log t | _ :: t => fin_log t end.

Definition is_gc (x : out) : bool := match x with OGc _ => true | _ => false end.

Lemma drop_log_cons_other x l : is_gc x = false -> drop_log (x :: l) = drop_log l.
Proof. intro H. destruct x; try discriminate H; reflexivity. Qed.

Lemma fin_log_cons_other x l : is_gc x = false -> fin_log (x :: l) = fin_log l.
Proof. intro H. destruct x; try discriminate H; reflexivity. Qed.

Lemma step_not_gc s o : o <> Collect -> is_gc (snd (step s o)) = false.
Proof. intro Ho. destruct o; try congruence; unfold step; brk; reflexivity. Qed.

(* frame of the mutator operations: identifiers of the strong boxes, allocation counter *)
Lemma ids_dec_s n s : ids_s (strongs (dec_s n s)) = ids_s (strongs s).
Proof.
  unfold dec_s. destruct (find_s n (strongs s)) as [b|]; [destruct (s_rc b)|]; try reflexivity.
  cbn [strongs set_strongs]. apply ids_upd_s. idr.
Qed.

Lemma next_s_dec_s n s : next_s (dec_s n s) = next_s s.
Proof. unfold dec_s. destruct (find_s n (strongs s)) as [b|]; [destruct (s_rc b)|]; reflexivity. Qed.

Lemma next_s_dec_e n s : next_s (dec_e n s) = next_s s.
Proof. unfold dec_e. destruct (find_e n (weaks s)) as [x|]; [destruct (e_rc x)|]; reflexivity. Qed.

Ltac ids_tac :=
  repeat first [ rewrite ids_dec_s | rewrite strongs_dec_e | rewrite next_s_dec_s | rewrite next_s_dec_e
               | rewrite ids_upd_s by idr | progress sp ].

Lemma step_ids s o : o <> Collect ->
  (ids_s (strongs (fst (step s o))) = ids_s (strongs s) /\ next_s (fst (step s o)) = next_s s) \/
  (ids_s (strongs (fst (step s o))) = ids_s (strongs s) ++ [next_s s] /\
   next_s (fst (step s o)) = N.succ (next_s s)).
Proof.
  intro Ho. destruct o; try congruence; unfold step; brk; cbn [fst].
  all: first [ left; split; ids_tac; reflexivity
             | right; split; ids_tac; unfold ids_s; rewrite ?map_app; reflexivity ].
Qed.

Lemma step_next_le s o : o <> Collect -> (next_s s <= next_s (fst (step s o)))%N.
Proof.
  intro Ho. destruct (step_ids s o Ho) as [[_ E]|[_ E]]; rewrite E.
  - apply N.le_refl.
  - apply N.le_succ_diag_r.
Qed.

Lemma step_ids_in s o : o <> Collect ->
  forall n, In n (ids_s (strongs (fst (step s o)))) -> In n (ids_s (strongs s)) \/ n = next_s s.
Proof.
  intros Ho n. destruct (step_ids s o Ho) as [[E _]|[E _]]; rewrite E.
  - tauto.
  - rewrite in_app_iff. cbn [In]. intros [H|[H|[]]]; [left; exact H|right; symmetry; exact H].
Qed.

Lemma NoDup_app_intro (l1 l2 : list id) :
  NoDup l1 -> NoDup l2 -> (forall n, In n l1 -> ~ In n l2) -> NoDup (l1 ++ l2).
Proof.
  induction l1 as [|a t IH]; cbn [app]; intros H1 H2 H; [exact H2|].
  inversion H1 as [|? ? Ha Ht]; subst. constructor.
  - rewrite in_app_iff. intros [X|X]; [exact (Ha X)|]. apply (H a); [left; reflexivity|exact X].
  - apply IH; [exact Ht|exact H2|]. intros n Hn. apply H. right. exact Hn.
Qed.

(* D: the identifiers dropped so far; they are old (below the allocation counter) and no longer in
   the heap, hence never dropped again *)
Lemma run_freed ops : forall s D,
  Inv s -> poisoned s = false -> no_res s -> Forall op_no_res ops ->
  NoDup D -> (forall n, In n D -> (n < next_s s)%N /\ ~ In n (ids_s (strongs s))) ->
  NoDup (D ++ drop_log (snd (run s ops))) /\ fin_log (snd (run s ops)) = drop_log (snd (run s ops)).
Proof.
  induction ops as [|o t IH]; intros s D I P H Hops ND HD.
  - cbn. rewrite app_nil_r. split; [exact ND|reflexivity].
  - inversion Hops as [|? ? Ho Ht]; subst. rewrite run_cons. cbn [snd].
    destruct (op_collect_dec o) as [E|E].
    + subst o. rewrite step_collect. cbn [fst snd drop_log fin_log].
      pose proof (collect_no_res s I P H) as H'.
      destruct (collect s) as [s' g] eqn:Hc. cbn [fst snd] in *.
      destruct (collect_exact_lemma s s' g I P (no_res_dead_no_res s H) Hc)
        as (I' & P' & HS' & _ & HDr & Efin & NDg & _ & _ & _ & _ & En & _).
      destruct (IH s' (D ++ g_drop g) I' P' H' Ht) as [N1 N2].
      * apply NoDup_app_intro; [exact ND|exact NDg|]. intros n Hn Hg.
        apply HDr in Hg. destruct Hg as [Hg _]. apply is_node_In in Hg.
        apply (proj2 (HD n Hn)). exact Hg.
      * intros n Hn. apply in_app_or in Hn. destruct Hn as [Hn|Hn].
        -- destruct (HD n Hn) as [L NI]. split; [rewrite En; exact L|].
           intro X. apply HS' in X. tauto.
        -- apply HDr in Hn. destruct Hn as [Hg NR]. apply is_node_In in Hg.
           split; [rewrite En; apply (inv_fresh_s _ I); exact Hg|].
           intro X. apply HS' in X. tauto.
      * split; [rewrite app_assoc; exact N1|rewrite Efin, N2; reflexivity].
    + destruct (step_inv s o E I P) as [I' P']. pose proof (step_no_res s o E Ho H) as H'.
      rewrite (drop_log_cons_other _ _ (step_not_gc s o E)), (fin_log_cons_other _ _ (step_not_gc s o E)).
      apply (IH _ D I' P' H' Ht ND). intros n Hn. destruct (HD n Hn) as [L NI]. split.
      * eapply N.lt_le_trans; [exact L|apply step_next_le; exact E].
      * intro X. apply (step_ids_in s o E) in X. destruct X as [X|X]; [tauto|].
        subst n. exact (N.lt_irrefl _ L).
Qed.

Theorem freed_once ops : Forall op_no_res ops ->
  NoDup (drop_log (snd (run init ops))) /\ fin_log (snd (run init ops)) = drop_log (snd (run init ops)).
Proof.
  intro Hops.
  apply (run_freed ops init [] Inv_init eq_refl no_res_init Hops (NoDup_nil _)).
  intros n [].
Qed.

(* ---------------------------------------------------------------------------------------------- *)
(* 4. nothing reachable is finalized or dropped, at any point of any history *)

Theorem never_freed_while_reachable ops1 g : Forall op_no_res ops1 ->
  let s := exec init ops1 in
  forall s', collect s = (s', g) -> forall n, In n (g_drop g) \/ In n (g_fin g) -> ~ Reach s n.
Proof.
  intros Hops s s' Hc n Hn. destruct (exec_inv ops1 Hops) as (I & P & H).
  destruct (collect_exact_lemma s s' g I P (no_res_dead_no_res s H) Hc)
    as (_ & _ & _ & _ & HDr & Efin & _).
  rewrite Efin in Hn. assert (Hd : In n (g_drop g)) by tauto.
  apply HDr in Hd. tauto.
Qed.

