(* C10, collector level (cited by checks/c10.py through checks/c09.py:collector_proof_stage):
   statements only, each closed by `exact`, pinned by `Check`.  Hypothesis `dead_no_res`: no unreachable box
   has a resurrecting finalizer (see Props_C09.collect_safe_with_resurrection_refuted for why it is needed). *)
From Coq Require Import NArith Bool List Arith.
From C09 Require Import GcModel Spec_C09 Collect_C09 Hist_C09 C10gc_C09 C10hist_C09 Sched_C09.
Import ListNotations.

(* a collection does not change which strong boxes are reachable *)
Theorem collect_reach_preserved : forall s s' g,
  Inv s -> poisoned s = false -> dead_no_res s -> collect s = (s', g) ->
  forall n, Reach s' n <-> Reach s n.
Proof. exact collect_reach_iff. Qed.
Check collect_reach_preserved : forall s s' g,
  Inv s -> poisoned s = false -> dead_no_res s -> collect s = (s', g) ->
  forall n, Reach s' n <-> Reach s n.
Print Assumptions collect_reach_preserved.

(* the sub-heap reachable from the mutator's handles is identical after the collection: root lists and
   allocation counters, payload handles / finalizer / kind of every reachable box, entry lists up to entries
   whose ephemeron has lost its data, data of every reachable ephemeron whose key is reachable *)
Theorem collect_preserves_reachable : forall s s' g,
  Inv s -> poisoned s = false -> dead_no_res s -> collect s = (s', g) ->
  ext_s s' = ext_s s /\ ext_e s' = ext_e s /\ next_s s' = next_s s /\ next_e s' = next_e s /\
  (forall n b, Reach s n -> find_s n (strongs s) = Some b ->
     exists b', find_s n (strongs s') = Some b' /\ s_kids b' = s_kids b /\ s_fin b' = s_fin b /\
                s_map b' = s_map b /\
                (forall e, In e (s_ephs b') <->
                           In e (s_ephs b) /\ (s_ephs b' = s_ephs b \/ has_data (weaks s') e = true))) /\
  (forall e x k v, ReachE s e -> find_e e (weaks s) = Some x -> e_data x = Some (k, v) -> Reach s k ->
     exists x', find_e e (weaks s') = Some x' /\ e_data x' = Some (k, v)).
Proof. exact C10gc_C09.collect_preserves_reachable. Qed.
Check collect_preserves_reachable : forall s s' g,
  Inv s -> poisoned s = false -> dead_no_res s -> collect s = (s', g) ->
  ext_s s' = ext_s s /\ ext_e s' = ext_e s /\ next_s s' = next_s s /\ next_e s' = next_e s /\
  (forall n b, Reach s n -> find_s n (strongs s) = Some b ->
     exists b', find_s n (strongs s') = Some b' /\ s_kids b' = s_kids b /\ s_fin b' = s_fin b /\
                s_map b' = s_map b /\
                (forall e, In e (s_ephs b') <->
                           In e (s_ephs b) /\ (s_ephs b' = s_ephs b \/ has_data (weaks s') e = true))) /\
  (forall e x k v, ReachE s e -> find_e e (weaks s) = Some x -> e_data x = Some (k, v) -> Reach s k ->
     exists x', find_e e (weaks s') = Some x' /\ e_data x' = Some (k, v)).
Print Assumptions collect_preserves_reachable.

(* the weak-map registry after a collection: exactly the entries whose WeakGc still upgrades *)
Theorem collect_registry : forall s s' g,
  Inv s -> poisoned s = false -> dead_no_res s -> collect s = (s', g) ->
  forall w, In w (wmaps s') <-> In w (wmaps s) /\ has_data (weaks s') w = true.
Proof. exact collect_wmaps. Qed.
Check collect_registry : forall s s' g,
  Inv s -> poisoned s = false -> dead_no_res s -> collect s = (s', g) ->
  forall w, In w (wmaps s') <-> In w (wmaps s) /\ has_data (weaks s') w = true.
Print Assumptions collect_registry.

(* dropping every handle and collecting twice leaves nothing behind *)
Theorem drop_all_then_collect_empties : forall s s1 g1 s2 g2,
  Inv s -> poisoned s = false -> no_res s -> wm_unit s -> ext_s s = [] -> ext_e s = [] ->
  collect s = (s1, g1) -> collect s1 = (s2, g2) ->
  strongs s1 = [] /\ wmaps s1 = [] /\ strongs s2 = [] /\ weaks s2 = [] /\ wmaps s2 = [].
Proof. exact C10gc_C09.drop_all_then_collect_empties. Qed.
Check drop_all_then_collect_empties : forall s s1 g1 s2 g2,
  Inv s -> poisoned s = false -> no_res s -> wm_unit s -> ext_s s = [] -> ext_e s = [] ->
  collect s = (s1, g1) -> collect s1 = (s2, g2) ->
  strongs s1 = [] /\ wmaps s1 = [] /\ strongs s2 = [] /\ weaks s2 = [] /\ wmaps s2 = [].
Print Assumptions drop_all_then_collect_empties.

(* the same after any history (all its hypotheses are invariants of histories) *)
Theorem nothing_left_behind : forall ops s1 g1 s2 g2,
  Forall op_no_res ops ->
  ext_s (exec init ops) = [] -> ext_e (exec init ops) = [] ->
  collect (exec init ops) = (s1, g1) -> collect s1 = (s2, g2) ->
  strongs s1 = [] /\ wmaps s1 = [] /\ strongs s2 = [] /\ weaks s2 = [] /\ wmaps s2 = [].
Proof. exact nothing_left_behind_lemma. Qed.
Check nothing_left_behind : forall ops s1 g1 s2 g2,
  Forall op_no_res ops ->
  ext_s (exec init ops) = [] -> ext_e (exec init ops) = [] ->
  collect (exec init ops) = (s1, g1) -> collect s1 = (s2, g2) ->
  strongs s1 = [] /\ wmaps s1 = [] /\ strongs s2 = [] /\ weaks s2 = [] /\ wmaps s2 = [].
Print Assumptions nothing_left_behind.

(* schedule independence: inserting collections at arbitrary points of a history changes no observation of a
   mutator that makes no weak observation (`plain` excludes Collect itself, resurrecting finalizers, and the two
   weak observations Upgrade / EphValue: without collections a weak pointer to garbage still upgrades) *)
Theorem schedule_independent : forall ops1 ops2,
  Forall plain ops1 -> interleave ops1 ops2 ->
  filter not_gc (snd (run init ops2)) = snd (run init ops1).
Proof. exact Sched_C09.schedule_independent. Qed.
Check schedule_independent : forall ops1 ops2,
  Forall plain ops1 -> interleave ops1 ops2 ->
  filter not_gc (snd (run init ops2)) = snd (run init ops1).
Print Assumptions schedule_independent.

(* the hypotheses are satisfiable and not vacuous: a history with a cycle, an ephemeron and a weak map, with two
   collections inserted *)
Example schedule_example :
  let ops1 := [Alloc 0; Alloc 0; Link 0%N 1%N; Link 1%N 0%N; MkEph 0%N 1%N; WmNew; WmInsert 2%N 0%N 1%N; Drop 1%N; Drop 0%N;
               WmGet 2%N 0%N; Alloc 0; Read 3%N] in
  let ops2 := [Alloc 0; Alloc 0; Link 0%N 1%N; Collect; Link 1%N 0%N; MkEph 0%N 1%N; WmNew; WmInsert 2%N 0%N 1%N; Drop 1%N; Drop 0%N;
               Collect; WmGet 2%N 0%N; Alloc 0; Read 3%N] in
  Forall plain ops1 /\ interleave ops1 ops2 /\ filter not_gc (snd (run init ops2)) = snd (run init ops1).
Proof.
  cbv zeta. split; [repeat constructor; discriminate|]. split; [repeat constructor|]. vm_compute. reflexivity.
Qed.
