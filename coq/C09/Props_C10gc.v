(* C10, collector level: statements only (filled in as the proofs land). *)
From Coq Require Import NArith Bool List.
From C09 Require Import GcModel.
