(* The GcHeader word operations regenerated from gc_header.rs (Gen/GcHeader.v) implement a pair
   (count : 31 bits, mark : bool) whose components are independent, and the ref-count operations are
   +1 / -1 below the overflow limit.  This is what lets GcModel.v keep the non-root count and the mark
   in separate collection-local tables. *)
From Coq Require Import NArith Bool Lia.
From Common Require Import Bits.
From Gen Require Import GcHeader.
Local Open Scope N_scope.

Definition two31' : N := 2147483648.

(* the header word with mark flag m and non-root count c *)
Definition word (m : bool) (c : N) : N := (if m then two31' else 0) + c.

Lemma MARK_MASK_val : gh_MARK_MASK = 2147483648.
Proof. reflexivity. Qed.
Lemma NON_ROOTS_MASK_val : gh_NON_ROOTS_MASK = 2147483647.
Proof. reflexivity. Qed.
Lemma NON_ROOTS_MAX_val : gh_NON_ROOTS_MAX = 2147483647.
Proof. reflexivity. Qed.
Lemma not_NON_ROOTS_MASK_val : N.lxor gh_NON_ROOTS_MASK 4294967295 = 2147483648.
Proof. reflexivity. Qed.
Lemma not_MARK_MASK_val : N.lxor gh_MARK_MASK 4294967295 = 2147483647.
Proof. reflexivity. Qed.

Lemma word_split m c : word m c = (if m then 1 else 0) * 2 ^ 31 + c.
Proof. unfold word, two31'. destruct m; change (2 ^ 31) with 2147483648; lia. Qed.

Lemma every_word w : w < 2 ^ 32 -> exists m c, c < 2 ^ 31 /\ w = word m c.
Proof.
  intro H. destruct (split_word 31 w) as [hi [lo [E [Hlo Hhi]]]].
  assert (hi < 2) as Hh.
  { rewrite Hhi. apply N.div_lt_upper_bound; [apply N.pow_nonzero; lia|].
    change (2 ^ 31 * 2) with (2 ^ 32). exact H. }
  clear Hhi.
  exists (negb (hi =? 0)), lo. split; [exact Hlo|].
  rewrite word_split, E. destruct (N.eqb_spec hi 0) as [->|Hn]; cbn [negb]; [reflexivity|].
  assert (hi = 1) as -> by lia. reflexivity.
Qed.

Lemma land_low c hi : c < 2 ^ 31 -> N.land (hi * 2 ^ 31 + c) 2147483647 = c.
Proof.
  intro H. change 2147483647 with (N.ones 31). rewrite N.land_ones.
  rewrite N.add_comm, N.mod_add by (apply N.pow_nonzero; lia). apply N.mod_small. exact H.
Qed.

Lemma land_high c hi : c < 2 ^ 31 -> N.land (hi * 2 ^ 31 + c) 2147483648 = N.land hi 1 * 2 ^ 31.
Proof. intro H. change 2147483648 with (1 * 2 ^ 31). apply land_hi_mask. exact H. Qed.

Section Components.
  Variables (m : bool) (c : N).
  Hypothesis Hc : c < 2 ^ 31.

  Lemma count_of_word : gh_non_root_count (word m c) = c.
  Proof. unfold gh_non_root_count. rewrite NON_ROOTS_MASK_val, word_split. apply land_low. exact Hc. Qed.

  Lemma marked_of_word : gh_is_marked (word m c) = m.
  Proof.
    unfold gh_is_marked. rewrite MARK_MASK_val, word_split, land_high by exact Hc.
    destruct m; reflexivity.
  Qed.

  (* mark / unmark keep the count *)
  Lemma mark_word : gh_mark (word m c) = word true c.
  Proof.
    unfold gh_mark. rewrite MARK_MASK_val, !word_split.
    destruct m.
    - rewrite <- (lor_hi_lo 31 1 c Hc). change 2147483648 with (1 * 2 ^ 31).
      rewrite N.lor_comm, N.lor_assoc, N.lor_diag. reflexivity.
    - change (0 * 2 ^ 31 + c) with c. rewrite N.lor_comm.
      change 2147483648 with (1 * 2 ^ 31). rewrite lor_hi_lo by exact Hc. reflexivity.
  Qed.

  Lemma unmark_word : gh_unmark (word m c) = word false c.
  Proof.
    unfold gh_unmark. rewrite not_MARK_MASK_val, word_split, land_low by exact Hc.
    unfold word. reflexivity.
  Qed.

  (* reset keeps the mark *)
  Lemma reset_word : gh_reset_non_root_count (word m c) = word m 0.
  Proof.
    unfold gh_reset_non_root_count. rewrite not_NON_ROOTS_MASK_val, word_split, land_high by exact Hc.
    rewrite word_split. destruct m; reflexivity.
  Qed.

  Lemma rooted_word rc : gh_is_rooted rc (word m c) = (c <? rc).
  Proof. unfold gh_is_rooted. rewrite count_of_word. reflexivity. Qed.

  (* inc keeps the mark, saturates at ref_count; ref_count never exceeds NON_ROOTS_MAX (inc_ref_count) *)
  Lemma inc_word rc : rc <= gh_NON_ROOTS_MAX ->
    gh_inc_non_root_count rc (word m c) = word m (if c <? rc then c + 1 else c).
  Proof.
    intro Hrc. rewrite NON_ROOTS_MAX_val in Hrc. unfold gh_inc_non_root_count.
    fold (gh_non_root_count (word m c)). rewrite count_of_word. cbv zeta.
    destruct (N.ltb_spec c rc) as [Hlt|Hge]; [|reflexivity].
    unfold word, two31'. change (2 ^ 32) with 4294967296. change (2 ^ 31) with 2147483648 in Hc.
    rewrite N.mod_small by (destruct m; lia). lia.
  Qed.
End Components.

(* the count stays a 31-bit number under inc (so `word` stays well formed) *)
Lemma inc_count_bound rc c : rc <= gh_NON_ROOTS_MAX -> c < 2 ^ 31 -> (if c <? rc then c + 1 else c) < 2 ^ 31.
Proof.
  rewrite NON_ROOTS_MAX_val. change (2 ^ 31) with 2147483648. intros H1 H2.
  destruct (N.ltb_spec c rc); lia.
Qed.

(* ref counts: +1 below the limit (otherwise the Rust code panics), -1 above zero *)
Lemma inc_ref_ok rc : rc < gh_NON_ROOTS_MAX -> gh_inc_ref_count rc = Some (rc + 1).
Proof.
  rewrite NON_ROOTS_MAX_val. intro H. unfold gh_inc_ref_count. cbv zeta.
  rewrite NON_ROOTS_MAX_val. change (2 ^ 32) with 4294967296.
  rewrite N.mod_small by lia.
  destruct (N.eqb_spec (rc + 1) 0); [lia|]. destruct (N.ltb_spec 2147483647 (rc + 1)); [lia|]. reflexivity.
Qed.

Lemma inc_ref_panics rc : rc < 2 ^ 32 -> gh_NON_ROOTS_MAX <= rc -> gh_inc_ref_count rc = None.
Proof.
  rewrite NON_ROOTS_MAX_val. change (2 ^ 32) with 4294967296. intros H1 H2. unfold gh_inc_ref_count. cbv zeta.
  rewrite NON_ROOTS_MAX_val. change (2 ^ 32) with 4294967296.
  destruct (N.eq_dec rc 4294967295) as [->|Hn]; [reflexivity|].
  rewrite N.mod_small by lia.
  destruct (N.eqb_spec (rc + 1) 0); [reflexivity|]. destruct (N.ltb_spec 2147483647 (rc + 1)); [reflexivity|lia].
Qed.

Lemma dec_ref_ok rc : 0 < rc -> rc < 2 ^ 32 -> gh_dec_ref_count rc = rc - 1.
Proof.
  change (2 ^ 32) with 4294967296. intros H1 H2. unfold gh_dec_ref_count. change (2 ^ 32) with 4294967296.
  replace (rc + 4294967296 - 1) with ((rc - 1) + 1 * 4294967296) by lia.
  rewrite N.mod_add by lia. apply N.mod_small. lia.
Qed.

Lemma new_header : gh_NEW_REF_COUNT = 1 /\ gh_NEW_NON_ROOT_COUNT = word false 0.
Proof. split; reflexivity. Qed.

(* summary statements pinned in Props_C09.v *)
Lemma header_mark_preserves_count_lemma : forall m c, c < 2 ^ 31 ->
  gh_non_root_count (gh_mark (word m c)) = c /\ gh_is_marked (gh_mark (word m c)) = true /\
  gh_non_root_count (gh_unmark (word m c)) = c /\ gh_is_marked (gh_unmark (word m c)) = false.
Proof.
  intros m c H. rewrite (mark_word m c H), (unmark_word m c H).
  rewrite (count_of_word true c H), (count_of_word false c H), (marked_of_word true c H), (marked_of_word false c H).
  repeat split.
Qed.

Lemma header_inc_reset_preserve_mark_lemma : forall m c rc, c < 2 ^ 31 -> rc <= gh_NON_ROOTS_MAX ->
  gh_is_marked (gh_inc_non_root_count rc (word m c)) = m /\
  gh_non_root_count (gh_inc_non_root_count rc (word m c)) = (if c <? rc then c + 1 else c) /\
  gh_is_marked (gh_reset_non_root_count (word m c)) = m /\
  gh_non_root_count (gh_reset_non_root_count (word m c)) = 0 /\
  gh_is_rooted rc (word m c) = (c <? rc).
Proof.
  intros m c rc H Hrc. rewrite (inc_word m c H rc Hrc), (reset_word m c H).
  pose proof (inc_count_bound rc c Hrc H) as Hb.
  assert (0 < 2 ^ 31) as H0 by (change (2 ^ 31) with 2147483648; lia).
  rewrite (marked_of_word m _ Hb), (count_of_word m _ Hb), (marked_of_word m 0 H0), (count_of_word m 0 H0), (rooted_word m c H rc).
  repeat split.
Qed.
