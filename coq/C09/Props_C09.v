(* C09 property theorems: statements only, each closed by `exact`, pinned by `Check`. *)
From Coq Require Import NArith Bool List.
From Common Require Import Bits.
From Gen Require Import GcHeader.
From C09 Require Import GcModel HeaderRefine.
Local Open Scope N_scope.

(* header bit layout (regenerated from gc_header.rs): mark / unmark keep the count bits *)
Theorem header_mark_preserves_count : forall m c, c < 2 ^ 31 ->
  gh_non_root_count (gh_mark (word m c)) = c /\ gh_is_marked (gh_mark (word m c)) = true /\
  gh_non_root_count (gh_unmark (word m c)) = c /\ gh_is_marked (gh_unmark (word m c)) = false.
Proof. exact header_mark_preserves_count_lemma. Qed.
Check header_mark_preserves_count : forall m c, c < 2 ^ 31 ->
  gh_non_root_count (gh_mark (word m c)) = c /\ gh_is_marked (gh_mark (word m c)) = true /\
  gh_non_root_count (gh_unmark (word m c)) = c /\ gh_is_marked (gh_unmark (word m c)) = false.
Print Assumptions header_mark_preserves_count.
