(* C09 property theorems: statements only, each closed by `exact`, pinned by `Check`. *)
From Coq Require Import NArith Bool List Arith.
From Common Require Import Bits.
From Gen Require Import GcHeader.
From C09 Require Import GcModel HeaderRefine Spec_C09 Mark_C09 Fin_C09 Step_C09 Collect_C09 Witness_C09 Hist_C09 Weak_C09 DeepRes_C09.
Import ListNotations.

(* ---------------------------------------------------------------------------------------------- *)
(* 1. header bit layout (regenerated from gc_header.rs on every run) *)

(* mark / unmark keep the count bits *)
Theorem header_mark_preserves_count : forall m c, (c < 2 ^ 31)%N ->
  gh_non_root_count (gh_mark (word m c)) = c /\ gh_is_marked (gh_mark (word m c)) = true /\
  gh_non_root_count (gh_unmark (word m c)) = c /\ gh_is_marked (gh_unmark (word m c)) = false.
Proof. exact header_mark_preserves_count_lemma. Qed.
Check header_mark_preserves_count : forall m c, (c < 2 ^ 31)%N ->
  gh_non_root_count (gh_mark (word m c)) = c /\ gh_is_marked (gh_mark (word m c)) = true /\
  gh_non_root_count (gh_unmark (word m c)) = c /\ gh_is_marked (gh_unmark (word m c)) = false.
Print Assumptions header_mark_preserves_count.

(* inc_non_root_count (saturating at ref_count) and reset keep the mark bit; is_rooted reads the count *)
Theorem header_inc_reset_preserve_mark : forall m c rc, (c < 2 ^ 31)%N -> (rc <= gh_NON_ROOTS_MAX)%N ->
  gh_is_marked (gh_inc_non_root_count rc (word m c)) = m /\
  gh_non_root_count (gh_inc_non_root_count rc (word m c)) = (if (c <? rc)%N then (c + 1)%N else c) /\
  gh_is_marked (gh_reset_non_root_count (word m c)) = m /\
  gh_non_root_count (gh_reset_non_root_count (word m c)) = 0%N /\
  gh_is_rooted rc (word m c) = (c <? rc)%N.
Proof. exact header_inc_reset_preserve_mark_lemma. Qed.
Check header_inc_reset_preserve_mark : forall m c rc, (c < 2 ^ 31)%N -> (rc <= gh_NON_ROOTS_MAX)%N ->
  gh_is_marked (gh_inc_non_root_count rc (word m c)) = m /\
  gh_non_root_count (gh_inc_non_root_count rc (word m c)) = (if (c <? rc)%N then (c + 1)%N else c) /\
  gh_is_marked (gh_reset_non_root_count (word m c)) = m /\
  gh_non_root_count (gh_reset_non_root_count (word m c)) = 0%N /\
  gh_is_rooted rc (word m c) = (c <? rc)%N.
Print Assumptions header_inc_reset_preserve_mark.

(* every 32-bit header word is (mark, count) for a unique pair: the model's separate tables lose nothing *)
Theorem header_every_word : forall w, (w < 2 ^ 32)%N -> exists m c, (c < 2 ^ 31)%N /\ w = word m c.
Proof. exact every_word. Qed.
Check header_every_word : forall w, (w < 2 ^ 32)%N -> exists m c, (c < 2 ^ 31)%N /\ w = word m c.
Print Assumptions header_every_word.

(* ---------------------------------------------------------------------------------------------- *)
(* 2. representation invariant: ref_count = number of handles, no dangling handle *)

Theorem rc_inv_step : forall s o,
  o <> Collect -> Inv s -> poisoned s = false ->
  Inv (fst (step s o)) /\ poisoned (fst (step s o)) = false.
Proof. exact step_inv. Qed.
Check rc_inv_step : forall s o,
  o <> Collect -> Inv s -> poisoned s = false ->
  Inv (fst (step s o)) /\ poisoned (fst (step s o)) = false.
Print Assumptions rc_inv_step.

(* trace_non_roots + is_rooted decide "held from outside the heap" exactly *)
Theorem is_rooted_exact : forall s, Inv s ->
  rootedS_ok s (nrc_tab_s (strongs s) (weaks s)) /\ rootedE_ok s (nrc_tab_e (strongs s) (weaks s)).
Proof. exact (fun s I => conj (rootedS_ok_tab s I) (rootedE_ok_tab s I)). Qed.
Check is_rooted_exact : forall s, Inv s ->
  rootedS_ok s (nrc_tab_s (strongs s) (weaks s)) /\ rootedE_ok s (nrc_tab_e (strongs s) (weaks s)).
Print Assumptions is_rooted_exact.

(* ---------------------------------------------------------------------------------------------- *)
(* 3. marking = abstract reachability (worklist, ephemeron fix-point, weak-map pass; fuel proved sufficient) *)

Theorem mark_exact : forall s tabS tabE ms me dead pend,
  Inv s -> rootedS_ok s tabS -> rootedE_ok s tabE ->
  mark_heap (strongs s) (weaks s) (wmaps s) tabS tabE [] [] = (ms, me, dead, pend) ->
  (forall n, memb n ms = true <-> Reach s n) /\
  (forall e, memb e me = true <-> ReachE s e) /\
  dead = filter (fun n => negb (memb n ms)) (ids_s (strongs s)) /\
  pend = filter (fun x => negb (fst (eph_trace x ms me))) (weaks s).
Proof. exact mark_heap_exact. Qed.
Check mark_exact : forall s tabS tabE ms me dead pend,
  Inv s -> rootedS_ok s tabS -> rootedE_ok s tabE ->
  mark_heap (strongs s) (weaks s) (wmaps s) tabS tabE [] [] = (ms, me, dead, pend) ->
  (forall n, memb n ms = true <-> Reach s n) /\
  (forall e, memb e me = true <-> ReachE s e) /\
  dead = filter (fun n => negb (memb n ms)) (ids_s (strongs s)) /\
  pend = filter (fun x => negb (fst (eph_trace x ms me))) (weaks s).
Print Assumptions mark_exact.

(* ---------------------------------------------------------------------------------------------- *)
(* 4. a collection frees exactly the unreachable objects, exactly once, and re-establishes the invariant
      (hypothesis: the finalizers of the unreachable boxes do not resurrect) *)

Theorem collect_exact : forall s s' g,
  Inv s -> poisoned s = false -> dead_no_res s -> collect s = (s', g) ->
  Inv s' /\ poisoned s' = false /\
  (forall n, In n (ids_s (strongs s')) <-> In n (ids_s (strongs s)) /\ Reach s n) /\
  (forall e, In e (ids_e (weaks s')) <-> In e (ids_e (weaks s)) /\ ReachE s e) /\
  (forall n, In n (g_drop g) <-> is_node (strongs s) n = true /\ ~ Reach s n) /\
  g_fin g = g_drop g /\ NoDup (g_drop g) /\ g_res g = [] /\ g_held g = [] /\
  ext_s s' = ext_s s /\ ext_e s' = ext_e s /\ next_s s' = next_s s /\ next_e s' = next_e s.
Proof. exact collect_exact_lemma. Qed.
Check collect_exact : forall s s' g,
  Inv s -> poisoned s = false -> dead_no_res s -> collect s = (s', g) ->
  Inv s' /\ poisoned s' = false /\
  (forall n, In n (ids_s (strongs s')) <-> In n (ids_s (strongs s)) /\ Reach s n) /\
  (forall e, In e (ids_e (weaks s')) <-> In e (ids_e (weaks s)) /\ ReachE s e) /\
  (forall n, In n (g_drop g) <-> is_node (strongs s) n = true /\ ~ Reach s n) /\
  g_fin g = g_drop g /\ NoDup (g_drop g) /\ g_res g = [] /\ g_held g = [] /\
  ext_s s' = ext_s s /\ ext_e s' = ext_e s /\ next_s s' = next_s s /\ next_e s' = next_e s.
Print Assumptions collect_exact.

(* what survives keeps its payload; a weak pointer / ephemeron loses its data in a collection exactly when
   its key is unreachable at that collection (so upgrade() answers Some iff the target is still live, and an
   ephemeron's value is kept only while its key is: Reach has no other rule that reaches a value) *)
Theorem weak_cleared_iff_key_dead : forall s s' g,
  Inv s -> poisoned s = false -> dead_no_res s -> collect s = (s', g) ->
  (forall n b', find_s n (strongs s') = Some b' ->
     exists b, find_s n (strongs s) = Some b /\ s_kids b' = s_kids b /\ s_fin b' = s_fin b /\ s_map b' = s_map b /\
       (s_ephs b' = s_ephs b \/ s_ephs b' = filter (has_data (weaks s')) (s_ephs b))) /\
  (forall e x', find_e e (weaks s') = Some x' ->
     exists x, find_e e (weaks s) = Some x /\
       (e_data x' = e_data x \/ (e_data x' = None /\ exists k v, e_data x = Some (k, v) /\ ~ Reach s k))) /\
  incl (wmaps s') (wmaps s) /\ colls s' <= S (colls s).
Proof. exact collect_frame_lemma. Qed.
Check weak_cleared_iff_key_dead : forall s s' g,
  Inv s -> poisoned s = false -> dead_no_res s -> collect s = (s', g) ->
  (forall n b', find_s n (strongs s') = Some b' ->
     exists b, find_s n (strongs s) = Some b /\ s_kids b' = s_kids b /\ s_fin b' = s_fin b /\ s_map b' = s_map b /\
       (s_ephs b' = s_ephs b \/ s_ephs b' = filter (has_data (weaks s')) (s_ephs b))) /\
  (forall e x', find_e e (weaks s') = Some x' ->
     exists x, find_e e (weaks s) = Some x /\
       (e_data x' = e_data x \/ (e_data x' = None /\ exists k v, e_data x = Some (k, v) /\ ~ Reach s k))) /\
  incl (wmaps s') (wmaps s) /\ colls s' <= S (colls s).
Print Assumptions weak_cleared_iff_key_dead.

(* ---------------------------------------------------------------------------------------------- *)
(* 5. the hypothesis of 4 is necessary: with a finalizer that resurrects, the faithful model frees a node
      that is held by an external handle (finding 1 of design.d/C09.md; the witness is the replay
      `new 1; link 0 0; drop 0; gc`, coq/C09/Witness_C09.v).  The state before the collection satisfies the invariant. *)

Theorem collect_safe_with_resurrection_refuted :
  exists ops, Inv (exec init ops) /\ poisoned (exec init ops) = false /\
    g_held (snd (collect (exec init ops))) = [0%N] /\
    g_drop (snd (collect (exec init ops))) = [0%N] /\
    In 0%N (ext_s (fst (collect (exec init ops)))).
Proof. exact resurrection_refuted_lemma. Qed.
Check collect_safe_with_resurrection_refuted :
  exists ops, Inv (exec init ops) /\ poisoned (exec init ops) = false /\
    g_held (snd (collect (exec init ops))) = [0%N] /\
    g_drop (snd (collect (exec init ops))) = [0%N] /\
    In 0%N (ext_s (fst (collect (exec init ops)))).
Print Assumptions collect_safe_with_resurrection_refuted.

(* ---------------------------------------------------------------------------------------------- *)
(* 6. lifted over arbitrary operation histories (no resurrecting finalizer allocated) *)

(* the invariant holds and boa has not panicked after any history *)
Theorem rc_inv : forall ops, Forall op_no_res ops ->
  Inv (exec init ops) /\ poisoned (exec init ops) = false /\ no_res (exec init ops).
Proof. exact exec_inv. Qed.
Check rc_inv : forall ops, Forall op_no_res ops ->
  Inv (exec init ops) /\ poisoned (exec init ops) = false /\ no_res (exec init ops).
Print Assumptions rc_inv.

(* over a whole history nothing is dropped twice, and the Finalize calls are exactly the drops *)
Theorem freed_exactly_once : forall ops, Forall op_no_res ops ->
  NoDup (drop_log (snd (run init ops))) /\ fin_log (snd (run init ops)) = drop_log (snd (run init ops)).
Proof. exact freed_once. Qed.
Check freed_exactly_once : forall ops, Forall op_no_res ops ->
  NoDup (drop_log (snd (run init ops))) /\ fin_log (snd (run init ops)) = drop_log (snd (run init ops)).
Print Assumptions freed_exactly_once.

(* at any point of any history a collection finalizes / drops only what is unreachable at that point *)
Theorem collect_safe : forall ops1 g, Forall op_no_res ops1 ->
  let s := exec init ops1 in
  forall s', collect s = (s', g) -> forall n, In n (g_drop g) \/ In n (g_fin g) -> ~ Reach s n.
Proof. exact never_freed_while_reachable. Qed.
Check collect_safe : forall ops1 g, Forall op_no_res ops1 ->
  let s := exec init ops1 in
  forall s', collect s = (s', g) -> forall n, In n (g_drop g) \/ In n (g_fin g) -> ~ Reach s n.
Print Assumptions collect_safe.

(* weak observations only hand out live targets: after any history, upgrade() / key() = Some k means k is in the
   heap, value() = Some v means v and the key are in the heap *)
Theorem upgrade_some_live : forall ops e k,
  Forall op_no_res ops -> let s := exec init ops in
  snd (step s (Upgrade e)) = OSome k -> In k (ids_s (strongs s)).
Proof. exact upgrade_some_live_lemma. Qed.
Check upgrade_some_live : forall ops e k,
  Forall op_no_res ops -> let s := exec init ops in
  snd (step s (Upgrade e)) = OSome k -> In k (ids_s (strongs s)).
Print Assumptions upgrade_some_live.

Theorem ephemeron_value_some_live : forall ops e v,
  Forall op_no_res ops -> let s := exec init ops in
  snd (step s (EphValue e)) = OSome v ->
  In v (ids_s (strongs s)) /\ exists k, data_of s e = Some (k, Some v) /\ In k (ids_s (strongs s)).
Proof. exact value_some_live_lemma. Qed.
Check ephemeron_value_some_live : forall ops e v,
  Forall op_no_res ops -> let s := exec init ops in
  snd (step s (EphValue e)) = OSome v ->
  In v (ids_s (strongs s)) /\ exists k, data_of s e = Some (k, Some v) /\ In k (ids_s (strongs s)).
Print Assumptions ephemeron_value_some_live.

(* ---------------------------------------------------------------------------------------------- *)
(* 7. deepening round: resurrection as the code behaves (clones first, then the children's counts are
      decremented, second mark with the stale non-root counts) - exactly when it is safe *)

(* a collection is exact and keeps the invariant whenever every handle cloned by a finalizer that runs points to
   a box that is reachable anyway; the clones are added to the root list *)
Theorem collect_exact_live_resurrection : forall s s' g,
  Inv s -> poisoned s = false -> res_targets_live s -> collect s = (s', g) ->
  Inv s' /\ poisoned s' = false /\
  (forall n, In n (ids_s (strongs s')) <-> In n (ids_s (strongs s)) /\ Reach s n) /\
  (forall e, In e (ids_e (weaks s')) <-> In e (ids_e (weaks s)) /\ ReachE s e) /\
  (forall n, In n (g_drop g) <-> is_node (strongs s) n = true /\ ~ Reach s n) /\
  g_fin g = g_drop g /\ NoDup (g_drop g) /\ g_held g = [] /\
  (forall n, cnt n (ext_s s') = cnt n (ext_s s) + cnt n (g_res g)) /\
  (forall n, In n (g_res g) -> Reach s n) /\
  ext_e s' = ext_e s /\ next_s s' = next_s s /\ next_e s' = next_e s.
Proof. exact collect_exact_live_res. Qed.
Check collect_exact_live_resurrection : forall s s' g,
  Inv s -> poisoned s = false -> res_targets_live s -> collect s = (s', g) ->
  Inv s' /\ poisoned s' = false /\
  (forall n, In n (ids_s (strongs s')) <-> In n (ids_s (strongs s)) /\ Reach s n) /\
  (forall e, In e (ids_e (weaks s')) <-> In e (ids_e (weaks s)) /\ ReachE s e) /\
  (forall n, In n (g_drop g) <-> is_node (strongs s) n = true /\ ~ Reach s n) /\
  g_fin g = g_drop g /\ NoDup (g_drop g) /\ g_held g = [] /\
  (forall n, cnt n (ext_s s') = cnt n (ext_s s) + cnt n (g_res g)) /\
  (forall n, In n (g_res g) -> Reach s n) /\
  ext_e s' = ext_e s /\ next_s s' = next_s s /\ next_e s' = next_e s.
Print Assumptions collect_exact_live_resurrection.

(* histories with arbitrary finalizer kinds are safe as long as no collection resurrects a dead target ... *)
Theorem safe_unless_dead_target_resurrected : forall ops,
  live_res_run init ops ->
  Inv (exec init ops) /\ poisoned (exec init ops) = false /\
  NoDup (drop_log (snd (run init ops))) /\ fin_log (snd (run init ops)) = drop_log (snd (run init ops)).
Proof. exact DeepRes_C09.safe_unless_dead_target_resurrected. Qed.
Check safe_unless_dead_target_resurrected : forall ops,
  live_res_run init ops ->
  Inv (exec init ops) /\ poisoned (exec init ops) = false /\
  NoDup (drop_log (snd (run init ops))) /\ fin_log (snd (run init ops)) = drop_log (snd (run init ops)).
Print Assumptions safe_unless_dead_target_resurrected.

(* ... in particular as long as every collection's `res` list is empty: the class predicate of the known finding
   ("the failure is at or after a collection whose finalizers resurrected something") as a theorem *)
Theorem safe_while_nothing_resurrected : forall ops,
  no_res_run init ops ->
  Inv (exec init ops) /\ poisoned (exec init ops) = false /\
  NoDup (drop_log (snd (run init ops))) /\ fin_log (snd (run init ops)) = drop_log (snd (run init ops)).
Proof. exact DeepRes_C09.safe_while_nothing_resurrected. Qed.
Check safe_while_nothing_resurrected : forall ops,
  no_res_run init ops ->
  Inv (exec init ops) /\ poisoned (exec init ops) = false /\
  NoDup (drop_log (snd (run init ops))) /\ fin_log (snd (run init ops)) = drop_log (snd (run init ops)).
Print Assumptions safe_while_nothing_resurrected.

(* the converse, for finalizers that clone at most once: resurrecting a dead target frees it while the clone is
   held (or leaves a dangling handle): the invariant is lost *)
Theorem resurrection_of_dead_target_unsafe : forall s b k,
  Inv s -> poisoned s = false -> fin_at_most_once s ->
  In b (strongs s) -> ~ Reach s (s_id b) -> s_fin b = 1 -> In k (s_kids b) -> ~ Reach s k ->
  In k (g_res (snd (collect s))) /\ In k (ext_s (fst (collect s))) /\
  ~ In k (ids_s (strongs (fst (collect s)))) /\
  poisoned (fst (collect s)) = true /\ ~ Inv (fst (collect s)) /\
  (is_node (strongs s) k = true -> In k (g_drop (snd (collect s))) /\ In k (g_held (snd (collect s)))).
Proof. exact dead_target_unsafe. Qed.
Check resurrection_of_dead_target_unsafe : forall s b k,
  Inv s -> poisoned s = false -> fin_at_most_once s ->
  In b (strongs s) -> ~ Reach s (s_id b) -> s_fin b = 1 -> In k (s_kids b) -> ~ Reach s k ->
  In k (g_res (snd (collect s))) /\ In k (ext_s (fst (collect s))) /\
  ~ In k (ids_s (strongs (fst (collect s)))) /\
  poisoned (fst (collect s)) = true /\ ~ Inv (fst (collect s)) /\
  (is_node (strongs s) k = true -> In k (g_drop (snd (collect s))) /\ In k (g_held (snd (collect s)))).
Print Assumptions resurrection_of_dead_target_unsafe.

(* safe iff only live targets are resurrected (finalizers cloning at most once; with two or more clones a dead
   target can out-count its lost handles and survive: not characterised) *)
Theorem resurrection_safe_iff_partial : forall s,
  Inv s -> poisoned s = false -> fin_at_most_once s ->
  (res_targets_live s <-> poisoned (fst (collect s)) = false).
Proof. exact live_res_iff_safe. Qed.
Check resurrection_safe_iff_partial : forall s,
  Inv s -> poisoned s = false -> fin_at_most_once s ->
  (res_targets_live s <-> poisoned (fst (collect s)) = false).
Print Assumptions resurrection_safe_iff_partial.

Theorem first_dead_target_resurrection_poisons : forall ops,
  live_res_run init ops -> fin_at_most_once (exec init ops) ->
  (res_targets_live (exec init ops) <-> poisoned (exec init (ops ++ [Collect])) = false).
Proof. exact first_dead_target_poisons. Qed.
Check first_dead_target_resurrection_poisons : forall ops,
  live_res_run init ops -> fin_at_most_once (exec init ops) ->
  (res_targets_live (exec init ops) <-> poisoned (exec init (ops ++ [Collect])) = false).
Print Assumptions first_dead_target_resurrection_poisons.
