(* C09 — trace_non_roots is exact under the representation invariant (is_rooted <-> held from outside the
   heap), and an equational characterisation of Collector::finalize when no finalizer resurrects. *)
From Coq Require Import List Arith Bool PeanoNat NArith Lia.
From C09 Require Import GcModel Spec_C09.
Import ListNotations.

(* ---------------------------------------------------------------------------------------------- *)
(* 1. non-root counts *)

Lemma nrc_fold rc n : forall l c, c <= rc -> fold_left (inc_nrc rc n) l c = Nat.min rc (c + cnt n l).
Proof.
  induction l as [|x t IH]; intros c Hc.
  - cbn [fold_left cnt]. lia.
  - cbn [fold_left cnt]. unfold inc_nrc at 2.
    destruct (N.eqb_spec x n) as [E|E].
    + destruct (Nat.ltb_spec c rc) as [L|L].
      * rewrite IH by lia. lia.
      * rewrite IH by lia. lia.
    + rewrite IH by lia. lia.
Qed.

Lemma nrc_of_min rc n l : nrc_of rc n l = Nat.min rc (cnt n l).
Proof. unfold nrc_of. rewrite nrc_fold by lia. reflexivity. Qed.

Lemma lookup_map_s (f : sbox -> nat) : forall Sb b, NoDup (ids_s Sb) -> In b Sb ->
  lookup (map (fun b => (s_id b, f b)) Sb) (s_id b) = f b.
Proof.
  induction Sb as [|c t IH]; intros b Hnd Hin; [destruct Hin|].
  cbn [map lookup]. unfold ids_s in Hnd. cbn [map] in Hnd. inversion Hnd as [|? ? Hni Hnd']; subst.
  destruct Hin as [->|Hin].
  - rewrite N.eqb_refl. reflexivity.
  - destruct (N.eqb_spec (s_id c) (s_id b)) as [E|E].
    + exfalso. apply Hni. rewrite E. apply in_map. exact Hin.
    + apply IH; assumption.
Qed.

Lemma lookup_map_e (f : ebox -> nat) : forall W x, NoDup (ids_e W) -> In x W ->
  lookup (map (fun x => (e_id x, f x)) W) (e_id x) = f x.
Proof.
  induction W as [|c t IH]; intros x Hnd Hin; [destruct Hin|].
  cbn [map lookup]. unfold ids_e in Hnd. cbn [map] in Hnd. inversion Hnd as [|? ? Hni Hnd']; subst.
  destruct Hin as [->|Hin].
  - rewrite N.eqb_refl. reflexivity.
  - destruct (N.eqb_spec (e_id c) (e_id x)) as [E|E].
    + exfalso. apply Hni. rewrite E. apply in_map. exact Hin.
    + apply IH; assumption.
Qed.

Theorem rootedS_ok_tab s : Inv s -> rootedS_ok s (nrc_tab_s (strongs s) (weaks s)).
Proof.
  intros I b Hb. unfold rooted, nrc_tab_s.
  rewrite (lookup_map_s (fun b => nrc_of (s_rc b) (s_id b) (inner_s (strongs s) (weaks s))))
    by (try exact Hb; apply (inv_nodup_s _ I)).
  rewrite nrc_of_min. rewrite (inv_rc_s _ I b Hb).
  rewrite <- cnt_pos_In. rewrite Nat.ltb_lt. lia.
Qed.

Theorem rootedE_ok_tab s : Inv s -> rootedE_ok s (nrc_tab_e (strongs s) (weaks s)).
Proof.
  intros I x Hx. unfold rooted, nrc_tab_e.
  rewrite (lookup_map_e (fun x => nrc_of (e_rc x) (e_id x) (inner_e (strongs s))))
    by (try exact Hx; apply (inv_nodup_e _ I)).
  rewrite nrc_of_min. rewrite (inv_rc_e _ I x Hx).
  rewrite <- !cnt_pos_In. rewrite Nat.ltb_lt. lia.
Qed.

(* ---------------------------------------------------------------------------------------------- *)
(* 2. finalize *)

Definition kids_at (Sb : list sbox) (n : id) : list id :=
  match find_s n Sb with Some b => s_kids b | None => [] end.
Definition ephs_at (Sb : list sbox) (n : id) : list id :=
  match find_s n Sb with Some b => s_ephs b | None => [] end.
Definition fin_strongs (Sb : list sbox) (DK : list id) : list sbox :=
  map (fun b => set_rc (s_rc b - cnt (s_id b) DK) b) Sb.
Definition fin_weaks (W : list ebox) (DE : list id) (P : list id) : list ebox :=
  map (fun x => let x' := set_erc (e_rc x - cnt (e_id x) DE) x in
                if memb (e_id x) P then set_data None x' else x') W.

(* the state with its two heaps replaced *)
Definition with_heap (Sb : list sbox) (W : list ebox) (s : state) : state :=
  mkSt Sb W (wmaps s) (ext_s s) (ext_e s) (next_s s) (next_e s) (colls s) (poisoned s).

Lemma with_heap_id s : with_heap (strongs s) (weaks s) s = s.
Proof. destruct s; reflexivity. Qed.

Lemma set_rc_id b : set_rc (s_rc b) b = b.
Proof. destruct b; reflexivity. Qed.
Lemma set_erc_id x : set_erc (e_rc x) x = x.
Proof. destruct x; reflexivity. Qed.

Lemma ids_fin_strongs Sb DK : ids_s (fin_strongs Sb DK) = ids_s Sb.
Proof. unfold ids_s, fin_strongs. rewrite map_map. apply map_ext. intro b. reflexivity. Qed.

Lemma fin_strongs_nil Sb : fin_strongs Sb [] = Sb.
Proof.
  unfold fin_strongs. rewrite <- (map_id Sb) at 2. apply map_ext. intro b.
  cbn [cnt]. rewrite Nat.sub_0_r. apply set_rc_id.
Qed.

Lemma fin_strongs_app Sb A B : fin_strongs (fin_strongs Sb A) B = fin_strongs Sb (A ++ B).
Proof.
  unfold fin_strongs. rewrite map_map. apply map_ext. intro b.
  unfold set_rc. cbn [s_rc s_id s_kids s_ephs s_fin s_map]. rewrite cnt_app. f_equal. lia.
Qed.

Lemma find_s_fin_strongs n Sb DK :
  find_s n (fin_strongs Sb DK) =
  match find_s n Sb with Some b => Some (set_rc (s_rc b - cnt (s_id b) DK) b) | None => None end.
Proof.
  unfold find_s, fin_strongs. induction Sb as [|c t IH]; [reflexivity|].
  cbn [map find]. change (s_id (set_rc (s_rc c - cnt (s_id c) DK) c)) with (s_id c).
  destruct (N.eqb (s_id c) n); [reflexivity|exact IH].
Qed.

Lemma In_fin_strongs c Sb DK : In c (fin_strongs Sb DK) ->
  exists b, In b Sb /\ c = set_rc (s_rc b - cnt (s_id b) DK) b.
Proof. unfold fin_strongs. intro H. apply in_map_iff in H. destruct H as [b [E Hb]]. exists b. split; [exact Hb|symmetry; exact E]. Qed.

(* weak side: only the counts *)
Definition fin_weaks0 (W : list ebox) (DE : list id) : list ebox :=
  map (fun x => set_erc (e_rc x - cnt (e_id x) DE) x) W.

Lemma ids_fin_weaks0 W DE : ids_e (fin_weaks0 W DE) = ids_e W.
Proof. unfold ids_e, fin_weaks0. rewrite map_map. apply map_ext. intro b. reflexivity. Qed.

Lemma fin_weaks0_nil W : fin_weaks0 W [] = W.
Proof.
  unfold fin_weaks0. rewrite <- (map_id W) at 2. apply map_ext. intro b.
  cbn [cnt]. rewrite Nat.sub_0_r. apply set_erc_id.
Qed.

Lemma fin_weaks0_app W A B : fin_weaks0 (fin_weaks0 W A) B = fin_weaks0 W (A ++ B).
Proof.
  unfold fin_weaks0. rewrite map_map. apply map_ext. intro b.
  unfold set_erc. cbn [e_rc e_id e_data e_unit]. rewrite cnt_app. f_equal. lia.
Qed.

Lemma find_e_fin_weaks0 n W DE :
  find_e n (fin_weaks0 W DE) =
  match find_e n W with Some x => Some (set_erc (e_rc x - cnt (e_id x) DE) x) | None => None end.
Proof.
  unfold find_e, fin_weaks0. induction W as [|c t IH]; [reflexivity|].
  cbn [map find]. change (e_id (set_erc (e_rc c - cnt (e_id c) DE) c)) with (e_id c).
  destruct (N.eqb (e_id c) n); [reflexivity|exact IH].
Qed.

(* one decrement *)
Lemma upd_s_absent n f : forall Sb, ~ In n (ids_s Sb) -> upd_s n f Sb = Sb.
Proof.
  unfold upd_s, ids_s. induction Sb as [|d t IH]; intro H; [reflexivity|].
  cbn [map In] in *. destruct (N.eqb_spec (s_id d) n) as [E|E]; [exfalso; apply H; left; exact E|].
  f_equal. apply IH. tauto.
Qed.

Lemma fin_strongs_absent n : forall Sb, ~ In n (ids_s Sb) -> fin_strongs Sb [n] = Sb.
Proof.
  unfold fin_strongs, ids_s. induction Sb as [|d t IH]; intro H; [reflexivity|].
  cbn [map In] in *. f_equal.
  - cbn [cnt]. destruct (N.eqb_spec n (s_id d)) as [E|E]; [exfalso; apply H; left; symmetry; exact E|].
    cbn [Nat.add]. rewrite Nat.sub_0_r. apply set_rc_id.
  - apply IH. tauto.
Qed.

Lemma upd_s_dec n r : forall Sb b, NoDup (ids_s Sb) -> find_s n Sb = Some b -> s_rc b = S r ->
  upd_s n (set_rc r) Sb = fin_strongs Sb [n].
Proof.
  induction Sb as [|c t IH]; intros b Hnd Hf Hr; [reflexivity|].
  unfold ids_s in Hnd. cbn [map] in Hnd. inversion Hnd as [|? ? Hni Hnd']; subst.
  unfold find_s in Hf. cbn [find] in Hf.
  unfold upd_s, fin_strongs. cbn [map]. fold (upd_s n (set_rc r) t). fold (fin_strongs t [n]).
  destruct (N.eqb_spec (s_id c) n) as [E|E].
  - subst n. inversion Hf; subst c. f_equal.
    + cbn [cnt]. rewrite N.eqb_refl. rewrite Hr. f_equal. lia.
    + rewrite upd_s_absent by exact Hni. rewrite fin_strongs_absent by exact Hni. reflexivity.
  - f_equal.
    + cbn [cnt]. destruct (N.eqb_spec n (s_id c)) as [E''|_]; [congruence|].
      cbn [Nat.add]. rewrite Nat.sub_0_r. symmetry. apply set_rc_id.
    + eapply IH; eassumption.
Qed.

Lemma upd_e_absent n f : forall W, ~ In n (ids_e W) -> upd_e n f W = W.
Proof.
  unfold upd_e, ids_e. induction W as [|d t IH]; intro H; [reflexivity|].
  cbn [map In] in *. destruct (N.eqb_spec (e_id d) n) as [E|E]; [exfalso; apply H; left; exact E|].
  f_equal. apply IH. tauto.
Qed.

Lemma fin_weaks0_absent n : forall W, ~ In n (ids_e W) -> fin_weaks0 W [n] = W.
Proof.
  unfold fin_weaks0, ids_e. induction W as [|d t IH]; intro H; [reflexivity|].
  cbn [map In] in *. f_equal.
  - cbn [cnt]. destruct (N.eqb_spec n (e_id d)) as [E|E]; [exfalso; apply H; left; symmetry; exact E|].
    cbn [Nat.add]. rewrite Nat.sub_0_r. apply set_erc_id.
  - apply IH. tauto.
Qed.

Lemma upd_e_dec n r : forall W x, NoDup (ids_e W) -> find_e n W = Some x -> e_rc x = S r ->
  upd_e n (set_erc r) W = fin_weaks0 W [n].
Proof.
  induction W as [|c t IH]; intros b Hnd Hf Hr; [reflexivity|].
  unfold ids_e in Hnd. cbn [map] in Hnd. inversion Hnd as [|? ? Hni Hnd']; subst.
  unfold find_e in Hf. cbn [find] in Hf.
  unfold upd_e, fin_weaks0. cbn [map]. fold (upd_e n (set_erc r) t). fold (fin_weaks0 t [n]).
  destruct (N.eqb_spec (e_id c) n) as [E|E].
  - subst n. inversion Hf; subst c. f_equal.
    + cbn [cnt]. rewrite N.eqb_refl. rewrite Hr. f_equal. lia.
    + rewrite upd_e_absent by exact Hni. rewrite fin_weaks0_absent by exact Hni. reflexivity.
  - f_equal.
    + cbn [cnt]. destruct (N.eqb_spec n (e_id c)) as [E''|_]; [congruence|].
      cbn [Nat.add]. rewrite Nat.sub_0_r. symmetry. apply set_erc_id.
    + eapply IH; eassumption.
Qed.

Lemma cnt_single_self n : cnt n [n] = 1.
Proof. cbn [cnt]. rewrite N.eqb_refl. reflexivity. Qed.

(* folds of decrements *)
Lemma dec_s_fold : forall L Sb W s,
  NoDup (ids_s Sb) ->
  (forall n, In n L -> In n (ids_s Sb)) ->
  (forall b, In b Sb -> cnt (s_id b) L <= s_rc b) ->
  fold_left (fun s k => dec_s k s) L (with_heap Sb W s) = with_heap (fin_strongs Sb L) W s.
Proof.
  induction L as [|n L IH]; intros Sb W s Hnd Hex Hb.
  - cbn [fold_left]. rewrite fin_strongs_nil. reflexivity.
  - cbn [fold_left].
    assert (Hn : In n (ids_s Sb)) by (apply Hex; left; reflexivity).
    destruct (find_s n Sb) as [b|] eqn:Hf; [|apply find_s_None in Hf; contradiction].
    destruct (find_s_In _ _ _ Hf) as [Hbin Hbid].
    pose proof (Hb b Hbin) as Hle. rewrite Hbid in Hle. cbn [cnt] in Hle. rewrite N.eqb_refl in Hle.
    destruct (s_rc b) as [|r] eqn:Hr; [lia|].
    assert (E : dec_s n (with_heap Sb W s) = with_heap (fin_strongs Sb [n]) W s).
    { unfold dec_s. cbn [strongs with_heap]. rewrite Hf, Hr.
      rewrite (upd_s_dec n r Sb b Hnd Hf Hr). reflexivity. }
    rewrite E. rewrite IH.
    + rewrite fin_strongs_app. reflexivity.
    + rewrite ids_fin_strongs. exact Hnd.
    + intros k Hk. rewrite ids_fin_strongs. apply Hex. right. exact Hk.
    + intros c Hc. apply In_fin_strongs in Hc. destruct Hc as [c0 [Hc0 ->]].
      cbn [s_id s_rc set_rc]. pose proof (Hb c0 Hc0) as H0.
      change (n :: L) with ([n] ++ L) in H0. rewrite cnt_app in H0. lia.
Qed.

Lemma In_fin_weaks0 c W DE : In c (fin_weaks0 W DE) ->
  exists x, In x W /\ c = set_erc (e_rc x - cnt (e_id x) DE) x.
Proof. unfold fin_weaks0. intro H. apply in_map_iff in H. destruct H as [b [E Hb]]. exists b. split; [exact Hb|symmetry; exact E]. Qed.

Lemma dec_e_fold : forall L Sb W s,
  NoDup (ids_e W) ->
  (forall n, In n L -> In n (ids_e W)) ->
  (forall x, In x W -> cnt (e_id x) L <= e_rc x) ->
  fold_left (fun s e => dec_e e s) L (with_heap Sb W s) = with_heap Sb (fin_weaks0 W L) s.
Proof.
  induction L as [|n L IH]; intros Sb W s Hnd Hex Hb.
  - cbn [fold_left]. rewrite fin_weaks0_nil. reflexivity.
  - cbn [fold_left].
    assert (Hn : In n (ids_e W)) by (apply Hex; left; reflexivity).
    destruct (find_e n W) as [b|] eqn:Hf; [|apply find_e_None in Hf; contradiction].
    destruct (find_e_In _ _ _ Hf) as [Hbin Hbid].
    pose proof (Hb b Hbin) as Hle. rewrite Hbid in Hle. cbn [cnt] in Hle. rewrite N.eqb_refl in Hle.
    destruct (e_rc b) as [|r] eqn:Hr; [lia|].
    assert (E : dec_e n (with_heap Sb W s) = with_heap Sb (fin_weaks0 W [n]) s).
    { unfold dec_e. cbn [weaks with_heap]. rewrite Hf, Hr.
      rewrite (upd_e_dec n r W b Hnd Hf Hr). reflexivity. }
    rewrite E. rewrite IH.
    + rewrite fin_weaks0_app. reflexivity.
    + rewrite ids_fin_weaks0. exact Hnd.
    + intros k Hk. rewrite ids_fin_weaks0. apply Hex. right. exact Hk.
    + intros c Hc. apply In_fin_weaks0 in Hc. destruct Hc as [c0 [Hc0 ->]].
      cbn [e_id e_rc set_erc]. pose proof (Hb c0 Hc0) as H0.
      change (n :: L) with ([n] ++ L) in H0. rewrite cnt_app in H0. lia.
Qed.

(* the loop over the dead strong boxes *)
Lemma fin_one_fold : forall dead Sb W s DK0 DE0,
  NoDup (ids_s Sb) -> NoDup (ids_e W) ->
  (forall n, In n dead -> exists b, find_s n Sb = Some b /\ s_fin b = 0) ->
  (forall b, In b Sb -> cnt (s_id b) (DK0 ++ flat_map (kids_at Sb) dead) <= s_rc b) ->
  (forall n, In n (flat_map (kids_at Sb) dead) -> In n (ids_s Sb)) ->
  (forall x, In x W -> cnt (e_id x) (DE0 ++ flat_map (ephs_at Sb) dead) <= e_rc x) ->
  (forall e, In e (flat_map (ephs_at Sb) dead) -> In e (ids_e W)) ->
  fold_left fin_one dead (with_heap (fin_strongs Sb DK0) (fin_weaks0 W DE0) s) =
  with_heap (fin_strongs Sb (DK0 ++ flat_map (kids_at Sb) dead))
            (fin_weaks0 W (DE0 ++ flat_map (ephs_at Sb) dead)) s.
Proof.
  induction dead as [|n dead IH]; intros Sb W s DK0 DE0 HndS HndE Hfin HbS HexS HbE HexE.
  - cbn [fold_left flat_map]. rewrite !app_nil_r. reflexivity.
  - cbn [fold_left flat_map] in *.
    destruct (Hfin n (or_introl eq_refl)) as [b [Hf Hz]].
    assert (Ek : kids_at Sb n = s_kids b) by (unfold kids_at; rewrite Hf; reflexivity).
    assert (Ee : ephs_at Sb n = s_ephs b) by (unfold ephs_at; rewrite Hf; reflexivity).
    rewrite Ek, Ee in *.
    assert (E1 : fin_one (with_heap (fin_strongs Sb DK0) (fin_weaks0 W DE0) s) n =
                 with_heap (fin_strongs Sb (DK0 ++ s_kids b)) (fin_weaks0 W (DE0 ++ s_ephs b)) s).
    { unfold fin_one. cbn [strongs with_heap]. rewrite find_s_fin_strongs, Hf.
      cbn [s_fin s_kids s_ephs set_rc]. rewrite Hz. cbn [iter].
      rewrite dec_s_fold.
      - rewrite fin_strongs_app. rewrite dec_e_fold.
        + rewrite fin_weaks0_app. reflexivity.
        + rewrite ids_fin_weaks0. exact HndE.
        + intros k Hk. rewrite ids_fin_weaks0. apply HexE. apply in_or_app. left. exact Hk.
        + intros c Hc. apply In_fin_weaks0 in Hc. destruct Hc as [c0 [Hc0 ->]].
          cbn [e_id e_rc set_erc]. pose proof (HbE c0 Hc0) as H0.
          rewrite !cnt_app in H0. lia.
      - rewrite ids_fin_strongs. exact HndS.
      - intros k Hk. rewrite ids_fin_strongs. apply HexS. apply in_or_app. left. exact Hk.
      - intros c Hc. apply In_fin_strongs in Hc. destruct Hc as [c0 [Hc0 ->]].
        cbn [s_id s_rc set_rc]. pose proof (HbS c0 Hc0) as H0.
        rewrite !cnt_app in H0. lia. }
    rewrite E1. rewrite IH.
    + rewrite <- !app_assoc. reflexivity.
    + exact HndS.
    + exact HndE.
    + intros k Hk. apply Hfin. right. exact Hk.
    + intros c Hc. rewrite <- app_assoc. apply HbS. exact Hc.
    + intros k Hk. apply HexS. apply in_or_app. right. exact Hk.
    + intros c Hc. rewrite <- app_assoc. apply HbE. exact Hc.
    + intros k Hk. apply HexE. apply in_or_app. right. exact Hk.
Qed.

(* clearing the data of a list of ephemeron boxes *)
Definition clr (P : list id) (W : list ebox) : list ebox :=
  map (fun x => if memb (e_id x) P then set_data None x else x) W.

Lemma clr_nil W : clr [] W = W.
Proof. unfold clr. rewrite <- (map_id W) at 2. apply map_ext. intro x. reflexivity. Qed.

Lemma upd_e_clr n P W : upd_e n (set_data None) (clr P W) = clr (P ++ [n]) W.
Proof.
  unfold upd_e, clr. rewrite map_map. apply map_ext. intro x.
  rewrite memb_app. cbn [memb existsb]. rewrite orb_false_r.
  destruct (memb (e_id x) P).
  - cbn [orb]. change (e_id (set_data None x)) with (e_id x).
    destruct (N.eqb (e_id x) n); reflexivity.
  - cbn [orb]. destruct (N.eqb (e_id x) n); reflexivity.
Qed.

Lemma clr_fin_weaks W DE P : clr P (fin_weaks0 W DE) = fin_weaks W DE P.
Proof.
  unfold clr, fin_weaks0, fin_weaks. rewrite map_map. apply map_ext. intro x. reflexivity.
Qed.

Lemma clear_one_fold : forall pend Sb W s DK0 P0,
  NoDup (ids_s Sb) ->
  (forall b, In b Sb -> cnt (s_id b) (DK0 ++ flat_map eph_value pend) <= s_rc b) ->
  (forall n, In n (flat_map eph_value pend) -> In n (ids_s Sb)) ->
  fold_left clear_one pend (with_heap (fin_strongs Sb DK0) (clr P0 W) s) =
  with_heap (fin_strongs Sb (DK0 ++ flat_map eph_value pend)) (clr (P0 ++ ids_e pend) W) s.
Proof.
  induction pend as [|e pend IH]; intros Sb W s DK0 P0 Hnd Hb Hex.
  - cbn [fold_left flat_map ids_e map]. rewrite !app_nil_r. reflexivity.
  - cbn [fold_left flat_map] in *. unfold ids_e. cbn [map]. fold (ids_e pend).
    assert (E1 : clear_one (with_heap (fin_strongs Sb DK0) (clr P0 W) s) e =
                 with_heap (fin_strongs Sb (DK0 ++ eph_value e)) (clr (P0 ++ [e_id e]) W) s).
    { unfold clear_one. cbn [weaks with_heap]. rewrite upd_e_clr.
      change (set_weaks (clr (P0 ++ [e_id e]) W) (with_heap (fin_strongs Sb DK0) (clr P0 W) s))
        with (with_heap (fin_strongs Sb DK0) (clr (P0 ++ [e_id e]) W) s).
      rewrite dec_s_fold.
      - rewrite fin_strongs_app. reflexivity.
      - rewrite ids_fin_strongs. exact Hnd.
      - intros k Hk. rewrite ids_fin_strongs. apply Hex. apply in_or_app. left. exact Hk.
      - intros c Hc. apply In_fin_strongs in Hc. destruct Hc as [c0 [Hc0 ->]].
        cbn [s_id s_rc set_rc]. pose proof (Hb c0 Hc0) as H0.
        rewrite !cnt_app in H0. lia. }
    rewrite E1. rewrite IH.
    + rewrite <- !app_assoc. reflexivity.
    + exact Hnd.
    + intros c Hc. rewrite <- app_assoc. apply Hb. exact Hc.
    + intros k Hk. apply Hex. apply in_or_app. right. exact Hk.
Qed.

Theorem finalize_eq s dead pend :
  NoDup (ids_s (strongs s)) -> NoDup (ids_e (weaks s)) ->
  (forall n, In n dead -> exists b, find_s n (strongs s) = Some b /\ s_fin b = 0) ->
  let DK := flat_map (kids_at (strongs s)) dead ++ flat_map eph_value pend in
  let DE := flat_map (ephs_at (strongs s)) dead in
  (forall b, In b (strongs s) -> cnt (s_id b) DK <= s_rc b) ->
  (forall n, In n DK -> In n (ids_s (strongs s))) ->
  (forall x, In x (weaks s) -> cnt (e_id x) DE <= e_rc x) ->
  (forall e, In e DE -> In e (ids_e (weaks s))) ->
  finalize dead pend s =
    with_heap (fin_strongs (strongs s) DK) (fin_weaks (weaks s) DE (ids_e pend)) s.
Proof.
  intros HndS HndE Hfin DK DE HbS HexS HbE HexE. unfold finalize.
  rewrite <- (with_heap_id s) at 1.
  rewrite <- (fin_strongs_nil (strongs s)) at 1. rewrite <- (fin_weaks0_nil (weaks s)) at 1.
  rewrite fin_one_fold; try assumption.
  - cbn [app]. rewrite <- (clr_nil (fin_weaks0 (weaks s) (flat_map (ephs_at (strongs s)) dead))).
    rewrite clear_one_fold.
    + cbn [app]. rewrite clr_fin_weaks. reflexivity.
    + exact HndS.
    + intros b Hb. apply HbS. exact Hb.
    + intros n Hn. apply HexS. unfold DK. apply in_or_app. right. exact Hn.
  - intros b Hb. cbn [app]. pose proof (HbS b Hb) as H0. unfold DK in H0. rewrite cnt_app in H0. lia.
  - intros n Hn. apply HexS. unfold DK. apply in_or_app. left. exact Hn.
Qed.

