(* C09 — Collector::collect on a state that satisfies the representation invariant, when no
   unreachable box has a resurrecting finalizer: the heap after the collection is exactly the reachable
   part of the heap before it, every unreachable node is finalized and dropped exactly once, and the
   invariant holds again. *)
From Coq Require Import List Arith Bool PeanoNat NArith Lia.
From C09 Require Import GcModel Spec_C09 Mark_C09 Fin_C09.
Import ListNotations.

(* the only finalizers that may resurrect belong to reachable boxes (they do not run) *)
Definition dead_no_res (s : state) : Prop :=
  forall b, In b (strongs s) -> ~ Reach s (s_id b) -> s_fin b = 0.

(* ---------------------------------------------------------------------------------------------- *)
(* list facts *)

Lemma cnt_flat_map_filter {A} (f : A -> list id) (p : A -> bool) n : forall l,
  cnt n (flat_map f l) =
  cnt n (flat_map f (filter p l)) + cnt n (flat_map f (filter (fun x => negb (p x)) l)).
Proof.
  induction l as [|a l IH]; [reflexivity|].
  cbn [flat_map filter]. destruct (p a); cbn [negb flat_map]; rewrite !cnt_app, IH; lia.
Qed.

Lemma flat_map_kids_at Sb0 (q : id -> bool) : NoDup (ids_s Sb0) -> forall Sb, incl Sb Sb0 ->
  flat_map (kids_at Sb0) (filter q (ids_s Sb)) = flat_map s_kids (filter (fun b => q (s_id b)) Sb).
Proof.
  intros Hnd. induction Sb as [|b t IH]; intro Hi; [reflexivity|].
  unfold ids_s. cbn [map filter]. fold (ids_s t).
  assert (Hb : In b Sb0) by (apply Hi; left; reflexivity).
  assert (Ht : incl t Sb0) by (intros x Hx; apply Hi; right; exact Hx).
  destruct (q (s_id b)).
  - cbn [flat_map]. rewrite IH by exact Ht. unfold kids_at. rewrite (find_s_nodup _ _ Hnd Hb). reflexivity.
  - apply IH. exact Ht.
Qed.

Lemma flat_map_ephs_at Sb0 (q : id -> bool) : NoDup (ids_s Sb0) -> forall Sb, incl Sb Sb0 ->
  flat_map (ephs_at Sb0) (filter q (ids_s Sb)) = flat_map s_ephs (filter (fun b => q (s_id b)) Sb).
Proof.
  intros Hnd. induction Sb as [|b t IH]; intro Hi; [reflexivity|].
  unfold ids_s. cbn [map filter]. fold (ids_s t).
  assert (Hb : In b Sb0) by (apply Hi; left; reflexivity).
  assert (Ht : incl t Sb0) by (intros x Hx; apply Hi; right; exact Hx).
  destruct (q (s_id b)).
  - cbn [flat_map]. rewrite IH by exact Ht. unfold ephs_at. rewrite (find_s_nodup _ _ Hnd Hb). reflexivity.
  - apply IH. exact Ht.
Qed.

Lemma same_id_s Sb a b : NoDup (ids_s Sb) -> In a Sb -> In b Sb -> s_id a = s_id b -> a = b.
Proof.
  intros Hnd Ha Hb E. pose proof (find_s_nodup _ _ Hnd Ha) as F1. pose proof (find_s_nodup _ _ Hnd Hb) as F2.
  rewrite E in F1. congruence.
Qed.

Lemma same_id_e W a b : NoDup (ids_e W) -> In a W -> In b W -> e_id a = e_id b -> a = b.
Proof.
  intros Hnd Ha Hb E. pose proof (find_e_nodup _ _ Hnd Ha) as F1. pose proof (find_e_nodup _ _ Hnd Hb) as F2.
  rewrite E in F1. congruence.
Qed.

Lemma memb_ids_filter W (p : ebox -> bool) x : NoDup (ids_e W) -> In x W ->
  memb (e_id x) (ids_e (filter p W)) = p x.
Proof.
  intros Hnd Hx. destruct (p x) eqn:Hp.
  - apply memb_In. unfold ids_e. apply in_map. apply filter_In. split; assumption.
  - apply memb_false. unfold ids_e. intro H. apply in_map_iff in H. destruct H as [y [E Hy]].
    apply filter_In in Hy. destruct Hy as [Hy Hpy].
    assert (y = x) by (eapply same_id_e; eassumption). subst y. congruence.
Qed.

Lemma filter_fin_strongs (p : id -> bool) Sb DK :
  filter (fun b => p (s_id b)) (fin_strongs Sb DK) = fin_strongs (filter (fun b => p (s_id b)) Sb) DK.
Proof.
  unfold fin_strongs. induction Sb as [|b t IH]; [reflexivity|].
  cbn [map filter]. change (s_id (set_rc (s_rc b - cnt (s_id b) DK) b)) with (s_id b).
  destruct (p (s_id b)); cbn [map]; rewrite IH; reflexivity.
Qed.

Lemma kids_fin_strongs Sb DK : flat_map s_kids (fin_strongs Sb DK) = flat_map s_kids Sb.
Proof. unfold fin_strongs. induction Sb as [|b t IH]; [reflexivity|]. cbn [map flat_map]. rewrite IH. reflexivity. Qed.

Lemma ephs_fin_strongs Sb DK : flat_map s_ephs (fin_strongs Sb DK) = flat_map s_ephs Sb.
Proof. unfold fin_strongs. induction Sb as [|b t IH]; [reflexivity|]. cbn [map flat_map]. rewrite IH. reflexivity. Qed.

Lemma ids_filter_s (p : id -> bool) Sb : ids_s (filter (fun b => p (s_id b)) Sb) = filter p (ids_s Sb).
Proof.
  unfold ids_s. induction Sb as [|b t IH]; [reflexivity|]. cbn [map filter].
  destruct (p (s_id b)); cbn [map]; rewrite IH; reflexivity.
Qed.

Lemma ids_filter_e (p : id -> bool) W : ids_e (filter (fun x => p (e_id x)) W) = filter p (ids_e W).
Proof.
  unfold ids_e. induction W as [|b t IH]; [reflexivity|]. cbn [map filter].
  destruct (p (e_id b)); cbn [map]; rewrite IH; reflexivity.
Qed.

Lemma NoDup_filter {A} (p : A -> bool) l : NoDup l -> NoDup (filter p l).
Proof.
  induction 1 as [|a l Hn Hd IH]; [constructor|]. cbn [filter]. destruct (p a); [|exact IH].
  constructor; [|exact IH]. intro H. apply filter_In in H. tauto.
Qed.

Lemma ids_fin_weaks W DE P : ids_e (fin_weaks W DE P) = ids_e W.
Proof.
  unfold ids_e, fin_weaks. rewrite map_map. apply map_ext. intro x. cbv zeta.
  destruct (memb (e_id x) P); reflexivity.
Qed.

Lemma In_fin_weaks c W DE P : In c (fin_weaks W DE P) ->
  exists x, In x W /\ e_id c = e_id x /\ e_rc c = e_rc x - cnt (e_id x) DE /\
            e_data c = (if memb (e_id x) P then None else e_data x).
Proof.
  unfold fin_weaks. intro H. apply in_map_iff in H. destruct H as [x [E Hx]]. exists x. split; [exact Hx|].
  subst c. cbv zeta. destruct (memb (e_id x) P); repeat split; reflexivity.
Qed.

Lemma filter_ext_in_e (p q : ebox -> bool) W : (forall x, In x W -> p x = q x) -> filter p W = filter q W.
Proof.
  induction W as [|a t IH]; intro H; [reflexivity|]. cbn [filter].
  rewrite (H a (or_introl eq_refl)). rewrite IH; [reflexivity|]. intros x Hx. apply H. right. exact Hx.
Qed.

(* ---------------------------------------------------------------------------------------------- *)
Section Collect.
Variable s : state.
Hypothesis I : Inv s.
Hypothesis Hdnr : dead_no_res s.
Variables (ms me dead : list id) (pend : list ebox).
Hypothesis Hms : forall n, memb n ms = true <-> Reach s n.
Hypothesis Hme : forall e, memb e me = true <-> ReachE s e.
Hypothesis Hdead : dead = filter (fun n => negb (memb n ms)) (ids_s (strongs s)).
Hypothesis Hpend : pend = filter (fun x => negb (fst (eph_trace x ms me))) (weaks s).

Definition mk (b : sbox) : bool := memb (s_id b) ms.
Definition badf (x : ebox) : bool := negb (fst (eph_trace x ms me)).

Lemma reach_kid b k : In b (strongs s) -> Reach s (s_id b) -> In k (s_kids b) -> Reach s k.
Proof. intros Hb Hr Hk. eapply R_kid; [exact Hr| |exact Hk]. apply find_s_nodup; [apply (inv_nodup_s _ I)|exact Hb]. Qed.

Lemma reach_eph b e : In b (strongs s) -> Reach s (s_id b) -> In e (s_ephs b) -> ReachE s e.
Proof. intros Hb Hr Hk. eapply RE_sto; [exact Hr| |exact Hk]. apply find_s_nodup; [apply (inv_nodup_s _ I)|exact Hb]. Qed.

Lemma reach_val x k v : In x (weaks s) -> ReachE s (e_id x) -> e_data x = Some (k, Some v) -> Reach s k -> Reach s v.
Proof. intros Hx Hr Hd Hk. eapply R_val; [exact Hr| |exact Hd|exact Hk]. apply find_e_nodup; [apply (inv_nodup_e _ I)|exact Hx]. Qed.

Lemma notbad_facts x : badf x = false ->
  memb (e_id x) me = true /\
  (e_data x = None \/ exists k v, e_data x = Some (k, v) /\ memb k ms = true).
Proof.
  unfold badf. destruct (eph_trace x ms me) as [ok q] eqn:E. cbn [fst]. intro H.
  destruct ok; [|discriminate]. apply eph_trace_true in E. destruct E as [E1 E2].
  split; [apply memb_In; exact E1|].
  destruct E2 as [[E2 _]|(k & v & Hd & Hk & _)]; [left; exact E2|].
  right. exists k, v. split; [exact Hd|apply memb_In; exact Hk].
Qed.

Lemma bad_facts x : badf x = true ->
  memb (e_id x) me = false \/ exists k v, e_data x = Some (k, v) /\ memb k ms = false.
Proof.
  unfold badf, eph_trace. destruct (memb (e_id x) me); [|left; reflexivity].
  destruct (e_data x) as [[k v]|]; [|cbn; discriminate].
  destruct (memb k ms) eqn:Hk; [cbn; discriminate|]. intros _. right. exists k, v. auto.
Qed.

(* the handles that finalization takes away *)
Definition DK : list id := flat_map (kids_at (strongs s)) dead ++ flat_map eph_value pend.
Definition DE : list id := flat_map (ephs_at (strongs s)) dead.

Lemma dead_kids : flat_map (kids_at (strongs s)) dead = flat_map s_kids (filter (fun b => negb (mk b)) (strongs s)).
Proof. rewrite Hdead. apply (flat_map_kids_at (strongs s) (fun n => negb (memb n ms)) (inv_nodup_s _ I)). apply incl_refl. Qed.

Lemma dead_ephs : DE = flat_map s_ephs (filter (fun b => negb (mk b)) (strongs s)).
Proof. unfold DE. rewrite Hdead. apply (flat_map_ephs_at (strongs s) (fun n => negb (memb n ms)) (inv_nodup_s _ I)). apply incl_refl. Qed.

Lemma cnt_kids_split n :
  cnt n (flat_map s_kids (strongs s)) =
  cnt n (flat_map s_kids (filter mk (strongs s))) + cnt n (flat_map (kids_at (strongs s)) dead).
Proof. rewrite dead_kids. apply cnt_flat_map_filter. Qed.

Lemma cnt_ephs_split n :
  cnt n (flat_map s_ephs (strongs s)) = cnt n (flat_map s_ephs (filter mk (strongs s))) + cnt n DE.
Proof. rewrite dead_ephs. apply cnt_flat_map_filter. Qed.

Lemma cnt_vals_split n :
  cnt n (flat_map eph_value (weaks s)) =
  cnt n (flat_map eph_value (filter (fun x => negb (badf x)) (weaks s))) + cnt n (flat_map eph_value pend).
Proof.
  rewrite Hpend. rewrite (cnt_flat_map_filter eph_value badf n (weaks s)). fold badf. lia.
Qed.

Lemma cnt_inner_split n :
  cnt n (inner_s (strongs s) (weaks s)) =
  cnt n (flat_map s_kids (filter mk (strongs s))) +
  cnt n (flat_map eph_value (filter (fun x => negb (badf x)) (weaks s))) + cnt n DK.
Proof.
  unfold inner_s, DK. rewrite !cnt_app. rewrite (cnt_kids_split n), (cnt_vals_split n). lia.
Qed.

(* preconditions of finalize_eq *)
Lemma DK_bound b : In b (strongs s) -> cnt (s_id b) DK <= s_rc b.
Proof. intro Hb. rewrite (inv_rc_s _ I b Hb). rewrite cnt_inner_split. lia. Qed.

Lemma DE_bound x : In x (weaks s) -> cnt (e_id x) DE <= e_rc x.
Proof. intro Hx. rewrite (inv_rc_e _ I x Hx). unfold inner_e. rewrite cnt_ephs_split. lia. Qed.

Lemma dead_in n : In n dead -> exists b, find_s n (strongs s) = Some b /\ In b (strongs s) /\ s_id b = n /\ memb n ms = false.
Proof.
  rewrite Hdead. intro H. apply filter_In in H. destruct H as [H1 H2].
  destruct (find_s n (strongs s)) as [b|] eqn:F; [|apply find_s_None in F; contradiction].
  destruct (find_s_In _ _ _ F) as [Hb Hid]. exists b. repeat split; try assumption.
  destruct (memb n ms); [discriminate|reflexivity].
Qed.

Lemma dead_fin n : In n dead -> exists b, find_s n (strongs s) = Some b /\ s_fin b = 0.
Proof.
  intro H. destruct (dead_in n H) as (b & F & Hb & Hid & Hm). exists b. split; [exact F|].
  apply Hdnr; [exact Hb|]. rewrite Hid. intro R. apply Hms in R. congruence.
Qed.

Lemma pend_in x : In x pend -> In x (weaks s) /\ badf x = true.
Proof. rewrite Hpend. intro H. apply filter_In in H. exact H. Qed.

Lemma DK_exists n : In n DK -> In n (ids_s (strongs s)).
Proof.
  unfold DK. intro H. apply in_app_or in H. destruct H as [H|H].
  - apply in_flat_map in H. destruct H as [d [Hd Hn]]. destruct (dead_in d Hd) as (b & F & Hb & _ & _).
    unfold kids_at in Hn. rewrite F in Hn. apply (inv_kids _ I b n Hb Hn).
  - apply in_flat_map in H. destruct H as [x [Hx Hn]]. destruct (pend_in x Hx) as [Hxw _].
    unfold eph_value in Hn. destruct (e_data x) as [[k [v|]]|] eqn:Hd.
    + destruct Hn as [Hn|[]]. subst n. apply (inv_val _ I x k v Hxw Hd).
    + destruct Hn.
    + destruct Hn.
Qed.

Lemma DE_exists e : In e DE -> In e (ids_e (weaks s)).
Proof.
  unfold DE. intro H. apply in_flat_map in H. destruct H as [d [Hd Hn]]. destruct (dead_in d Hd) as (b & F & Hb & _ & _).
  unfold ephs_at in Hn. rewrite F in Hn. apply (inv_ephs _ I b e Hb Hn).
Qed.

(* ---------------------------------------------------------------------------------------------- *)
(* the heap after finalization, and the second marking pass *)
Definition Sf : list sbox := fin_strongs (strongs s) DK.
Definition Wf : list ebox := fin_weaks (weaks s) DE (ids_e pend).

Lemma finalize_is : finalize dead pend (bump_colls s) = with_heap Sf Wf (bump_colls s).
Proof.
  apply (finalize_eq (bump_colls s) dead pend).
  - apply (inv_nodup_s _ I).
  - apply (inv_nodup_e _ I).
  - exact dead_fin.
  - exact DK_bound.
  - exact DK_exists.
  - exact DE_bound.
  - exact DE_exists.
Qed.

Lemma pend_ids x : In x (weaks s) -> memb (e_id x) (ids_e pend) = badf x.
Proof. intro Hx. rewrite Hpend. apply (memb_ids_filter (weaks s) badf x (inv_nodup_e _ I) Hx). Qed.

Lemma In_Wf c : In c Wf -> exists x, In x (weaks s) /\ e_id c = e_id x /\ e_rc c = e_rc x - cnt (e_id x) DE /\ e_data c = (if badf x then None else e_data x).
Proof.
  intro H. apply In_fin_weaks in H. destruct H as (x & Hx & E1 & E2 & E3). exists x.
  rewrite (pend_ids x Hx) in E3. auto.
Qed.

Lemma second_mark tabS tabE ms' me' d p :
  rootedS_ok s tabS -> rootedE_ok s tabE ->
  mark_heap Sf Wf (wmaps s) tabS tabE ms me = (ms', me', d, p) ->
  ms' = ms /\ (forall e, memb e me' = memb e me).
Proof.
  intros HrS HrE Hm. eapply mark_heap_stable; [| | | | |exact Hm].
  - intros c Hc Hr. apply In_fin_strongs in Hc. destruct Hc as [b [Hb ->]].
    cbn [s_id s_rc set_rc] in *. apply Hms. apply R_ext. apply (HrS b Hb).
    unfold rooted in *. apply Nat.ltb_lt in Hr. apply Nat.ltb_lt. lia.
  - intros n c Hn Hf. unfold Sf in Hf. rewrite find_s_fin_strongs in Hf.
    destruct (find_s n (strongs s)) as [b|] eqn:F; [|discriminate]. inversion Hf; subst c. cbn [s_kids s_ephs set_rc].
    apply Hms in Hn. split.
    + intros k Hk. apply Hms. eapply R_kid; eassumption.
    + intros e He. apply Hme. eapply RE_sto; eassumption.
  - intros c Hc Hr. apply In_Wf in Hc. destruct Hc as (x & Hx & E1 & E2 & _).
    rewrite E1. apply Hme. rewrite E1, E2 in Hr.
    assert (R : rooted tabE (e_id x) (e_rc x) = true).
    { unfold rooted in *. apply Nat.ltb_lt in Hr. apply Nat.ltb_lt. lia. }
    apply (HrE x Hx) in R. destruct R as [R|R]; [apply RE_ext|apply RE_wm]; exact R.
  - intros w x Hw _ _. apply Hme. apply RE_wm. exact Hw.
  - intros c k v Hc Hm1 Hd Hk. apply In_Wf in Hc. destruct Hc as (x & Hx & E1 & _ & E3).
    rewrite Hd in E3. destruct (badf x); [discriminate|].
    apply Hms. apply (reach_val x k v Hx); [apply Hme; rewrite <- E1; exact Hm1|symmetry; exact E3|apply Hms; exact Hk].
Qed.

(* ---------------------------------------------------------------------------------------------- *)
(* the heap after the sweep *)
Definition S2 : list sbox := filter (fun b => memb (s_id b) ms) Sf.
Definition W2 : list ebox := filter (fun e => memb (e_id e) me) Wf.

Lemma S2_eq : S2 = fin_strongs (filter mk (strongs s)) DK.
Proof. unfold S2, Sf, mk. apply (filter_fin_strongs (fun n => memb n ms)). Qed.

Lemma In_S2 c : In c S2 <-> exists b, In b (strongs s) /\ Reach s (s_id b) /\ c = set_rc (s_rc b - cnt (s_id b) DK) b.
Proof.
  rewrite S2_eq. split.
  - intro H. apply In_fin_strongs in H. destruct H as [b [Hb E]]. apply filter_In in Hb. destruct Hb as [Hb Hm].
    exists b. split; [exact Hb|]. split; [apply Hms; exact Hm|exact E].
  - intros (b & Hb & Hr & ->). unfold fin_strongs. apply in_map_iff. exists b. split; [reflexivity|].
    apply filter_In. split; [exact Hb|]. apply Hms. exact Hr.
Qed.

Lemma ids_S2 : ids_s S2 = filter (fun n => memb n ms) (ids_s (strongs s)).
Proof. rewrite S2_eq, ids_fin_strongs. apply (ids_filter_s (fun n => memb n ms)). Qed.

Lemma In_ids_S2 n : In n (ids_s S2) <-> In n (ids_s (strongs s)) /\ Reach s n.
Proof. rewrite ids_S2, filter_In, Hms. tauto. Qed.

Lemma ids_W2 : ids_e W2 = filter (fun n => memb n me) (ids_e (weaks s)).
Proof.
  unfold W2. rewrite (ids_filter_e (fun n => memb n me)). unfold Wf. rewrite ids_fin_weaks. reflexivity.
Qed.

Lemma In_ids_W2 e : In e (ids_e W2) <-> In e (ids_e (weaks s)) /\ ReachE s e.
Proof. rewrite ids_W2, filter_In, Hme. tauto. Qed.

Lemma In_W2 c : In c W2 -> exists x, In x (weaks s) /\ ReachE s (e_id x) /\ e_id c = e_id x /\ e_rc c = e_rc x - cnt (e_id x) DE /\ e_data c = (if badf x then None else e_data x).
Proof.
  unfold W2. intro H. apply filter_In in H. destruct H as [H Hm]. apply In_Wf in H.
  destruct H as (x & Hx & E1 & E2 & E3). exists x. split; [exact Hx|]. split; [apply Hme; rewrite <- E1; exact Hm|auto].
Qed.

Lemma kids_S2 : flat_map s_kids S2 = flat_map s_kids (filter mk (strongs s)).
Proof. rewrite S2_eq. apply kids_fin_strongs. Qed.

Lemma ephs_S2 : flat_map s_ephs S2 = flat_map s_ephs (filter mk (strongs s)).
Proof. rewrite S2_eq. apply ephs_fin_strongs. Qed.

Lemma vals_W2_gen : forall l, incl l (weaks s) ->
  flat_map eph_value (filter (fun e => memb (e_id e) me) (fin_weaks l DE (ids_e pend))) =
  flat_map eph_value (filter (fun x => negb (badf x)) l).
Proof.
  induction l as [|x t IH]; intro Hi; [reflexivity|].
  assert (Hx : In x (weaks s)) by (apply Hi; left; reflexivity).
  assert (Ht : incl t (weaks s)) by (intros y Hy; apply Hi; right; exact Hy).
  unfold fin_weaks. cbn [map filter]. fold (fin_weaks t DE (ids_e pend)). cbv zeta.
  rewrite (pend_ids x Hx). destruct (badf x) eqn:Hb; cbn [negb].
  - change (e_id (set_data None (set_erc (e_rc x - cnt (e_id x) DE) x))) with (e_id x).
    destruct (memb (e_id x) me); [cbn [flat_map eph_value e_data set_data app]|]; apply IH; exact Ht.
  - change (e_id (set_erc (e_rc x - cnt (e_id x) DE) x)) with (e_id x).
    destruct (notbad_facts x Hb) as [Hm _]. rewrite Hm. cbn [flat_map].
    change (eph_value (set_erc (e_rc x - cnt (e_id x) DE) x)) with (eph_value x). rewrite IH by exact Ht. reflexivity.
Qed.

Lemma vals_W2 : flat_map eph_value W2 = flat_map eph_value (filter (fun x => negb (badf x)) (weaks s)).
Proof. unfold W2, Wf. apply vals_W2_gen. apply incl_refl. Qed.

(* the state after the sweep (before the weak-map registry is cleaned) *)
Definition s2 : state := with_heap S2 W2 (bump_colls s).

Lemma Inv_s2 : Inv s2.
Proof.
  constructor; unfold s2; cbn [strongs weaks wmaps ext_s ext_e next_s next_e with_heap bump_colls].
  - rewrite ids_S2. apply NoDup_filter. apply (inv_nodup_s _ I).
  - rewrite ids_W2. apply NoDup_filter. apply (inv_nodup_e _ I).
  - intros n Hn. apply In_ids_S2 in Hn. apply (inv_fresh_s _ I). tauto.
  - intros e He. apply In_ids_W2 in He. apply (inv_fresh_e _ I). tauto.
  - intros n Hn. apply In_ids_S2. split; [apply (inv_ext_s _ I); exact Hn|apply R_ext; exact Hn].
  - intros c n Hc Hn. apply In_S2 in Hc. destruct Hc as (b & Hb & Hr & ->). cbn [s_kids set_rc] in Hn.
    apply In_ids_S2. split; [apply (inv_kids _ I b n Hb Hn)|apply (reach_kid b n Hb Hr Hn)].
  - intros c k v Hc Hd. apply In_W2 in Hc. destruct Hc as (x & Hx & Hr & E1 & _ & E3).
    rewrite Hd in E3. destruct (badf x) eqn:Hbad; [discriminate|].
    destruct (notbad_facts x Hbad) as [_ [Hn|(k' & v' & Hd' & Hk')]]; [congruence|].
    assert (k' = k) by congruence. subst k'.
    apply In_ids_S2. split; [apply (inv_key _ I x k v Hx); congruence|apply Hms; exact Hk'].
  - intros c k v Hc Hd. apply In_W2 in Hc. destruct Hc as (x & Hx & Hr & E1 & _ & E3).
    rewrite Hd in E3. destruct (badf x) eqn:Hbad; [discriminate|].
    destruct (notbad_facts x Hbad) as [_ [Hn|(k' & v' & Hd' & Hk')]]; [congruence|].
    assert (k' = k) by congruence. subst k'.
    apply In_ids_S2. split; [apply (inv_val _ I x k v Hx); congruence|].
    apply (reach_val x k v Hx Hr); [congruence|apply Hms; exact Hk'].
  - intros e He. apply In_ids_W2. split; [apply (inv_ext_e _ I); exact He|apply RE_ext; exact He].
  - intros c e Hc He. apply In_S2 in Hc. destruct Hc as (b & Hb & Hr & ->). cbn [s_ephs set_rc] in He.
    apply In_ids_W2. split; [apply (inv_ephs _ I b e Hb He)|apply (reach_eph b e Hb Hr He)].
  - intros w Hw. apply In_ids_W2. split; [apply (inv_wm _ I); exact Hw|apply RE_wm; exact Hw].
  - apply (inv_wm_nodup _ I).
  - intros c Hc. apply In_S2 in Hc. destruct Hc as (b & Hb & Hr & ->). cbn [s_id s_rc set_rc].
    unfold inner_s. rewrite cnt_app, kids_S2, vals_W2.
    rewrite (inv_rc_s _ I b Hb). rewrite cnt_inner_split. lia.
  - intros c Hc. apply In_W2 in Hc. destruct Hc as (x & Hx & Hr & E1 & E2 & _).
    rewrite E1, E2. unfold inner_e. rewrite ephs_S2.
    rewrite (inv_rc_e _ I x Hx). unfold inner_e. rewrite cnt_ephs_split. lia.
Qed.

End Collect.

(* ---------------------------------------------------------------------------------------------- *)
(* the weak-map registry pass after the sweep (weak_maps.retain): every step keeps the invariant *)

Lemma ids_upd_s n f Sb : (forall b, s_id (f b) = s_id b) -> ids_s (upd_s n f Sb) = ids_s Sb.
Proof.
  intro Hf. unfold ids_s, upd_s. rewrite map_map. apply map_ext. intro b.
  destruct (N.eqb (s_id b) n); [apply Hf|reflexivity].
Qed.

Lemma In_upd_s c n f Sb : In c (upd_s n f Sb) -> exists b, In b Sb /\ (c = b \/ (s_id b = n /\ c = f b)).
Proof.
  unfold upd_s. intro H. apply in_map_iff in H. destruct H as [b [E Hb]]. exists b. split; [exact Hb|].
  destruct (N.eqb_spec (s_id b) n); [right; split; [assumption|symmetry; exact E]|left; symmetry; exact E].
Qed.

Lemma kids_upd_ephs n l Sb : flat_map s_kids (upd_s n (set_ephs l) Sb) = flat_map s_kids Sb.
Proof.
  unfold upd_s. induction Sb as [|b t IH]; [reflexivity|]. cbn [map flat_map]. rewrite IH.
  destruct (N.eqb (s_id b) n); reflexivity.
Qed.

Lemma cnt_ephs_upd e m l : forall Sb b, NoDup (ids_s Sb) -> find_s m Sb = Some b ->
  cnt e (flat_map s_ephs (upd_s m (set_ephs l) Sb)) + cnt e (s_ephs b) = cnt e (flat_map s_ephs Sb) + cnt e l.
Proof.
  induction Sb as [|c t IH]; intros b Hnd Hf; [discriminate|].
  unfold ids_s in Hnd. cbn [map] in Hnd. inversion Hnd as [|? ? Hni Hnd']; subst.
  unfold find_s in Hf. cbn [find] in Hf. unfold upd_s. cbn [map flat_map]. fold (upd_s m (set_ephs l) t).
  rewrite !cnt_app. destruct (N.eqb_spec (s_id c) m) as [E|E].
  - inversion Hf; subst c. rewrite upd_s_absent by (rewrite <- E; exact Hni). cbn [s_ephs set_ephs]. lia.
  - pose proof (IH b Hnd' Hf). lia.
Qed.

Lemma cnt_filter_split (p : id -> bool) e l :
  cnt e l = cnt e (filter p l) + cnt e (filter (fun x => negb (p x)) l).
Proof.
  induction l as [|x t IH]; [reflexivity|]. cbn [filter cnt]. destruct (p x); cbn [negb cnt]; lia.
Qed.

Lemma cnt_le_flat_map_ephs e : forall Sb b, In b Sb -> cnt e (s_ephs b) <= cnt e (flat_map s_ephs Sb).
Proof.
  induction Sb as [|c t IH]; intros b Hb; [destruct Hb|]. cbn [flat_map]. rewrite cnt_app.
  destruct Hb as [->|Hb]; [lia|]. pose proof (IH b Hb). lia.
Qed.

Lemma NoDup_remove1 n l : NoDup l -> NoDup (remove1 n l).
Proof.
  induction 1 as [|a l Hn Hd IH]; [constructor|]. cbn [remove1]. destruct (N.eqb n a); [exact Hd|].
  constructor; [|exact IH]. intro H. apply In_remove1 in H. contradiction.
Qed.

Lemma In_remove1_other n m l : In n l -> n <> m -> In n (remove1 m l).
Proof.
  induction l as [|x t IH]; [tauto|]. cbn [remove1 In]. intros [H|H] Hn.
  - subst x. destruct (N.eqb_spec m n); [congruence|]. left. reflexivity.
  - destruct (N.eqb m x); [exact H|]. right. apply IH; assumption.
Qed.

(* what the registry pass may change: ref counts of ephemeron boxes, entry lists of strong boxes
   (entries whose ephemeron has lost its data are removed), and the registry itself *)
Record wm_frame (s s' : state) : Prop := mkWmFrame {
  wf_ext_s : ext_s s' = ext_s s;
  wf_ext_e : ext_e s' = ext_e s;
  wf_next_s : next_s s' = next_s s;
  wf_next_e : next_e s' = next_e s;
  wf_colls : colls s' = colls s;
  wf_ids_s : ids_s (strongs s') = ids_s (strongs s);
  wf_ids_e : ids_e (weaks s') = ids_e (weaks s);
  wf_wmaps : incl (wmaps s') (wmaps s);
  wf_box : forall n b', find_s n (strongs s') = Some b' -> exists b, find_s n (strongs s) = Some b /\
             s_kids b' = s_kids b /\ s_rc b' = s_rc b /\ s_fin b' = s_fin b /\ s_map b' = s_map b /\
             (s_ephs b' = s_ephs b \/ s_ephs b' = filter (has_data (weaks s)) (s_ephs b));
  wf_data : forall e x', find_e e (weaks s') = Some x' ->
             exists x, find_e e (weaks s) = Some x /\ e_data x' = e_data x
}.

Lemma wm_frame_refl s : wm_frame s s.
Proof.
  constructor; try reflexivity; try apply incl_refl.
  - intros n b' H. exists b'. repeat split; try assumption. left. reflexivity.
  - intros e x' H. exists x'. split; [assumption|reflexivity].
Qed.

Lemma has_data_frame s s' : wm_frame s s' -> forall e, has_data (weaks s') e = has_data (weaks s) e.
Proof.
  intros F e. unfold has_data. destruct (find_e e (weaks s')) as [x'|] eqn:E'.
  - destruct (wf_data _ _ F e x' E') as [x [E Hd]]. rewrite E, Hd. reflexivity.
  - apply find_e_None in E'. rewrite (wf_ids_e _ _ F) in E'. apply find_e_None in E'. rewrite E'. reflexivity.
Qed.

Lemma filter_filter_same {A} (p : A -> bool) l : filter p (filter p l) = filter p l.
Proof.
  induction l as [|a t IH]; [reflexivity|]. cbn [filter]. destruct (p a) eqn:E; [|exact IH].
  cbn [filter]. rewrite E, IH. reflexivity.
Qed.

Lemma wm_frame_trans s1 s2 s3 : wm_frame s1 s2 -> wm_frame s2 s3 -> wm_frame s1 s3.
Proof.
  intros F G. constructor.
  - rewrite (wf_ext_s _ _ G). apply (wf_ext_s _ _ F).
  - rewrite (wf_ext_e _ _ G). apply (wf_ext_e _ _ F).
  - rewrite (wf_next_s _ _ G). apply (wf_next_s _ _ F).
  - rewrite (wf_next_e _ _ G). apply (wf_next_e _ _ F).
  - rewrite (wf_colls _ _ G). apply (wf_colls _ _ F).
  - rewrite (wf_ids_s _ _ G). apply (wf_ids_s _ _ F).
  - rewrite (wf_ids_e _ _ G). apply (wf_ids_e _ _ F).
  - intros w Hw. apply (wf_wmaps _ _ F). apply (wf_wmaps _ _ G). exact Hw.
  - intros n b3 H3. destruct (wf_box _ _ G n b3 H3) as (b2 & H2 & K2 & R2 & F2 & M2 & E2).
    destruct (wf_box _ _ F n b2 H2) as (b1 & H1 & K1 & R1 & F1 & M1 & E1).
    exists b1. split; [exact H1|]. repeat split; try congruence.
    assert (HD : filter (has_data (weaks s2)) (s_ephs b2) = filter (has_data (weaks s1)) (s_ephs b2)).
    { apply filter_ext. intro e. apply (has_data_frame _ _ F). }
    destruct E2 as [E2|E2]; destruct E1 as [E1|E1].
    + left. congruence.
    + right. congruence.
    + right. rewrite E2, HD, E1. reflexivity.
    + right. rewrite E2, HD, E1. apply filter_filter_same.
  - intros e x3 H3. destruct (wf_data _ _ G e x3 H3) as (x2 & H2 & D2).
    destruct (wf_data _ _ F e x2 H2) as (x1 & H1 & D1). exists x1. split; [exact H1|congruence].
Qed.

Lemma dec_e_list L s :
  NoDup (ids_e (weaks s)) -> (forall n, In n L -> In n (ids_e (weaks s))) ->
  (forall x, In x (weaks s) -> cnt (e_id x) L <= e_rc x) ->
  fold_left (fun s e => dec_e e s) L s = with_heap (strongs s) (fin_weaks0 (weaks s) L) s.
Proof. intros. rewrite <- (with_heap_id s) at 1. apply dec_e_fold; assumption. Qed.

Lemma find_e_fin_weaks0_data e W L x' : find_e e (fin_weaks0 W L) = Some x' ->
  exists x, find_e e W = Some x /\ e_data x' = e_data x.
Proof.
  rewrite find_e_fin_weaks0. destruct (find_e e W) as [x|]; [|discriminate]. intro H. inversion H; subst x'.
  exists x. split; reflexivity.
Qed.

(* dropping the WeakMapBox of a dead map: its WeakGc handle goes away *)
Lemma drop_registry_inv s w x :
  Inv s -> poisoned s = false -> In w (wmaps s) -> find_e w (weaks s) = Some x ->
  let s' := set_wmaps (remove1 w (wmaps s)) (dec_e w s) in
  Inv s' /\ poisoned s' = false /\ wm_frame s s' /\
  (forall w', In w' (wmaps s) -> w' <> w -> In w' (wmaps s')).
Proof.
  intros I Hp Hw Hf s'.
  assert (E : dec_e w s = with_heap (strongs s) (fin_weaks0 (weaks s) [w]) s).
  { apply (dec_e_list [w] s).
    - apply (inv_nodup_e _ I).
    - intros n [<-|[]]. apply (inv_wm _ I). exact Hw.
    - intros y Hy. rewrite (inv_rc_e _ I y Hy). cbn [cnt]. destruct (N.eqb_spec w (e_id y)) as [Ey|Ey]; [|lia].
      assert (0 < cnt (e_id y) (wmaps s)) by (apply cnt_pos_In; rewrite <- Ey; exact Hw). lia. }
  assert (Es : s' = mkSt (strongs s) (fin_weaks0 (weaks s) [w]) (remove1 w (wmaps s)) (ext_s s) (ext_e s)
                       (next_s s) (next_e s) (colls s) (poisoned s)).
  { unfold s'. rewrite E. reflexivity. }
  rewrite Es. split; [|split; [exact Hp|split]].
  - constructor; cbn [strongs weaks wmaps ext_s ext_e next_s next_e].
    + apply (inv_nodup_s _ I).
    + rewrite ids_fin_weaks0. apply (inv_nodup_e _ I).
    + apply (inv_fresh_s _ I).
    + rewrite ids_fin_weaks0. apply (inv_fresh_e _ I).
    + apply (inv_ext_s _ I).
    + apply (inv_kids _ I).
    + intros c k v Hc Hd. apply In_fin_weaks0 in Hc. destruct Hc as [y [Hy ->]]. apply (inv_key _ I y k v Hy Hd).
    + intros c k v Hc Hd. apply In_fin_weaks0 in Hc. destruct Hc as [y [Hy ->]]. apply (inv_val _ I y k v Hy Hd).
    + rewrite ids_fin_weaks0. apply (inv_ext_e _ I).
    + rewrite ids_fin_weaks0. apply (inv_ephs _ I).
    + rewrite ids_fin_weaks0. intros w' Hw'. apply (inv_wm _ I). apply In_remove1 in Hw'. exact Hw'.
    + apply NoDup_remove1. apply (inv_wm_nodup _ I).
    + intros b Hb. rewrite (inv_rc_s _ I b Hb). unfold inner_s. rewrite !cnt_app. f_equal. f_equal.
      unfold fin_weaks0. clear. induction (weaks s) as [|y t IH]; [reflexivity|]. cbn [map flat_map]. rewrite !cnt_app, IH. reflexivity.
    + intros c Hc. apply In_fin_weaks0 in Hc. destruct Hc as [y [Hy ->]]. cbn [e_id e_rc set_erc].
      rewrite (inv_rc_e _ I y Hy). cbn [cnt]. destruct (N.eqb_spec w (e_id y)) as [Ey|Ey].
      * rewrite <- Ey. rewrite (cnt_remove1_in w (wmaps s) Hw).
        assert (0 < cnt w (wmaps s)) by (apply cnt_pos_In; exact Hw). lia.
      * rewrite (cnt_remove1_other (e_id y) w (wmaps s)) by congruence. lia.
  - constructor; cbn [strongs weaks wmaps ext_s ext_e next_s next_e colls]; try reflexivity.
    + apply ids_fin_weaks0.
    + intros w' Hw'. apply In_remove1 in Hw'. exact Hw'.
    + intros n b' H. exists b'. repeat split; try assumption. left. reflexivity.
    + intros e x' H. apply find_e_fin_weaks0_data in H. exact H.
  - cbn [wmaps]. intros w' Hw' Hn. apply In_remove1_other; assumption.
Qed.

Lemma vals_fin_weaks0 W L : flat_map eph_value (fin_weaks0 W L) = flat_map eph_value W.
Proof.
  unfold fin_weaks0. induction W as [|y t IH]; [reflexivity|]. cbn [map flat_map]. rewrite IH. reflexivity.
Qed.

Lemma find_s_upd_s n m f Sb : (forall b, s_id (f b) = s_id b) ->
  find_s n (upd_s m f Sb) =
  match find_s n Sb with Some b => Some (if N.eqb (s_id b) m then f b else b) | None => None end.
Proof.
  intro Hf. unfold find_s, upd_s. induction Sb as [|c t IH]; [reflexivity|]. cbn [map find].
  assert (E : s_id (if N.eqb (s_id c) m then f c else c) = s_id c) by (destruct (N.eqb (s_id c) m); [apply Hf|reflexivity]).
  rewrite E. destruct (N.eqb (s_id c) n); [reflexivity|exact IH].
Qed.

(* clear_dead_entries of a live weak map: the entries whose ephemeron lost its data are dropped *)
Lemma clear_entries_inv s m :
  Inv s -> poisoned s = false ->
  let s' := clear_entries m s in
  Inv s' /\ poisoned s' = false /\ wm_frame s s' /\ wmaps s' = wmaps s.
Proof.
  intros I Hp. unfold clear_entries. destruct (find_s m (strongs s)) as [b|] eqn:Hf.
  2:{ cbv zeta. split; [exact I|]. split; [exact Hp|]. split; [apply wm_frame_refl|reflexivity]. }
  cbv zeta.
  set (hd := fun e => has_data (weaks s) e).
  set (gone := filter (fun e => negb (hd e)) (s_ephs b)).
  set (keep := filter hd (s_ephs b)).
  set (Sb1 := upd_s m (set_ephs keep) (strongs s)).
  destruct (find_s_In _ _ _ Hf) as [Hb Hbid].
  assert (Hsplit : forall e, cnt e (s_ephs b) = cnt e keep + cnt e gone) by (intro e; apply (cnt_filter_split hd)).
  assert (Hupd : forall e, cnt e (flat_map s_ephs Sb1) + cnt e gone = cnt e (flat_map s_ephs (strongs s))).
  { intro e. pose proof (cnt_ephs_upd e m keep (strongs s) b (inv_nodup_s _ I) Hf). fold Sb1 in H.
    pose proof (Hsplit e). lia. }
  assert (E : fold_left (fun s0 e => dec_e e s0) gone (set_strongs Sb1 s) =
              with_heap Sb1 (fin_weaks0 (weaks s) gone) s).
  { change (set_strongs Sb1 s) with (with_heap Sb1 (weaks s) s). apply dec_e_fold.
    - apply (inv_nodup_e _ I).
    - intros e He. unfold gone in He. apply filter_In in He. apply (inv_ephs _ I b e Hb). tauto.
    - intros y Hy. rewrite (inv_rc_e _ I y Hy). unfold inner_e. rewrite <- (Hupd (e_id y)). lia. }
  fold hd. fold gone. fold keep. fold Sb1. rewrite E.
  assert (Hids : ids_s Sb1 = ids_s (strongs s)) by (apply ids_upd_s; intro c; reflexivity).
  split; [|split; [exact Hp|split; [|reflexivity]]].
  - constructor; cbn [strongs weaks wmaps ext_s ext_e next_s next_e with_heap].
    + rewrite Hids. apply (inv_nodup_s _ I).
    + rewrite ids_fin_weaks0. apply (inv_nodup_e _ I).
    + rewrite Hids. apply (inv_fresh_s _ I).
    + rewrite ids_fin_weaks0. apply (inv_fresh_e _ I).
    + rewrite Hids. apply (inv_ext_s _ I).
    + rewrite Hids. intros c n Hc Hn. apply In_upd_s in Hc. destruct Hc as [b0 [Hb0 [->|[_ ->]]]];
        [|cbn [s_kids set_ephs] in Hn]; apply (inv_kids _ I b0 n Hb0 Hn).
    + rewrite Hids. intros c k v Hc Hd. apply In_fin_weaks0 in Hc. destruct Hc as [y [Hy ->]]. apply (inv_key _ I y k v Hy Hd).
    + rewrite Hids. intros c k v Hc Hd. apply In_fin_weaks0 in Hc. destruct Hc as [y [Hy ->]]. apply (inv_val _ I y k v Hy Hd).
    + rewrite ids_fin_weaks0. apply (inv_ext_e _ I).
    + rewrite ids_fin_weaks0. intros c e Hc He. apply In_upd_s in Hc. destruct Hc as [b0 [Hb0 [->|[Hid ->]]]].
      * apply (inv_ephs _ I b0 e Hb0 He).
      * cbn [s_ephs set_ephs] in He. unfold keep in He. apply filter_In in He. apply (inv_ephs _ I b e Hb). tauto.
    + rewrite ids_fin_weaks0. apply (inv_wm _ I).
    + apply (inv_wm_nodup _ I).
    + intros c Hc. apply In_upd_s in Hc.
      assert (exists b0, In b0 (strongs s) /\ s_id c = s_id b0 /\ s_rc c = s_rc b0) as (b0 & Hb0 & E1 & E2).
      { destruct Hc as [b0 [Hb0 [->|[_ ->]]]]; exists b0; repeat split; assumption. }
      rewrite E1, E2. rewrite (inv_rc_s _ I b0 Hb0). unfold inner_s. unfold Sb1. rewrite kids_upd_ephs, vals_fin_weaks0. reflexivity.
    + intros c Hc. apply In_fin_weaks0 in Hc. destruct Hc as [y [Hy ->]]. cbn [e_id e_rc set_erc].
      rewrite (inv_rc_e _ I y Hy). unfold inner_e. rewrite <- (Hupd (e_id y)). lia.
  - constructor; cbn [strongs weaks wmaps ext_s ext_e next_s next_e colls with_heap]; try reflexivity.
    + exact Hids.
    + apply ids_fin_weaks0.
    + apply incl_refl.
    + intros n b' H. unfold Sb1 in H. rewrite find_s_upd_s in H by (intro c; reflexivity).
      destruct (find_s n (strongs s)) as [b0|] eqn:F0; [|discriminate]. exists b0. split; [reflexivity|].
      inversion H; subst b'. destruct (N.eqb_spec (s_id b0) m) as [Em|Em].
      * cbn [s_kids s_rc s_fin s_map s_ephs set_ephs]. repeat split. right.
        destruct (find_s_In _ _ _ F0) as [_ Hn]. assert (n = m) by congruence. subst n.
        assert (b0 = b) by congruence. subst b0. reflexivity.
      * repeat split. left. reflexivity.
    + intros e x' H. apply find_e_fin_weaks0_data in H. exact H.
Qed.

Lemma wm_one_spec s w :
  Inv s -> poisoned s = false -> In w (wmaps s) ->
  let s' := wm_one s w in
  Inv s' /\ poisoned s' = false /\ wm_frame s s' /\
  (forall w', In w' (wmaps s) -> w' <> w -> In w' (wmaps s')).
Proof.
  intros I Hp Hw. unfold wm_one.
  destruct (find_e w (weaks s)) as [x|] eqn:Hf.
  2:{ exfalso. apply find_e_None in Hf. apply Hf. apply (inv_wm _ I). exact Hw. }
  destruct (e_data x) as [[m v]|] eqn:Hd.
  - cbv zeta. destruct (clear_entries_inv s m I Hp) as (A & B & C & D).
    split; [exact A|]. split; [exact B|]. split; [exact C|]. intros w' Hw' _. rewrite D. exact Hw'.
  - apply (drop_registry_inv s w x I Hp Hw Hf).
Qed.

Lemma wm_fold_spec : forall l s,
  Inv s -> poisoned s = false -> NoDup l -> incl l (wmaps s) ->
  let s' := fold_left wm_one l s in
  Inv s' /\ poisoned s' = false /\ wm_frame s s'.
Proof.
  induction l as [|w l IH]; intros s I Hp Hnd Hi.
  - cbn [fold_left]. split; [exact I|]. split; [exact Hp|apply wm_frame_refl].
  - cbn [fold_left]. inversion Hnd as [|? ? Hni Hnd']; subst.
    destruct (wm_one_spec s w I Hp (Hi w (or_introl eq_refl))) as (A & B & C & D).
    destruct (IH (wm_one s w) A B Hnd') as (A' & B' & C').
    + intros w' Hw'. apply D; [apply Hi; right; exact Hw'|]. intro E. subst w'. contradiction.
    + split; [exact A'|]. split; [exact B'|]. eapply wm_frame_trans; eassumption.
Qed.

(* a state that satisfies the invariant has no dangling handle *)
Lemma Inv_not_dangling s : Inv s -> dangling s = false.
Proof.
  intro I. unfold dangling. apply orb_false_iff. split; apply negb_false_iff; apply forallb_forall; intros n Hn; apply memb_In.
  - apply in_app_or in Hn. destruct Hn as [Hn|Hn]; [apply (inv_ext_s _ I); exact Hn|].
    apply in_app_or in Hn. destruct Hn as [Hn|Hn].
    + apply in_flat_map in Hn. destruct Hn as [b [Hb Hk]]. apply (inv_kids _ I b n Hb Hk).
    + apply in_flat_map in Hn. destruct Hn as [x [Hx Hk]]. destruct (e_data x) as [[k v]|] eqn:Hd; [|destruct Hk].
      destruct Hk as [<-|Hk]; [apply (inv_key _ I x k v Hx Hd)|].
      destruct v as [v|]; [|destruct Hk]. destruct Hk as [<-|[]]. apply (inv_val _ I x k v Hx Hd).
  - apply in_app_or in Hn. destruct Hn as [Hn|Hn]; [apply (inv_ext_e _ I); exact Hn|].
    apply in_app_or in Hn. destruct Hn as [Hn|Hn]; [|apply (inv_wm _ I); exact Hn].
    apply in_flat_map in Hn. destruct Hn as [b [Hb Hk]]. apply (inv_ephs _ I b n Hb Hk).
Qed.

(* ---------------------------------------------------------------------------------------------- *)
(* assembling Collector::collect *)

Lemma fin_weaks_nil W : fin_weaks W [] [] = W.
Proof.
  unfold fin_weaks. rewrite <- (map_id W) at 2. apply map_ext. intro x. cbv zeta.
  cbn [cnt memb existsb]. rewrite Nat.sub_0_r. apply set_erc_id.
Qed.

Lemma filter_none {A} (p : A -> bool) l : (forall x, In x l -> p x = false) -> filter p l = [].
Proof.
  induction l as [|a t IH]; intro H; [reflexivity|]. cbn [filter]. rewrite (H a (or_introl eq_refl)).
  apply IH. intros x Hx. apply H. right. exact Hx.
Qed.

Lemma filter_map_fin_strongs (p : sbox -> bool) Sb DK :
  (forall b r, p (set_rc r b) = p b) ->
  filter p (fin_strongs Sb DK) = fin_strongs (filter p Sb) DK.
Proof.
  intro Hp. unfold fin_strongs. induction Sb as [|b t IH]; [reflexivity|].
  cbn [map filter]. rewrite Hp. destruct (p b); cbn [map]; rewrite IH; reflexivity.
Qed.

Lemma dropped_nodes Sb0 (q : id -> bool) : NoDup (ids_s Sb0) -> forall l, incl l Sb0 ->
  ids_s (filter (fun b => negb (s_map b)) (filter (fun b => q (s_id b)) l)) =
  filter (is_node Sb0) (filter q (ids_s l)).
Proof.
  intros Hnd. induction l as [|b t IH]; intro Hi; [reflexivity|].
  assert (Hb : In b Sb0) by (apply Hi; left; reflexivity).
  assert (Ht : incl t Sb0) by (intros x Hx; apply Hi; right; exact Hx).
  unfold ids_s at 2. cbn [map filter]. fold (ids_s t). destruct (q (s_id b)); [|apply IH; exact Ht].
  cbn [filter]. unfold is_node at 1. rewrite (find_s_nodup _ _ Hnd Hb).
  destruct (negb (s_map b)); [unfold ids_s at 1; cbn [map]; fold (ids_s (filter (fun b0 => negb (s_map b0)) (filter (fun b0 => q (s_id b0)) t))); f_equal|]; apply IH; exact Ht.
Qed.

Definition gc_dead (s : state) (ms : list id) : list id :=
  filter (is_node (strongs s)) (filter (fun n => negb (memb n ms)) (ids_s (strongs s))).

Theorem collect_core_spec s s' g :
  Inv s -> poisoned s = false -> dead_no_res s -> collect_core s = (s', g) ->
  exists ms me,
    (forall n, memb n ms = true <-> Reach s n) /\
    (forall e, memb e me = true <-> ReachE s e) /\
    let dead := filter (fun n => negb (memb n ms)) (ids_s (strongs s)) in
    let pend := filter (fun x => negb (fst (eph_trace x ms me))) (weaks s) in
    s' = fold_left wm_one (wmaps s) (s2 s ms me dead pend) /\
    Inv s' /\ poisoned s' = false /\ wm_frame (s2 s ms me dead pend) s' /\
    g = mkGcOut (gc_dead s ms) (gc_dead s ms) [] [].
Proof.
  intros I Hp Hdnr Hc.
  pose proof (rootedS_ok_tab s I) as HrS. pose proof (rootedE_ok_tab s I) as HrE.
  unfold collect_core in Hc. cbv zeta in Hc.
  change (strongs (bump_colls s)) with (strongs s) in Hc.
  change (weaks (bump_colls s)) with (weaks s) in Hc.
  change (wmaps (bump_colls s)) with (wmaps s) in Hc.
  destruct (mark_heap (strongs s) (weaks s) (wmaps s) (nrc_tab_s (strongs s) (weaks s))
              (nrc_tab_e (strongs s) (weaks s)) [] []) as [[[ms me] dead] pend] eqn:Hm.
  destruct (mark_heap_exact s _ _ ms me dead pend I HrS HrE Hm) as (Hms & Hme & Hdead & Hpend).
  exists ms, me. split; [exact Hms|]. split; [exact Hme|]. cbv zeta. rewrite <- Hdead, <- Hpend.
  (* finalize + second mark *)
  assert (Hph : exists me2, (forall e, memb e me2 = memb e me) /\
     (match dead, pend with
      | [], [] => (bump_colls s, ms, me)
      | _, _ =>
          let '(ms0, me0, _, _) :=
            mark_heap (strongs (finalize dead pend (bump_colls s))) (weaks (finalize dead pend (bump_colls s)))
              (wmaps (finalize dead pend (bump_colls s))) (nrc_tab_s (strongs s) (weaks s))
              (nrc_tab_e (strongs s) (weaks s)) ms me in
          (finalize dead pend (bump_colls s), ms0, me0)
      end) = (with_heap (Sf s dead pend) (Wf s dead pend) (bump_colls s), ms, me2)).
  { pose proof (finalize_is s I Hdnr ms me dead pend Hms Hdead Hpend) as Hfin.
    assert (Hgen : exists me2, (forall e, memb e me2 = memb e me) /\
        (let '(ms0, me0, _, _) :=
            mark_heap (strongs (finalize dead pend (bump_colls s))) (weaks (finalize dead pend (bump_colls s)))
              (wmaps (finalize dead pend (bump_colls s))) (nrc_tab_s (strongs s) (weaks s))
              (nrc_tab_e (strongs s) (weaks s)) ms me in
          (finalize dead pend (bump_colls s), ms0, me0)) =
        (with_heap (Sf s dead pend) (Wf s dead pend) (bump_colls s), ms, me2)).
    { rewrite Hfin. cbn [strongs weaks wmaps with_heap bump_colls].
      destruct (mark_heap (Sf s dead pend) (Wf s dead pend) (wmaps s) (nrc_tab_s (strongs s) (weaks s))
                  (nrc_tab_e (strongs s) (weaks s)) ms me) as [[[ms0 me0] d0] p0] eqn:Hm2.
      destruct (second_mark s I ms me dead pend Hms Hme Hpend _ _ ms0 me0 d0 p0 HrS HrE Hm2) as [E1 E2].
      subst ms0. exists me0. split; [exact E2|reflexivity]. }
    destruct dead as [|d dead']; [destruct pend as [|p pend']|]; try exact Hgen.
    exists me. split; [reflexivity|].
    unfold Sf, Wf, DK, DE. cbn [flat_map app ids_e map]. rewrite fin_strongs_nil, fin_weaks_nil.
    reflexivity. }
  destruct Hph as [me2 [Hme2 Hph]]. rewrite Hph in Hc. clear Hph.
  cbn [strongs weaks wmaps ext_s with_heap bump_colls] in Hc.
  (* the sweep *)
  assert (HW2 : filter (fun e => memb (e_id e) me2) (Wf s dead pend) = W2 s me dead pend).
  { unfold W2. apply filter_ext. intro x. apply Hme2. }
  rewrite HW2 in Hc.
  change (set_weaks (W2 s me dead pend)
            (set_strongs (filter (fun b => memb (s_id b) ms) (Sf s dead pend))
               (with_heap (Sf s dead pend) (Wf s dead pend) (bump_colls s))))
    with (s2 s ms me dead pend) in Hc.
  change (wmaps (s2 s ms me dead pend)) with (wmaps s) in Hc.
  pose proof (Inv_s2 s I ms me dead pend Hms Hme Hdead Hpend) as I2.
  assert (Hp2 : poisoned (s2 s ms me dead pend) = false) by exact Hp.
  destruct (wm_fold_spec (wmaps s) (s2 s ms me dead pend) I2 Hp2 (inv_wm_nodup _ I) (incl_refl _)) as (I3 & Hp3 & F3).
  rewrite (Inv_not_dangling _ I3) in Hc. rewrite Nat.sub_diag in Hc. cbn [firstn] in Hc.
  inversion Hc; subst s' g; clear Hc.
  split; [reflexivity|]. split; [exact I3|]. split; [exact Hp3|]. split; [exact F3|].
  (* the log *)
  assert (Hdn : map s_id (filter (fun b => negb (s_map b)) (filter (fun b => negb (memb (s_id b) ms)) (Sf s dead pend)))
                = gc_dead s ms).
  { unfold Sf. rewrite (filter_fin_strongs (fun n => negb (memb n ms))).
    rewrite filter_map_fin_strongs by (intros b r; reflexivity).
    change (map s_id ?l) with (ids_s l). rewrite ids_fin_strongs.
    apply (dropped_nodes (strongs s) (fun n => negb (memb n ms)) (inv_nodup_s _ I)). apply incl_refl. }
  rewrite Hdn. rewrite Hdead. fold (gc_dead s ms). f_equal.
  apply filter_none. intros n Hn. apply memb_false. intro He.
  unfold gc_dead in Hn. apply filter_In in Hn. destruct Hn as [Hn _]. apply filter_In in Hn. destruct Hn as [_ Hn].
  assert (memb n ms = true) by (apply Hms; apply R_ext; exact He). rewrite H in Hn. discriminate.
Qed.

(* ---------------------------------------------------------------------------------------------- *)
(* the property-level statement *)

Lemma is_node_In Sb n : is_node Sb n = true -> In n (ids_s Sb).
Proof.
  unfold is_node. destruct (find_s n Sb) as [b|] eqn:F; [|discriminate]. intros _.
  destruct (find_s_In _ _ _ F) as [Hb <-]. unfold ids_s. apply in_map. exact Hb.
Qed.

Lemma collect_cases s :
  (strongs s = [] /\ weaks s = [] /\ collect s = (s, mkGcOut [] [] [] [])) \/ collect s = collect_core s.
Proof.
  unfold collect. destruct (strongs s) as [|b0 Sb0]; [destruct (weaks s) as [|x0 W0]|]; auto.
Qed.

Theorem collect_exact_lemma s s' g :
  Inv s -> poisoned s = false -> dead_no_res s -> collect s = (s', g) ->
  Inv s' /\ poisoned s' = false /\
  (forall n, In n (ids_s (strongs s')) <-> In n (ids_s (strongs s)) /\ Reach s n) /\
  (forall e, In e (ids_e (weaks s')) <-> In e (ids_e (weaks s)) /\ ReachE s e) /\
  (forall n, In n (g_drop g) <-> is_node (strongs s) n = true /\ ~ Reach s n) /\
  g_fin g = g_drop g /\ NoDup (g_drop g) /\ g_res g = [] /\ g_held g = [] /\
  ext_s s' = ext_s s /\ ext_e s' = ext_e s /\ next_s s' = next_s s /\ next_e s' = next_e s.
Proof.
  intros I Hp Hd Hc. destruct (collect_cases s) as [(ES & EW & E)|E]; rewrite E in Hc.
  - (* empty heap: force_collect does nothing *)
    injection Hc as <- <-. cbn [g_drop g_fin g_res g_held]. rewrite ES, EW.
    split; [exact I|]. split; [exact Hp|].
    split. { intro n. cbn. tauto. }
    split. { intro e. cbn. tauto. }
    split. { intro n. unfold is_node. cbn. split; [tauto|]. intros [H _]. discriminate. }
    split; [reflexivity|]. split; [constructor|]. repeat split.
  - apply collect_core_spec in Hc; try assumption.
    destruct Hc as (ms & me & Hms & Hme & Hc). cbv zeta in Hc. destruct Hc as (Es & I' & Hp' & F & Eg).
    split; [exact I'|]. split; [exact Hp'|].
    split. { intro n. rewrite (wf_ids_s _ _ F). apply (In_ids_S2 s ms _ _ Hms). }
    split. { intro e. rewrite (wf_ids_e _ _ F). apply (In_ids_W2 s me _ _ Hme). }
    subst g. cbn [g_drop g_fin g_res g_held].
    split. { intro n. unfold gc_dead. rewrite !filter_In. split.
      - intros [[_ H1] H2]. split; [exact H2|]. intro R. apply Hms in R. rewrite R in H1. discriminate.
      - intros [H1 H2]. split; [|exact H1]. split; [apply is_node_In; exact H1|].
        destruct (memb n ms) eqn:E'; [|reflexivity]. exfalso. apply H2. apply Hms. exact E'. }
    split; [reflexivity|]. split. { unfold gc_dead. apply NoDup_filter. apply NoDup_filter. apply (inv_nodup_s _ I). }
    split; [reflexivity|]. split; [reflexivity|].
    rewrite (wf_ext_s _ _ F), (wf_ext_e _ _ F), (wf_next_s _ _ F), (wf_next_e _ _ F). repeat split.
Qed.


(* what a collection leaves untouched in the boxes that survive it *)
Theorem collect_frame_lemma s s' g :
  Inv s -> poisoned s = false -> dead_no_res s -> collect s = (s', g) ->
  (forall n b', find_s n (strongs s') = Some b' ->
     exists b, find_s n (strongs s) = Some b /\ s_kids b' = s_kids b /\ s_fin b' = s_fin b /\ s_map b' = s_map b /\
       (s_ephs b' = s_ephs b \/ s_ephs b' = filter (has_data (weaks s')) (s_ephs b))) /\
  (forall e x', find_e e (weaks s') = Some x' ->
     exists x, find_e e (weaks s) = Some x /\
       (e_data x' = e_data x \/ (e_data x' = None /\ exists k v, e_data x = Some (k, v) /\ ~ Reach s k))) /\
  incl (wmaps s') (wmaps s) /\ colls s' <= S (colls s).
Proof.
  intros I Hp Hd Hc. destruct (collect_cases s) as [(ES & EW & E)|E]; rewrite E in Hc.
  - injection Hc as <- <-. split; [|split; [|split; [apply incl_refl|lia]]].
    + intros n b' H. exists b'. repeat split; try assumption. left. reflexivity.
    + intros e x' H. exists x'. split; [assumption|left; reflexivity].
  - apply collect_core_spec in Hc; try assumption.
    destruct Hc as (ms & me & Hms & Hme & Hc). cbv zeta in Hc. destruct Hc as (Es & I' & Hp' & F & Eg).
    set (dead := filter (fun n => negb (memb n ms)) (ids_s (strongs s))) in *.
    set (pend := filter (fun x => negb (fst (eph_trace x ms me))) (weaks s)) in *.
    split; [|split; [|split]].
    + intros n b' H. destruct (wf_box _ _ F n b' H) as (c & Hc2 & K & _ & Fn & M & Ee).
      change (strongs (s2 s ms me dead pend)) with (S2 s ms dead pend) in Hc2.
      destruct (find_s_In _ _ _ Hc2) as [Hin Hid]. apply (In_S2 s ms dead pend Hms) in Hin.
      destruct Hin as (b & Hb & _ & Ec). exists b. subst c. cbn [s_id s_kids s_fin s_map s_ephs set_rc] in *.
      split; [rewrite <- Hid; apply find_s_nodup; [apply (inv_nodup_s _ I)|exact Hb]|].
      repeat split; try assumption. destruct Ee as [Ee|Ee]; [left; exact Ee|right].
      rewrite Ee. apply filter_ext. intro e. symmetry. apply (has_data_frame _ _ F).
    + intros e x' H. destruct (wf_data _ _ F e x' H) as (c & Hc2 & D).
      change (weaks (s2 s ms me dead pend)) with (W2 s me dead pend) in Hc2.
      destruct (find_e_In _ _ _ Hc2) as [Hin Hid].
      apply (In_W2 s I ms me dead pend Hme eq_refl) in Hin. destruct Hin as (x & Hx & Hr & E1 & _ & E3).
      exists x. split; [rewrite <- Hid, E1; apply find_e_nodup; [apply (inv_nodup_e _ I)|exact Hx]|].
      rewrite D, E3. destruct (badf ms me x) eqn:Hb; [right|left; reflexivity]. split; [reflexivity|].
      destruct (bad_facts ms me x Hb) as [Hm|(k & v & Hdx & Hk)].
      * apply Hme in Hr. congruence.
      * exists k, v. split; [exact Hdx|]. intro R. apply Hms in R. congruence.
    + intros w Hw. apply (wf_wmaps _ _ F) in Hw. exact Hw.
    + rewrite (wf_colls _ _ F). cbn. lia.
Qed.

