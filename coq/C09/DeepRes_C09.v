(* C09 — when is resurrection by finalizers safe in the collector as it is?

   Collect_C09 proves that a collection is exact under `dead_no_res` (no unreachable box has a
   resurrecting finalizer); Witness_C09 shows that a finalizer that resurrects a DEAD target makes
   the collector free a held node.  This file closes the gap between the two:

   * collect_exact_live_res: a collection is exact and keeps the representation invariant whenever
     every handle cloned by a finalizer that runs points to a box that is reachable anyway
     (`res_targets_live`).  The cloned handles are exactly `g_res`, they are prepended to the root list.
   * safe_unless_dead_target_resurrected / safe_while_nothing_resurrected: histories with ARBITRARY
     finalizer kinds keep the invariant, never panic, and never drop a payload twice, as long as no
     collection resurrects a dead target.
   * dead_target_unsafe / live_res_iff_safe / first_dead_target_poisons: the converse for finalizers
     that clone at most once (Witness_C09 in general form): if a finalizer that runs clones a handle
     to an unreachable box, the box is swept although the root list holds it (a node is reported in
     g_held), the invariant is lost and the model is poisoned.  So for such finalizers
     `res_targets_live` is exactly the safety condition of a collection. *)
From Coq Require Import List Arith Bool PeanoNat NArith Lia.
From C09 Require Import GcModel Spec_C09 Mark_C09 Fin_C09 Step_C09 Collect_C09 Hist_C09.
Import ListNotations.

Definition res_targets_live (s : state) : Prop :=
  forall b k, In b (strongs s) -> ~ Reach s (s_id b) -> 0 < s_fin b -> In k (s_kids b) -> Reach s k.

Lemma dead_no_res_live s : dead_no_res s -> res_targets_live s.
Proof. intros H b k Hb Hr Hf _. rewrite (H b Hb Hr) in Hf. lia. Qed.

(* ---------------------------------------------------------------------------------------------- *)
(* 1. Collector::finalize with resurrecting finalizers, in equational form *)

(* ref counts after cloning the handles R *)
Definition inc_strongs (Sb : list sbox) (R : list id) : list sbox :=
  map (fun b => set_rc (s_rc b + cnt (s_id b) R) b) Sb.

Lemma ids_inc_strongs Sb R : ids_s (inc_strongs Sb R) = ids_s Sb.
Proof. unfold ids_s, inc_strongs. rewrite map_map. apply map_ext. intro b. reflexivity. Qed.

Lemma inc_strongs_nil Sb : inc_strongs Sb [] = Sb.
Proof.
  unfold inc_strongs. rewrite <- (map_id Sb) at 2. apply map_ext. intro b.
  cbn [cnt]. rewrite Nat.add_0_r. apply set_rc_id.
Qed.

Lemma In_inc_strongs c Sb R : In c (inc_strongs Sb R) ->
  exists b, In b Sb /\ c = set_rc (s_rc b + cnt (s_id b) R) b.
Proof. unfold inc_strongs. intro H. apply in_map_iff in H. destruct H as [b [E Hb]]. exists b. split; [exact Hb|symmetry; exact E]. Qed.

Lemma find_s_inc_strongs n Sb R :
  find_s n (inc_strongs Sb R) =
  match find_s n Sb with Some b => Some (set_rc (s_rc b + cnt (s_id b) R) b) | None => None end.
Proof.
  unfold find_s, inc_strongs. induction Sb as [|c t IH]; [reflexivity|].
  cbn [map find]. change (s_id (set_rc (s_rc c + cnt (s_id c) R) c)) with (s_id c).
  destruct (N.eqb (s_id c) n); [reflexivity|exact IH].
Qed.

Lemma kids_inc_strongs Sb R : flat_map s_kids (inc_strongs Sb R) = flat_map s_kids Sb.
Proof. unfold inc_strongs. induction Sb as [|b t IH]; [reflexivity|]. cbn [map flat_map]. rewrite IH. reflexivity. Qed.

Lemma ephs_inc_strongs Sb R : flat_map s_ephs (inc_strongs Sb R) = flat_map s_ephs Sb.
Proof. unfold inc_strongs. induction Sb as [|b t IH]; [reflexivity|]. cbn [map flat_map]. rewrite IH. reflexivity. Qed.

Lemma kids_at_inc_strongs Sb R n : kids_at (inc_strongs Sb R) n = kids_at Sb n.
Proof. unfold kids_at. rewrite find_s_inc_strongs. destruct (find_s n Sb); reflexivity. Qed.

Lemma ephs_at_inc_strongs Sb R n : ephs_at (inc_strongs Sb R) n = ephs_at Sb n.
Proof. unfold ephs_at. rewrite find_s_inc_strongs. destruct (find_s n Sb); reflexivity. Qed.

Lemma is_node_inc_strongs Sb R n : is_node (inc_strongs Sb R) n = is_node Sb n.
Proof. unfold is_node. rewrite find_s_inc_strongs. destruct (find_s n Sb); reflexivity. Qed.

(* the state in which the handles R have been cloned into the root list *)
Definition res_state (s : state) (R : list id) : state :=
  with_heap (inc_strongs (strongs s) R) (weaks s) (set_ext_s (R ++ ext_s s) s).

Lemma res_state_nil s : res_state s [] = s.
Proof. unfold res_state. rewrite inc_strongs_nil. destruct s; reflexivity. Qed.

(* one clone: Gc::clone = inc_ref_count, then the handle is pushed on the root list *)
Lemma gain_ext_res k Sb W s R D :
  (forall b, In b Sb -> cnt (s_id b) D <= s_rc b) ->
  gain_ext k (with_heap (fin_strongs (inc_strongs Sb R) D) W (set_ext_s (R ++ ext_s s) s)) =
  with_heap (fin_strongs (inc_strongs Sb (k :: R)) D) W (set_ext_s ((k :: R) ++ ext_s s) s).
Proof.
  intro Hb. unfold gain_ext, inc_s. cbn [strongs ext_s with_heap set_ext_s set_strongs].
  assert (E : upd_s k (fun b => set_rc (S (s_rc b)) b) (fin_strongs (inc_strongs Sb R) D) =
              fin_strongs (inc_strongs Sb (k :: R)) D).
  { unfold upd_s, fin_strongs, inc_strongs. rewrite !map_map. apply map_ext_in. intros b Hin.
    cbn [s_id s_rc set_rc cnt]. pose proof (Hb b Hin) as Hle.
    destruct (N.eqb_spec (s_id b) k) as [E|E].
    - subst k. rewrite N.eqb_refl. unfold set_rc. cbn [s_id s_rc s_kids s_ephs s_fin s_map]. f_equal. lia.
    - destruct (N.eqb_spec k (s_id b)) as [E'|_]; [congruence|]. reflexivity. }
  rewrite E. reflexivity.
Qed.

Lemma gain_fold_res : forall L Sb W s R D,
  (forall b, In b Sb -> cnt (s_id b) D <= s_rc b) ->
  fold_left (fun s k => gain_ext k s) L
    (with_heap (fin_strongs (inc_strongs Sb R) D) W (set_ext_s (R ++ ext_s s) s)) =
  with_heap (fin_strongs (inc_strongs Sb (rev L ++ R)) D) W (set_ext_s ((rev L ++ R) ++ ext_s s) s).
Proof.
  induction L as [|k L IH]; intros Sb W s R D Hb; [reflexivity|].
  cbn [fold_left rev]. rewrite gain_ext_res by exact Hb. rewrite IH by exact Hb.
  rewrite <- !app_assoc. reflexivity.
Qed.

(* f copies of l *)
Fixpoint rep (f : nat) (l : list id) : list id :=
  match f with O => [] | S k => rep k l ++ l end.

Lemma In_rep k f l : In k (rep f l) -> 0 < f /\ In k l.
Proof.
  induction f as [|f IH]; cbn [rep]; [intros []|]. intro H. apply in_app_or in H.
  destruct H as [H|H]; [apply IH in H; split; [lia|tauto]|split; [lia|exact H]].
Qed.

Lemma cnt_rev n l : cnt n (rev l) = cnt n l.
Proof. induction l as [|x t IH]; [reflexivity|]. cbn [rev]. rewrite cnt_app, IH. cbn [cnt]. lia. Qed.

Lemma cnt_rep n f l : cnt n (rep f l) = f * cnt n l.
Proof. induction f as [|f IH]; [reflexivity|]. cbn [rep]. rewrite cnt_app, IH. lia. Qed.

Lemma gain_iter_res : forall f L Sb W s R D,
  (forall b, In b Sb -> cnt (s_id b) D <= s_rc b) ->
  iter f (fun s => fold_left (fun s k => gain_ext k s) L s)
    (with_heap (fin_strongs (inc_strongs Sb R) D) W (set_ext_s (R ++ ext_s s) s)) =
  with_heap (fin_strongs (inc_strongs Sb (rep f (rev L) ++ R)) D) W
    (set_ext_s ((rep f (rev L) ++ R) ++ ext_s s) s).
Proof.
  induction f as [|f IH]; intros L Sb W s R D Hb; [reflexivity|].
  cbn [iter rep]. rewrite gain_fold_res by exact Hb. rewrite IH by exact Hb.
  rewrite <- !app_assoc. reflexivity.
Qed.

Definition fin_at (Sb : list sbox) (n : id) : nat :=
  match find_s n Sb with Some b => s_fin b | None => 0 end.

(* the handles cloned by the finalizers of the boxes `dead` (in root-list order: last clone first) *)
Fixpoint res_list (Sb : list sbox) (dead : list id) (R : list id) : list id :=
  match dead with
  | [] => R
  | n :: t => res_list Sb t (rep (fin_at Sb n) (rev (kids_at Sb n)) ++ R)
  end.

Lemma In_res_list Sb k : forall dead R, In k (res_list Sb dead R) ->
  In k R \/ exists n, In n dead /\ 0 < fin_at Sb n /\ In k (kids_at Sb n).
Proof.
  induction dead as [|n t IH]; intros R H; [left; exact H|]. cbn [res_list] in H.
  apply IH in H. destruct H as [H|(m & Hm & Hf & Hk)].
  - apply in_app_or in H. destruct H as [H|H]; [|left; exact H].
    apply In_rep in H. destruct H as [Hf Hk]. right. exists n. split; [left; reflexivity|].
    split; [exact Hf|]. apply in_rev. exact Hk.
  - right. exists m. split; [right; exact Hm|tauto].
Qed.

Lemma cnt_res_list Sb k : forall dead R,
  cnt k (res_list Sb dead R) =
  cnt k R + fold_right (fun n a => fin_at Sb n * cnt k (kids_at Sb n) + a) 0 dead.
Proof.
  induction dead as [|n t IH]; intro R; cbn [res_list fold_right]; [lia|].
  rewrite IH, cnt_app, cnt_rep, cnt_rev. lia.
Qed.

(* the loop over the dead strong boxes *)
Lemma fin_one_fold_res : forall dead Sb W s R0 DK0 DE0,
  NoDup (ids_s Sb) -> NoDup (ids_e W) ->
  (forall n, In n dead -> exists b, find_s n Sb = Some b) ->
  (forall b, In b Sb -> cnt (s_id b) (DK0 ++ flat_map (kids_at Sb) dead) <= s_rc b) ->
  (forall n, In n (flat_map (kids_at Sb) dead) -> In n (ids_s Sb)) ->
  (forall x, In x W -> cnt (e_id x) (DE0 ++ flat_map (ephs_at Sb) dead) <= e_rc x) ->
  (forall e, In e (flat_map (ephs_at Sb) dead) -> In e (ids_e W)) ->
  fold_left fin_one dead
    (with_heap (fin_strongs (inc_strongs Sb R0) DK0) (fin_weaks0 W DE0) (set_ext_s (R0 ++ ext_s s) s)) =
  with_heap (fin_strongs (inc_strongs Sb (res_list Sb dead R0)) (DK0 ++ flat_map (kids_at Sb) dead))
            (fin_weaks0 W (DE0 ++ flat_map (ephs_at Sb) dead))
            (set_ext_s (res_list Sb dead R0 ++ ext_s s) s).
Proof.
  induction dead as [|n dead IH]; intros Sb W s R0 DK0 DE0 HndS HndE Hfin HbS HexS HbE HexE.
  - cbn [fold_left flat_map res_list]. rewrite !app_nil_r. reflexivity.
  - cbn [fold_left flat_map res_list] in *.
    destruct (Hfin n (or_introl eq_refl)) as [b Hf].
    assert (Ek : kids_at Sb n = s_kids b) by (unfold kids_at; rewrite Hf; reflexivity).
    assert (Ee : ephs_at Sb n = s_ephs b) by (unfold ephs_at; rewrite Hf; reflexivity).
    assert (Ef : fin_at Sb n = s_fin b) by (unfold fin_at; rewrite Hf; reflexivity).
    rewrite Ek, Ee, Ef in *.
    set (R1 := rep (s_fin b) (rev (s_kids b)) ++ R0).
    assert (Hb0 : forall c, In c Sb -> cnt (s_id c) DK0 <= s_rc c).
    { intros c Hc. pose proof (HbS c Hc) as H0. rewrite !cnt_app in H0. lia. }
    assert (E1 : fin_one (with_heap (fin_strongs (inc_strongs Sb R0) DK0) (fin_weaks0 W DE0)
                            (set_ext_s (R0 ++ ext_s s) s)) n =
                 with_heap (fin_strongs (inc_strongs Sb R1) (DK0 ++ s_kids b)) (fin_weaks0 W (DE0 ++ s_ephs b))
                   (set_ext_s (R1 ++ ext_s s) s)).
    { unfold fin_one. cbn [strongs with_heap]. rewrite find_s_fin_strongs, find_s_inc_strongs, Hf.
      cbn [s_fin s_kids s_ephs set_rc].
      rewrite gain_iter_res by exact Hb0. fold R1.
      rewrite dec_s_fold.
      - rewrite fin_strongs_app. rewrite dec_e_fold.
        + rewrite fin_weaks0_app. reflexivity.
        + rewrite ids_fin_weaks0. exact HndE.
        + intros k Hk. rewrite ids_fin_weaks0. apply HexE. apply in_or_app. left. exact Hk.
        + intros c Hc. apply In_fin_weaks0 in Hc. destruct Hc as [c0 [Hc0 ->]].
          cbn [e_id e_rc set_erc]. pose proof (HbE c0 Hc0) as H0.
          rewrite !cnt_app in H0. lia.
      - rewrite ids_fin_strongs, ids_inc_strongs. exact HndS.
      - intros k Hk. rewrite ids_fin_strongs, ids_inc_strongs. apply HexS. apply in_or_app. left. exact Hk.
      - intros c Hc. apply In_fin_strongs in Hc. destruct Hc as [c1 [Hc1 ->]].
        apply In_inc_strongs in Hc1. destruct Hc1 as [c0 [Hc0 ->]].
        cbn [s_id s_rc set_rc]. pose proof (HbS c0 Hc0) as H0.
        rewrite !cnt_app in H0. lia. }
    rewrite E1. rewrite IH.
    + rewrite <- !app_assoc. reflexivity.
    + exact HndS.
    + exact HndE.
    + intros k Hk. apply Hfin. right. exact Hk.
    + intros c Hc. rewrite <- app_assoc. apply HbS. exact Hc.
    + intros k Hk. apply HexS. apply in_or_app. right. exact Hk.
    + intros c Hc. rewrite <- app_assoc. apply HbE. exact Hc.
    + intros k Hk. apply HexE. apply in_or_app. right. exact Hk.
Qed.

Theorem finalize_eq_res s dead pend :
  NoDup (ids_s (strongs s)) -> NoDup (ids_e (weaks s)) ->
  (forall n, In n dead -> exists b, find_s n (strongs s) = Some b) ->
  let DK := flat_map (kids_at (strongs s)) dead ++ flat_map eph_value pend in
  let DE := flat_map (ephs_at (strongs s)) dead in
  let RES := res_list (strongs s) dead [] in
  (forall b, In b (strongs s) -> cnt (s_id b) DK <= s_rc b) ->
  (forall n, In n DK -> In n (ids_s (strongs s))) ->
  (forall x, In x (weaks s) -> cnt (e_id x) DE <= e_rc x) ->
  (forall e, In e DE -> In e (ids_e (weaks s))) ->
  finalize dead pend s =
    with_heap (fin_strongs (inc_strongs (strongs s) RES) DK) (fin_weaks (weaks s) DE (ids_e pend))
      (set_ext_s (RES ++ ext_s s) s).
Proof.
  intros HndS HndE Hfin DK DE RES HbS HexS HbE HexE. unfold finalize.
  assert (E0 : s = with_heap (fin_strongs (inc_strongs (strongs s) []) []) (fin_weaks0 (weaks s) [])
                 (set_ext_s ([] ++ ext_s s) s)).
  { rewrite inc_strongs_nil, fin_strongs_nil, fin_weaks0_nil. destruct s; reflexivity. }
  rewrite E0 at 1.
  rewrite fin_one_fold_res; try assumption.
  - cbn [app]. fold RES. rewrite <- (clr_nil (fin_weaks0 (weaks s) (flat_map (ephs_at (strongs s)) dead))).
    rewrite clear_one_fold.
    + cbn [app]. rewrite clr_fin_weaks. reflexivity.
    + rewrite ids_inc_strongs. exact HndS.
    + intros c Hc. apply In_inc_strongs in Hc. destruct Hc as [c0 [Hc0 ->]]. cbn [s_id s_rc set_rc].
      pose proof (HbS c0 Hc0) as H0. fold DK. lia.
    + intros n Hn. rewrite ids_inc_strongs. apply HexS. unfold DK. apply in_or_app. right. exact Hn.
  - intros b Hb. cbn [app]. pose proof (HbS b Hb) as H0. unfold DK in H0. rewrite cnt_app in H0. lia.
  - intros n Hn. apply HexS. unfold DK. apply in_or_app. left. exact Hn.
Qed.
(* ---------------------------------------------------------------------------------------------- *)
(* 2. cloning handles to reachable boxes changes neither the invariant nor reachability *)

Lemma Inv_res_state s R : Inv s -> (forall k, In k R -> In k (ids_s (strongs s))) -> Inv (res_state s R).
Proof.
  intros I HR. constructor; unfold res_state;
    cbn [strongs weaks wmaps ext_s ext_e next_s next_e with_heap set_ext_s]; rewrite ?ids_inc_strongs.
  - apply (inv_nodup_s _ I).
  - apply (inv_nodup_e _ I).
  - apply (inv_fresh_s _ I).
  - apply (inv_fresh_e _ I).
  - intros n Hn. apply in_app_or in Hn. destruct Hn as [Hn|Hn]; [apply HR; exact Hn|apply (inv_ext_s _ I); exact Hn].
  - intros c n Hc Hn. apply In_inc_strongs in Hc. destruct Hc as [b [Hb ->]]. apply (inv_kids _ I b n Hb Hn).
  - apply (inv_key _ I).
  - apply (inv_val _ I).
  - apply (inv_ext_e _ I).
  - intros c e Hc He. apply In_inc_strongs in Hc. destruct Hc as [b [Hb ->]]. apply (inv_ephs _ I b e Hb He).
  - apply (inv_wm _ I).
  - apply (inv_wm_nodup _ I).
  - intros c Hc. apply In_inc_strongs in Hc. destruct Hc as [b [Hb ->]]. cbn [s_id s_rc set_rc].
    unfold inner_s. rewrite kids_inc_strongs. fold (inner_s (strongs s) (weaks s)).
    rewrite cnt_app, (inv_rc_s _ I b Hb). lia.
  - intros x Hx. unfold inner_e. rewrite ephs_inc_strongs. apply (inv_rc_e _ I x Hx).
Qed.

Lemma Reach_res_to s R : (forall k, In k R -> Reach s k) ->
  (forall n, Reach (res_state s R) n -> Reach s n) /\ (forall e, ReachE (res_state s R) e -> ReachE s e).
Proof.
  intro HR. apply (Reach_mutind (res_state s R) (fun n => Reach s n) (fun e => ReachE s e)).
  - intros n Hn. unfold res_state in Hn. cbn [ext_s with_heap set_ext_s] in Hn.
    apply in_app_or in Hn. destruct Hn as [Hn|Hn]; [apply HR; exact Hn|apply R_ext; exact Hn].
  - intros a b n _ Ha Hf Hn. unfold res_state in Hf. cbn [strongs with_heap] in Hf.
    rewrite find_s_inc_strongs in Hf. destruct (find_s a (strongs s)) as [b0|] eqn:F; [|discriminate].
    inversion Hf; subst b. cbn [s_kids set_rc] in Hn. eapply R_kid; eassumption.
  - intros e x k v _ He Hf Hd _ Hk. eapply R_val; eassumption.
  - intros e He. apply RE_ext. exact He.
  - intros e He. apply RE_wm. exact He.
  - intros a b e _ Ha Hf He. unfold res_state in Hf. cbn [strongs with_heap] in Hf.
    rewrite find_s_inc_strongs in Hf. destruct (find_s a (strongs s)) as [b0|] eqn:F; [|discriminate].
    inversion Hf; subst b. cbn [s_ephs set_rc] in He. eapply RE_sto; eassumption.
Qed.

Lemma Reach_res_from s R :
  (forall n, Reach s n -> Reach (res_state s R) n) /\ (forall e, ReachE s e -> ReachE (res_state s R) e).
Proof.
  apply (Reach_mutind s (fun n => Reach (res_state s R) n) (fun e => ReachE (res_state s R) e)).
  - intros n Hn. apply R_ext. unfold res_state. cbn [ext_s with_heap set_ext_s]. apply in_or_app. right. exact Hn.
  - intros a b n _ Ha Hf Hn. apply (R_kid _ a (set_rc (s_rc b + cnt (s_id b) R) b) n Ha); [|exact Hn].
    unfold res_state. cbn [strongs with_heap]. rewrite find_s_inc_strongs, Hf. reflexivity.
  - intros e x k v _ He Hf Hd _ Hk. eapply R_val; eassumption.
  - intros e He. apply RE_ext. exact He.
  - intros e He. apply RE_wm. exact He.
  - intros a b e _ Ha Hf He. apply (RE_sto _ a (set_rc (s_rc b + cnt (s_id b) R) b) e Ha); [|exact He].
    unfold res_state. cbn [strongs with_heap]. rewrite find_s_inc_strongs, Hf. reflexivity.
Qed.

Lemma Reach_res_iff s R : (forall k, In k R -> Reach s k) ->
  (forall n, Reach (res_state s R) n <-> Reach s n) /\ (forall e, ReachE (res_state s R) e <-> ReachE s e).
Proof.
  intro HR. destruct (Reach_res_to s R HR) as [A B]. destruct (Reach_res_from s R) as [C D].
  split; intro x; split; auto.
Qed.

(* the stale non-root counts (computed before finalization) still decide "held from outside" *)
Lemma rootedS_res s R : Inv s -> rootedS_ok (res_state s R) (nrc_tab_s (strongs s) (weaks s)).
Proof.
  intros I c Hc. unfold res_state in *. cbn [strongs ext_s with_heap set_ext_s] in *.
  apply In_inc_strongs in Hc. destruct Hc as [b [Hb ->]]. cbn [s_id s_rc set_rc].
  unfold rooted, nrc_tab_s.
  rewrite (lookup_map_s (fun b => nrc_of (s_rc b) (s_id b) (inner_s (strongs s) (weaks s))))
    by (try exact Hb; apply (inv_nodup_s _ I)).
  rewrite nrc_of_min. rewrite (inv_rc_s _ I b Hb).
  rewrite <- cnt_pos_In, cnt_app. rewrite Nat.ltb_lt. lia.
Qed.

Lemma firstn_app_len {A} (R X : list A) : firstn (length (R ++ X) - length X) (R ++ X) = R.
Proof.
  rewrite app_length. replace (length R + length X - length X) with (length R + 0) by lia.
  rewrite firstn_app_2. cbn [firstn]. apply app_nil_r.
Qed.

Lemma gc_dead_res s R ms : gc_dead (res_state s R) ms = gc_dead s ms.
Proof.
  unfold gc_dead, res_state. cbn [strongs with_heap]. rewrite ids_inc_strongs.
  apply filter_ext. intro n. apply is_node_inc_strongs.
Qed.

(* ---------------------------------------------------------------------------------------------- *)
(* 3. Collector::collect when every resurrected handle has a live target *)

Theorem collect_core_spec_res s s' g :
  Inv s -> poisoned s = false -> res_targets_live s -> collect_core s = (s', g) ->
  exists ms me,
    (forall n, memb n ms = true <-> Reach s n) /\
    (forall e, memb e me = true <-> ReachE s e) /\
    let dead := filter (fun n => negb (memb n ms)) (ids_s (strongs s)) in
    let pend := filter (fun x => negb (fst (eph_trace x ms me))) (weaks s) in
    let RES := res_list (strongs s) dead [] in
    let sr := res_state s RES in
    (forall k, In k RES -> Reach s k) /\
    Inv s' /\ poisoned s' = false /\ wm_frame (s2 sr ms me dead pend) s' /\
    g = mkGcOut (gc_dead s ms) (gc_dead s ms) RES [].
Proof.
  intros I Hp Hlive Hc.
  pose proof (rootedS_ok_tab s I) as HrS. pose proof (rootedE_ok_tab s I) as HrE.
  unfold collect_core in Hc. cbv zeta in Hc.
  change (strongs (bump_colls s)) with (strongs s) in Hc.
  change (weaks (bump_colls s)) with (weaks s) in Hc.
  change (wmaps (bump_colls s)) with (wmaps s) in Hc.
  change (ext_s (bump_colls s)) with (ext_s s) in Hc.
  destruct (mark_heap (strongs s) (weaks s) (wmaps s) (nrc_tab_s (strongs s) (weaks s))
              (nrc_tab_e (strongs s) (weaks s)) [] []) as [[[ms me] dead] pend] eqn:Hm.
  destruct (mark_heap_exact s _ _ ms me dead pend I HrS HrE Hm) as (Hms & Hme & Hdead & Hpend).
  exists ms, me. split; [exact Hms|]. split; [exact Hme|]. cbv zeta. rewrite <- Hdead, <- Hpend.
  remember (res_list (strongs s) dead []) as RES eqn:ERES.
  (* the cloned handles *)
  assert (HRin : forall k, In k RES -> exists b, In b (strongs s) /\ ~ Reach s (s_id b) /\ 0 < s_fin b /\ In k (s_kids b)).
  { intros k Hk. rewrite ERES in Hk. apply In_res_list in Hk. destruct Hk as [[]|(n & Hn & Hf & Hk)].
    destruct (dead_in s ms dead Hdead n Hn) as (b & F & Hb & Hid & Hm').
    exists b. unfold fin_at in Hf. rewrite F in Hf. unfold kids_at in Hk. rewrite F in Hk.
    split; [exact Hb|]. split; [|tauto]. rewrite Hid. intro Rr. apply Hms in Rr. congruence. }
  assert (HRlive : forall k, In k RES -> Reach s k).
  { intros k Hk. destruct (HRin k Hk) as (b & Hb & Hr & Hf & Hkk). exact (Hlive b k Hb Hr Hf Hkk). }
  assert (HRex : forall k, In k RES -> In k (ids_s (strongs s))).
  { intros k Hk. destruct (HRin k Hk) as (b & Hb & _ & _ & Hkk). exact (inv_kids _ I b k Hb Hkk). }
  split; [exact HRlive|].
  pose proof (Inv_res_state s RES I HRex) as Ir.
  destruct (Reach_res_iff s RES HRlive) as [HRe1 HRe2].
  pose proof (rootedS_res s RES I) as HrS_r.
  assert (Eext : ext_s (res_state s RES) = RES ++ ext_s s) by reflexivity.
  assert (Ewm : wmaps (res_state s RES) = wmaps s) by reflexivity.
  assert (Egd : gc_dead (res_state s RES) ms = gc_dead s ms) by apply gc_dead_res.
  assert (Eid : ids_s (strongs (res_state s RES)) = ids_s (strongs s)).
  { unfold res_state. cbn [strongs with_heap]. apply ids_inc_strongs. }
  assert (Ew : weaks (res_state s RES) = weaks s) by reflexivity.
  assert (EDK : DK (res_state s RES) dead pend = DK s dead pend).
  { unfold DK, res_state. cbn [strongs with_heap]. f_equal. apply flat_map_ext. intro n. apply kids_at_inc_strongs. }
  assert (EDE : DE (res_state s RES) dead = DE s dead).
  { unfold DE, res_state. cbn [strongs with_heap]. apply flat_map_ext. intro n. apply ephs_at_inc_strongs. }
  assert (Hfin : finalize dead pend (bump_colls s) =
                 with_heap (Sf (res_state s RES) dead pend) (Wf (res_state s RES) dead pend)
                   (bump_colls (res_state s RES))).
  { pose proof (finalize_eq_res (bump_colls s) dead pend (inv_nodup_s _ I) (inv_nodup_e _ I)) as X.
    cbv zeta in X. rewrite X.
    - unfold Sf, Wf. rewrite EDK, EDE. rewrite ERES. reflexivity.
    - intros n Hn. destruct (dead_in s ms dead Hdead n Hn) as (b & F & _). exists b. exact F.
    - exact (DK_bound s I ms me dead pend Hdead Hpend).
    - exact (DK_exists s I ms me dead pend Hdead Hpend).
    - exact (DE_bound s I ms dead Hdead).
    - exact (DE_exists s I ms dead Hdead). }
  remember (res_state s RES) as sr eqn:Esr.
  assert (Hms_r : forall n, memb n ms = true <-> Reach sr n) by (intro n; rewrite HRe1; apply Hms).
  assert (Hme_r : forall e, memb e me = true <-> ReachE sr e) by (intro e; rewrite HRe2; apply Hme).
  assert (Hdead_r : dead = filter (fun n => negb (memb n ms)) (ids_s (strongs sr))) by (rewrite Eid; exact Hdead).
  assert (Hpend_r : pend = filter (fun x => negb (fst (eph_trace x ms me))) (weaks sr)) by (rewrite Ew; exact Hpend).
  assert (HrE_r : rootedE_ok sr (nrc_tab_e (strongs s) (weaks s))).
  { rewrite Esr. exact HrE. }
  (* finalize + second mark *)
  assert (Hph : exists me2, (forall e, memb e me2 = memb e me) /\
     (match dead, pend with
      | [], [] => (bump_colls s, ms, me)
      | _, _ =>
          let '(ms0, me0, _, _) :=
            mark_heap (strongs (finalize dead pend (bump_colls s))) (weaks (finalize dead pend (bump_colls s)))
              (wmaps (finalize dead pend (bump_colls s))) (nrc_tab_s (strongs s) (weaks s))
              (nrc_tab_e (strongs s) (weaks s)) ms me in
          (finalize dead pend (bump_colls s), ms0, me0)
      end) = (with_heap (Sf sr dead pend) (Wf sr dead pend) (bump_colls sr), ms, me2)).
  { assert (Hgen : exists me2, (forall e, memb e me2 = memb e me) /\
        (let '(ms0, me0, _, _) :=
            mark_heap (strongs (finalize dead pend (bump_colls s))) (weaks (finalize dead pend (bump_colls s)))
              (wmaps (finalize dead pend (bump_colls s))) (nrc_tab_s (strongs s) (weaks s))
              (nrc_tab_e (strongs s) (weaks s)) ms me in
          (finalize dead pend (bump_colls s), ms0, me0)) =
        (with_heap (Sf sr dead pend) (Wf sr dead pend) (bump_colls sr), ms, me2)).
    { rewrite Hfin. cbn [strongs weaks wmaps with_heap bump_colls].
      destruct (mark_heap (Sf sr dead pend) (Wf sr dead pend) (wmaps sr) (nrc_tab_s (strongs s) (weaks s))
                  (nrc_tab_e (strongs s) (weaks s)) ms me) as [[[ms0 me0] d0] p0] eqn:Hm2.
      destruct (second_mark sr Ir ms me dead pend Hms_r Hme_r Hpend_r _ _ ms0 me0 d0 p0 HrS_r HrE_r Hm2) as [E1 E2].
      subst ms0. exists me0. split; [exact E2|reflexivity]. }
    clear Hc Hm Hfin Hdead_r Hpend_r.
    destruct dead as [|d dead']; [destruct pend as [|p pend']|]; try exact Hgen.
    exists me. split; [reflexivity|].
    cbn [res_list] in ERES. subst RES. rewrite res_state_nil in Esr. subst sr.
    unfold Sf, Wf, DK, DE. cbn [flat_map app ids_e map]. rewrite fin_strongs_nil, fin_weaks_nil.
    reflexivity. }
  destruct Hph as [me2 [Hme2 Hph]]. rewrite Hph in Hc. clear Hph.
  cbn [strongs weaks wmaps ext_s with_heap bump_colls] in Hc.
  (* the sweep *)
  assert (HW2 : filter (fun e => memb (e_id e) me2) (Wf sr dead pend) = W2 sr me dead pend).
  { unfold W2. apply filter_ext. intro x. apply Hme2. }
  rewrite HW2 in Hc.
  change (set_weaks (W2 sr me dead pend)
            (set_strongs (filter (fun b => memb (s_id b) ms) (Sf sr dead pend))
               (with_heap (Sf sr dead pend) (Wf sr dead pend) (bump_colls sr))))
    with (s2 sr ms me dead pend) in Hc.
  change (wmaps (s2 sr ms me dead pend)) with (wmaps sr) in Hc.
  pose proof (Inv_s2 sr Ir ms me dead pend Hms_r Hme_r Hdead_r Hpend_r) as I2.
  assert (Hp2 : poisoned (s2 sr ms me dead pend) = false) by (rewrite Esr; exact Hp).
  destruct (wm_fold_spec (wmaps sr) (s2 sr ms me dead pend) I2 Hp2 (inv_wm_nodup _ Ir) (incl_refl _)) as (I3 & Hp3 & F3).
  rewrite (Inv_not_dangling _ I3) in Hc. rewrite Eext in Hc. rewrite firstn_app_len in Hc.
  inversion Hc; subst s' g; clear Hc.
  split; [exact I3|]. split; [exact Hp3|]. split; [exact F3|].
  (* the log *)
  assert (Hdn : map s_id (filter (fun b => negb (s_map b)) (filter (fun b => negb (memb (s_id b) ms)) (Sf sr dead pend)))
                = gc_dead s ms).
  { rewrite <- Egd. unfold Sf. rewrite (filter_fin_strongs (fun n => negb (memb n ms))).
    rewrite filter_map_fin_strongs by (intros b r; reflexivity).
    change (map s_id ?l) with (ids_s l). rewrite ids_fin_strongs.
    apply (dropped_nodes (strongs sr) (fun n => negb (memb n ms)) (inv_nodup_s _ Ir)). apply incl_refl. }
  rewrite Hdn.
  assert (Hfn : filter (is_node (strongs s)) dead = gc_dead s ms) by (rewrite Hdead; reflexivity).
  rewrite Hfn. f_equal.
  apply filter_none. intros n Hn. apply memb_false. intro He.
  unfold gc_dead in Hn. apply filter_In in Hn. destruct Hn as [Hn _]. apply filter_In in Hn. destruct Hn as [_ Hn].
  assert (memb n ms = true).
  { apply Hms. apply in_app_or in He. destruct He as [He|He]; [apply HRlive; exact He|apply R_ext; exact He]. }
  rewrite H in Hn. discriminate.
Qed.

(* ---------------------------------------------------------------------------------------------- *)
(* 4. the property-level statement *)

Lemma collect_live_res_full s s' g :
  Inv s -> poisoned s = false -> res_targets_live s -> collect s = (s', g) ->
  Inv s' /\ poisoned s' = false /\
  (forall n, In n (ids_s (strongs s')) <-> In n (ids_s (strongs s)) /\ Reach s n) /\
  (forall e, In e (ids_e (weaks s')) <-> In e (ids_e (weaks s)) /\ ReachE s e) /\
  (forall n, In n (g_drop g) <-> is_node (strongs s) n = true /\ ~ Reach s n) /\
  g_fin g = g_drop g /\ NoDup (g_drop g) /\ g_held g = [] /\
  ext_s s' = g_res g ++ ext_s s /\
  (forall n, In n (g_res g) -> Reach s n) /\
  ext_e s' = ext_e s /\ next_s s' = next_s s /\ next_e s' = next_e s.
Proof.
  intros I Hp Hd Hc. destruct (collect_cases s) as [(ES & EW & E)|E]; rewrite E in Hc.
  - (* empty heap: force_collect does nothing *)
    injection Hc as <- <-. cbn [g_drop g_fin g_res g_held]. rewrite ES, EW.
    split; [exact I|]. split; [exact Hp|].
    split. { intro n. cbn. tauto. }
    split. { intro e. cbn. tauto. }
    split. { intro n. unfold is_node. cbn. split; [tauto|]. intros [H _]. discriminate. }
    split; [reflexivity|]. split; [constructor|]. split; [reflexivity|]. split; [reflexivity|].
    split. { intros n []. } repeat split.
  - apply collect_core_spec_res in Hc; try assumption.
    destruct Hc as (ms & me & Hms & Hme & Hc). cbv zeta in Hc. destruct Hc as (HR & I' & Hp' & F & Eg).
    set (dead := filter (fun n => negb (memb n ms)) (ids_s (strongs s))) in *.
    set (pend := filter (fun x => negb (fst (eph_trace x ms me))) (weaks s)) in *.
    set (RES := res_list (strongs s) dead []) in *.
    destruct (Reach_res_iff s RES HR) as [HRe1 HRe2].
    assert (Hms_r : forall n, memb n ms = true <-> Reach (res_state s RES) n) by (intro n; rewrite HRe1; apply Hms).
    assert (Hme_r : forall e, memb e me = true <-> ReachE (res_state s RES) e) by (intro e; rewrite HRe2; apply Hme).
    assert (Eid : ids_s (strongs (res_state s RES)) = ids_s (strongs s)).
    { unfold res_state. cbn [strongs with_heap]. apply ids_inc_strongs. }
    split; [exact I'|]. split; [exact Hp'|].
    split. { intro n. rewrite (wf_ids_s _ _ F).
             change (strongs (s2 (res_state s RES) ms me dead pend)) with (S2 (res_state s RES) ms dead pend).
             rewrite (In_ids_S2 (res_state s RES) ms dead pend Hms_r n), Eid, HRe1. tauto. }
    split. { intro e. rewrite (wf_ids_e _ _ F).
             change (weaks (s2 (res_state s RES) ms me dead pend)) with (W2 (res_state s RES) me dead pend).
             rewrite (In_ids_W2 (res_state s RES) me dead pend Hme_r e), HRe2.
             change (weaks (res_state s RES)) with (weaks s). tauto. }
    subst g. cbn [g_drop g_fin g_res g_held].
    split. { intro n. unfold gc_dead. rewrite !filter_In. split.
      - intros [[_ H1] H2]. split; [exact H2|]. intro R. apply Hms in R. rewrite R in H1. discriminate.
      - intros [H1 H2]. split; [|exact H1]. split; [apply is_node_In; exact H1|].
        destruct (memb n ms) eqn:E'; [|reflexivity]. exfalso. apply H2. apply Hms. exact E'. }
    split; [reflexivity|]. split. { unfold gc_dead. apply NoDup_filter. apply NoDup_filter. apply (inv_nodup_s _ I). }
    split; [reflexivity|].
    rewrite (wf_ext_s _ _ F), (wf_ext_e _ _ F), (wf_next_s _ _ F), (wf_next_e _ _ F).
    split; [reflexivity|]. split; [exact HR|]. repeat split.
Qed.

(* THEOREM 1 *)
Theorem collect_exact_live_res s s' g :
  Inv s -> poisoned s = false -> res_targets_live s -> collect s = (s', g) ->
  Inv s' /\ poisoned s' = false /\
  (forall n, In n (ids_s (strongs s')) <-> In n (ids_s (strongs s)) /\ Reach s n) /\
  (forall e, In e (ids_e (weaks s')) <-> In e (ids_e (weaks s)) /\ ReachE s e) /\
  (forall n, In n (g_drop g) <-> is_node (strongs s) n = true /\ ~ Reach s n) /\
  g_fin g = g_drop g /\ NoDup (g_drop g) /\ g_held g = [] /\
  (forall n, cnt n (ext_s s') = cnt n (ext_s s) + cnt n (g_res g)) /\
  (forall n, In n (g_res g) -> Reach s n) /\
  ext_e s' = ext_e s /\ next_s s' = next_s s /\ next_e s' = next_e s.
Proof.
  intros I Hp Hd Hc.
  destruct (collect_live_res_full s s' g I Hp Hd Hc) as (A1 & A2 & A3 & A4 & A5 & A6 & A7 & A8 & A9 & A10 & A11).
  repeat (split; [assumption|]). split; [|split; assumption].
  intro n. rewrite A9, cnt_app. lia.
Qed.

(* the root list after the collection: the cloned handles are pushed in front of the old roots *)
Theorem collect_live_res_roots s s' g :
  Inv s -> poisoned s = false -> res_targets_live s -> collect s = (s', g) ->
  ext_s s' = g_res g ++ ext_s s.
Proof. intros I Hp Hd Hc. apply (collect_live_res_full s s' g I Hp Hd Hc). Qed.

(* ---------------------------------------------------------------------------------------------- *)
(* 5. histories with arbitrary finalizers *)

Fixpoint live_res_run (s : state) (ops : list op) : Prop :=
  match ops with
  | [] => True
  | o :: t => (o = Collect -> res_targets_live s) /\ live_res_run (fst (step s o)) t
  end.

Lemma step_any s o : (o = Collect -> res_targets_live s) -> Inv s -> poisoned s = false ->
  Inv (fst (step s o)) /\ poisoned (fst (step s o)) = false.
Proof.
  intros Ho I P. destruct (op_collect_dec o) as [E|E].
  - subst o. rewrite step_collect. cbn [fst].
    destruct (collect s) as [s' g] eqn:Hc. cbn [fst].
    destruct (collect_exact_live_res s s' g I P (Ho eq_refl) Hc) as (I' & P' & _).
    split; [exact I'|exact P'].
  - exact (step_inv s o E I P).
Qed.

Lemma exec_inv_live ops : forall s,
  Inv s -> poisoned s = false -> live_res_run s ops ->
  Inv (exec s ops) /\ poisoned (exec s ops) = false.
Proof.
  induction ops as [|o t IH]; intros s I P H.
  - cbn. split; [exact I|exact P].
  - destruct H as [Ho Ht]. rewrite exec_cons.
    destruct (step_any s o Ho I P) as (I' & P'). apply IH; assumption.
Qed.

Lemma run_freed_live ops : forall s D,
  Inv s -> poisoned s = false -> live_res_run s ops ->
  NoDup D -> (forall n, In n D -> (n < next_s s)%N /\ ~ In n (ids_s (strongs s))) ->
  NoDup (D ++ drop_log (snd (run s ops))) /\ fin_log (snd (run s ops)) = drop_log (snd (run s ops)).
Proof.
  induction ops as [|o t IH]; intros s D I P H ND HD.
  - cbn. rewrite app_nil_r. split; [exact ND|reflexivity].
  - destruct H as [Ho Ht]. rewrite run_cons. cbn [snd].
    destruct (op_collect_dec o) as [E|E].
    + subst o. rewrite step_collect in *. cbn [fst snd drop_log fin_log] in *.
      destruct (collect s) as [s' g] eqn:Hc. cbn [fst snd] in *.
      destruct (collect_exact_live_res s s' g I P (Ho eq_refl) Hc)
        as (I' & P' & HS' & _ & HDr & Efin & NDg & _ & _ & _ & _ & En & _).
      destruct (IH s' (D ++ g_drop g) I' P' Ht) as [N1 N2].
      * apply NoDup_app_intro; [exact ND|exact NDg|]. intros n Hn Hg.
        apply HDr in Hg. destruct Hg as [Hg _]. apply is_node_In in Hg.
        apply (proj2 (HD n Hn)). exact Hg.
      * intros n Hn. apply in_app_or in Hn. destruct Hn as [Hn|Hn].
        -- destruct (HD n Hn) as [L NI]. split; [rewrite En; exact L|].
           intro X. apply HS' in X. tauto.
        -- apply HDr in Hn. destruct Hn as [Hg NR]. apply is_node_In in Hg.
           split; [rewrite En; apply (inv_fresh_s _ I); exact Hg|].
           intro X. apply HS' in X. tauto.
      * split; [rewrite app_assoc; exact N1|rewrite Efin, N2; reflexivity].
    + destruct (step_inv s o E I P) as [I' P'].
      rewrite (drop_log_cons_other _ _ (step_not_gc s o E)), (fin_log_cons_other _ _ (step_not_gc s o E)).
      apply (IH _ D I' P' Ht ND). intros n Hn. destruct (HD n Hn) as [L NI]. split.
      * eapply N.lt_le_trans; [exact L|apply step_next_le; exact E].
      * intro X. apply (step_ids_in s o E) in X. destruct X as [X|X]; [tauto|].
        subst n. exact (N.lt_irrefl _ L).
Qed.

(* THEOREM 2 *)
Theorem safe_unless_dead_target_resurrected ops :
  live_res_run init ops ->
  Inv (exec init ops) /\ poisoned (exec init ops) = false /\
  NoDup (drop_log (snd (run init ops))) /\ fin_log (snd (run init ops)) = drop_log (snd (run init ops)).
Proof.
  intro H. destruct (exec_inv_live ops init Inv_init eq_refl H) as [I P].
  split; [exact I|]. split; [exact P|].
  apply (run_freed_live ops init [] Inv_init eq_refl H (NoDup_nil _)). intros n [].
Qed.

(* no finalizer that runs clones any handle: nothing is resurrected at all *)
Definition nothing_resurrected (s : state) : Prop :=
  forall b, In b (strongs s) -> ~ Reach s (s_id b) -> s_fin b = 0 \/ s_kids b = [].

Lemma nothing_resurrected_live s : nothing_resurrected s -> res_targets_live s.
Proof.
  intros H b k Hb Hr Hf Hk. destruct (H b Hb Hr) as [E|E]; [lia|]. rewrite E in Hk. destruct Hk.
Qed.

Fixpoint no_res_run (s : state) (ops : list op) : Prop :=
  match ops with
  | [] => True
  | o :: t => (o = Collect -> nothing_resurrected s) /\ no_res_run (fst (step s o)) t
  end.

Lemma no_res_run_live ops : forall s, no_res_run s ops -> live_res_run s ops.
Proof.
  induction ops as [|o t IH]; intros s H; [exact I|]. destruct H as [Ho Ht].
  split; [intro E; apply nothing_resurrected_live; exact (Ho E)|apply IH; exact Ht].
Qed.

Theorem safe_while_nothing_resurrected ops :
  no_res_run init ops ->
  Inv (exec init ops) /\ poisoned (exec init ops) = false /\
  NoDup (drop_log (snd (run init ops))) /\ fin_log (snd (run init ops)) = drop_log (snd (run init ops)).
Proof. intro H. apply safe_unless_dead_target_resurrected. apply no_res_run_live. exact H. Qed.

(* under `nothing_resurrected` the res list of the collection is empty, and conversely a non-empty
   res list is the only way out of `nothing_resurrected`: the check's class predicate *)
Lemma nothing_resurrected_res_nil s s' g :
  Inv s -> poisoned s = false -> nothing_resurrected s -> collect s = (s', g) -> g_res g = [].
Proof.
  intros I Hp Hn Hc. destruct (collect_cases s) as [(ES & EW & E)|E]; rewrite E in Hc.
  - injection Hc as <- <-. reflexivity.
  - apply collect_core_spec_res in Hc; [|assumption|assumption|apply nothing_resurrected_live; exact Hn].
    destruct Hc as (ms & me & Hms & Hme & Hc). cbv zeta in Hc. destruct Hc as (_ & _ & _ & _ & Eg).
    subst g. cbn [g_res].
    set (dead := filter (fun n => negb (memb n ms)) (ids_s (strongs s))).
    destruct (res_list (strongs s) dead []) as [|k R] eqn:ER; [reflexivity|exfalso].
    assert (Hk : In k (res_list (strongs s) dead [])) by (rewrite ER; left; reflexivity).
    apply In_res_list in Hk. destruct Hk as [[]|(n & Hnd & Hf & Hk)].
    destruct (dead_in s ms dead eq_refl n Hnd) as (b & F & Hb & Hid & Hm').
    unfold fin_at in Hf. rewrite F in Hf. unfold kids_at in Hk. rewrite F in Hk.
    destruct (Hn b Hb) as [E0|E0].
    + rewrite Hid. intro Rr. apply Hms in Rr. congruence.
    + lia.
    + rewrite E0 in Hk. destruct Hk.
Qed.

(* ---------------------------------------------------------------------------------------------- *)
(* 6. the converse: a finalizer that clones (once) a handle to an unreachable node makes the
      collector free a node that is held — Witness_C09 in general form *)

Lemma In_rep_intro k f l : 0 < f -> In k l -> In k (rep f l).
Proof. destruct f as [|f]; [lia|]. intros _ H. cbn [rep]. apply in_or_app. right. exact H. Qed.

Lemma res_list_mono Sb k : forall dead R, In k R -> In k (res_list Sb dead R).
Proof.
  induction dead as [|n t IH]; intros R H; [exact H|]. cbn [res_list]. apply IH. apply in_or_app. right. exact H.
Qed.

Lemma In_res_list_intro Sb k n : forall dead R,
  In n dead -> 0 < fin_at Sb n -> In k (kids_at Sb n) -> In k (res_list Sb dead R).
Proof.
  induction dead as [|m t IH]; intros R Hn Hf Hk; [destruct Hn|]. cbn [res_list]. destruct Hn as [->|Hn].
  - apply res_list_mono. apply in_or_app. left. apply In_rep_intro; [exact Hf|]. apply in_rev in Hk. exact Hk.
  - apply IH; assumption.
Qed.

Lemma cnt_res_le Sb k : forall dead, (forall n, In n dead -> fin_at Sb n <= 1) ->
  cnt k (res_list Sb dead []) <= cnt k (flat_map (kids_at Sb) dead).
Proof.
  intros dead H. rewrite cnt_res_list. cbn [cnt]. induction dead as [|n t IH]; cbn [fold_right flat_map]; [lia|].
  rewrite cnt_app. pose proof (H n (or_introl eq_refl)) as Hn.
  assert (IH' : fold_right (fun n a => fin_at Sb n * cnt k (kids_at Sb n) + a) 0 t <= cnt k (flat_map (kids_at Sb) t)).
  { apply IH. intros m Hm. apply H. right. exact Hm. }
  destruct (fin_at Sb n) as [|[|f]]; lia.
Qed.

(* the registry pass touches neither the root list nor the set of strong boxes *)
Lemma ext_s_dec_e n s : ext_s (dec_e n s) = ext_s s.
Proof. unfold dec_e. destruct (find_e n (weaks s)) as [x|]; [destruct (e_rc x)|]; reflexivity. Qed.

Lemma fold_dec_e_frame : forall L s,
  ext_s (fold_left (fun s e => dec_e e s) L s) = ext_s s /\
  strongs (fold_left (fun s e => dec_e e s) L s) = strongs s.
Proof.
  induction L as [|e L IH]; intro s; [split; reflexivity|]. cbn [fold_left].
  destruct (IH (dec_e e s)) as [A B]. rewrite A, B, ext_s_dec_e, strongs_dec_e. split; reflexivity.
Qed.

Lemma wm_one_frame0 s w :
  ext_s (wm_one s w) = ext_s s /\ ids_s (strongs (wm_one s w)) = ids_s (strongs s).
Proof.
  unfold wm_one. destruct (find_e w (weaks s)) as [x|]; [|split; reflexivity].
  destruct (e_data x) as [[m v]|].
  - unfold clear_entries. destruct (find_s m (strongs s)) as [b|]; [|split; reflexivity].
    cbv zeta. match goal with |- context [fold_left ?f ?L ?s0] => destruct (fold_dec_e_frame L s0) as [A B] end.
    rewrite A, B. cbn [ext_s strongs set_strongs]. split; [reflexivity|]. apply ids_upd_s. intro c. reflexivity.
  - cbn [ext_s strongs set_wmaps]. rewrite ext_s_dec_e, strongs_dec_e. split; reflexivity.
Qed.

Lemma wm_fold_frame0 : forall l s,
  ext_s (fold_left wm_one l s) = ext_s s /\ ids_s (strongs (fold_left wm_one l s)) = ids_s (strongs s).
Proof.
  induction l as [|w l IH]; intro s; [split; reflexivity|]. cbn [fold_left].
  destruct (IH (wm_one s w)) as [A B]. destruct (wm_one_frame0 s w) as [C D]. rewrite A, B, C, D. split; reflexivity.
Qed.

Definition fin_at_most_once (s : state) : Prop :=
  forall c, In c (strongs s) -> ~ Reach s (s_id c) -> s_fin c <= 1.

(* the second marking pass marks nothing new: a dead box gets at most as many clones as it loses
   handles, so it stays non-rooted with respect to the stale non-root counts *)
Lemma second_mark_once s ms me dead pend tabE ms' me' d p :
  Inv s -> fin_at_most_once s ->
  (forall n, memb n ms = true <-> Reach s n) ->
  (forall e, memb e me = true <-> ReachE s e) ->
  dead = filter (fun n => negb (memb n ms)) (ids_s (strongs s)) ->
  pend = filter (fun x => negb (fst (eph_trace x ms me))) (weaks s) ->
  rootedE_ok s tabE ->
  mark_heap (fin_strongs (inc_strongs (strongs s) (res_list (strongs s) dead [])) (DK s dead pend))
    (Wf s dead pend) (wmaps s) (nrc_tab_s (strongs s) (weaks s)) tabE ms me = (ms', me', d, p) ->
  ms' = ms /\ (forall e, memb e me' = memb e me).
Proof.
  intros I Hone Hms Hme Hdead Hpend HrE Hm. eapply mark_heap_stable; [| | | | |exact Hm].
  - intros c Hc Hr. apply In_fin_strongs in Hc. destruct Hc as [c1 [Hc1 ->]].
    apply In_inc_strongs in Hc1. destruct Hc1 as [b [Hb ->]]. cbn [s_id s_rc set_rc] in *.
    destruct (memb (s_id b) ms) eqn:M; [reflexivity|exfalso].
    assert (Hnr : ~ Reach s (s_id b)) by (intro Rr; apply Hms in Rr; congruence).
    assert (Hext : cnt (s_id b) (ext_s s) = 0).
    { apply cnt_zero_notin. intro He. apply Hnr. apply R_ext. exact He. }
    assert (Hle : cnt (s_id b) (res_list (strongs s) dead []) <= cnt (s_id b) (DK s dead pend)).
    { unfold DK. rewrite cnt_app.
      assert (X : cnt (s_id b) (res_list (strongs s) dead []) <= cnt (s_id b) (flat_map (kids_at (strongs s)) dead)).
      { apply cnt_res_le. intros n Hn. destruct (dead_in s ms dead Hdead n Hn) as (b0 & F & Hb0 & Hid & Hm0).
        unfold fin_at. rewrite F. apply Hone; [exact Hb0|]. rewrite Hid. intro Rr. apply Hms in Rr. congruence. }
      lia. }
    unfold rooted, nrc_tab_s in Hr.
    rewrite (lookup_map_s (fun b => nrc_of (s_rc b) (s_id b) (inner_s (strongs s) (weaks s)))) in Hr
      by (try exact Hb; apply (inv_nodup_s _ I)).
    rewrite nrc_of_min in Hr. rewrite (inv_rc_s _ I b Hb) in Hr. apply Nat.ltb_lt in Hr. lia.
  - intros n c Hn Hf. rewrite find_s_fin_strongs, find_s_inc_strongs in Hf.
    destruct (find_s n (strongs s)) as [b|] eqn:F; [|discriminate]. inversion Hf; subst c. cbn [s_kids s_ephs set_rc].
    apply Hms in Hn. split.
    + intros k Hk. apply Hms. eapply R_kid; eassumption.
    + intros e He. apply Hme. eapply RE_sto; eassumption.
  - intros c Hc Hr. apply (In_Wf s I ms me dead pend Hpend) in Hc. destruct Hc as (x & Hx & E1 & E2 & _).
    rewrite E1. apply Hme. rewrite E1, E2 in Hr.
    assert (R : rooted tabE (e_id x) (e_rc x) = true).
    { unfold rooted in *. apply Nat.ltb_lt in Hr. apply Nat.ltb_lt. lia. }
    apply (HrE x Hx) in R. destruct R as [R|R]; [apply RE_ext|apply RE_wm]; exact R.
  - intros w x Hw _ _. apply Hme. apply RE_wm. exact Hw.
  - intros c k v Hc Hm1 Hd Hk. apply (In_Wf s I ms me dead pend Hpend) in Hc. destruct Hc as (x & Hx & E1 & _ & E3).
    rewrite Hd in E3. destruct (badf ms me x); [discriminate|].
    apply Hms. apply (reach_val s I x k v Hx); [apply Hme; rewrite <- E1; exact Hm1|symmetry; exact E3|apply Hms; exact Hk].
Qed.

Theorem collect_core_dead_target s s' g b k :
  Inv s -> poisoned s = false -> fin_at_most_once s ->
  In b (strongs s) -> ~ Reach s (s_id b) -> s_fin b = 1 -> In k (s_kids b) ->
  ~ Reach s k ->
  collect_core s = (s', g) ->
  In k (g_res g) /\ In k (ext_s s') /\ ~ In k (ids_s (strongs s')) /\ poisoned s' = true /\
  (is_node (strongs s) k = true -> In k (g_drop g) /\ In k (g_held g)).
Proof.
  intros I Hp Hone Hb Hbr Hbf Hkb Hkr Hc.
  pose proof (rootedS_ok_tab s I) as HrS. pose proof (rootedE_ok_tab s I) as HrE.
  unfold collect_core in Hc. cbv zeta in Hc.
  change (strongs (bump_colls s)) with (strongs s) in Hc.
  change (weaks (bump_colls s)) with (weaks s) in Hc.
  change (wmaps (bump_colls s)) with (wmaps s) in Hc.
  change (ext_s (bump_colls s)) with (ext_s s) in Hc.
  destruct (mark_heap (strongs s) (weaks s) (wmaps s) (nrc_tab_s (strongs s) (weaks s))
              (nrc_tab_e (strongs s) (weaks s)) [] []) as [[[ms me] dead] pend] eqn:Hm.
  destruct (mark_heap_exact s _ _ ms me dead pend I HrS HrE Hm) as (Hms & Hme & Hdead & Hpend).
  assert (Hbm : memb (s_id b) ms = false).
  { destruct (memb (s_id b) ms) eqn:M; [|reflexivity]. exfalso. apply Hbr. apply Hms. exact M. }
  assert (Hkm : memb k ms = false).
  { destruct (memb k ms) eqn:M; [|reflexivity]. exfalso. apply Hkr. apply Hms. exact M. }
  assert (Hbd : In (s_id b) dead).
  { rewrite Hdead. apply filter_In. split; [unfold ids_s; apply in_map; exact Hb|rewrite Hbm; reflexivity]. }
  pose proof (find_s_nodup _ _ (inv_nodup_s _ I) Hb) as Fb.
  remember (res_list (strongs s) dead []) as RES eqn:ERES.
  assert (HkR : In k RES).
  { rewrite ERES. apply (In_res_list_intro (strongs s) k (s_id b)); [exact Hbd| |].
    - unfold fin_at. rewrite Fb, Hbf. lia.
    - unfold kids_at. rewrite Fb. exact Hkb. }
  remember (with_heap (fin_strongs (inc_strongs (strongs s) RES) (DK s dead pend)) (Wf s dead pend)
              (set_ext_s (RES ++ ext_s s) (bump_colls s))) as sf eqn:Esf.
  assert (Hfin : finalize dead pend (bump_colls s) = sf).
  { pose proof (finalize_eq_res (bump_colls s) dead pend (inv_nodup_s _ I) (inv_nodup_e _ I)) as X.
    cbv zeta in X. rewrite X.
    - rewrite Esf, ERES. reflexivity.
    - intros n Hn. destruct (dead_in s ms dead Hdead n Hn) as (b0 & F & _). exists b0. exact F.
    - exact (DK_bound s I ms me dead pend Hdead Hpend).
    - exact (DK_exists s I ms me dead pend Hdead Hpend).
    - exact (DE_bound s I ms dead Hdead).
    - exact (DE_exists s I ms dead Hdead). }
  assert (Hph : exists me2,
     (match dead, pend with
      | [], [] => (bump_colls s, ms, me)
      | _, _ =>
          let '(ms0, me0, _, _) :=
            mark_heap (strongs (finalize dead pend (bump_colls s))) (weaks (finalize dead pend (bump_colls s)))
              (wmaps (finalize dead pend (bump_colls s))) (nrc_tab_s (strongs s) (weaks s))
              (nrc_tab_e (strongs s) (weaks s)) ms me in
          (finalize dead pend (bump_colls s), ms0, me0)
      end) = (sf, ms, me2)).
  { assert (Hgen : exists me2,
        (let '(ms0, me0, _, _) :=
            mark_heap (strongs (finalize dead pend (bump_colls s))) (weaks (finalize dead pend (bump_colls s)))
              (wmaps (finalize dead pend (bump_colls s))) (nrc_tab_s (strongs s) (weaks s))
              (nrc_tab_e (strongs s) (weaks s)) ms me in
          (finalize dead pend (bump_colls s), ms0, me0)) = (sf, ms, me2)).
    { rewrite Hfin.
      assert (X1 : strongs sf = fin_strongs (inc_strongs (strongs s) RES) (DK s dead pend)) by (rewrite Esf; reflexivity).
      assert (X2 : weaks sf = Wf s dead pend) by (rewrite Esf; reflexivity).
      assert (X3 : wmaps sf = wmaps s) by (rewrite Esf; reflexivity).
      rewrite X1, X2, X3.
      destruct (mark_heap (fin_strongs (inc_strongs (strongs s) RES) (DK s dead pend)) (Wf s dead pend) (wmaps s)
                  (nrc_tab_s (strongs s) (weaks s)) (nrc_tab_e (strongs s) (weaks s)) ms me)
        as [[[ms0 me0] d0] p0] eqn:Hm2.
      rewrite ERES in Hm2.
      destruct (second_mark_once s ms me dead pend _ ms0 me0 d0 p0 I Hone Hms Hme Hdead Hpend HrE Hm2) as [E1 _].
      subst ms0. exists me0. reflexivity. }
    clear - Hgen Hbd. destruct dead as [|d0 dead']; [destruct Hbd|]. exact Hgen. }
  destruct Hph as [me2 Hph]. rewrite Hph in Hc. clear Hph.
  remember (set_weaks (filter (fun e => memb (e_id e) me2) (weaks sf))
              (set_strongs (filter (fun b => memb (s_id b) ms) (strongs sf)) sf)) as s2x eqn:Es2.
  remember (fold_left wm_one (wmaps s2x) s2x) as s3x eqn:Es3.
  assert (Eext2 : ext_s s2x = RES ++ ext_s s) by (rewrite Es2, Esf; reflexivity).
  assert (Eids2 : ids_s (strongs s2x) =
                  ids_s (filter (fun b => memb (s_id b) ms)
                           (fin_strongs (inc_strongs (strongs s) RES) (DK s dead pend))))
    by (rewrite Es2, Esf; reflexivity).
  destruct (wm_fold_frame0 (wmaps s2x) s2x) as [Eext3 Eids3]. rewrite <- Es3 in Eext3, Eids3.
  assert (Hk3 : In k (ext_s s3x)).
  { rewrite Eext3, Eext2. apply in_or_app. left. exact HkR. }
  assert (Hn3 : ~ In k (ids_s (strongs s3x))).
  { rewrite Eids3, Eids2. unfold ids_s. intro H. apply in_map_iff in H. destruct H as [c [Ec Hc']].
    apply filter_In in Hc'. destruct Hc' as [_ Hc']. rewrite Ec in Hc'. congruence. }
  assert (Hdg : dangling s3x = true).
  { unfold dangling. apply orb_true_iff. left. apply negb_true_iff.
    match goal with |- forallb ?f ?l = false => destruct (forallb f l) eqn:E; [|reflexivity] end.
    exfalso. rewrite forallb_forall in E. apply Hn3. apply memb_In. apply E.
    apply in_or_app. left. exact Hk3. }
  rewrite Hdg in Hc.
  assert (Esf_ext : ext_s sf = RES ++ ext_s s) by (rewrite Esf; reflexivity).
  rewrite Esf_ext in Hc. rewrite firstn_app_len in Hc.
  inversion Hc; subst s' g; clear Hc. cbn [g_res g_drop g_held].
  split; [exact HkR|]. split; [exact Hk3|]. split; [exact Hn3|]. split; [reflexivity|].
  (* the dropped node k *)
  intro Hkn.
  unfold is_node in Hkn. destruct (find_s k (strongs s)) as [bk|] eqn:Fk; [|discriminate].
  destruct (find_s_In _ _ _ Fk) as [Hbk Hbkid].
  assert (Hdn : In k (map s_id (filter (fun b => negb (s_map b))
                                  (filter (fun b => negb (memb (s_id b) ms)) (strongs sf))))).
  { apply in_map_iff.
    exists (set_rc (s_rc (set_rc (s_rc bk + cnt (s_id bk) RES) bk)
                    - cnt (s_id (set_rc (s_rc bk + cnt (s_id bk) RES) bk)) (DK s dead pend))
              (set_rc (s_rc bk + cnt (s_id bk) RES) bk)).
    split; [exact Hbkid|]. apply filter_In. split; [|exact Hkn]. apply filter_In. split.
    - rewrite Esf. cbn [strongs with_heap]. unfold fin_strongs.
      apply (in_map (fun b => set_rc (s_rc b - cnt (s_id b) (DK s dead pend)) b)).
      unfold inc_strongs. apply (in_map (fun b => set_rc (s_rc b + cnt (s_id b) RES) b)). exact Hbk.
    - cbn [s_id set_rc]. rewrite Hbkid, Hkm. reflexivity. }
  split; [exact Hdn|].
  apply filter_In. split; [exact Hdn|]. apply memb_In. apply in_or_app. left. exact HkR.
Qed.

Lemma Reach_dec s : Inv s -> forall n, Reach s n \/ ~ Reach s n.
Proof.
  intros I n.
  pose proof (rootedS_ok_tab s I) as HrS. pose proof (rootedE_ok_tab s I) as HrE.
  destruct (mark_heap (strongs s) (weaks s) (wmaps s) (nrc_tab_s (strongs s) (weaks s))
              (nrc_tab_e (strongs s) (weaks s)) [] []) as [[[ms me] dead] pend] eqn:Hm.
  destruct (mark_heap_exact s _ _ ms me dead pend I HrS HrE Hm) as (Hms & _).
  destruct (memb n ms) eqn:M; [left; apply Hms; exact M|right; intro R; apply Hms in R; congruence].
Qed.

(* THEOREM 3 *)
Theorem dead_target_unsafe s b k :
  Inv s -> poisoned s = false -> fin_at_most_once s ->
  In b (strongs s) -> ~ Reach s (s_id b) -> s_fin b = 1 -> In k (s_kids b) -> ~ Reach s k ->
  In k (g_res (snd (collect s))) /\ In k (ext_s (fst (collect s))) /\
  ~ In k (ids_s (strongs (fst (collect s)))) /\
  poisoned (fst (collect s)) = true /\ ~ Inv (fst (collect s)) /\
  (is_node (strongs s) k = true -> In k (g_drop (snd (collect s))) /\ In k (g_held (snd (collect s)))).
Proof.
  intros I Hp Hone Hb Hbr Hbf Hkb Hkr.
  destruct (collect_cases s) as [(ES & _)|E]; [rewrite ES in Hb; destruct Hb|].
  rewrite E. destruct (collect_core s) as [s' g] eqn:Hc. cbn [fst snd].
  destruct (collect_core_dead_target s s' g b k I Hp Hone Hb Hbr Hbf Hkb Hkr Hc) as (A1 & A2 & A3 & A4 & A5).
  split; [exact A1|]. split; [exact A2|]. split; [exact A3|]. split; [exact A4|]. split; [|exact A5].
  intro I'. apply A3. apply (inv_ext_s _ I'). exact A2.
Qed.

(* for finalizers that clone at most once, `res_targets_live` is exactly the safety condition *)
Theorem live_res_iff_safe s :
  Inv s -> poisoned s = false -> fin_at_most_once s ->
  (res_targets_live s <-> poisoned (fst (collect s)) = false).
Proof.
  intros I Hp Hone. split.
  - intro Hl. destruct (collect s) as [s' g] eqn:Hc. cbn [fst].
    apply (collect_exact_live_res s s' g I Hp Hl Hc).
  - intros Hsafe b k Hb Hbr Hf Hk. destruct (Reach_dec s I k) as [R|R]; [exact R|exfalso].
    assert (Hbf : s_fin b = 1) by (pose proof (Hone b Hb Hbr); lia).
    destruct (dead_target_unsafe s b k I Hp Hone Hb Hbr Hbf Hk R) as (_ & _ & _ & A & _). congruence.
Qed.

(* along a history: the first collection that resurrects a dead target is the first failure *)
Theorem first_dead_target_poisons ops :
  live_res_run init ops -> fin_at_most_once (exec init ops) ->
  (res_targets_live (exec init ops) <-> poisoned (exec init (ops ++ [Collect])) = false).
Proof.
  intros H Hone. destruct (exec_inv_live ops init Inv_init eq_refl H) as [I P].
  assert (E : exec init (ops ++ [Collect]) = fst (collect (exec init ops))).
  { unfold exec. rewrite fold_left_app. cbn [fold_left]. rewrite step_collect. reflexivity. }
  rewrite E. apply live_res_iff_safe; assumption.
Qed.

