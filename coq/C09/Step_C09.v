(* C09 — every mutator operation other than Collect preserves the representation invariant and
   never poisons (no ref-count underflow). *)
From Coq Require Import List Arith Bool PeanoNat NArith Lia.
From C09 Require Import GcModel Spec_C09.
Import ListNotations.

(* ---------------------------------------------------------------------------------------------- *)
(* functional observations of a state *)

Definition rc_of (Sb : list sbox) (n : id) : nat :=
  match find_s n Sb with Some b => s_rc b | None => 0 end.
Definition erc_of (W : list ebox) (e : id) : nat :=
  match find_e e W with Some x => e_rc x | None => 0 end.
Definition eph_key (e : ebox) : list id :=
  match e_data e with Some (k, _) => [k] | None => [] end.
Definition keys (W : list ebox) : list id := flat_map eph_key W.
Definition HS (s : state) : list id := ext_s s ++ inner_s (strongs s) (weaks s).
Definition HE (s : state) : list id := ext_e s ++ inner_e (strongs s) ++ wmaps s.

Record Inv2 (s : state) : Prop := mkInv2 {
  i2_nds : NoDup (ids_s (strongs s));
  i2_nde : NoDup (ids_e (weaks s));
  i2_frs : forall n, In n (ids_s (strongs s)) -> (n < next_s s)%N;
  i2_fre : forall e, In e (ids_e (weaks s)) -> (e < next_e s)%N;
  i2_keys : forall k, In k (keys (weaks s)) -> In k (ids_s (strongs s));
  i2_wmnd : NoDup (wmaps s);
  i2_rcs : forall n, rc_of (strongs s) n = cnt n (HS s);
  i2_rce : forall e, erc_of (weaks s) e = cnt e (HE s)
}.

Lemma rc_of_pos_In Sb n : 0 < rc_of Sb n -> In n (ids_s Sb).
Proof.
  unfold rc_of. destruct (find_s n Sb) as [b|] eqn:E; [|lia]. intros _.
  apply find_s_In in E. destruct E as [E1 E2]. subst n. unfold ids_s. apply in_map. exact E1.
Qed.

Lemma erc_of_pos_In W n : 0 < erc_of W n -> In n (ids_e W).
Proof.
  unfold erc_of. destruct (find_e n W) as [b|] eqn:E; [|lia]. intros _.
  apply find_e_In in E. destruct E as [E1 E2]. subst n. unfold ids_e. apply in_map. exact E1.
Qed.

Lemma In_eph_value x v : In v (eph_value x) -> exists k, e_data x = Some (k, Some v).
Proof.
  unfold eph_value. destruct (e_data x) as [[k [w|]]|]; simpl; try tauto.
  intros [H|[]]. subst. exists k. reflexivity.
Qed.

Lemma Inv_Inv2 s : Inv s -> Inv2 s.
Proof.
  intros I. constructor; try apply I.
  - intros k Hk. unfold keys in Hk. apply in_flat_map in Hk. destruct Hk as [x [Hx Hk]].
    unfold eph_key in Hk. destruct (e_data x) as [[k' v]|] eqn:E; simpl in Hk; [|tauto].
    destruct Hk as [Hk|[]]. subst k'. eapply (inv_key s I); eauto.
  - intros n. unfold rc_of. destruct (find_s n (strongs s)) as [b|] eqn:E.
    + apply find_s_In in E. destruct E as [E1 E2]. subst n. unfold HS. rewrite cnt_app.
      apply (inv_rc_s s I). exact E1.
    + symmetry. apply cnt_zero_notin. intro H. apply find_s_None in E. apply E.
      unfold HS, inner_s in H. rewrite !in_app_iff in H. destruct H as [H|[H|H]].
      * apply (inv_ext_s s I). exact H.
      * apply in_flat_map in H. destruct H as [b [Hb Hn]]. eapply (inv_kids s I); eauto.
      * apply in_flat_map in H. destruct H as [x [Hx Hn]]. apply In_eph_value in Hn.
        destruct Hn as [k Hk]. eapply (inv_val s I); eauto.
  - intros e. unfold erc_of. destruct (find_e e (weaks s)) as [x|] eqn:E.
    + apply find_e_In in E. destruct E as [E1 E2]. subst e. unfold HE. rewrite !cnt_app.
      rewrite (inv_rc_e s I x E1). lia.
    + symmetry. apply cnt_zero_notin. intro H. apply find_e_None in E. apply E.
      unfold HE, inner_e in H. rewrite !in_app_iff in H. destruct H as [H|[H|H]].
      * apply (inv_ext_e s I). exact H.
      * apply in_flat_map in H. destruct H as [b [Hb Hn]]. eapply (inv_ephs s I); eauto.
      * apply (inv_wm s I). exact H.
Qed.

Lemma Inv2_HS_In s n : Inv2 s -> In n (HS s) -> In n (ids_s (strongs s)).
Proof.
  intros I H. apply rc_of_pos_In. rewrite (i2_rcs s I). apply cnt_pos_In. exact H.
Qed.

Lemma Inv2_HE_In s n : Inv2 s -> In n (HE s) -> In n (ids_e (weaks s)).
Proof.
  intros I H. apply erc_of_pos_In. rewrite (i2_rce s I). apply cnt_pos_In. exact H.
Qed.

Lemma Inv2_Inv s : Inv2 s -> Inv s.
Proof.
  intros I. constructor; try apply I.
  - intros n H. apply (Inv2_HS_In s n I). unfold HS. apply in_or_app. left. exact H.
  - intros b n Hb Hn. apply (Inv2_HS_In s n I). unfold HS, inner_s. rewrite !in_app_iff.
    right. left. apply in_flat_map. exists b. tauto.
  - intros x k v Hx E. apply (i2_keys s I). unfold keys. apply in_flat_map. exists x.
    split; [exact Hx|]. unfold eph_key. rewrite E. left. reflexivity.
  - intros x k v Hx E. apply (Inv2_HS_In s v I). unfold HS, inner_s. rewrite !in_app_iff.
    right. right. apply in_flat_map. exists x. split; [exact Hx|]. unfold eph_value. rewrite E.
    left. reflexivity.
  - intros e H. apply (Inv2_HE_In s e I). unfold HE. apply in_or_app. left. exact H.
  - intros b e Hb He. apply (Inv2_HE_In s e I). unfold HE, inner_e. rewrite !in_app_iff.
    right. left. apply in_flat_map. exists b. tauto.
  - intros w H. apply (Inv2_HE_In s w I). unfold HE. rewrite !in_app_iff. tauto.
  - intros b Hb. pose proof (i2_rcs s I (s_id b)) as R. unfold rc_of in R.
    rewrite (find_s_nodup _ _ (i2_nds s I) Hb) in R. rewrite R. unfold HS. apply cnt_app.
  - intros x Hx. pose proof (i2_rce s I (e_id x)) as R. unfold erc_of in R.
    rewrite (find_e_nodup _ _ (i2_nde s I) Hx) in R. rewrite R. unfold HE. rewrite !cnt_app. lia.
Qed.

(* ---------------------------------------------------------------------------------------------- *)
(* lists of boxes: update, push *)

Lemma ids_upd_s n f Sb : (forall b, s_id (f b) = s_id b) -> ids_s (upd_s n f Sb) = ids_s Sb.
Proof.
  intro Hf. unfold ids_s, upd_s. rewrite map_map. apply map_ext. intro b.
  destruct (N.eqb (s_id b) n); [apply Hf|reflexivity].
Qed.

Lemma ids_upd_e n f W : (forall b, e_id (f b) = e_id b) -> ids_e (upd_e n f W) = ids_e W.
Proof.
  intro Hf. unfold ids_e, upd_e. rewrite map_map. apply map_ext. intro b.
  destruct (N.eqb (e_id b) n); [apply Hf|reflexivity].
Qed.

Lemma find_upd_s n f Sb x : (forall b, s_id (f b) = s_id b) ->
  find_s x (upd_s n f Sb) = if N.eqb n x then option_map f (find_s x Sb) else find_s x Sb.
Proof.
  intro Hf. unfold find_s, upd_s. destruct (N.eqb_spec n x) as [E|E].
  - subst x. induction Sb as [|b t IH]; cbn [map find option_map]; [reflexivity|].
    destruct (N.eqb_spec (s_id b) n) as [E|E].
    + rewrite Hf, E, N.eqb_refl. reflexivity.
    + destruct (N.eqb_spec (s_id b) n); [congruence|exact IH].
  - induction Sb as [|b t IH]; cbn [map find]; [reflexivity|].
    destruct (N.eqb_spec (s_id b) n) as [E1|E1].
    + rewrite Hf. destruct (N.eqb_spec (s_id b) x); [congruence|exact IH].
    + rewrite IH. reflexivity.
Qed.

Lemma find_upd_e n f W x : (forall b, e_id (f b) = e_id b) ->
  find_e x (upd_e n f W) = if N.eqb n x then option_map f (find_e x W) else find_e x W.
Proof.
  intro Hf. unfold find_e, upd_e. destruct (N.eqb_spec n x) as [E|E].
  - subst x. induction W as [|b t IH]; cbn [map find option_map]; [reflexivity|].
    destruct (N.eqb_spec (e_id b) n) as [E|E].
    + rewrite Hf, E, N.eqb_refl. reflexivity.
    + destruct (N.eqb_spec (e_id b) n); [congruence|exact IH].
  - induction W as [|b t IH]; cbn [map find]; [reflexivity|].
    destruct (N.eqb_spec (e_id b) n) as [E1|E1].
    + rewrite Hf. destruct (N.eqb_spec (e_id b) x); [congruence|exact IH].
    + rewrite IH. reflexivity.
Qed.

Lemma fm_upd_same (g : sbox -> list id) n f Sb :
  (forall b, g (f b) = g b) -> flat_map g (upd_s n f Sb) = flat_map g Sb.
Proof.
  intro Hg. unfold upd_s. induction Sb as [|b t IH]; cbn [map flat_map]; [reflexivity|].
  rewrite IH. destruct (N.eqb (s_id b) n); [rewrite Hg|]; reflexivity.
Qed.

Lemma fm_upd_e_same (g : ebox -> list id) n f W :
  (forall b, g (f b) = g b) -> flat_map g (upd_e n f W) = flat_map g W.
Proof.
  intro Hg. unfold upd_e. induction W as [|b t IH]; cbn [map flat_map]; [reflexivity|].
  rewrite IH. destruct (N.eqb (e_id b) n); [rewrite Hg|]; reflexivity.
Qed.

Lemma upd_s_notin n f Sb : ~ In n (ids_s Sb) -> upd_s n f Sb = Sb.
Proof.
  unfold upd_s, ids_s. induction Sb as [|b t IH]; cbn [map In]; [reflexivity|]. intro H.
  rewrite IH by tauto. destruct (N.eqb_spec (s_id b) n); [exfalso; tauto|reflexivity].
Qed.

Lemma cnt_remove1_ind x n l : In n l -> cnt x (remove1 n l) + cnt x [n] = cnt x l.
Proof.
  intro H. cbn [cnt]. destruct (N.eqb_spec n x) as [E|E].
  - subst x. rewrite cnt_remove1_in by exact H. apply cnt_pos_In in H. lia.
  - rewrite cnt_remove1_other by congruence. lia.
Qed.

Lemma cnt_fm_upd_app (g : sbox -> list id) n f a Sb x :
  (forall b, g (f b) = g b ++ [n]) -> NoDup (ids_s Sb) -> In a (ids_s Sb) ->
  cnt x (flat_map g (upd_s a f Sb)) = cnt x (flat_map g Sb) + cnt x [n].
Proof.
  intros Hg. induction Sb as [|b t IH]; [simpl; tauto|]. intros Hnd Hin.
  change (ids_s (b :: t)) with (s_id b :: ids_s t) in *. inversion Hnd as [|? ? Hni Hnd']; subst.
  change (upd_s a f (b :: t)) with ((if N.eqb (s_id b) a then f b else b) :: upd_s a f t).
  cbn [flat_map]. rewrite !cnt_app.
  destruct (N.eqb_spec (s_id b) a) as [E|E].
  - subst a. rewrite (upd_s_notin _ _ _ Hni). rewrite Hg, cnt_app. lia.
  - destruct Hin as [Hin|Hin]; [congruence|]. rewrite (IH Hnd' Hin). lia.
Qed.

Lemma cnt_fm_upd_rem (g : sbox -> list id) n f a Sb x b0 :
  (forall b, g (f b) = remove1 n (g b)) -> NoDup (ids_s Sb) -> find_s a Sb = Some b0 ->
  In n (g b0) ->
  cnt x (flat_map g (upd_s a f Sb)) + cnt x [n] = cnt x (flat_map g Sb).
Proof.
  intros Hg. induction Sb as [|b t IH].
  - intros _ H. unfold find_s in H. simpl in H. discriminate H.
  - intros Hnd Hf Hin.
    change (ids_s (b :: t)) with (s_id b :: ids_s t) in *.
    inversion Hnd as [|? ? Hni Hnd']; subst.
    change (upd_s a f (b :: t)) with ((if N.eqb (s_id b) a then f b else b) :: upd_s a f t).
    unfold find_s in Hf. cbn [find] in Hf. fold (find_s a t) in Hf.
    cbn [flat_map]. rewrite !cnt_app.
    destruct (N.eqb_spec (s_id b) a) as [E|E].
    + injection Hf as Hf. subst b0 a. rewrite (upd_s_notin _ _ _ Hni). rewrite Hg.
      pose proof (cnt_remove1_ind x n (g b) Hin). lia.
    + pose proof (IH Hnd' Hf Hin). lia.
Qed.

Lemma find_s_app x Sb b :
  find_s x (Sb ++ [b]) =
  match find_s x Sb with Some y => Some y | None => if N.eqb (s_id b) x then Some b else None end.
Proof.
  unfold find_s. induction Sb as [|c t IH]; cbn [app find]; [reflexivity|].
  destruct (N.eqb (s_id c) x); [reflexivity|exact IH].
Qed.

Lemma find_e_app x W b :
  find_e x (W ++ [b]) =
  match find_e x W with Some y => Some y | None => if N.eqb (e_id b) x then Some b else None end.
Proof.
  unfold find_e. induction W as [|c t IH]; cbn [app find]; [reflexivity|].
  destruct (N.eqb (e_id c) x); [reflexivity|exact IH].
Qed.

(* ref counts as functions of the id *)

Lemma rc_of_inc n Sb x : In n (ids_s Sb) ->
  rc_of (upd_s n (fun b => set_rc (S (s_rc b)) b) Sb) x = rc_of Sb x + cnt x [n].
Proof.
  intro Hin. unfold rc_of. rewrite find_upd_s by (intro; reflexivity). cbn [cnt].
  destruct (N.eqb_spec n x) as [E|E].
  - subst x. destruct (find_s n Sb) eqn:F; cbn [option_map set_rc s_rc]; [lia|].
    apply find_s_None in F. tauto.
  - lia.
Qed.

Lemma erc_of_inc n W x : In n (ids_e W) ->
  erc_of (upd_e n (fun b => set_erc (S (e_rc b)) b) W) x = erc_of W x + cnt x [n].
Proof.
  intro Hin. unfold erc_of. rewrite find_upd_e by (intro; reflexivity). cbn [cnt].
  destruct (N.eqb_spec n x) as [E|E].
  - subst x. destruct (find_e n W) eqn:F; cbn [option_map set_erc e_rc]; [lia|].
    apply find_e_None in F. tauto.
  - lia.
Qed.

Lemma rc_of_dec n r Sb x : rc_of Sb n = S r ->
  rc_of (upd_s n (set_rc r) Sb) x + cnt x [n] = rc_of Sb x.
Proof.
  unfold rc_of. rewrite find_upd_s by (intro; reflexivity). cbn [cnt].
  destruct (N.eqb_spec n x) as [E|E].
  - subst x. destruct (find_s n Sb) eqn:F; cbn [option_map set_rc s_rc]; [lia|discriminate].
  - lia.
Qed.

Lemma erc_of_dec n r W x : erc_of W n = S r ->
  erc_of (upd_e n (set_erc r) W) x + cnt x [n] = erc_of W x.
Proof.
  unfold erc_of. rewrite find_upd_e by (intro; reflexivity). cbn [cnt].
  destruct (N.eqb_spec n x) as [E|E].
  - subst x. destruct (find_e n W) eqn:F; cbn [option_map set_erc e_rc]; [lia|discriminate].
  - lia.
Qed.

Lemma rc_of_keep n f Sb x : (forall b, s_id (f b) = s_id b) -> (forall b, s_rc (f b) = s_rc b) ->
  rc_of (upd_s n f Sb) x = rc_of Sb x.
Proof.
  intros H1 H2. unfold rc_of. rewrite find_upd_s by exact H1.
  destruct (N.eqb n x); [|reflexivity]. destruct (find_s x Sb); cbn [option_map]; [apply H2|reflexivity].
Qed.

Lemma erc_of_keep n f W x : (forall b, e_id (f b) = e_id b) -> (forall b, e_rc (f b) = e_rc b) ->
  erc_of (upd_e n f W) x = erc_of W x.
Proof.
  intros H1 H2. unfold erc_of. rewrite find_upd_e by exact H1.
  destruct (N.eqb n x); [|reflexivity]. destruct (find_e x W); cbn [option_map]; [apply H2|reflexivity].
Qed.

Lemma rc_of_push Sb b x : ~ In (s_id b) (ids_s Sb) ->
  rc_of (Sb ++ [b]) x = rc_of Sb x + (if N.eqb (s_id b) x then s_rc b else 0).
Proof.
  intro Hn. unfold rc_of. rewrite find_s_app. destruct (find_s x Sb) as [y|] eqn:F.
  - destruct (N.eqb_spec (s_id b) x) as [E|E]; [|lia]. exfalso. apply Hn.
    apply find_s_In in F. destruct F as [F1 F2]. rewrite E, <- F2. unfold ids_s. apply in_map. exact F1.
  - destruct (N.eqb (s_id b) x); lia.
Qed.

Lemma erc_of_push W b x : ~ In (e_id b) (ids_e W) ->
  erc_of (W ++ [b]) x = erc_of W x + (if N.eqb (e_id b) x then e_rc b else 0).
Proof.
  intro Hn. unfold erc_of. rewrite find_e_app. destruct (find_e x W) as [y|] eqn:F.
  - destruct (N.eqb_spec (e_id b) x) as [E|E]; [|lia]. exfalso. apply Hn.
    apply find_e_In in F. destruct F as [F1 F2]. rewrite E, <- F2. unfold ids_e. apply in_map. exact F1.
  - destruct (N.eqb (e_id b) x); lia.
Qed.

(* ---------------------------------------------------------------------------------------------- *)
(* transfer of the invariant along a change of handles described by multisets *)

Lemma cnt_nil x : cnt x [] = 0.
Proof. reflexivity. Qed.

Lemma cnt_cons1 x n l : cnt x (n :: l) = cnt x [n] + cnt x l.
Proof. cbn [cnt]. lia. Qed.

Lemma Inv2_transfer s s' ps ms pe me :
  Inv2 s ->
  ids_s (strongs s') = ids_s (strongs s) ->
  ids_e (weaks s') = ids_e (weaks s) ->
  next_s s' = next_s s -> next_e s' = next_e s ->
  keys (weaks s') = keys (weaks s) ->
  wmaps s' = wmaps s ->
  (forall x, rc_of (strongs s') x + cnt x ms = rc_of (strongs s) x + cnt x ps) ->
  (forall x, cnt x (HS s') + cnt x ms = cnt x (HS s) + cnt x ps) ->
  (forall x, erc_of (weaks s') x + cnt x me = erc_of (weaks s) x + cnt x pe) ->
  (forall x, cnt x (HE s') + cnt x me = cnt x (HE s) + cnt x pe) ->
  Inv2 s'.
Proof.
  intros I H1 H2 H3 H4 H5 H6 H7 H8 H9 H10. constructor.
  - rewrite H1. apply I.
  - rewrite H2. apply I.
  - rewrite H1, H3. apply I.
  - rewrite H2, H4. apply I.
  - rewrite H1, H5. apply I.
  - rewrite H6. apply I.
  - intro x. pose proof (H7 x). pose proof (H8 x). pose proof (i2_rcs s I x). lia.
  - intro x. pose proof (H9 x). pose proof (H10 x). pose proof (i2_rce s I x). lia.
Qed.

Ltac sp :=
  unfold gain_ext, lose_ext, gain_exte, lose_exte, gain_kid, lose_kid, gain_stored, lose_stored,
         inc_s, inc_e, push_s, push_e, bump_s, bump_e,
         set_strongs, set_weaks, set_wmaps, set_ext_s, set_ext_e;
  cbn [strongs weaks wmaps ext_s ext_e next_s next_e colls poisoned].

Ltac idr := intro; reflexivity.

Lemma dec_s_shape s n : 0 < rc_of (strongs s) n ->
  exists r, rc_of (strongs s) n = S r /\
            dec_s n s = set_strongs (upd_s n (set_rc r) (strongs s)) s.
Proof.
  unfold rc_of, dec_s. destruct (find_s n (strongs s)) as [b|]; [|lia].
  destruct (s_rc b) as [|r]; [lia|]. intros _. exists r. split; reflexivity.
Qed.

Lemma dec_e_shape s n : 0 < erc_of (weaks s) n ->
  exists r, erc_of (weaks s) n = S r /\
            dec_e n s = set_weaks (upd_e n (set_erc r) (weaks s)) s.
Proof.
  unfold erc_of, dec_e. destruct (find_e n (weaks s)) as [b|]; [|lia].
  destruct (e_rc b) as [|r]; [lia|]. intros _. exists r. split; reflexivity.
Qed.

(* ---------------------------------------------------------------------------------------------- *)
(* the handle-moving primitives *)

Lemma gain_ext_inv n s : Inv2 s -> In n (ids_s (strongs s)) ->
  Inv2 (gain_ext n s) /\ poisoned (gain_ext n s) = poisoned s.
Proof.
  intros I Hn. split; [|reflexivity].
  apply (Inv2_transfer s _ [n] [] [] [] I); try reflexivity.
  - sp. apply ids_upd_s. idr.
  - intro x. sp. rewrite rc_of_inc by exact Hn. rewrite cnt_nil. lia.
  - intro x. unfold HS, inner_s. sp. rewrite fm_upd_same by idr.
    rewrite !cnt_app, (cnt_cons1 x n (ext_s s)), cnt_nil. lia.
  - intro x. unfold HE, inner_e. sp. rewrite fm_upd_same by idr. reflexivity.
Qed.

Lemma lose_ext_inv n s : Inv2 s -> In n (ext_s s) ->
  Inv2 (lose_ext n s) /\ poisoned (lose_ext n s) = poisoned s.
Proof.
  intros I Hn.
  assert (Hp : 0 < rc_of (strongs s) n).
  { rewrite (i2_rcs s I). apply cnt_pos_In. unfold HS. apply in_or_app. left. exact Hn. }
  destruct (dec_s_shape s n Hp) as [r [Hr E]]. unfold lose_ext. rewrite E.
  split; [|reflexivity].
  apply (Inv2_transfer s _ [] [n] [] [] I); try reflexivity.
  - sp. apply ids_upd_s. idr.
  - intro x. sp. rewrite cnt_nil. rewrite (rc_of_dec n r _ x Hr). lia.
  - intro x. unfold HS, inner_s. sp. rewrite fm_upd_same by idr.
    rewrite !cnt_app, cnt_nil. pose proof (cnt_remove1_ind x n (ext_s s) Hn). lia.
  - intro x. unfold HE, inner_e. sp. rewrite fm_upd_same by idr. reflexivity.
Qed.

Lemma gain_exte_inv n s : Inv2 s -> In n (ids_e (weaks s)) ->
  Inv2 (gain_exte n s) /\ poisoned (gain_exte n s) = poisoned s.
Proof.
  intros I Hn. split; [|reflexivity].
  apply (Inv2_transfer s _ [] [] [n] [] I); try reflexivity.
  - sp. apply ids_upd_e. idr.
  - sp. unfold keys. apply fm_upd_e_same. idr.
  - intro x. unfold HS, inner_s. sp. rewrite fm_upd_e_same by idr. reflexivity.
  - intro x. sp. rewrite erc_of_inc by exact Hn. rewrite cnt_nil. lia.
  - intro x. unfold HE. sp. rewrite !cnt_app, (cnt_cons1 x n (ext_e s)), cnt_nil. lia.
Qed.

Lemma lose_exte_inv n s : Inv2 s -> In n (ext_e s) ->
  Inv2 (lose_exte n s) /\ poisoned (lose_exte n s) = poisoned s.
Proof.
  intros I Hn.
  assert (Hp : 0 < erc_of (weaks s) n).
  { rewrite (i2_rce s I). apply cnt_pos_In. unfold HE. apply in_or_app. left. exact Hn. }
  destruct (dec_e_shape s n Hp) as [r [Hr E]]. unfold lose_exte. rewrite E.
  split; [|reflexivity].
  apply (Inv2_transfer s _ [] [] [] [n] I); try reflexivity.
  - sp. apply ids_upd_e. idr.
  - sp. unfold keys. apply fm_upd_e_same. idr.
  - intro x. unfold HS, inner_s. sp. rewrite fm_upd_e_same by idr. reflexivity.
  - intro x. sp. rewrite cnt_nil. rewrite (erc_of_dec n r _ x Hr). lia.
  - intro x. unfold HE. sp.
    rewrite !cnt_app, cnt_nil. pose proof (cnt_remove1_ind x n (ext_e s) Hn). lia.
Qed.

Lemma gain_kid_inv a n s : Inv2 s -> In a (ids_s (strongs s)) -> In n (ids_s (strongs s)) ->
  Inv2 (gain_kid a n s) /\ poisoned (gain_kid a n s) = poisoned s.
Proof.
  intros I Ha Hn. split; [|reflexivity].
  apply (Inv2_transfer s _ [n] [] [] [] I); try reflexivity.
  - sp. rewrite !ids_upd_s by idr. reflexivity.
  - intro x. sp. rewrite rc_of_keep by idr. rewrite rc_of_inc by exact Hn. rewrite cnt_nil. lia.
  - intro x. unfold HS, inner_s. sp. rewrite !cnt_app.
    rewrite (cnt_fm_upd_app s_kids n _ a _ x).
    + rewrite fm_upd_same by idr. rewrite cnt_nil. lia.
    + idr.
    + rewrite ids_upd_s by idr. apply I.
    + rewrite ids_upd_s by idr. exact Ha.
  - intro x. unfold HE, inner_e. sp. rewrite !fm_upd_same by idr. reflexivity.
Qed.

Lemma gain_stored_inv a n s : Inv2 s -> In a (ids_s (strongs s)) -> In n (ids_e (weaks s)) ->
  Inv2 (gain_stored a n s) /\ poisoned (gain_stored a n s) = poisoned s.
Proof.
  intros I Ha Hn. split; [|reflexivity].
  apply (Inv2_transfer s _ [] [] [n] [] I); try reflexivity.
  - sp. rewrite !ids_upd_s by idr. reflexivity.
  - sp. apply ids_upd_e. idr.
  - sp. unfold keys. apply fm_upd_e_same. idr.
  - intro x. sp. rewrite rc_of_keep by idr. reflexivity.
  - intro x. unfold HS, inner_s. sp. rewrite fm_upd_same by idr. rewrite fm_upd_e_same by idr.
    reflexivity.
  - intro x. sp. rewrite erc_of_inc by exact Hn. rewrite cnt_nil. lia.
  - intro x. unfold HE, inner_e. sp. rewrite !cnt_app.
    rewrite (cnt_fm_upd_app s_ephs n _ a _ x).
    + rewrite cnt_nil. lia.
    + idr.
    + apply I.
    + exact Ha.
Qed.

Lemma lose_kid_inv a n s b : Inv2 s -> find_s a (strongs s) = Some b -> In n (s_kids b) ->
  Inv2 (lose_kid a n s) /\ poisoned (lose_kid a n s) = poisoned s.
Proof.
  intros I Hb Hn.
  assert (Hp : 0 < rc_of (strongs s) n).
  { rewrite (i2_rcs s I). apply cnt_pos_In. unfold HS, inner_s. rewrite !in_app_iff. right. left.
    apply in_flat_map. exists b. split; [apply (find_s_In _ _ _ Hb)|exact Hn]. }
  pose (rm := fun b => set_kids (remove1 n (s_kids b)) b).
  pose (Sb1 := upd_s a rm (strongs s)).
  pose (s1 := set_strongs Sb1 s).
  assert (Hp1 : 0 < rc_of (strongs s1) n).
  { cbn [s1 strongs set_strongs]. unfold Sb1. rewrite rc_of_keep by idr. exact Hp. }
  destruct (dec_s_shape s1 n Hp1) as [r [Hr E]].
  change (lose_kid a n s) with (dec_s n s1). rewrite E.
  split; [|reflexivity].
  change (strongs s1) with Sb1 in *. subst s1.
  apply (Inv2_transfer s _ [] [n] [] [] I); try reflexivity.
  - sp. rewrite ids_upd_s by idr. unfold Sb1. rewrite ids_upd_s by idr. reflexivity.
  - intro x. sp. pose proof (rc_of_dec n r Sb1 x Hr) as P. unfold Sb1 in P at 2.
    rewrite (rc_of_keep a rm) in P by idr. rewrite cnt_nil. lia.
  - intro x. unfold HS, inner_s. sp. rewrite fm_upd_same by idr. rewrite !cnt_app.
    pose proof (cnt_fm_upd_rem s_kids n rm a (strongs s) x b) as P. fold Sb1 in P.
    rewrite cnt_nil. rewrite <- P; [lia|idr|apply I|exact Hb|exact Hn].
  - intro x. unfold HE, inner_e. sp. rewrite fm_upd_same by idr. unfold Sb1.
    rewrite fm_upd_same by idr. reflexivity.
Qed.

Lemma lose_stored_inv a n s b : Inv2 s -> find_s a (strongs s) = Some b -> In n (s_ephs b) ->
  Inv2 (lose_stored a n s) /\ poisoned (lose_stored a n s) = poisoned s.
Proof.
  intros I Hb Hn.
  assert (Hp : 0 < erc_of (weaks s) n).
  { rewrite (i2_rce s I). apply cnt_pos_In. unfold HE, inner_e. rewrite !in_app_iff. right. left.
    apply in_flat_map. exists b. split; [apply (find_s_In _ _ _ Hb)|exact Hn]. }
  pose (rm := fun b => set_ephs (remove1 n (s_ephs b)) b).
  pose (Sb1 := upd_s a rm (strongs s)).
  pose (s1 := set_strongs Sb1 s).
  destruct (dec_e_shape s1 n Hp) as [r [Hr E]].
  change (lose_stored a n s) with (dec_e n s1). rewrite E.
  split; [|reflexivity].
  change (weaks s1) with (weaks s) in *. subst s1.
  apply (Inv2_transfer s _ [] [] [] [n] I); try reflexivity.
  - sp. unfold Sb1. rewrite ids_upd_s by idr. reflexivity.
  - sp. apply ids_upd_e. idr.
  - sp. unfold keys. apply fm_upd_e_same. idr.
  - intro x. sp. unfold Sb1. rewrite rc_of_keep by idr. reflexivity.
  - intro x. unfold HS, inner_s. sp. unfold Sb1. rewrite fm_upd_same by idr.
    rewrite fm_upd_e_same by idr. reflexivity.
  - intro x. sp. rewrite cnt_nil. rewrite (erc_of_dec n r _ x Hr). lia.
  - intro x. unfold HE, inner_e. sp. rewrite !cnt_app.
    pose proof (cnt_fm_upd_rem s_ephs n rm a (strongs s) x b) as P. fold Sb1 in P.
    rewrite cnt_nil. rewrite <- P; [lia|idr|apply I|exact Hb|exact Hn].
Qed.

(* ---------------------------------------------------------------------------------------------- *)
(* allocation *)

Lemma NoDup_snoc (l : list id) n : NoDup l -> ~ In n l -> NoDup (l ++ [n]).
Proof.
  induction l as [|x t IH]; simpl; intros H Hn.
  - constructor; [tauto|constructor].
  - inversion H; subst. constructor.
    + rewrite in_app_iff. simpl. intuition.
    + apply IH; tauto.
Qed.

Lemma fresh_s s : Inv2 s -> ~ In (next_s s) (ids_s (strongs s)).
Proof. intros I H. apply (i2_frs s I) in H. apply N.lt_irrefl in H. exact H. Qed.

Lemma fresh_e s : Inv2 s -> ~ In (next_e s) (ids_e (weaks s)).
Proof. intros I H. apply (i2_fre s I) in H. apply N.lt_irrefl in H. exact H. Qed.

Definition new_s (f : nat) (mp : bool) (s : state) : state :=
  set_ext_s (next_s s :: ext_s s) (bump_s (push_s (mkS (next_s s) 1 [] [] f mp) s)).

Lemma new_s_inv f mp s : Inv2 s -> Inv2 (new_s f mp s).
Proof.
  intro I. pose proof (fresh_s s I) as Hf. unfold new_s. constructor; sp.
  - unfold ids_s. rewrite map_app. apply NoDup_snoc; [apply I|exact Hf].
  - apply I.
  - intro x. unfold ids_s. rewrite map_app, in_app_iff. intros [H|H].
    + apply N.lt_lt_succ_r. apply (i2_frs s I). exact H.
    + cbn in H. destruct H as [H|[]]. subst x. apply N.lt_succ_diag_r.
  - apply I.
  - intros k Hk. unfold ids_s. rewrite map_app. apply in_or_app. left. apply (i2_keys s I). exact Hk.
  - apply I.
  - intro x. rewrite rc_of_push by exact Hf. cbn [s_id s_rc]. unfold HS, inner_s. sp.
    rewrite flat_map_app. cbn [flat_map s_kids].
    rewrite (i2_rcs s I x). unfold HS, inner_s. rewrite !cnt_app.
    rewrite (cnt_cons1 x (next_s s) (ext_s s)). cbn [cnt]. lia.
  - intro x. unfold HE, inner_e. sp. rewrite flat_map_app. cbn [flat_map s_ephs].
    rewrite (i2_rce s I x). unfold HE, inner_e. rewrite !cnt_app. cbn [cnt]. lia.
Qed.

Inductive loc := LExt | LWm | LSto (a : id).

Definition new_e (k : id) (vo : option id) (u : bool) (l : loc) (s : state) : state :=
  let e := next_e s in
  let s1 := match vo with Some v => inc_s v s | None => s end in
  let s2 := bump_e (push_e (mkE e 1 (Some (k, vo)) u) s1) in
  match l with
  | LExt => set_ext_e (e :: ext_e s2) s2
  | LWm => set_wmaps (wmaps s2 ++ [e]) s2
  | LSto a => set_strongs (upd_s a (fun b => set_ephs (s_ephs b ++ [e]) b) (strongs s2)) s2
  end.

Lemma new_e_inv k vo u l s : Inv2 s ->
  In k (ids_s (strongs s)) ->
  (forall v, vo = Some v -> In v (ids_s (strongs s))) ->
  (forall a, l = LSto a -> In a (ids_s (strongs s))) ->
  Inv2 (new_e k vo u l s) /\ poisoned (new_e k vo u l s) = poisoned s.
Proof.
  intros I Hk Hv Ha. pose proof (fresh_e s I) as Hf.
  split; [|destruct vo; destruct l; reflexivity].
  assert (Hwm : ~ In (next_e s) (wmaps s)).
  { intro H. apply Hf. apply (Inv2_HE_In s _ I). unfold HE. rewrite !in_app_iff. tauto. }
  destruct vo as [v|]; [specialize (Hv v eq_refl)|clear Hv];
  (destruct l as [| |a]; [| |specialize (Ha a eq_refl)]);
  (unfold new_e; constructor; sp;
   [ rewrite ?ids_upd_s by idr; apply I
   | unfold ids_e; rewrite map_app; apply NoDup_snoc; [apply I|exact Hf]
   | rewrite ?ids_upd_s by idr; apply I
   | intro x; unfold ids_e; rewrite map_app, in_app_iff; intros [H|H];
     [ apply N.lt_lt_succ_r; apply (i2_fre s I); exact H
     | cbn in H; destruct H as [H|[]]; subst x; apply N.lt_succ_diag_r ]
   | intro x; rewrite ?ids_upd_s by idr; unfold keys; rewrite flat_map_app, in_app_iff;
     intros [H|H];
     [ apply (i2_keys s I); exact H | cbn in H; destruct H as [H|[]]; subst x; exact Hk ]
   | first [ apply NoDup_snoc; [apply I|exact Hwm] | apply I ]
   | intro x; rewrite ?rc_of_keep by idr; try (rewrite rc_of_inc by exact Hv);
     unfold HS, inner_s; sp; rewrite ?fm_upd_same by idr; rewrite flat_map_app;
     cbn [flat_map eph_value e_data]; rewrite (i2_rcs s I x); unfold HS, inner_s;
     rewrite !cnt_app; rewrite ?cnt_nil; lia
   | intro x; rewrite erc_of_push by exact Hf; cbn [e_id e_rc]; unfold HE, inner_e; sp;
     rewrite (i2_rce s I x); unfold HE, inner_e; rewrite !cnt_app;
     try (rewrite (cnt_fm_upd_app s_ephs (next_e s) _ a _ x);
          [ | idr | rewrite ?ids_upd_s by idr; apply I | rewrite ?ids_upd_s by idr; exact Ha ]);
     rewrite ?fm_upd_same by idr;
     rewrite ?(cnt_cons1 x (next_e s) (ext_e s)); cbn [cnt]; lia ]).
Qed.

(* ---------------------------------------------------------------------------------------------- *)
(* what the guards of the operations give *)

Lemma ext_In_ids s n : Inv2 s -> In n (ext_s s) -> In n (ids_s (strongs s)).
Proof. intros I H. apply (Inv2_HS_In s n I). unfold HS. apply in_or_app. left. exact H. Qed.

Lemma exte_In_ids s n : Inv2 s -> In n (ext_e s) -> In n (ids_e (weaks s)).
Proof. intros I H. apply (Inv2_HE_In s n I). unfold HE. apply in_or_app. left. exact H. Qed.

Lemma held_In s n : held s n = true -> In n (ext_s s).
Proof. unfold held. apply memb_In. Qed.

Lemma held_node_In s n : held_node s n = true -> In n (ext_s s).
Proof. unfold held_node. intro H. apply andb_true_iff in H. apply held_In. tauto. Qed.

Lemma held_map_In s n : held_map s n = true -> In n (ext_s s).
Proof. unfold held_map. intro H. apply andb_true_iff in H. apply held_In. tauto. Qed.

Lemma helde_In s n : helde s n = true -> In n (ext_e s).
Proof. unfold helde. apply memb_In. Qed.

Lemma kids_of_In s a n : memb n (kids_of s a) = true ->
  exists b, find_s a (strongs s) = Some b /\ In n (s_kids b).
Proof.
  unfold kids_of. destruct (find_s a (strongs s)) as [b|]; intro H.
  - exists b. split; [reflexivity|apply memb_In; exact H].
  - discriminate H.
Qed.

Lemma In_ephs_of s a n : In n (ephs_of s a) ->
  exists b, find_s a (strongs s) = Some b /\ In n (s_ephs b).
Proof.
  unfold ephs_of. destruct (find_s a (strongs s)) as [b|]; intro H.
  - exists b. split; [reflexivity|exact H].
  - destruct H.
Qed.

Lemma entry_of_In s m k old : entry_of s m k = Some old -> In old (ephs_of s m).
Proof. unfold entry_of. intro H. apply find_some in H. tauto. Qed.

Lemma kid_In_ids s a b n : Inv2 s -> find_s a (strongs s) = Some b -> In n (s_kids b) ->
  In n (ids_s (strongs s)).
Proof.
  intros I Hb Hn. apply (Inv2_HS_In s n I). unfold HS, inner_s. rewrite !in_app_iff. right. left.
  apply in_flat_map. exists b. split; [apply (find_s_In _ _ _ Hb)|exact Hn].
Qed.

Lemma eph_In_ids s a b n : Inv2 s -> find_s a (strongs s) = Some b -> In n (s_ephs b) ->
  In n (ids_e (weaks s)).
Proof.
  intros I Hb Hn. apply (Inv2_HE_In s n I). unfold HE, inner_e. rewrite !in_app_iff. right. left.
  apply in_flat_map. exists b. split; [apply (find_s_In _ _ _ Hb)|exact Hn].
Qed.

Lemma data_key s e k vo : Inv2 s -> data_of s e = Some (k, vo) -> In k (ids_s (strongs s)).
Proof.
  intros I. unfold data_of. destruct (find_e e (weaks s)) as [x|] eqn:F; [|discriminate].
  intro D. apply (i2_keys s I). unfold keys. apply in_flat_map. exists x.
  split; [apply (find_e_In _ _ _ F)|]. unfold eph_key. rewrite D. left. reflexivity.
Qed.

Lemma data_val s e k v : Inv2 s -> data_of s e = Some (k, Some v) -> In v (ids_s (strongs s)).
Proof.
  intros I. unfold data_of. destruct (find_e e (weaks s)) as [x|] eqn:F; [|discriminate].
  intro D. apply (Inv2_HS_In s v I). unfold HS, inner_s. rewrite !in_app_iff. right. right.
  apply in_flat_map. exists x.
  split; [apply (find_e_In _ _ _ F)|]. unfold eph_value. rewrite D. left. reflexivity.
Qed.

Lemma strongs_dec_e n s : strongs (dec_e n s) = strongs s.
Proof. unfold dec_e. destruct (find_e n (weaks s)) as [x|]; [destruct (e_rc x)|]; reflexivity. Qed.

Lemma upd_s_push_fresh n f Sb b : ~ In n (ids_s Sb) -> s_id b = n ->
  upd_s n f (Sb ++ [b]) = Sb ++ [f b].
Proof.
  intros Hn Hb. unfold upd_s. rewrite map_app. fold (upd_s n f Sb). rewrite (upd_s_notin _ _ _ Hn).
  cbn [map]. rewrite Hb, N.eqb_refl. reflexivity.
Qed.

(* ---------------------------------------------------------------------------------------------- *)
(* the operations *)

Lemma step_inv2 s o : o <> Collect -> Inv2 s ->
  Inv2 (fst (step s o)) /\ poisoned (fst (step s o)) = poisoned s.
Proof.
  intros Ho I. pose proof (fun n => ext_In_ids s n I) as XS.
  pose proof (fun n => exte_In_ids s n I) as XE.
  assert (Triv : Inv2 s /\ poisoned s = poisoned s) by (split; [exact I|reflexivity]).
  destruct o; unfold step.
  - (* Alloc *)
    change (Inv2 (new_s fin false s) /\ poisoned (new_s fin false s) = poisoned s).
    split; [apply new_s_inv; exact I|reflexivity].
  - (* AllocCyclic *)
    cbn [fst].
    pose proof (new_s_inv fin false s I) as I0.
    assert (Hin : In (next_s s) (ids_s (strongs (new_s fin false s)))).
    { unfold new_s. sp. unfold ids_s. rewrite map_app. apply in_or_app. right. left. reflexivity. }
    destruct (new_e_inv (next_s s) None true (LSto (next_s s)) (new_s fin false s) I0 Hin) as [I1 P1].
    { intros v Hv. discriminate Hv. }
    { intros a Ha. injection Ha as <-. exact Hin. }
    match goal with |- Inv2 ?X /\ _ =>
      assert (E : X = new_e (next_s s) None true (LSto (next_s s)) (new_s fin false s)) end.
    { unfold new_e, new_s. sp. f_equal.
      rewrite (upd_s_push_fresh (next_s s) _ (strongs s) (mkS (next_s s) 1 [] [] fin false));
        [reflexivity|apply fresh_s; exact I|reflexivity]. }
    rewrite E. split; [exact I1|exact P1].
  - (* Link *)
    destruct (held_node s a && held s b) eqn:G; cbn [fst]; [|exact Triv].
    apply andb_true_iff in G. destruct G as [G1 G2].
    apply gain_kid_inv; [exact I|apply XS, held_node_In, G1|apply XS, held_In, G2].
  - (* Unlink *)
    destruct (held_node s a && memb b (kids_of s a)) eqn:G; cbn [fst]; [|exact Triv].
    apply andb_true_iff in G. destruct G as [G1 G2].
    apply kids_of_In in G2. destruct G2 as [bx [F Hb]].
    apply (lose_kid_inv a b s bx I F Hb).
  - (* Load *)
    destruct (held_node s a && memb b (kids_of s a)) eqn:G; cbn [fst]; [|exact Triv].
    apply andb_true_iff in G. destruct G as [G1 G2].
    apply kids_of_In in G2. destruct G2 as [bx [F Hb]].
    apply gain_ext_inv; [exact I|]. apply (kid_In_ids s a bx b I F Hb).
  - (* Clone *)
    destruct (held s a) eqn:G; cbn [fst]; [|exact Triv].
    apply gain_ext_inv; [exact I|apply XS, held_In, G].
  - (* Drop *)
    destruct (held s a) eqn:G; cbn [fst]; [|exact Triv].
    apply lose_ext_inv; [exact I|apply held_In, G].
  - (* MkWeak *)
    destruct (held_node s a) eqn:G; cbn [fst]; [|exact Triv].
    change (Inv2 (new_e a None true LExt s) /\ poisoned (new_e a None true LExt s) = poisoned s).
    apply new_e_inv; [exact I|apply XS, held_node_In, G|intros v Hv; discriminate Hv
                     |intros x Hx; discriminate Hx].
  - (* MkEph *)
    destruct (held_node s k && held_node s v) eqn:G; cbn [fst]; [|exact Triv].
    apply andb_true_iff in G. destruct G as [G1 G2].
    change (Inv2 (new_e k (Some v) false LExt s) /\
            poisoned (new_e k (Some v) false LExt s) = poisoned s).
    apply new_e_inv; [exact I|apply XS, held_node_In, G1
                     |intros v' Hv; injection Hv as <-; apply XS, held_node_In, G2
                     |intros x Hx; discriminate Hx].
  - (* CloneE *)
    destruct (helde s e) eqn:G; cbn [fst]; [|exact Triv].
    apply gain_exte_inv; [exact I|apply XE, helde_In, G].
  - (* DropE *)
    destruct (helde s e) eqn:G; cbn [fst]; [|exact Triv].
    apply lose_exte_inv; [exact I|apply helde_In, G].
  - (* StoreE *)
    destruct (held_node s a && helde s e) eqn:G; cbn [fst]; [|exact Triv].
    apply andb_true_iff in G. destruct G as [G1 G2].
    apply gain_stored_inv; [exact I|apply XS, held_node_In, G1|apply XE, helde_In, G2].
  - (* UnstoreE *)
    destruct (held_node s a && memb e (ephs_of s a)) eqn:G; cbn [fst]; [|exact Triv].
    apply andb_true_iff in G. destruct G as [G1 G2].
    apply memb_In, In_ephs_of in G2. destruct G2 as [bx [F Hb]].
    apply (lose_stored_inv a e s bx I F Hb).
  - (* LoadE *)
    destruct (held_node s a && memb e (ephs_of s a)) eqn:G; cbn [fst]; [|exact Triv].
    apply andb_true_iff in G. destruct G as [G1 G2].
    apply memb_In, In_ephs_of in G2. destruct G2 as [bx [F Hb]].
    apply gain_exte_inv; [exact I|]. apply (eph_In_ids s a bx e I F Hb).
  - (* Upgrade *)
    destruct (helde s e) eqn:G; cbn [fst]; [|exact Triv].
    destruct (data_of s e) as [[k vo]|] eqn:D; cbn [fst]; [|exact Triv].
    apply gain_ext_inv; [exact I|]. apply (data_key s e k vo I D).
  - (* EphValue *)
    destruct (helde s e) eqn:G; cbn [fst]; [|exact Triv].
    destruct (data_of s e) as [[k [v|]]|] eqn:D; cbn [fst]; try exact Triv.
    apply gain_ext_inv; [exact I|]. apply (data_val s e k v I D).
  - (* WmNew *)
    cbn [fst].
    pose proof (new_s_inv 0 true s I) as I0.
    assert (Hin : In (next_s s) (ids_s (strongs (new_s 0 true s)))).
    { unfold new_s. sp. unfold ids_s. rewrite map_app. apply in_or_app. right. left. reflexivity. }
    destruct (new_e_inv (next_s s) None true LWm (new_s 0 true s) I0 Hin) as [I1 P1].
    { intros v Hv. discriminate Hv. }
    { intros a Ha. discriminate Ha. }
    split; [exact I1|exact P1].
  - (* WmInsert *)
    destruct (held_map s m && held_node s k && held_node s v) eqn:G; cbn [fst]; [|exact Triv].
    apply andb_true_iff in G. destruct G as [G G3]. apply andb_true_iff in G. destruct G as [G1 G2].
    set (s1 := match entry_of s m k with Some old => lose_stored m old s | None => s end).
    assert (H1 : (Inv2 s1 /\ poisoned s1 = poisoned s) /\
                 ids_s (strongs s1) = ids_s (strongs s)).
    { unfold s1. destruct (entry_of s m k) as [old|] eqn:En.
      - apply entry_of_In, In_ephs_of in En. destruct En as [bx [F Hb]]. split.
        + apply (lose_stored_inv m old s bx I F Hb).
        + unfold lose_stored. rewrite strongs_dec_e. sp. apply ids_upd_s. idr.
      - split; [exact Triv|reflexivity]. }
    destruct H1 as [[I1 P1] Hids].
    change (Inv2 (new_e k (Some v) false (LSto m) s1) /\
            poisoned (new_e k (Some v) false (LSto m) s1) = poisoned s).
    rewrite <- P1. apply new_e_inv.
    + exact I1.
    + rewrite Hids. apply XS, held_node_In, G2.
    + intros v' Hv. injection Hv as <-. rewrite Hids. apply XS, held_node_In, G3.
    + intros a Ha. injection Ha as <-. rewrite Hids. apply XS, held_map_In, G1.
  - (* WmRemove *)
    destruct (held_map s m && held_node s k) eqn:G; cbn [fst]; [|exact Triv].
    destruct (entry_of s m k) as [old|] eqn:En; cbn [fst]; [|exact Triv].
    apply entry_of_In, In_ephs_of in En. destruct En as [bx [F Hb]].
    apply (lose_stored_inv m old s bx I F Hb).
  - (* WmGet *)
    destruct (held_map s m && held_node s k); cbn [fst]; [|exact Triv].
    destruct (entry_of s m k) as [e|]; cbn [fst]; [|exact Triv].
    destruct (data_of s e) as [[k' [v|]]|]; exact Triv.
  - (* Read *)
    destruct (held_node s a); exact Triv.
  - congruence.
Qed.

Theorem step_inv s o :
  o <> Collect -> Inv s -> poisoned s = false ->
  Inv (fst (step s o)) /\ poisoned (fst (step s o)) = false.
Proof.
  intros Ho I P. destruct (step_inv2 s o Ho (Inv_Inv2 s I)) as [I2 P2].
  split; [apply Inv2_Inv; exact I2|rewrite P2; exact P].
Qed.

(* ---------------------------------------------------------------------------------------------- *)
(* frame facts: the collection counter and the finalizer fields *)

Lemma colls_dec_s n s : colls (dec_s n s) = colls s.
Proof. unfold dec_s. destruct (find_s n (strongs s)) as [b|]; [destruct (s_rc b)|]; reflexivity. Qed.

Lemma colls_dec_e n s : colls (dec_e n s) = colls s.
Proof. unfold dec_e. destruct (find_e n (weaks s)) as [x|]; [destruct (e_rc x)|]; reflexivity. Qed.

Ltac brk :=
  repeat match goal with
         | |- context [if ?c then _ else _] => destruct c
         | |- context [match entry_of ?s ?m ?k with _ => _ end] => destruct (entry_of s m k)
         | |- context [match data_of ?s ?e with _ => _ end] =>
             let k := fresh "k" in let v := fresh "v" in
             destruct (data_of s e) as [[k [v|]]|]
         end.

Theorem step_colls s o : o <> Collect -> colls (fst (step s o)) = colls s.
Proof.
  intro Ho. destruct o; try congruence; unfold step; brk; cbn [fst]; sp;
    rewrite ?colls_dec_s, ?colls_dec_e; reflexivity.
Qed.

Definition fins (Sb : list sbox) : list nat := map s_fin Sb.

Lemma fins_upd_s n f Sb : (forall b, s_fin (f b) = s_fin b) -> fins (upd_s n f Sb) = fins Sb.
Proof.
  intro Hf. unfold fins, upd_s. rewrite map_map. apply map_ext. intro b.
  destruct (N.eqb (s_id b) n); [apply Hf|reflexivity].
Qed.

Lemma fins_dec_s n s : fins (strongs (dec_s n s)) = fins (strongs s).
Proof.
  unfold dec_s. destruct (find_s n (strongs s)) as [b|]; [destruct (s_rc b)|]; try reflexivity.
  cbn [strongs set_strongs]. apply fins_upd_s. idr.
Qed.

Lemma no_res_fins s : no_res s <-> (forall x, In x (fins (strongs s)) -> x = 0).
Proof.
  unfold no_res, fins. split.
  - intros H x Hx. apply in_map_iff in Hx. destruct Hx as [b [E Hb]]. subst x. apply H. exact Hb.
  - intros H b Hb. apply H. apply in_map. exact Hb.
Qed.

Lemma no_res_same s s' : fins (strongs s') = fins (strongs s) -> no_res s -> no_res s'.
Proof. intros E H. apply no_res_fins. rewrite E. apply no_res_fins. exact H. Qed.

Lemma no_res_snoc s s' : fins (strongs s') = fins (strongs s) ++ [0] -> no_res s -> no_res s'.
Proof.
  intros E H. apply no_res_fins. rewrite E. intros x Hx. apply in_app_or in Hx.
  destruct Hx as [Hx|[Hx|[]]]; [|symmetry; exact Hx]. revert x Hx. apply no_res_fins. exact H.
Qed.

Ltac fins_tac :=
  repeat first [ rewrite fins_dec_s | rewrite strongs_dec_e | rewrite fins_upd_s by idr
               | progress sp ].

Theorem step_no_res s o : o <> Collect -> op_no_res o -> no_res s -> no_res (fst (step s o)).
Proof.
  intros Ho Hop H. destruct o; try congruence; unfold step; brk; cbn [fst]; try exact H.
  all: try (apply (no_res_same s); [|exact H]; fins_tac; reflexivity).
  all: cbn [op_no_res] in Hop; subst.
  all: apply (no_res_snoc s); [|exact H]; fins_tac; unfold fins; rewrite map_app; reflexivity.
Qed.

