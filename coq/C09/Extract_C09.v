(* Extraction of the executable collector model (ExtrOcamlBasic only: nat, positive, N stay the
   extracted inductive datatypes; no Extract Constant / Extract Inductive of our own). *)
From Coq Require Import ExtrOcamlBasic.
From C09 Require Import GcModel.
Extraction Language OCaml.
Extraction "gcmodel.ml" GcModel.init GcModel.step GcModel.collect GcModel.dangling.
