(* Extraction of the executable collector model (ExtrOcamlBasic only: nat, positive, N stay the
   extracted inductive datatypes; no Extract Constant / Extract Inductive of our own).
   coqc runs with /verif/coq as working directory (Makefile, vlib and ocaml/C09/build.sh alike); the
   output directory is git-ignored and is created by tools/gen_c09.py / build.sh. *)
From Coq Require Import ExtrOcamlBasic.
From C09 Require Import GcModel.
Extraction Language OCaml.
Extraction "../ocaml/C09/_build/gcmodel.ml" GcModel.init GcModel.step GcModel.collect GcModel.dangling.
