(* C09 / C10 — executable model of boa_gc (core/gc/src), transliterated phase by phase.

   Definitions only (this file must keep compiling when a proof breaks).

   Representation choices (justified in HeaderRefine.v and design.d/C09.md):
   * a GcHeader is the pair (ref_count, non_root_count-with-mark-bit).  The model keeps `ref_count`
     in the box, and the two transient components of the second word as collection-local tables:
     `nrc` tables (computed by trace_non_roots, used by is_rooted, reset by sweep) and mark sets
     (set by mark(), kept from the first to the second mark_heap, cleared by sweep's unmark()).
     HeaderRefine.v proves from the regenerated gc_header.rs that the mark bit and the count are
     independent components of that word (mark/unmark keep the count, inc/reset keep the mark).
   * strong boxes are `BoaGc::strongs` in allocation order (Vec::push / retain keep the order);
     a weak map's `Gc<GcRefCell<RawWeakMap>>` is a strong box with `s_map = true` whose stored
     ephemeron handles are the table entries; `wmaps` is `BoaGc::weak_maps`: each `WeakMapBox` is
     represented by the id of the ephemeron box of its `WeakGc`.
   * external handles (`ext_s`, `ext_e`) are the handles on the Rust stack of the mutator.
   * `poisoned` records that the Rust code would have panicked (ref-count underflow in a debug
     build) or left a dangling pointer behind: from then on the model no longer tracks boa. *)
From Coq Require Import List Arith Bool PeanoNat NArith.
Import ListNotations.

(* box identifiers: allocation sequence numbers (binary, so that the extracted model stays fast) *)
Definition id := N.

Record sbox := mkS {
  s_id : id;
  s_rc : nat;                 (* GcHeader::ref_count *)
  s_kids : list id;          (* Gc handles stored in the payload (to nodes or to weak-map boxes) *)
  s_ephs : list id;           (* Ephemeron / WeakGc handles stored in the payload; table entries of a map *)
  s_fin : nat;                (* Finalize::finalize of the payload clones every stored Gc handle s_fin times
                                 into the global root list (0 = no resurrection) *)
  s_map : bool                (* GcRefCell<RawWeakMap> payload *)
}.

Record ebox := mkE {
  e_id : id;
  e_rc : nat;
  e_data : option (id * option id);  (* Data { key, value }: value = Some v for a Gc<Node> value, None for () *)
  e_unit : bool                      (* the value type is () (WeakGc): only used to size the box *)
}.

Record state := mkSt {
  strongs : list sbox;
  weaks : list ebox;
  wmaps : list id;
  ext_s : list id;
  ext_e : list id;
  next_s : id;
  next_e : id;
  colls : nat;
  poisoned : bool
}.

Definition init : state := mkSt [] [] [] [] [] 0%N 0%N 0 false.

(* ---------------------------------------------------------------------------------------------- *)
(* small list helpers *)

Definition memb (n : id) (l : list id) : bool := existsb (N.eqb n) l.

Fixpoint remove1 (n : id) (l : list id) : list id :=
  match l with
  | [] => []
  | x :: t => if N.eqb n x then t else x :: remove1 n t
  end.

Definition find_s (n : id) (Sb : list sbox) : option sbox := find (fun b => N.eqb (s_id b) n) Sb.
Definition find_e (n : id) (W : list ebox) : option ebox := find (fun e => N.eqb (e_id e) n) W.

Definition upd_s (n : id) (f : sbox -> sbox) (Sb : list sbox) : list sbox :=
  map (fun b => if N.eqb (s_id b) n then f b else b) Sb.
Definition upd_e (n : id) (f : ebox -> ebox) (W : list ebox) : list ebox :=
  map (fun e => if N.eqb (e_id e) n then f e else e) W.

Definition set_rc (r : nat) (b : sbox) : sbox := mkS (s_id b) r (s_kids b) (s_ephs b) (s_fin b) (s_map b).
Definition set_kids (k : list id) (b : sbox) : sbox := mkS (s_id b) (s_rc b) k (s_ephs b) (s_fin b) (s_map b).
Definition set_ephs (k : list id) (b : sbox) : sbox := mkS (s_id b) (s_rc b) (s_kids b) k (s_fin b) (s_map b).
Definition set_erc (r : nat) (e : ebox) : ebox := mkE (e_id e) r (e_data e) (e_unit e).
Definition set_data (d : option (id * option id)) (e : ebox) : ebox := mkE (e_id e) (e_rc e) d (e_unit e).

Definition set_strongs (Sb : list sbox) (s : state) : state :=
  mkSt Sb (weaks s) (wmaps s) (ext_s s) (ext_e s) (next_s s) (next_e s) (colls s) (poisoned s).
Definition set_weaks (W : list ebox) (s : state) : state :=
  mkSt (strongs s) W (wmaps s) (ext_s s) (ext_e s) (next_s s) (next_e s) (colls s) (poisoned s).
Definition set_wmaps (m : list id) (s : state) : state :=
  mkSt (strongs s) (weaks s) m (ext_s s) (ext_e s) (next_s s) (next_e s) (colls s) (poisoned s).
Definition set_ext_s (x : list id) (s : state) : state :=
  mkSt (strongs s) (weaks s) (wmaps s) x (ext_e s) (next_s s) (next_e s) (colls s) (poisoned s).
Definition set_ext_e (x : list id) (s : state) : state :=
  mkSt (strongs s) (weaks s) (wmaps s) (ext_s s) x (next_s s) (next_e s) (colls s) (poisoned s).
Definition set_poison (s : state) : state :=
  mkSt (strongs s) (weaks s) (wmaps s) (ext_s s) (ext_e s) (next_s s) (next_e s) (colls s) true.
Definition bump_s (s : state) : state :=
  mkSt (strongs s) (weaks s) (wmaps s) (ext_s s) (ext_e s) (N.succ (next_s s)) (next_e s) (colls s) (poisoned s).
Definition bump_e (s : state) : state :=
  mkSt (strongs s) (weaks s) (wmaps s) (ext_s s) (ext_e s) (next_s s) (N.succ (next_e s)) (colls s) (poisoned s).
Definition bump_colls (s : state) : state :=
  mkSt (strongs s) (weaks s) (wmaps s) (ext_s s) (ext_e s) (next_s s) (next_e s) (S (colls s)) (poisoned s).

(* ---------------------------------------------------------------------------------------------- *)
(* GcHeader::inc_ref_count / dec_ref_count  (pointers/gc.rs Clone, Finalize; ephemeron.rs likewise).
   inc: the overflow panic at 2^31 handles is out of the model's range (HeaderRefine.inc_ref_ok).
   dec: `ref_count - 1` on a zero count panics in a debug build (overflow checks) -> poisoned. *)

Definition inc_s (n : id) (s : state) : state :=
  set_strongs (upd_s n (fun b => set_rc (S (s_rc b)) b) (strongs s)) s.

Definition dec_s (n : id) (s : state) : state :=
  match find_s n (strongs s) with
  | Some b =>
      match s_rc b with
      | O => set_poison s
      | S r => set_strongs (upd_s n (set_rc r) (strongs s)) s
      end
  | None => set_poison s
  end.

Definition inc_e (n : id) (s : state) : state :=
  set_weaks (upd_e n (fun e => set_erc (S (e_rc e)) e) (weaks s)) s.

Definition dec_e (n : id) (s : state) : state :=
  match find_e n (weaks s) with
  | Some e =>
      match e_rc e with
      | O => set_poison s
      | S r => set_weaks (upd_e n (set_erc r) (weaks s)) s
      end
  | None => set_poison s
  end.

(* handle-moving primitives: each keeps "ref_count = number of handles" *)
Definition gain_ext (n : id) (s : state) : state := set_ext_s (n :: ext_s s) (inc_s n s).
Definition lose_ext (n : id) (s : state) : state := set_ext_s (remove1 n (ext_s s)) (dec_s n s).
Definition gain_exte (e : id) (s : state) : state := set_ext_e (e :: ext_e s) (inc_e e s).
Definition lose_exte (e : id) (s : state) : state := set_ext_e (remove1 e (ext_e s)) (dec_e e s).
Definition gain_kid (a n : id) (s : state) : state :=
  let s1 := inc_s n s in set_strongs (upd_s a (fun b => set_kids (s_kids b ++ [n]) b) (strongs s1)) s1.
Definition lose_kid (a n : id) (s : state) : state :=
  let s1 := set_strongs (upd_s a (fun b => set_kids (remove1 n (s_kids b)) b) (strongs s)) s in dec_s n s1.
Definition gain_stored (a e : id) (s : state) : state :=
  let s1 := inc_e e s in set_strongs (upd_s a (fun b => set_ephs (s_ephs b ++ [e]) b) (strongs s1)) s1.
Definition lose_stored (a e : id) (s : state) : state :=
  let s1 := set_strongs (upd_s a (fun b => set_ephs (remove1 e (s_ephs b)) b) (strongs s)) s in dec_e e s1.

(* ---------------------------------------------------------------------------------------------- *)
(* Collector::trace_non_roots: every handle found inside a strong box (dead or not) and inside an
   ephemeron's value calls inc_non_root_count on its target, which saturates at ref_count. *)

Definition eph_value (e : ebox) : list id :=
  match e_data e with Some (_, Some v) => [v] | _ => [] end.

Definition inner_s (Sb : list sbox) (W : list ebox) : list id :=
  flat_map s_kids Sb ++ flat_map eph_value W.
Definition inner_e (Sb : list sbox) : list id := flat_map s_ephs Sb.

(* GcHeader::inc_non_root_count, for the box `n` when the handle `h` is visited *)
Definition inc_nrc (rc : nat) (n : id) (c : nat) (h : id) : nat :=
  if N.eqb h n then (if Nat.ltb c rc then S c else c) else c.
Definition nrc_of (rc : nat) (n : id) (handles : list id) : nat := fold_left (inc_nrc rc n) handles 0.

Definition nrc_tab_s (Sb : list sbox) (W : list ebox) : list (id * nat) :=
  map (fun b => (s_id b, nrc_of (s_rc b) (s_id b) (inner_s Sb W))) Sb.
Definition nrc_tab_e (Sb : list sbox) (W : list ebox) : list (id * nat) :=
  map (fun e => (e_id e, nrc_of (e_rc e) (e_id e) (inner_e Sb))) W.

Fixpoint lookup (tab : list (id * nat)) (n : id) : nat :=
  match tab with
  | [] => 0
  | (k, v) :: t => if N.eqb k n then v else lookup t n
  end.

(* GcHeader::is_rooted: non_root_count() < ref_count() *)
Definition rooted (tab : list (id * nat)) (n : id) (rc : nat) : bool := Nat.ltb (lookup tab n) rc.

(* ---------------------------------------------------------------------------------------------- *)
(* Tracer::trace_until_empty: pop_front; skip if marked; mark; trace_fn enqueues every stored Gc
   (push_back) and marks the box of every stored Ephemeron (Ephemeron::trace -> header.mark()). *)

Fixpoint drain (fuel : nat) (Sb : list sbox) (q : list id) (ms me : list id) : list id * list id :=
  match fuel with
  | O => (ms, me)
  | S f =>
      match q with
      | [] => (ms, me)
      | n :: q' =>
          if memb n ms then drain f Sb q' ms me
          else match find_s n Sb with
               | Some b => drain f Sb (q' ++ s_kids b) (n :: ms) (s_ephs b ++ me)
               | None => drain f Sb q' (n :: ms) me
               end
      end
  end.

(* enough for every call: each step either discards a queue entry or marks a new box and pushes
   its handles (Proofs: drain_fuel_enough) *)
Definition mark_fuel (Sb : list sbox) : nat := 2 + length Sb + length (flat_map s_kids Sb).

(* ErasedEphemeronBox::trace: false if the box is unmarked; true if the data is gone; otherwise
   traces the value iff the key's box is marked and returns that bit *)
Definition eph_trace (e : ebox) (ms me : list id) : bool * list id :=
  if memb (e_id e) me then
    match e_data e with
    | None => (true, [])
    | Some (k, v) =>
        if memb k ms then (true, match v with Some x => [x] | None => [] end) else (false, [])
    end
  else (false, []).

(* mark_heap, phase 0: rooted boxes are traced; others are remembered if not yet marked *)
Fixpoint phase0 (fuel : nat) (Sb : list sbox) (tabS : list (id * nat)) (l : list sbox)
                (ms me dead : list id) : list id * list id * list id :=
  match l with
  | [] => (ms, me, dead)
  | b :: l' =>
      if rooted tabS (s_id b) (s_rc b) then
        let '(ms1, me1) := drain fuel Sb [s_id b] ms me in phase0 fuel Sb tabS l' ms1 me1 dead
      else if memb (s_id b) ms then phase0 fuel Sb tabS l' ms me dead
      else phase0 fuel Sb tabS l' ms me (dead ++ [s_id b])
  end.

(* phase 1: every ephemeron box: mark if rooted; trace; collect the unsuccessful ones *)
Fixpoint phase1 (fuel : nat) (Sb : list sbox) (tabE : list (id * nat)) (l : list ebox)
                (ms me : list id) (pending : list ebox) : list id * list id * list ebox :=
  match l with
  | [] => (ms, me, pending)
  | e :: l' =>
      let me1 := if rooted tabE (e_id e) (e_rc e) then e_id e :: me else me in
      let '(ok, q) := eph_trace e ms me1 in
      let pending1 := if ok then pending else pending ++ [e] in
      let '(ms2, me2) := drain fuel Sb q ms me1 in
      phase1 fuel Sb tabE l' ms2 me2 pending1
  end.

(* phase 2: WeakMapBox::trace: if the WeakGc still upgrades, trace it = mark its ephemeron box.
   (upgrade() increments the map box's ref_count and the temporary Gc is dropped at once: net 0.) *)
Fixpoint phase2 (W : list ebox) (wm : list id) (me : list id) : list id :=
  match wm with
  | [] => me
  | w :: wm' =>
      match find_e w W with
      | Some e => match e_data e with Some _ => phase2 W wm' (w :: me) | None => phase2 W wm' me end
      | None => phase2 W wm' me
      end
  end.

(* phase 3, one `retain_mut` pass *)
Fixpoint retain_pass (fuel : nat) (Sb : list sbox) (l : list ebox) (ms me : list id)
  : list ebox * list id * list id :=
  match l with
  | [] => ([], ms, me)
  | e :: l' =>
      let '(ok, q) := eph_trace e ms me in
      let '(ms1, me1) := drain fuel Sb q ms me in
      let '(kept, ms2, me2) := retain_pass fuel Sb l' ms1 me1 in
      (if ok then kept else e :: kept, ms2, me2)
  end.

(* the `loop { retain_mut; if previous_len == len { break } }` *)
Fixpoint eph_loop (rounds fuel : nat) (Sb : list sbox) (pending : list ebox) (ms me : list id)
  : list ebox * list id * list id :=
  match rounds with
  | O => (pending, ms, me)
  | S r =>
      let '(kept, ms1, me1) := retain_pass fuel Sb pending ms me in
      if Nat.eqb (length kept) (length pending) then (kept, ms1, me1)
      else eph_loop r fuel Sb kept ms1 me1
  end.

Definition unmarked (ms : list id) (l : list id) : list id := filter (fun n => negb (memb n ms)) l.

(* Collector::mark_heap; returns the mark sets and Unreachables { strong, weak } *)
Definition mark_heap (Sb : list sbox) (W : list ebox) (wm : list id) (tabS tabE : list (id * nat))
                     (ms me : list id) : list id * list id * list id * list ebox :=
  let fuel := mark_fuel Sb in
  let '(ms0, me0, dead0) := phase0 fuel Sb tabS Sb ms me [] in
  match W with
  | [] => (ms0, me0, unmarked ms0 dead0, [])                      (* 0.1 early return *)
  | _ =>
      let '(ms1, me1, pend1) := phase1 fuel Sb tabE W ms0 me0 [] in
      let me2 := phase2 W wm me1 in
      let '(pend3, ms3, me3) := eph_loop (S (length pend1)) fuel Sb pend1 ms1 me2 in
      (ms3, me3, unmarked ms3 dead0, pend3)
  end.

(* ---------------------------------------------------------------------------------------------- *)
(* Collector::finalize *)

Fixpoint iter {A} (n : nat) (f : A -> A) (x : A) : A :=
  match n with O => x | S k => iter k f (f x) end.

(* run_finalizer of a dead strong box: Finalize::finalize(payload) (the harness payload clones its
   stored Gc handles s_fin times into the root list), then run_finalizer of every field, i.e.
   Finalize::finalize of every stored Gc / Ephemeron = dec_ref_count of its target *)
Definition fin_one (s : state) (n : id) : state :=
  match find_s n (strongs s) with
  | None => s
  | Some b =>
      let s1 := iter (s_fin b) (fun s => fold_left (fun s k => gain_ext k s) (s_kids b) s) s in
      let s2 := fold_left (fun s k => dec_s k s) (s_kids b) s1 in
      fold_left (fun s e => dec_e e s) (s_ephs b) s2
  end.

(* finalize_and_clear of an unreachable ephemeron: `data.take()` drops the Data outside the
   DropGuard, so the value's Gc::drop runs dec_ref_count *)
Definition clear_one (s : state) (e : ebox) : state :=
  fold_left (fun s v => dec_s v s) (eph_value e)
            (set_weaks (upd_e (e_id e) (set_data None) (weaks s)) s).

Definition finalize (dead : list id) (pend : list ebox) (s : state) : state :=
  fold_left clear_one pend (fold_left fin_one dead s).

(* ---------------------------------------------------------------------------------------------- *)
(* weak_maps.retain after the sweep *)

Definition has_data (W : list ebox) (e : id) : bool :=
  match find_e e W with Some x => match e_data x with Some _ => true | None => false end | None => false end.

(* clear_dead_entries of a live map box m: RawWeakMap::clear_expired drops every table entry whose
   ephemeron has lost its data (Ephemeron::drop, outside the guard -> dec_ref_count) *)
Definition clear_entries (m : id) (s : state) : state :=
  match find_s m (strongs s) with
  | None => s
  | Some b =>
      let gone := filter (fun e => negb (has_data (weaks s) e)) (s_ephs b) in
      let keep := filter (fun e => has_data (weaks s) e) (s_ephs b) in
      let s1 := set_strongs (upd_s m (set_ephs keep) (strongs s)) s in
      fold_left (fun s e => dec_e e s) gone s1
  end.

Definition wm_one (s : state) (w : id) : state :=
  match find_e w (weaks s) with
  | Some e =>
      match e_data e with
      | Some (m, _) => clear_entries m s                                 (* is_live: keep *)
      | None => set_wmaps (remove1 w (wmaps s)) (dec_e w s)              (* drop the WeakMapBox *)
      end
  | None => set_wmaps (remove1 w (wmaps s)) s
  end.

(* ---------------------------------------------------------------------------------------------- *)
(* Collector::collect *)

Definition ids_s (Sb : list sbox) : list id := map s_id Sb.
Definition ids_e (W : list ebox) : list id := map e_id W.

Definition is_node (Sb : list sbox) (n : id) : bool :=
  match find_s n Sb with Some b => negb (s_map b) | None => false end.

(* a handle whose target box is gone: what the Rust code would dereference next *)
Definition dangling (s : state) : bool :=
  let Si := ids_s (strongs s) in
  let W := ids_e (weaks s) in
  negb (forallb (fun n => memb n Si) (ext_s s ++ flat_map s_kids (strongs s)
                 ++ flat_map (fun e => match e_data e with
                                       | Some (k, v) => k :: match v with Some x => [x] | None => [] end
                                       | None => [] end) (weaks s)))
  || negb (forallb (fun e => memb e W) (ext_e s ++ flat_map s_ephs (strongs s) ++ wmaps s)).

Record gc_out := mkGcOut {
  g_fin : list id;        (* Finalize::finalize calls on node payloads, in order *)
  g_drop : list id;       (* node payloads dropped by the sweep, in order *)
  g_res : list id;        (* handles added to the root list by finalizers *)
  g_held : list id        (* dropped although an external handle exists *)
}.

Definition collect_core (s : state) : state * gc_out :=
  let s0 := bump_colls s in
  let Sb := strongs s0 in
  let W := weaks s0 in
  let tabS := nrc_tab_s Sb W in                                   (* trace_non_roots *)
  let tabE := nrc_tab_e Sb W in
  let '(ms1, me1, dead1, pend1) := mark_heap Sb W (wmaps s0) tabS tabE [] [] in
  let '(s1, ms2, me2) :=
    match dead1, pend1 with
    | [], [] => (s0, ms1, me1)
    | _, _ =>
        let sf := finalize dead1 pend1 s0 in
        let '(ms, me, _, _) := mark_heap (strongs sf) (weaks sf) (wmaps sf) tabS tabE ms1 me1 in
        (sf, ms, me)
    end in
  (* sweep: keep the marked boxes (unmark, reset_non_root_count), drop the others under the DropGuard *)
  let dropped := filter (fun b => negb (memb (s_id b) ms2)) (strongs s1) in
  let s2 := set_weaks (filter (fun e => memb (e_id e) me2) (weaks s1))
              (set_strongs (filter (fun b => memb (s_id b) ms2) (strongs s1)) s1) in
  let s3 := fold_left wm_one (wmaps s2) s2 in
  let s4 := if dangling s3 then set_poison s3 else s3 in
  let dnodes := map s_id (filter (fun b => negb (s_map b)) dropped) in
  (s4, mkGcOut (filter (is_node Sb) dead1) dnodes
         (firstn (length (ext_s s1) - length (ext_s s0)) (ext_s s1))
         (filter (fun n => memb n (ext_s s1)) dnodes)).

(* force_collect: only when bytes_allocated > 0, i.e. when some box exists (box sizes are positive) *)
Definition collect (s : state) : state * gc_out :=
  match strongs s, weaks s with
  | [], [] => (s, mkGcOut [] [] [] [])
  | _, _ => collect_core s
  end.

(* ---------------------------------------------------------------------------------------------- *)
(* mutator operations *)

Inductive op :=
| Alloc (fin : nat)
| AllocCyclic (fin : nat)
| Link (a b : id) | Unlink (a b : id) | Load (a b : id)
| Clone (a : id) | Drop (a : id)
| MkWeak (a : id) | MkEph (k v : id)
| CloneE (e : id) | DropE (e : id)
| StoreE (a e : id) | UnstoreE (a e : id) | LoadE (a e : id)
| Upgrade (e : id) | EphValue (e : id)
| WmNew | WmInsert (m k v : id) | WmRemove (m k : id) | WmGet (m k : id)
| Read (a : id)
| Collect.

Inductive out :=
| OInv | OOk
| ONode (n : id) | ONodeE (n e : id) | OEph (e : id) | OMap (m e : id)
| OSome (n : id) | ONone | OUnit | OBool (b : bool)
| ORead (kids ephs : list id)
| OGc (g : gc_out).

Definition held (s : state) (n : id) : bool := memb n (ext_s s).
Definition held_node (s : state) (n : id) : bool := held s n && is_node (strongs s) n.
Definition held_map (s : state) (n : id) : bool :=
  held s n && match find_s n (strongs s) with Some b => s_map b | None => false end.
Definition helde (s : state) (e : id) : bool := memb e (ext_e s).
Definition kids_of (s : state) (a : id) : list id :=
  match find_s a (strongs s) with Some b => s_kids b | None => [] end.
Definition ephs_of (s : state) (a : id) : list id :=
  match find_s a (strongs s) with Some b => s_ephs b | None => [] end.
Definition data_of (s : state) (e : id) : option (id * option id) :=
  match find_e e (weaks s) with Some x => e_data x | None => None end.

(* RawWeakMap::get / find_entry: the entry whose ephemeron still has its key and the key is k *)
Definition entry_of (s : state) (m k : id) : option id :=
  find (fun e => match data_of s e with Some (k', _) => N.eqb k' k | None => false end) (ephs_of s m).

Definition push_s (b : sbox) (s : state) : state := set_strongs (strongs s ++ [b]) s.
Definition push_e (e : ebox) (s : state) : state := set_weaks (weaks s ++ [e]) s.

Definition step (s : state) (o : op) : state * out :=
  match o with
  | Alloc f =>
      let n := next_s s in
      (set_ext_s (n :: ext_s s) (bump_s (push_s (mkS n 1 [] [] f false) s)), ONode n)
  | AllocCyclic f =>
      (* Gc::new_cyclic: empty ephemeron, payload (holding a clone of the weak), box, set(key) *)
      let n := next_s s in let e := next_e s in
      let s1 := bump_e (push_e (mkE e 1 (Some (n, None)) true) s) in
      (set_ext_s (n :: ext_s s1) (bump_s (push_s (mkS n 1 [] [e] f false) s1)), ONodeE n e)
  | Link a b =>
      if held_node s a && held s b then (gain_kid a b s, OOk) else (s, OInv)
  | Unlink a b =>
      if held_node s a && memb b (kids_of s a) then (lose_kid a b s, OOk) else (s, OInv)
  | Load a b =>
      if held_node s a && memb b (kids_of s a) then (gain_ext b s, OOk) else (s, OInv)
  | Clone a => if held s a then (gain_ext a s, OOk) else (s, OInv)
  | Drop a => if held s a then (lose_ext a s, OOk) else (s, OInv)
  | MkWeak a =>
      if held_node s a then
        let e := next_e s in
        (set_ext_e (e :: ext_e s) (bump_e (push_e (mkE e 1 (Some (a, None)) true) s)), OEph e)
      else (s, OInv)
  | MkEph k v =>
      if held_node s k && held_node s v then
        let e := next_e s in
        let s1 := inc_s v s in
        (set_ext_e (e :: ext_e s1) (bump_e (push_e (mkE e 1 (Some (k, Some v)) false) s1)), OEph e)
      else (s, OInv)
  | CloneE e => if helde s e then (gain_exte e s, OOk) else (s, OInv)
  | DropE e => if helde s e then (lose_exte e s, OOk) else (s, OInv)
  | StoreE a e =>
      if held_node s a && helde s e then (gain_stored a e s, OOk) else (s, OInv)
  | UnstoreE a e =>
      if held_node s a && memb e (ephs_of s a) then (lose_stored a e s, OOk) else (s, OInv)
  | LoadE a e =>
      if held_node s a && memb e (ephs_of s a) then (gain_exte e s, OOk) else (s, OInv)
  | Upgrade e =>
      (* WeakGc::upgrade = Ephemeron::key: Some while the data is there *)
      if helde s e then
        match data_of s e with
        | Some (k, _) => (gain_ext k s, OSome k)
        | None => (s, ONone)
        end
      else (s, OInv)
  | EphValue e =>
      if helde s e then
        match data_of s e with
        | Some (_, Some v) => (gain_ext v s, OSome v)
        | Some (_, None) => (s, OUnit)
        | None => (s, ONone)
        end
      else (s, OInv)
  | WmNew =>
      (* Allocator::alloc_weak_map: Gc::new(map), WeakGc::new(&map), push WeakMapBox *)
      let m := next_s s in let e := next_e s in
      let s1 := bump_s (push_s (mkS m 1 [] [] 0 true) s) in
      let s2 := bump_e (push_e (mkE e 1 (Some (m, None)) true) s1) in
      (set_ext_s (m :: ext_s s2) (set_wmaps (wmaps s2 ++ [e]) s2), OMap m e)
  | WmInsert m k v =>
      if held_map s m && held_node s k && held_node s v then
        let s1 := match entry_of s m k with Some old => lose_stored m old s | None => s end in
        let e := next_e s1 in
        let s2 := inc_s v s1 in
        let s3 := bump_e (push_e (mkE e 1 (Some (k, Some v)) false) s2) in
        (set_strongs (upd_s m (fun b => set_ephs (s_ephs b ++ [e]) b) (strongs s3)) s3, OEph e)
      else (s, OInv)
  | WmRemove m k =>
      if held_map s m && held_node s k then
        match entry_of s m k with
        | Some old => (lose_stored m old s, OBool true)
        | None => (s, OBool false)
        end
      else (s, OInv)
  | WmGet m k =>
      if held_map s m && held_node s k then
        match entry_of s m k with
        | Some e => match data_of s e with
                    | Some (_, Some v) => (s, OSome v)
                    | Some (_, None) => (s, OUnit)
                    | None => (s, ONone)
                    end
        | None => (s, ONone)
        end
      else (s, OInv)
  | Read a =>
      if held_node s a then (s, ORead (kids_of s a) (ephs_of s a)) else (s, OInv)
  | Collect => let '(s', g) := collect s in (s', OGc g)
  end.

Fixpoint run (s : state) (ops : list op) : state * list out :=
  match ops with
  | [] => (s, [])
  | o :: t => let '(s1, x) := step s o in let '(s2, xs) := run s1 t in (s2, x :: xs)
  end.

Definition exec (s : state) (ops : list op) : state := fold_left (fun s o => fst (step s o)) ops s.
