(* C10 (collector level), lifted to histories: after any history, dropping every handle and collecting
   twice leaves an empty heap (no strong box, no ephemeron box, no weak-map registry entry). *)
From Coq Require Import List Arith Bool PeanoNat NArith Lia.
From C09 Require Import GcModel Spec_C09 Step_C09 Collect_C09 Hist_C09 C10gc_C09.
Import ListNotations.

Lemma exec_wm_unit_gen ops : forall s,
  Inv s -> poisoned s = false -> no_res s -> wm_unit s -> Forall op_no_res ops -> wm_unit (exec s ops).
Proof.
  induction ops as [|o t IH]; intros s I P H U Hops; [exact U|].
  inversion Hops as [|? ? Ho Ht]; subst. rewrite exec_cons.
  destruct (step_all s o Ho I P H) as (I' & P' & H').
  apply IH; try assumption.
  apply step_wm_unit; try assumption. apply no_res_dead_no_res. exact H.
Qed.

Lemma exec_wm_unit ops : Forall op_no_res ops -> wm_unit (exec init ops).
Proof. intro H. apply exec_wm_unit_gen; try assumption; [exact Inv_init|reflexivity|exact no_res_init|exact wm_unit_init]. Qed.

(* the state a history leaves behind once every handle has been dropped: two collections empty the heap *)
Lemma nothing_left_behind_lemma ops s1 g1 s2 g2 :
  Forall op_no_res ops ->
  ext_s (exec init ops) = [] -> ext_e (exec init ops) = [] ->
  collect (exec init ops) = (s1, g1) -> collect s1 = (s2, g2) ->
  strongs s1 = [] /\ wmaps s1 = [] /\ strongs s2 = [] /\ weaks s2 = [] /\ wmaps s2 = [].
Proof.
  intros Hops XS XE Hc1 Hc2. destruct (exec_inv ops Hops) as (I & P & H).
  exact (drop_all_then_collect_empties _ s1 g1 s2 g2 I P H (exec_wm_unit ops Hops) XS XE Hc1 Hc2).
Qed.
