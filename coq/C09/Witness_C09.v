(* C09 — the hypothesis "no unreachable box has a resurrecting finalizer" of collect_exact is necessary:
   a concrete history on which the faithful model frees a node that is held by an external handle
   (finding 1 of design.d/C09.md; the witness is the replay `new 1; link 0 0; drop 0; gc`).
   The state before the collection satisfies the representation invariant. *)
From Coq Require Import List Arith Bool NArith.
From C09 Require Import GcModel Spec_C09 Step_C09.
Import ListNotations.

Definition resurrection_witness : list op := [Alloc 1; Link 0%N 0%N; Drop 0%N].

Lemma resurrection_witness_inv :
  Inv (exec init resurrection_witness) /\ poisoned (exec init resurrection_witness) = false.
Proof.
  unfold resurrection_witness, exec. cbn [fold_left].
  assert (H0 : Inv init /\ poisoned init = false) by (split; [exact Inv_init|reflexivity]).
  assert (H1 := step_inv init (Alloc 1) ltac:(discriminate) (proj1 H0) (proj2 H0)).
  assert (H2 := step_inv _ (Link 0%N 0%N) ltac:(discriminate) (proj1 H1) (proj2 H1)).
  exact (step_inv _ (Drop 0%N) ltac:(discriminate) (proj1 H2) (proj2 H2)).
Qed.

Lemma resurrection_refuted_lemma :
  exists ops, Inv (exec init ops) /\ poisoned (exec init ops) = false /\
    g_held (snd (collect (exec init ops))) = [0%N] /\
    g_drop (snd (collect (exec init ops))) = [0%N] /\
    In 0%N (ext_s (fst (collect (exec init ops)))).
Proof.
  exists resurrection_witness. split; [exact (proj1 resurrection_witness_inv)|].
  split; [exact (proj2 resurrection_witness_inv)|]. vm_compute. repeat split. left. reflexivity.
Qed.
