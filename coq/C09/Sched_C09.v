(* C10 (collector level) — collections are unobservable to a mutator that makes no weak observation.

   `schedule_independent`: inserting collections at arbitrary points of a history of plain operations
   (no Collect, no Upgrade / EphValue, no resurrecting finalizer) changes none of the outputs of the
   other operations.

   Proof: a simulation relation `Sim s1 s2` between the state s1 of the run without collections and the
   state s2 of the run with collections ("s2 is s1 minus some garbage"):
   1. both satisfy Inv, are not poisoned, have no resurrecting finalizer; s2 satisfies K (the key of a
      registry ephemeron is a weak-map box); root lists and allocation counters are equal;
   2. every strong box reachable in s1 exists in s2 with the same kids and kind; its entry list in s2 is a
      subsequence of the one in s1 that keeps every entry whose ephemeron has data with a reachable key
      (`sub_keep (live s1)`), and is equal for boxes that are not weak maps;
   3. every ephemeron box of s2 exists in s1 with the same data, or with data None when the key is
      unreachable in s1; every reachable ephemeron of s1 whose key is reachable exists in s2 with the same
      data; the registry of s2 is included in the registry of s1 and contains its live entries.
   `Reach s1 n <-> Reach s2 n` is derived (sim_reach_fwd / sim_reach_bwd).
   Sim is preserved by Collect on the s2 side (sim_collect, from the collector theorems of Collect_C09 /
   C10gc_C09 plus collect_nonmap: a collection only filters the entry lists of weak-map boxes), and by
   every plain operation executed on both sides (sim_step): each operation is described, up to
   reference counts, by a `delta` (Eff), the same on both sides, and `sim_eff` shows that a delta that
   makes nothing unreachable reachable (Ok) preserves Sim. *)
From Coq Require Import List Arith Bool PeanoNat NArith Lia.
From C09 Require Import GcModel Spec_C09 Step_C09 Collect_C09 Hist_C09 C10gc_C09.
Import ListNotations.

(* ---------------------------------------------------------------------------------------------- *)
(* the statement *)

Definition weak_obs (o : op) : bool := match o with Upgrade _ | EphValue _ => true | _ => false end.
Definition plain (o : op) : Prop := op_no_res o /\ o <> Collect /\ weak_obs o = false.
Inductive interleave : list op -> list op -> Prop :=
| il_nil : interleave [] []
| il_gc l1 l2 : interleave l1 l2 -> interleave l1 (Collect :: l2)
| il_op o l1 l2 : interleave l1 l2 -> interleave (o :: l1) (o :: l2).
Definition not_gc (x : out) : bool := match x with OGc _ => false | _ => true end.

(* ---------------------------------------------------------------------------------------------- *)
(* 0. sub_keep P l2 l1: l2 is a subsequence of l1 that keeps every element satisfying P *)

Inductive sub_keep (P : id -> Prop) : list id -> list id -> Prop :=
| sk_nil : sub_keep P [] []
| sk_drop a l2 l1 : ~ P a -> sub_keep P l2 l1 -> sub_keep P l2 (a :: l1)
| sk_keep a l2 l1 : sub_keep P l2 l1 -> sub_keep P (a :: l2) (a :: l1).

Lemma sk_refl P l : sub_keep P l l.
Proof. induction l as [|a l IH]; [constructor|apply sk_keep; exact IH]. Qed.

Lemma sk_In P l2 l1 : sub_keep P l2 l1 -> forall e, In e l2 -> In e l1.
Proof.
  induction 1 as [|a l2 l1 Hn Hs IH|a l2 l1 Hs IH]; intros e He.
  - exact He.
  - right. apply IH. exact He.
  - destruct He as [He|He]; [left; exact He|right; apply IH; exact He].
Qed.

Lemma sk_kept P l2 l1 : sub_keep P l2 l1 -> forall e, In e l1 -> P e -> In e l2.
Proof.
  induction 1 as [|a l2 l1 Hn Hs IH|a l2 l1 Hs IH]; intros e He Pe.
  - destruct He.
  - destruct He as [He|He]; [subst; contradiction|apply IH; assumption].
  - destruct He as [He|He]; [left; exact He|right; apply IH; assumption].
Qed.

Lemma sk_mono (P Q : id -> Prop) l2 l1 : sub_keep P l2 l1 -> (forall e, In e l1 -> Q e -> P e) -> sub_keep Q l2 l1.
Proof.
  induction 1 as [|a l2 l1 Hn Hs IH|a l2 l1 Hs IH]; intro HQ.
  - constructor.
  - apply sk_drop.
    + intro Qa. apply Hn. apply HQ; [left; reflexivity|exact Qa].
    + apply IH. intros e He. apply HQ. right. exact He.
  - apply sk_keep. apply IH. intros e He. apply HQ. right. exact He.
Qed.

Lemma sk_app P l2 l1 t : sub_keep P l2 l1 -> sub_keep P (l2 ++ t) (l1 ++ t).
Proof.
  induction 1 as [|a l2 l1 Hn Hs IH|a l2 l1 Hs IH]; cbn [app].
  - apply sk_refl.
  - apply sk_drop; assumption.
  - apply sk_keep; assumption.
Qed.

Lemma sk_remove_l P l2 l1 e : sub_keep P l2 l1 -> ~ P e -> sub_keep P (remove1 e l2) l1.
Proof.
  induction 1 as [|a l2 l1 Hn Hs IH|a l2 l1 Hs IH]; intro He; cbn [remove1].
  - constructor.
  - apply sk_drop; [exact Hn|apply IH; exact He].
  - destruct (N.eqb_spec e a) as [E|E].
    + subst a. apply sk_drop; assumption.
    + apply sk_keep. apply IH. exact He.
Qed.

Lemma sk_remove1 P l2 l1 e : sub_keep P l2 l1 -> sub_keep P (remove1 e l2) (remove1 e l1).
Proof.
  induction 1 as [|a l2 l1 Hn Hs IH|a l2 l1 Hs IH].
  - constructor.
  - cbn [remove1]. destruct (N.eqb_spec e a) as [E|E].
    + subst a. apply sk_remove_l; assumption.
    + apply sk_drop; assumption.
  - cbn [remove1]. destruct (N.eqb_spec e a) as [E|E].
    + exact Hs.
    + apply sk_keep. exact IH.
Qed.

Lemma sk_filter P (q : id -> bool) l2 l1 : sub_keep P l2 l1 ->
  (forall e, In e l1 -> P e -> q e = true) -> sub_keep P (filter q l2) l1.
Proof.
  induction 1 as [|a l2 l1 Hn Hs IH|a l2 l1 Hs IH]; intro Hq.
  - constructor.
  - apply sk_drop; [exact Hn|]. apply IH. intros e He. apply Hq. right. exact He.
  - cbn [filter]. destruct (q a) eqn:Qa.
    + apply sk_keep. apply IH. intros e He. apply Hq. right. exact He.
    + apply sk_drop.
      * intro Pa. rewrite (Hq a (or_introl eq_refl) Pa) in Qa. discriminate.
      * apply IH. intros e He. apply Hq. right. exact He.
Qed.

Lemma sk_find P (f : id -> bool) l2 l1 : sub_keep P l2 l1 ->
  (forall e, In e l1 -> f e = true -> P e) -> find f l2 = find f l1.
Proof.
  induction 1 as [|a l2 l1 Hn Hs IH|a l2 l1 Hs IH]; intro Hf.
  - reflexivity.
  - cbn [find]. destruct (f a) eqn:Fa.
    + exfalso. apply Hn. apply Hf; [left; reflexivity|exact Fa].
    + apply IH. intros e He. apply Hf. right. exact He.
  - cbn [find]. destruct (f a); [reflexivity|]. apply IH. intros e He. apply Hf. right. exact He.
Qed.

Lemma find_ext_in (f g : id -> bool) l : (forall e, In e l -> f e = g e) -> find f l = find g l.
Proof.
  induction l as [|a l IH]; intro H; [reflexivity|]. cbn [find].
  rewrite (H a (or_introl eq_refl)). destruct (g a); [reflexivity|].
  apply IH. intros e He. apply H. right. exact He.
Qed.

(* ---------------------------------------------------------------------------------------------- *)
(* 1. reachable boxes exist *)

Lemma reach_exists s : Inv s ->
  (forall n, Reach s n -> In n (ids_s (strongs s))) /\ (forall e, ReachE s e -> In e (ids_e (weaks s))).
Proof.
  intro I. apply (Reach_mutind s (fun n => In n (ids_s (strongs s))) (fun e => In e (ids_e (weaks s)))).
  - apply (inv_ext_s _ I).
  - intros a b n _ _ Hf Hn. apply (inv_kids _ I b n); [apply (find_s_In _ _ _ Hf)|exact Hn].
  - intros e x k v _ _ Hf Hd _ _. apply (inv_val _ I x k v); [apply (find_e_In _ _ _ Hf)|exact Hd].
  - apply (inv_ext_e _ I).
  - apply (inv_wm _ I).
  - intros a b e _ _ Hf He. apply (inv_ephs _ I b e); [apply (find_s_In _ _ _ Hf)|exact He].
Qed.

Lemma In_ids_find_s n Sb : In n (ids_s Sb) -> exists b, find_s n Sb = Some b.
Proof.
  intro H. destruct (find_s n Sb) as [b|] eqn:F; [exists b; reflexivity|].
  apply find_s_None in F. contradiction.
Qed.

Lemma In_ids_find_e n W : In n (ids_e W) -> exists b, find_e n W = Some b.
Proof.
  intro H. destruct (find_e n W) as [b|] eqn:F; [exists b; reflexivity|].
  apply find_e_None in F. contradiction.
Qed.

Lemma find_s_ids n Sb b : find_s n Sb = Some b -> In n (ids_s Sb).
Proof. intro F. destruct (find_s_In _ _ _ F) as [Hb <-]. unfold ids_s. apply in_map. exact Hb. Qed.

Lemma find_e_ids n W b : find_e n W = Some b -> In n (ids_e W).
Proof. intro F. destruct (find_e_In _ _ _ F) as [Hb <-]. unfold ids_e. apply in_map. exact Hb. Qed.

Lemma reach_box s n : Inv s -> Reach s n -> exists b, find_s n (strongs s) = Some b.
Proof. intros I H. apply In_ids_find_s. apply (proj1 (reach_exists s I)). exact H. Qed.

Lemma fresh_find_s s : Inv s -> find_s (next_s s) (strongs s) = None.
Proof. intro I. apply find_s_None. intro H. apply (inv_fresh_s _ I) in H. exact (N.lt_irrefl _ H). Qed.

Lemma fresh_find_e s : Inv s -> find_e (next_e s) (weaks s) = None.
Proof. intro I. apply find_e_None. intro H. apply (inv_fresh_e _ I) in H. exact (N.lt_irrefl _ H). Qed.

(* ---------------------------------------------------------------------------------------------- *)
(* 2. the key of a registry ephemeron is a weak-map box; a collection only filters the entry lists
      of such boxes *)

Definition K (s : state) : Prop :=
  forall w x m v b, In w (wmaps s) -> find_e w (weaks s) = Some x -> e_data x = Some (m, v) ->
                    find_s m (strongs s) = Some b -> s_map b = true.

Lemma K_frame s s' : K s -> wm_frame s s' -> K s'.
Proof.
  intros Hk F w x' m v b' Hw Hf Hd Hb.
  destruct (wf_data _ _ F w x' Hf) as (x & Hx & D).
  destruct (wf_box _ _ F m b' Hb) as (b & Hb0 & _ & _ & _ & M & _).
  rewrite M. apply (Hk w x m v b); [apply (wf_wmaps _ _ F); exact Hw|exact Hx|congruence|exact Hb0].
Qed.

Lemma strongs_fold_dec_e l : forall s, strongs (fold_left (fun s e => dec_e e s) l s) = strongs s.
Proof.
  induction l as [|e l IH]; intro s; [reflexivity|]. cbn [fold_left]. rewrite IH. apply strongs_dec_e.
Qed.

Lemma clear_entries_other m s n : n <> m -> find_s n (strongs (clear_entries m s)) = find_s n (strongs s).
Proof.
  intro Hn. unfold clear_entries. destruct (find_s m (strongs s)) as [b|]; [|reflexivity].
  cbv zeta. rewrite strongs_fold_dec_e. cbn [strongs set_strongs].
  rewrite find_upd_s by (intro; reflexivity).
  destruct (N.eqb_spec m n) as [E|E]; [congruence|reflexivity].
Qed.

Lemma wm_one_nonmap s w : Inv s -> poisoned s = false -> K s -> In w (wmaps s) ->
  forall n b', find_s n (strongs (wm_one s w)) = Some b' -> s_map b' = false ->
               find_s n (strongs s) = Some b'.
Proof.
  intros I Hp Hk Hw n b' Hf Hm. unfold wm_one in Hf.
  destruct (find_e w (weaks s)) as [x|] eqn:Fx; [|exact Hf].
  destruct (e_data x) as [[m v]|] eqn:Dx.
  - destruct (N.eq_dec n m) as [E|E].
    + subst n. exfalso.
      destruct (clear_entries_inv s m I Hp) as (_ & _ & F & _).
      destruct (wf_box _ _ F m b' Hf) as (b & Hb & _ & _ & _ & M & _).
      rewrite (Hk w x m v b Hw Fx Dx Hb) in M. congruence.
    + rewrite clear_entries_other in Hf by exact E. exact Hf.
  - cbn [strongs set_wmaps] in Hf. rewrite strongs_dec_e in Hf. exact Hf.
Qed.

Lemma wm_fold_nonmap : forall l s, Inv s -> poisoned s = false -> NoDup l -> incl l (wmaps s) -> K s ->
  forall n b', find_s n (strongs (fold_left wm_one l s)) = Some b' -> s_map b' = false ->
               find_s n (strongs s) = Some b'.
Proof.
  induction l as [|w l IH]; intros s I Hp Hnd Hi Hk n b' Hf Hm.
  - exact Hf.
  - cbn [fold_left] in Hf. inversion Hnd as [|? ? Hni Hnd']; subst.
    assert (Hw : In w (wmaps s)) by (apply Hi; left; reflexivity).
    destruct (wm_one_spec s w I Hp Hw) as (A & B & C & D).
    apply (wm_one_nonmap s w I Hp Hk Hw n b'); [|exact Hm].
    apply (IH (wm_one s w) A B Hnd'); [|apply (K_frame s); assumption|exact Hf|exact Hm].
    intros w' Hw'. apply D; [apply Hi; right; exact Hw'|]. intro E. subst w'. contradiction.
Qed.

Lemma collect_nonmap s s' g :
  Inv s -> poisoned s = false -> dead_no_res s -> K s -> collect s = (s', g) ->
  forall n b', find_s n (strongs s') = Some b' -> s_map b' = false ->
    exists b, find_s n (strongs s) = Some b /\ s_ephs b' = s_ephs b.
Proof.
  intros I Hp Hd Hk Hc n b' Hf Hm. destruct (collect_cases s) as [(ES & EW & E)|E]; rewrite E in Hc.
  - injection Hc as <- <-. exists b'. split; [exact Hf|reflexivity].
  - apply collect_core_spec in Hc; try assumption.
    destruct Hc as (ms & me & Hms & Hme & Hc). cbv zeta in Hc. destruct Hc as (Es & I' & Hp' & F & Eg).
    set (dead := filter (fun n => negb (memb n ms)) (ids_s (strongs s))) in *.
    set (pend := filter (fun x => negb (fst (eph_trace x ms me))) (weaks s)) in *.
    pose proof (Inv_s2 s I ms me dead pend Hms Hme eq_refl eq_refl) as I2.
    assert (Hp2 : poisoned (s2 s ms me dead pend) = false) by exact Hp.
    assert (K2 : K (s2 s ms me dead pend)).
    { intros w c m v c' Hw Fc Dc Fc'.
      change (wmaps (s2 s ms me dead pend)) with (wmaps s) in Hw.
      change (weaks (s2 s ms me dead pend)) with (W2 s me dead pend) in Fc.
      change (strongs (s2 s ms me dead pend)) with (S2 s ms dead pend) in Fc'.
      destruct (find_e_In _ _ _ Fc) as [Hin Hid].
      apply (In_W2 s I ms me dead pend Hme eq_refl) in Hin. destruct Hin as (x & Hx & _ & E1 & _ & E3).
      destruct (find_s_In _ _ _ Fc') as [Hin' Hid'].
      apply (In_S2 s ms dead pend Hms) in Hin'. destruct Hin' as (b & Hb & _ & Ec).
      assert (Dx : e_data x = Some (m, v)).
      { rewrite Dc in E3. destruct (badf ms me x); [discriminate|symmetry; exact E3]. }
      subst c'. cbn [s_id s_map set_rc] in *.
      apply (Hk w x m v b Hw); [|exact Dx|].
      - rewrite <- Hid, E1. apply find_e_nodup; [apply (inv_nodup_e _ I)|exact Hx].
      - rewrite <- Hid'. apply find_s_nodup; [apply (inv_nodup_s _ I)|exact Hb]. }
    rewrite Es in Hf.
    pose proof (wm_fold_nonmap (wmaps s) (s2 s ms me dead pend) I2 Hp2 (inv_wm_nodup _ I) (incl_refl _) K2
                  n b' Hf Hm) as Hf2.
    change (strongs (s2 s ms me dead pend)) with (S2 s ms dead pend) in Hf2.
    destruct (find_s_In _ _ _ Hf2) as [Hin Hid].
    apply (In_S2 s ms dead pend Hms) in Hin. destruct Hin as (b & Hb & _ & Ec).
    exists b. subst b'. cbn [s_id s_ephs set_rc] in *. split; [|reflexivity].
    rewrite <- Hid. apply find_s_nodup; [apply (inv_nodup_s _ I)|exact Hb].
Qed.

Lemma K_collect s s' g :
  Inv s -> poisoned s = false -> dead_no_res s -> K s -> collect s = (s', g) -> K s'.
Proof.
  intros I Hp Hd Hk Hc w x' m v b' Hw Hf Hdx Hb.
  destruct (collect_frame_lemma s s' g I Hp Hd Hc) as (FS & FE & FW & _).
  destruct (FS m b' Hb) as (b & Hb0 & _ & _ & M & _).
  destruct (FE w x' Hf) as (x & Hx & [D|[D _]]); [|congruence].
  rewrite M. apply (Hk w x m v b); [apply FW; exact Hw|exact Hx|congruence|exact Hb0].
Qed.

(* ---------------------------------------------------------------------------------------------- *)
(* 3. the simulation relation: s2 (the run with collections) is s1 (the run without) minus garbage *)

Definition live (s : state) (e : id) : Prop :=
  exists x k v, find_e e (weaks s) = Some x /\ e_data x = Some (k, v) /\ Reach s k.

Record Sim (s1 s2 : state) : Prop := mkSim {
  sim_inv1 : Inv s1; sim_p1 : poisoned s1 = false; sim_nr1 : no_res s1;
  sim_inv2 : Inv s2; sim_p2 : poisoned s2 = false; sim_nr2 : no_res s2;
  sim_K : K s2;
  sim_xs : ext_s s2 = ext_s s1; sim_xe : ext_e s2 = ext_e s1;
  sim_ns : next_s s2 = next_s s1; sim_ne : next_e s2 = next_e s1;
  sim_box : forall n b1, Reach s1 n -> find_s n (strongs s1) = Some b1 ->
     exists b2, find_s n (strongs s2) = Some b2 /\ s_kids b2 = s_kids b1 /\ s_map b2 = s_map b1 /\
       sub_keep (live s1) (s_ephs b2) (s_ephs b1) /\ (s_map b1 = false -> s_ephs b2 = s_ephs b1);
  sim_eb : forall e x2, find_e e (weaks s2) = Some x2 -> exists x1, find_e e (weaks s1) = Some x1 /\
       (e_data x2 = e_data x1 \/ (e_data x2 = None /\ forall k v, e_data x1 = Some (k, v) -> ~ Reach s1 k));
  sim_ef : forall e x1 k v, ReachE s1 e -> find_e e (weaks s1) = Some x1 -> e_data x1 = Some (k, v) ->
       Reach s1 k -> exists x2, find_e e (weaks s2) = Some x2 /\ e_data x2 = Some (k, v);
  sim_wm : incl (wmaps s2) (wmaps s1);
  sim_wf : forall w, In w (wmaps s1) -> live s1 w -> In w (wmaps s2)
}.

Lemma sim_reach_fwd s1 s2 : Sim s1 s2 ->
  (forall n, Reach s1 n -> Reach s2 n) /\ (forall e, ReachE s1 e -> live s1 e -> ReachE s2 e).
Proof.
  intro HS.
  apply (Reach_mutind s1 (fun n => Reach s2 n) (fun e => live s1 e -> ReachE s2 e)).
  - intros n Hn. apply R_ext. rewrite (sim_xs _ _ HS). exact Hn.
  - intros a b n Ra Ra' Hf Hn. destruct (sim_box _ _ HS a b Ra Hf) as (b2 & F2 & Kk & _).
    eapply R_kid; [exact Ra'|exact F2|]. rewrite Kk. exact Hn.
  - intros e x k v Re PE Hf Hd Rk Rk'.
    destruct (sim_ef _ _ HS e x k (Some v) Re Hf Hd Rk) as (x2 & F2 & D2).
    eapply R_val; [|exact F2|exact D2|exact Rk'].
    apply PE. exists x, k, (Some v). repeat split; assumption.
  - intros e He _. apply RE_ext. rewrite (sim_xe _ _ HS). exact He.
  - intros e He L. apply RE_wm. apply (sim_wf _ _ HS); assumption.
  - intros a b e Ra Ra' Hf He L. destruct (sim_box _ _ HS a b Ra Hf) as (b2 & F2 & _ & _ & Sk & _).
    eapply RE_sto; [exact Ra'|exact F2|]. apply (sk_kept _ _ _ Sk); assumption.
Qed.

Lemma sim_reach_bwd s1 s2 : Sim s1 s2 ->
  (forall n, Reach s2 n -> Reach s1 n) /\ (forall e, ReachE s2 e -> ReachE s1 e).
Proof.
  intro HS.
  apply (Reach_mutind s2 (fun n => Reach s1 n) (fun e => ReachE s1 e)).
  - intros n Hn. apply R_ext. rewrite <- (sim_xs _ _ HS). exact Hn.
  - intros a b2 n _ Ra Hf Hn. destruct (reach_box s1 a (sim_inv1 _ _ HS) Ra) as [b1 F1].
    destruct (sim_box _ _ HS a b1 Ra F1) as (b2' & F2 & Kk & _).
    assert (b2' = b2) by congruence. subst b2'.
    eapply R_kid; [exact Ra|exact F1|]. rewrite <- Kk. exact Hn.
  - intros e x2 k v _ Re Hf Hd _ Rk. destruct (sim_eb _ _ HS e x2 Hf) as (x1 & F1 & [D|[D _]]); [|congruence].
    eapply R_val; [exact Re|exact F1| |exact Rk]. rewrite <- D. exact Hd.
  - intros e He. apply RE_ext. rewrite <- (sim_xe _ _ HS). exact He.
  - intros e He. apply RE_wm. apply (sim_wm _ _ HS). exact He.
  - intros a b2 e _ Ra Hf He. destruct (reach_box s1 a (sim_inv1 _ _ HS) Ra) as [b1 F1].
    destruct (sim_box _ _ HS a b1 Ra F1) as (b2' & F2 & _ & _ & Sk & _).
    assert (b2' = b2) by congruence. subst b2'.
    eapply RE_sto; [exact Ra|exact F1|]. apply (sk_In _ _ _ Sk). exact He.
Qed.

Lemma K_init : K init.
Proof. intros w x m v b []. Qed.

Lemma Sim_init : Sim init init.
Proof.
  constructor; try reflexivity; try exact Inv_init; try exact no_res_init; try exact K_init.
  - intros n b1 _ H. discriminate H.
  - intros e x2 H. discriminate H.
  - intros e x1 k v _ H. discriminate H.
  - apply incl_refl.
  - intros w [].
Qed.

Lemma sim_collect s1 s2 s2' g : Sim s1 s2 -> collect s2 = (s2', g) -> Sim s1 s2'.
Proof.
  intros HS Hc.
  pose proof (sim_inv2 _ _ HS) as I2. pose proof (sim_p2 _ _ HS) as P2.
  pose proof (no_res_dead_no_res s2 (sim_nr2 _ _ HS)) as Hd.
  destruct (sim_reach_fwd s1 s2 HS) as [FwS FwE].
  destruct (sim_reach_bwd s1 s2 HS) as [BwS BwE].
  destruct (collect_exact_lemma s2 s2' g I2 P2 Hd Hc)
    as (I' & P' & _ & _ & _ & _ & _ & _ & _ & XS & XE & NS & NE).
  destruct (collect_frame_lemma s2 s2' g I2 P2 Hd Hc) as (FS & FE & FW & _).
  pose proof (collect_no_res s2 I2 P2 (sim_nr2 _ _ HS)) as NR'. rewrite Hc in NR'. cbn [fst] in NR'.
  assert (HD : forall e, ReachE s1 e -> live s1 e -> has_data (weaks s2') e = true).
  { intros e Re L. pose proof (FwE e Re L) as Re2. destruct L as (x1 & k & v & F1 & D1 & Rk).
    destruct (sim_ef _ _ HS e x1 k v Re F1 D1 Rk) as (x2 & F2 & D2).
    apply (ac_has_data s2 s2' g I2 P2 Hd Hc e x2 k v Re2 F2 D2). apply FwS. exact Rk. }
  constructor.
  - apply (sim_inv1 _ _ HS).
  - apply (sim_p1 _ _ HS).
  - apply (sim_nr1 _ _ HS).
  - exact I'.
  - exact P'.
  - exact NR'.
  - apply (K_collect s2 s2' g I2 P2 Hd (sim_K _ _ HS) Hc).
  - rewrite XS. apply (sim_xs _ _ HS).
  - rewrite XE. apply (sim_xe _ _ HS).
  - rewrite NS. apply (sim_ns _ _ HS).
  - rewrite NE. apply (sim_ne _ _ HS).
  - intros n b1 Rn F1. destruct (sim_box _ _ HS n b1 Rn F1) as (b2 & F2 & Kk & M & Sk & Eq).
    destruct (ac_surv_s s2 s2' g I2 P2 Hd Hc n b2 (FwS n Rn) F2) as (b2' & F2' & Kk' & _ & M' & Ee).
    exists b2'. split; [exact F2'|]. split; [congruence|]. split; [congruence|]. split.
    + destruct Ee as [Ee|Ee]; rewrite Ee; [exact Sk|]. apply sk_filter; [exact Sk|].
      intros e He L. apply HD; [|exact L]. exact (RE_sto s1 n b1 e Rn F1 He).
    + intro Mf. assert (Mf' : s_map b2' = false) by congruence.
      destruct (collect_nonmap s2 s2' g I2 P2 Hd (sim_K _ _ HS) Hc n b2' F2' Mf') as (b & Fb & Eb).
      assert (b = b2) by congruence. subst b. rewrite Eb. apply Eq. exact Mf.
  - intros e x2' F2'. destruct (FE e x2' F2') as (x2 & F2 & R2).
    destruct (sim_eb _ _ HS e x2 F2) as (x1 & F1 & R1). exists x1. split; [exact F1|].
    destruct R2 as [R2|(R2 & k & v & D2 & Nk)]; destruct R1 as [R1|(R1 & N1)].
    + left. congruence.
    + right. split; [congruence|exact N1].
    + right. split; [exact R2|]. intros k' v' D1 Rk. apply Nk. apply FwS.
      assert (k' = k) by congruence. subst k'. exact Rk.
    + congruence.
  - intros e x1 k v Re F1 D1 Rk. destruct (sim_ef _ _ HS e x1 k v Re F1 D1 Rk) as (x2 & F2 & D2).
    apply (ac_data s2 s2' g I2 P2 Hd Hc e x2 k v); [|exact F2|exact D2|apply FwS; exact Rk].
    apply FwE; [exact Re|]. exists x1, k, v. repeat split; assumption.
  - intros w Hw. apply (sim_wm _ _ HS). apply FW. exact Hw.
  - intros w Hw L. apply (collect_wmaps s2 s2' g I2 P2 Hd Hc). split.
    + apply (sim_wf _ _ HS); assumption.
    + apply HD; [apply RE_wm; exact Hw|exact L].
Qed.

(* ---------------------------------------------------------------------------------------------- *)
(* 4. what a mutator operation does to a state, up to reference counts *)

Definition vw (b : sbox) : sbox := set_rc 0 b.
Definition bview (Sb : list sbox) (n : id) : option sbox := option_map vw (find_s n Sb).
Definition eview (W : list ebox) (e : id) : option (option (id * option id)) :=
  option_map e_data (find_e e W).
Definition updb (fk fe : list id -> list id) (b : sbox) : sbox :=
  mkS (s_id b) (s_rc b) (fk (s_kids b)) (fe (s_ephs b)) (s_fin b) (s_map b).

Lemma bview_upd a f g Sb x : (forall b, s_id (f b) = s_id b) -> (forall b, vw (f b) = g (vw b)) ->
  bview (upd_s a f Sb) x = option_map (fun v => if N.eqb a x then g v else v) (bview Sb x).
Proof.
  intros H1 H2. unfold bview. rewrite find_upd_s by exact H1.
  destruct (N.eqb a x); destruct (find_s x Sb); cbn [option_map]; try reflexivity.
  rewrite H2. reflexivity.
Qed.

Lemma bview_rc1 a Sb x : bview (upd_s a (fun b => set_rc (S (s_rc b)) b) Sb) x = bview Sb x.
Proof.
  rewrite (bview_upd a _ (fun v => v)) by (intro; reflexivity).
  destruct (bview Sb x); cbn [option_map]; [destruct (N.eqb a x)|]; reflexivity.
Qed.

Lemma bview_rc2 a r Sb x : bview (upd_s a (set_rc r) Sb) x = bview Sb x.
Proof.
  rewrite (bview_upd a _ (fun v => v)) by (intro; reflexivity).
  destruct (bview Sb x); cbn [option_map]; [destruct (N.eqb a x)|]; reflexivity.
Qed.

Lemma bview_kapp a n Sb x : bview (upd_s a (fun b => set_kids (s_kids b ++ [n]) b) Sb) x =
  option_map (fun v => if N.eqb a x then updb (fun l => l ++ [n]) (fun l => l) v else v) (bview Sb x).
Proof. apply bview_upd; intro; reflexivity. Qed.

Lemma bview_krem a n Sb x : bview (upd_s a (fun b => set_kids (remove1 n (s_kids b)) b) Sb) x =
  option_map (fun v => if N.eqb a x then updb (remove1 n) (fun l => l) v else v) (bview Sb x).
Proof. apply bview_upd; intro; reflexivity. Qed.

Lemma bview_eapp a n Sb x : bview (upd_s a (fun b => set_ephs (s_ephs b ++ [n]) b) Sb) x =
  option_map (fun v => if N.eqb a x then updb (fun l => l) (fun l => l ++ [n]) v else v) (bview Sb x).
Proof. apply bview_upd; intro; reflexivity. Qed.

Lemma bview_erem a n Sb x : bview (upd_s a (fun b => set_ephs (remove1 n (s_ephs b)) b) Sb) x =
  option_map (fun v => if N.eqb a x then updb (fun l => l) (remove1 n) v else v) (bview Sb x).
Proof. apply bview_upd; intro; reflexivity. Qed.

Lemma bview_push Sb b x : bview (Sb ++ [b]) x =
  match bview Sb x with Some v => Some v | None => if N.eqb (s_id b) x then Some (vw b) else None end.
Proof.
  unfold bview. rewrite find_s_app. destruct (find_s x Sb); cbn [option_map]; [reflexivity|].
  destruct (N.eqb (s_id b) x); reflexivity.
Qed.

Lemma bview_dec_s n s x : bview (strongs (dec_s n s)) x = bview (strongs s) x.
Proof.
  unfold dec_s. destruct (find_s n (strongs s)) as [b|]; [destruct (s_rc b)|]; try reflexivity.
  cbn [strongs set_strongs]. apply bview_rc2.
Qed.

Lemma eview_upd a f W x : (forall b, e_id (f b) = e_id b) -> (forall b, e_data (f b) = e_data b) ->
  eview (upd_e a f W) x = eview W x.
Proof.
  intros H1 H2. unfold eview. rewrite find_upd_e by exact H1.
  destruct (N.eqb a x); destruct (find_e x W); cbn [option_map]; try reflexivity.
  rewrite H2. reflexivity.
Qed.

Lemma eview_rc1 a W x : eview (upd_e a (fun e => set_erc (S (e_rc e)) e) W) x = eview W x.
Proof. apply eview_upd; intro; reflexivity. Qed.

Lemma eview_rc2 a r W x : eview (upd_e a (set_erc r) W) x = eview W x.
Proof. apply eview_upd; intro; reflexivity. Qed.

Lemma eview_push W b x : eview (W ++ [b]) x =
  match eview W x with Some v => Some v | None => if N.eqb (e_id b) x then Some (e_data b) else None end.
Proof.
  unfold eview. rewrite find_e_app. destruct (find_e x W); cbn [option_map]; [reflexivity|].
  destruct (N.eqb (e_id b) x); reflexivity.
Qed.

Lemma eview_dec_e n s x : eview (weaks (dec_e n s)) x = eview (weaks s) x.
Proof.
  unfold dec_e. destruct (find_e n (weaks s)) as [b|]; [destruct (e_rc b)|]; try reflexivity.
  cbn [weaks set_weaks]. apply eview_rc2.
Qed.

Lemma ext_s_dec_s n s : ext_s (dec_s n s) = ext_s s.
Proof. unfold dec_s. destruct (find_s n (strongs s)) as [b|]; [destruct (s_rc b)|]; reflexivity. Qed.
Lemma ext_e_dec_s n s : ext_e (dec_s n s) = ext_e s.
Proof. unfold dec_s. destruct (find_s n (strongs s)) as [b|]; [destruct (s_rc b)|]; reflexivity. Qed.
Lemma ext_s_dec_e n s : ext_s (dec_e n s) = ext_s s.
Proof. unfold dec_e. destruct (find_e n (weaks s)) as [b|]; [destruct (e_rc b)|]; reflexivity. Qed.
Lemma ext_e_dec_e n s : ext_e (dec_e n s) = ext_e s.
Proof. unfold dec_e. destruct (find_e n (weaks s)) as [b|]; [destruct (e_rc b)|]; reflexivity. Qed.

Lemma Some_inj {A} (x y : A) : Some x = Some y -> x = y.
Proof. intro H. injection H as H. exact H. Qed.

Lemma bview_find Sb n b : find_s n Sb = Some b -> bview Sb n = Some (vw b).
Proof. intro H. unfold bview. rewrite H. reflexivity. Qed.

Lemma eview_find W n x : find_e n W = Some x -> eview W n = Some (e_data x).
Proof. intro H. unfold eview. rewrite H. reflexivity. Qed.

(* the description of an effect *)
Record delta := mkD {
  d_xs : list id -> list id;      (* root list of strong handles *)
  d_xe : list id -> list id;      (* root list of ephemeron handles *)
  d_wn : list id;                 (* appended to the registry *)
  d_a : id;                       (* the one box whose payload changes *)
  d_fk : list id -> list id;
  d_fe : list id -> list id;
  d_nb : option sbox;             (* freshly allocated strong box (id next_s) *)
  d_nx : option ebox              (* freshly allocated ephemeron box (id next_e) *)
}.

Record Eff (d : delta) (s s' : state) : Prop := mkEff {
  ef_xs : ext_s s' = d_xs d (ext_s s);
  ef_xe : ext_e s' = d_xe d (ext_e s);
  ef_wm : wmaps s' = wmaps s ++ d_wn d;
  ef_ns : next_s s' = match d_nb d with Some _ => N.succ (next_s s) | None => next_s s end;
  ef_ne : next_e s' = match d_nx d with Some _ => N.succ (next_e s) | None => next_e s end;
  ef_box : forall n, bview (strongs s') n =
     match bview (strongs s) n with
     | Some b => Some (if N.eqb (d_a d) n then updb (d_fk d) (d_fe d) b else b)
     | None => if N.eqb (next_s s) n then option_map vw (d_nb d) else None
     end;
  ef_eph : forall e, eview (weaks s') e =
     match eview (weaks s) e with
     | Some x => Some x
     | None => if N.eqb (next_e s) e then option_map e_data (d_nx d) else None
     end
}.

Lemma eff_box_inv d s s' n b' : Eff d s s' -> find_s n (strongs s') = Some b' ->
  (exists b, find_s n (strongs s) = Some b /\ s_map b' = s_map b /\
             s_kids b' = (if N.eqb (d_a d) n then d_fk d (s_kids b) else s_kids b) /\
             s_ephs b' = (if N.eqb (d_a d) n then d_fe d (s_ephs b) else s_ephs b)) \/
  (find_s n (strongs s) = None /\ n = next_s s /\
   exists nb, d_nb d = Some nb /\ s_kids b' = s_kids nb /\ s_ephs b' = s_ephs nb /\ s_map b' = s_map nb).
Proof.
  intros E Hf. pose proof (ef_box _ _ _ E n) as H. rewrite (bview_find _ _ _ Hf) in H.
  unfold bview in H. destruct (find_s n (strongs s)) as [b|] eqn:F; cbn [option_map] in H.
  - left. exists b. split; [reflexivity|]. destruct (N.eqb (d_a d) n); apply Some_inj in H.
    + split; [exact (f_equal s_map H)|]. split; [exact (f_equal s_kids H)|exact (f_equal s_ephs H)].
    + split; [exact (f_equal s_map H)|]. split; [exact (f_equal s_kids H)|exact (f_equal s_ephs H)].
  - right. split; [reflexivity|]. destruct (N.eqb_spec (next_s s) n) as [En|En]; [|discriminate].
    split; [symmetry; exact En|]. destruct (d_nb d) as [nb|]; cbn [option_map] in H; [|discriminate].
    exists nb. split; [reflexivity|]. apply Some_inj in H.
    split; [exact (f_equal s_kids H)|]. split; [exact (f_equal s_ephs H)|exact (f_equal s_map H)].
Qed.

Lemma bview_Some Sb n v : bview Sb n = Some v -> exists b, find_s n Sb = Some b /\ vw b = v.
Proof.
  unfold bview. destruct (find_s n Sb) as [b|]; cbn [option_map]; [|discriminate].
  intro H. apply Some_inj in H. exists b. split; [reflexivity|exact H].
Qed.

Lemma eff_box_fwd d s s' n b : Eff d s s' -> find_s n (strongs s) = Some b ->
  exists b', find_s n (strongs s') = Some b' /\ s_map b' = s_map b /\
             s_kids b' = (if N.eqb (d_a d) n then d_fk d (s_kids b) else s_kids b) /\
             s_ephs b' = (if N.eqb (d_a d) n then d_fe d (s_ephs b) else s_ephs b).
Proof.
  intros E Hf. pose proof (ef_box _ _ _ E n) as H. rewrite (bview_find _ _ _ Hf) in H.
  apply bview_Some in H. destruct H as (b' & F' & H). exists b'. split; [exact F'|].
  destruct (N.eqb (d_a d) n).
  - split; [exact (f_equal s_map H)|]. split; [exact (f_equal s_kids H)|exact (f_equal s_ephs H)].
  - split; [exact (f_equal s_map H)|]. split; [exact (f_equal s_kids H)|exact (f_equal s_ephs H)].
Qed.

Lemma eff_box_new d s s' nb : Eff d s s' -> find_s (next_s s) (strongs s) = None -> d_nb d = Some nb ->
  exists b', find_s (next_s s) (strongs s') = Some b' /\
             s_kids b' = s_kids nb /\ s_ephs b' = s_ephs nb /\ s_map b' = s_map nb.
Proof.
  intros E Hf Hn. pose proof (ef_box _ _ _ E (next_s s)) as H. unfold bview at 2 in H.
  rewrite Hf, Hn, N.eqb_refl in H. cbn [option_map] in H.
  apply bview_Some in H. destruct H as (b' & F' & H). exists b'. split; [exact F'|].
  split; [exact (f_equal s_kids H)|]. split; [exact (f_equal s_ephs H)|exact (f_equal s_map H)].
Qed.

Lemma eff_eph_inv d s s' e x' : Eff d s s' -> find_e e (weaks s') = Some x' ->
  (exists x, find_e e (weaks s) = Some x /\ e_data x' = e_data x) \/
  (find_e e (weaks s) = None /\ e = next_e s /\ exists nx, d_nx d = Some nx /\ e_data x' = e_data nx).
Proof.
  intros E Hf. pose proof (ef_eph _ _ _ E e) as H. rewrite (eview_find _ _ _ Hf) in H.
  unfold eview in H. destruct (find_e e (weaks s)) as [x|] eqn:F; cbn [option_map] in H.
  - left. exists x. split; [reflexivity|]. apply Some_inj in H. exact H.
  - right. split; [reflexivity|]. destruct (N.eqb_spec (next_e s) e) as [En|En]; [|discriminate].
    split; [symmetry; exact En|]. destruct (d_nx d) as [nx|]; cbn [option_map] in H; [|discriminate].
    exists nx. split; [reflexivity|]. apply Some_inj in H. exact H.
Qed.

Lemma eview_Some W n v : eview W n = Some v -> exists x, find_e n W = Some x /\ e_data x = v.
Proof.
  unfold eview. destruct (find_e n W) as [x|]; cbn [option_map]; [|discriminate].
  intro H. apply Some_inj in H. exists x. split; [reflexivity|exact H].
Qed.

Lemma eff_eph_fwd d s s' e x : Eff d s s' -> find_e e (weaks s) = Some x ->
  exists x', find_e e (weaks s') = Some x' /\ e_data x' = e_data x.
Proof.
  intros E Hf. pose proof (ef_eph _ _ _ E e) as H. rewrite (eview_find _ _ _ Hf) in H.
  apply eview_Some in H. exact H.
Qed.

Lemma eff_eph_new d s s' nx : Eff d s s' -> find_e (next_e s) (weaks s) = None -> d_nx d = Some nx ->
  exists x', find_e (next_e s) (weaks s') = Some x' /\ e_data x' = e_data nx.
Proof.
  intros E Hf Hn. pose proof (ef_eph _ _ _ E (next_e s)) as H. unfold eview at 2 in H.
  rewrite Hf, Hn, N.eqb_refl in H. cbn [option_map] in H.
  apply eview_Some in H. exact H.
Qed.

(* side conditions: nothing unreachable is made reachable *)
Record Ok (d : delta) (s : state) : Prop := mkOk {
  ok_xs : forall l n, In n (d_xs d l) -> In n l \/ Reach s n \/ (d_nb d <> None /\ n = next_s s);
  ok_xe : forall l e, In e (d_xe d l) -> In e l \/ ReachE s e \/ (d_nx d <> None /\ e = next_e s);
  ok_k : forall l n, In n (d_fk d l) -> In n l \/ Reach s n;
  ok_e : forall l e, In e (d_fe d l) -> In e l \/ ReachE s e \/ (d_nx d <> None /\ e = next_e s);
  ok_sk : forall P l2 l1, sub_keep P l2 l1 -> sub_keep P (d_fe d l2) (d_fe d l1);
  ok_nb : forall b, d_nb d = Some b ->
            s_kids b = [] /\ forall e, In e (s_ephs b) -> d_nx d <> None /\ e = next_e s;
  ok_nx : forall x k v, d_nx d = Some x -> e_data x = Some (k, v) ->
            (Reach s k \/ (d_nb d <> None /\ k = next_s s)) /\ (forall v', v = Some v' -> Reach s v');
  ok_wn : forall w, In w (d_wn d) -> d_nx d <> None /\ w = next_e s;
  ok_K : d_wn d = [] \/
         exists x b, d_nx d = Some x /\ e_data x = Some (next_s s, None) /\ d_nb d = Some b /\ s_map b = true
}.

Lemma eff_reach d s s' : Inv s -> Eff d s s' -> Ok d s ->
  (forall n, Reach s' n -> Reach s n \/ (d_nb d <> None /\ n = next_s s)) /\
  (forall e, ReachE s' e -> ReachE s e \/ (d_nx d <> None /\ e = next_e s)).
Proof.
  intros I E O.
  pose proof (fresh_find_s s I) as FrS. pose proof (fresh_find_e s I) as FrE.
  apply (Reach_mutind s' (fun n => Reach s n \/ (d_nb d <> None /\ n = next_s s))
                         (fun e => ReachE s e \/ (d_nx d <> None /\ e = next_e s))).
  - intros n Hn. rewrite (ef_xs _ _ _ E) in Hn. apply (ok_xs _ _ O) in Hn.
    destruct Hn as [Hn|[Hn|Hn]]; [left; apply R_ext; exact Hn|left; exact Hn|right; exact Hn].
  - intros a b' n _ Pa Hf Hn. destruct (eff_box_inv d s s' a b' E Hf) as [(b & Fb & _ & Kk & _)|(_ & _ & nb & Hnb & Kk & _)].
    + assert (Ra : Reach s a).
      { destruct Pa as [Ra|[_ Ea]]; [exact Ra|]. subst a. congruence. }
      rewrite Kk in Hn. destruct (N.eqb (d_a d) a).
      * apply (ok_k _ _ O) in Hn. destruct Hn as [Hn|Hn]; [|left; exact Hn].
        left. exact (R_kid s a b n Ra Fb Hn).
      * left. exact (R_kid s a b n Ra Fb Hn).
    + rewrite Kk in Hn. destruct (ok_nb _ _ O nb Hnb) as [K0 _]. rewrite K0 in Hn. destruct Hn.
  - intros e x' k v _ Pe Hf Hd _ Pk.
    destruct (eff_eph_inv d s s' e x' E Hf) as [(x & Fx & Dx)|(_ & _ & nx & Hnx & Dx)].
    + assert (Re : ReachE s e).
      { destruct Pe as [Re|[_ Ee]]; [exact Re|]. subst e. congruence. }
      rewrite Dx in Hd.
      assert (Rk : Reach s k).
      { destruct Pk as [Rk|[_ Ek]]; [exact Rk|]. exfalso. subst k.
        pose proof (inv_key _ I x _ _ (proj1 (find_e_In _ _ _ Fx)) Hd) as Hin.
        apply In_ids_find_s in Hin. destruct Hin as [b Hb]. congruence. }
      left. exact (R_val s e x k v Re Fx Hd Rk).
    + rewrite Dx in Hd. destruct (ok_nx _ _ O nx k (Some v) Hnx Hd) as [_ Hv]. left. apply Hv. reflexivity.
  - intros e He. rewrite (ef_xe _ _ _ E) in He. apply (ok_xe _ _ O) in He.
    destruct He as [He|[He|He]]; [left; apply RE_ext; exact He|left; exact He|right; exact He].
  - intros e He. rewrite (ef_wm _ _ _ E) in He. apply in_app_or in He.
    destruct He as [He|He]; [left; apply RE_wm; exact He|right; apply (ok_wn _ _ O); exact He].
  - intros a b' e _ Pa Hf He. destruct (eff_box_inv d s s' a b' E Hf) as [(b & Fb & _ & _ & Ee)|(_ & _ & nb & Hnb & _ & Ee & _)].
    + assert (Ra : Reach s a).
      { destruct Pa as [Ra|[_ Ea]]; [exact Ra|]. subst a. congruence. }
      rewrite Ee in He. destruct (N.eqb (d_a d) a).
      * apply (ok_e _ _ O) in He. destruct He as [He|[He|He]]; [|left; exact He|right; exact He].
        left. exact (RE_sto s a b e Ra Fb He).
      * left. exact (RE_sto s a b e Ra Fb He).
    + rewrite Ee in He. destruct (ok_nb _ _ O nb Hnb) as [_ K0]. right. apply K0. exact He.
Qed.

Lemma reach_back_old d s s' k : Inv s -> Eff d s s' -> Ok d s ->
  In k (ids_s (strongs s)) -> Reach s' k -> Reach s k.
Proof.
  intros I E O Hin Rk. destruct (proj1 (eff_reach d s s' I E O) k Rk) as [R|[_ Ek]]; [exact R|].
  exfalso. subst k. apply In_ids_find_s in Hin. destruct Hin as [b Hb].
  rewrite (fresh_find_s s I) in Hb. discriminate.
Qed.

Lemma reachE_back_old d s s' e : Inv s -> Eff d s s' -> Ok d s ->
  In e (ids_e (weaks s)) -> ReachE s' e -> ReachE s e.
Proof.
  intros I E O Hin Re. destruct (proj2 (eff_reach d s s' I E O) e Re) as [R|[_ Ek]]; [exact R|].
  exfalso. subst e. apply In_ids_find_e in Hin. destruct Hin as [b Hb].
  rewrite (fresh_find_e s I) in Hb. discriminate.
Qed.

Lemma live_back d s s' e : Inv s -> Eff d s s' -> Ok d s ->
  In e (ids_e (weaks s)) -> live s' e -> live s e.
Proof.
  intros I E O Hin (x' & k & v & Fx' & Dx' & Rk).
  destruct (eff_eph_inv d s s' e x' E Fx') as [(x & Fx & Dx)|(Fn & _)].
  - exists x, k, v. split; [exact Fx|]. rewrite Dx in Dx'. split; [exact Dx'|].
    apply (reach_back_old d s s' k I E O); [|exact Rk].
    apply (inv_key _ I x k v); [apply (find_e_In _ _ _ Fx)|exact Dx'].
  - exfalso. apply In_ids_find_e in Hin. destruct Hin as [b Hb]. congruence.
Qed.

Lemma K_eff d s s' : Inv s -> K s -> Eff d s s' ->
  (forall w, In w (d_wn d) -> w = next_e s) ->
  (d_wn d = [] \/
   exists x b, d_nx d = Some x /\ e_data x = Some (next_s s, None) /\ d_nb d = Some b /\ s_map b = true) ->
  K s'.
Proof.
  intros I Hk E Hwn HK w x' m v b' Hw Hf Hd Hb.
  pose proof (fresh_find_s s I) as FrS. pose proof (fresh_find_e s I) as FrE.
  rewrite (ef_wm _ _ _ E) in Hw. apply in_app_or in Hw. destruct Hw as [Hw|Hw].
  - destruct (eff_eph_inv d s s' w x' E Hf) as [(x & Fx & Dx)|(Fn & _)].
    + rewrite Dx in Hd.
      pose proof (inv_key _ I x m v (proj1 (find_e_In _ _ _ Fx)) Hd) as Hm.
      destruct (eff_box_inv d s s' m b' E Hb) as [(b & Fb & M & _)|(Fn & _)].
      * rewrite M. exact (Hk w x m v b Hw Fx Hd Fb).
      * exfalso. apply In_ids_find_s in Hm. destruct Hm as [b Fb]. congruence.
    + exfalso. apply (inv_wm _ I) in Hw. apply In_ids_find_e in Hw. destruct Hw as [x Fx]. congruence.
  - destruct HK as [HK|(nx & nb & Hnx & Dnx & Hnb & Mnb)]; [rewrite HK in Hw; destruct Hw|].
    pose proof (Hwn w Hw) as Ew. subst w.
    destruct (eff_eph_inv d s s' _ x' E Hf) as [(x & Fx & _)|(_ & _ & nx' & Hnx' & Dx)]; [congruence|].
    assert (nx' = nx) by congruence. subst nx'. rewrite Dx, Dnx in Hd. injection Hd as Em _. subst m.
    destruct (eff_box_inv d s s' _ b' E Hb) as [(b & Fb & _)|(_ & _ & nb' & Hnb' & _ & _ & M)]; [congruence|].
    assert (nb' = nb) by congruence. subst nb'. congruence.
Qed.

(* the generic preservation lemma: the same effect on both sides keeps the simulation *)
Lemma sim_eff d s1 s2 s1' s2' :
  Sim s1 s2 ->
  Inv s1' /\ poisoned s1' = false /\ no_res s1' ->
  Inv s2' /\ poisoned s2' = false /\ no_res s2' ->
  Eff d s1 s1' -> Eff d s2 s2' -> Ok d s1 -> Sim s1' s2'.
Proof.
  intros HS (I1' & P1' & N1') (I2' & P2' & N2') E1 E2 O.
  pose proof (sim_inv1 _ _ HS) as I1. pose proof (sim_inv2 _ _ HS) as I2.
  pose proof (fresh_find_s s1 I1) as FrS1. pose proof (fresh_find_e s1 I1) as FrE1.
  pose proof (fresh_find_s s2 I2) as FrS2. pose proof (fresh_find_e s2 I2) as FrE2.
  rewrite (sim_ns _ _ HS) in FrS2. rewrite (sim_ne _ _ HS) in FrE2.
  destruct (eff_reach d s1 s1' I1 E1 O) as [RbS RbE].
  constructor; try assumption.
  - (* K *)
    apply (K_eff d s2 s2' I2 (sim_K _ _ HS) E2).
    + intros w Hw. rewrite (sim_ne _ _ HS). apply (ok_wn _ _ O). exact Hw.
    + rewrite (sim_ns _ _ HS). apply (ok_K _ _ O).
  - rewrite (ef_xs _ _ _ E1), (ef_xs _ _ _ E2), (sim_xs _ _ HS). reflexivity.
  - rewrite (ef_xe _ _ _ E1), (ef_xe _ _ _ E2), (sim_xe _ _ HS). reflexivity.
  - rewrite (ef_ns _ _ _ E1), (ef_ns _ _ _ E2), (sim_ns _ _ HS). reflexivity.
  - rewrite (ef_ne _ _ _ E1), (ef_ne _ _ _ E2), (sim_ne _ _ HS). reflexivity.
  - (* boxes *)
    intros n b1' Rn F1'.
    destruct (eff_box_inv d s1 s1' n b1' E1 F1') as [(b1 & F1 & M1 & K1 & Ep1)|(F1 & En & nb & Hnb & K1 & Ep1 & M1)].
    + assert (Rn1 : Reach s1 n).
      { apply (reach_back_old d s1 s1' n I1 E1 O); [|exact Rn]. exact (find_s_ids _ _ _ F1). }
      destruct (sim_box _ _ HS n b1 Rn1 F1) as (b2 & F2 & Kk & M & Sk & Eq).
      destruct (eff_box_fwd d s2 s2' n b2 E2 F2) as (b2' & F2' & M2 & K2 & Ep2).
      exists b2'. split; [exact F2'|]. split; [rewrite K1, K2, Kk; reflexivity|].
      split; [congruence|].
      assert (Sk' : sub_keep (live s1') (s_ephs b2) (s_ephs b1)).
      { apply (sk_mono _ _ _ _ Sk). intros e He L.
        apply (live_back d s1 s1' e I1 E1 O); [|exact L].
        apply (inv_ephs _ I1 b1 e); [apply (find_s_In _ _ _ F1)|exact He]. }
      split.
      * rewrite Ep1, Ep2. destruct (N.eqb (d_a d) n); [apply (ok_sk _ _ O)|]; exact Sk'.
      * intro Mf. rewrite Ep1, Ep2. rewrite Eq by congruence. reflexivity.
    + subst n. rewrite <- (sim_ns _ _ HS) in FrS2.
      destruct (eff_box_new d s2 s2' nb E2 FrS2 Hnb) as (b2' & F2' & K2 & Ep2 & M2).
      rewrite (sim_ns _ _ HS) in F2'.
      exists b2'. split; [exact F2'|]. split; [congruence|]. split; [congruence|].
      split; [rewrite Ep1, Ep2; apply sk_refl|intros _; congruence].
  - (* ephemerons of s2' come from s1' *)
    intros e x2' F2'.
    destruct (eff_eph_inv d s2 s2' e x2' E2 F2') as [(x2 & F2 & D2)|(F2 & En & nx & Hnx & D2)].
    + destruct (sim_eb _ _ HS e x2 F2) as (x1 & F1 & R).
      destruct (eff_eph_fwd d s1 s1' e x1 E1 F1) as (x1' & F1' & D1).
      exists x1'. split; [exact F1'|]. rewrite D2, D1.
      destruct R as [R|[R Nk]]; [left; exact R|right]. split; [exact R|].
      intros k v Dk Rk. apply (Nk k v Dk).
      apply (reach_back_old d s1 s1' k I1 E1 O); [|exact Rk].
      apply (inv_key _ I1 x1 k v); [apply (find_e_In _ _ _ F1)|exact Dk].
    + rewrite (sim_ne _ _ HS) in En. subst e.
      destruct (eff_eph_new d s1 s1' nx E1 FrE1 Hnx) as (x1' & F1' & D1).
      exists x1'. split; [exact F1'|]. left. congruence.
  - (* live reachable ephemerons of s1' are in s2' *)
    intros e x1' k v Re F1' D1' Rk.
    destruct (eff_eph_inv d s1 s1' e x1' E1 F1') as [(x1 & F1 & D1)|(F1 & En & nx & Hnx & D1)].
    + rewrite D1 in D1'.
      assert (Re1 : ReachE s1 e).
      { apply (reachE_back_old d s1 s1' e I1 E1 O); [|exact Re]. exact (find_e_ids _ _ _ F1). }
      assert (Rk1 : Reach s1 k).
      { apply (reach_back_old d s1 s1' k I1 E1 O); [|exact Rk].
        apply (inv_key _ I1 x1 k v); [apply (find_e_In _ _ _ F1)|exact D1']. }
      destruct (sim_ef _ _ HS e x1 k v Re1 F1 D1' Rk1) as (x2 & F2 & D2).
      destruct (eff_eph_fwd d s2 s2' e x2 E2 F2) as (x2' & F2' & D2').
      exists x2'. split; [exact F2'|congruence].
    + subst e. rewrite <- (sim_ne _ _ HS) in FrE2.
      destruct (eff_eph_new d s2 s2' nx E2 FrE2 Hnx) as (x2' & F2' & D2').
      rewrite (sim_ne _ _ HS) in F2'. exists x2'. split; [exact F2'|congruence].
  - (* registry *)
    intros w Hw. rewrite (ef_wm _ _ _ E2) in Hw. rewrite (ef_wm _ _ _ E1).
    apply in_app_or in Hw. apply in_or_app.
    destruct Hw as [Hw|Hw]; [left; apply (sim_wm _ _ HS); exact Hw|right; exact Hw].
  - intros w Hw L. rewrite (ef_wm _ _ _ E1) in Hw. rewrite (ef_wm _ _ _ E2).
    apply in_app_or in Hw. apply in_or_app.
    destruct Hw as [Hw|Hw]; [left|right; exact Hw].
    apply (sim_wf _ _ HS); [exact Hw|].
    apply (live_back d s1 s1' w I1 E1 O); [|exact L]. apply (inv_wm _ I1). exact Hw.
Qed.

(* ---------------------------------------------------------------------------------------------- *)
(* 5. the guards of the operations evaluate equally on both sides *)

Lemma sim_held s1 s2 n : Sim s1 s2 -> held s2 n = held s1 n.
Proof. intro HS. unfold held. rewrite (sim_xs _ _ HS). reflexivity. Qed.

Lemma sim_helde s1 s2 n : Sim s1 s2 -> helde s2 n = helde s1 n.
Proof. intro HS. unfold helde. rewrite (sim_xe _ _ HS). reflexivity. Qed.

Lemma sim_held_box s1 s2 n : Sim s1 s2 -> held s1 n = true ->
  exists b1 b2, find_s n (strongs s1) = Some b1 /\ find_s n (strongs s2) = Some b2 /\ Reach s1 n /\
    s_kids b2 = s_kids b1 /\ s_map b2 = s_map b1 /\
    sub_keep (live s1) (s_ephs b2) (s_ephs b1) /\ (s_map b1 = false -> s_ephs b2 = s_ephs b1).
Proof.
  intros HS H. apply held_In in H. pose proof (R_ext s1 n H) as R.
  destruct (reach_box s1 n (sim_inv1 _ _ HS) R) as [b1 F1].
  destruct (sim_box _ _ HS n b1 R F1) as (b2 & F2 & Kk & M & Sk & Eq).
  exists b1, b2. repeat split; assumption.
Qed.

Lemma sim_held_node s1 s2 n : Sim s1 s2 -> held_node s2 n = held_node s1 n.
Proof.
  intro HS. unfold held_node. rewrite (sim_held s1 s2 n HS).
  destruct (held s1 n) eqn:H; [|reflexivity]. cbn [andb].
  destruct (sim_held_box s1 s2 n HS H) as (b1 & b2 & F1 & F2 & _ & _ & M & _).
  unfold is_node. rewrite F1, F2, M. reflexivity.
Qed.

Lemma sim_held_map s1 s2 n : Sim s1 s2 -> held_map s2 n = held_map s1 n.
Proof.
  intro HS. unfold held_map. rewrite (sim_held s1 s2 n HS).
  destruct (held s1 n) eqn:H; [|reflexivity]. cbn [andb].
  destruct (sim_held_box s1 s2 n HS H) as (b1 & b2 & F1 & F2 & _ & _ & M & _).
  rewrite F1, F2, M. reflexivity.
Qed.

Lemma held_node_held s n : held_node s n = true -> held s n = true.
Proof. unfold held_node. intro H. apply andb_true_iff in H. tauto. Qed.

Lemma held_map_held s n : held_map s n = true -> held s n = true.
Proof. unfold held_map. intro H. apply andb_true_iff in H. tauto. Qed.

Lemma held_node_Reach s n : held_node s n = true -> Reach s n.
Proof. intro H. apply R_ext. apply held_node_In. exact H. Qed.

Lemma sim_kids_of s1 s2 a : Sim s1 s2 -> held s1 a = true -> kids_of s2 a = kids_of s1 a.
Proof.
  intros HS H. destruct (sim_held_box s1 s2 a HS H) as (b1 & b2 & F1 & F2 & _ & Kk & _).
  unfold kids_of. rewrite F1, F2. exact Kk.
Qed.

Lemma sim_ephs_of s1 s2 a : Sim s1 s2 -> held_node s1 a = true -> ephs_of s2 a = ephs_of s1 a.
Proof.
  intros HS H. destruct (sim_held_box s1 s2 a HS (held_node_held _ _ H)) as (b1 & b2 & F1 & F2 & _ & _ & _ & _ & Eq).
  unfold ephs_of. rewrite F1, F2. apply Eq.
  unfold held_node, is_node in H. rewrite F1 in H. apply andb_true_iff in H. destruct H as [_ H].
  apply negb_true_iff in H. exact H.
Qed.

Lemma sim_entry s1 s2 m k : Sim s1 s2 -> held_map s1 m = true -> held_node s1 k = true ->
  entry_of s2 m k = entry_of s1 m k /\
  (forall e, entry_of s1 m k = Some e -> data_of s2 e = data_of s1 e).
Proof.
  intros HS Hm Hk.
  destruct (sim_held_box s1 s2 m HS (held_map_held _ _ Hm)) as (b1 & b2 & F1 & F2 & Rm & _ & _ & Sk & _).
  pose proof (held_node_Reach _ _ Hk) as Rk.
  pose (f1 := fun e => match data_of s1 e with Some (k', _) => N.eqb k' k | None => false end).
  pose (f2 := fun e => match data_of s2 e with Some (k', _) => N.eqb k' k | None => false end).
  assert (A : forall e, In e (s_ephs b1) -> f1 e = true -> live s1 e /\ data_of s2 e = data_of s1 e).
  { intros e He Fe. unfold f1, data_of in Fe.
    destruct (find_e e (weaks s1)) as [x1|] eqn:Fx; [|discriminate].
    destruct (e_data x1) as [[k' v]|] eqn:Dx; [|discriminate].
    apply N.eqb_eq in Fe. subst k'.
    split; [exists x1, k, v; repeat split; assumption|].
    destruct (sim_ef _ _ HS e x1 k v (RE_sto s1 m b1 e Rm F1 He) Fx Dx Rk) as (x2 & Fx2 & Dx2).
    unfold data_of. rewrite Fx, Fx2, Dx, Dx2. reflexivity. }
  assert (B : forall e, In e (s_ephs b2) -> f2 e = f1 e).
  { intros e He. pose proof (sk_In _ _ _ Sk e He) as He1.
    destruct (f1 e) eqn:Fe.
    - destruct (A e He1 Fe) as [_ D]. unfold f2. rewrite D. exact Fe.
    - destruct (f2 e) eqn:Fe2; [|reflexivity]. exfalso.
      unfold f2, data_of in Fe2.
      destruct (find_e e (weaks s2)) as [x2|] eqn:Fx2; [|discriminate].
      destruct (e_data x2) as [[k' v]|] eqn:Dx2; [|discriminate].
      destruct (sim_eb _ _ HS e x2 Fx2) as (x1 & Fx1 & [D|[D _]]); [|congruence].
      unfold f1, data_of in Fe. rewrite Fx1, <- D, Dx2 in Fe. congruence. }
  assert (E : find f2 (s_ephs b2) = find f1 (s_ephs b1)).
  { rewrite (find_ext_in f2 f1 _ B). apply (sk_find (live s1) f1 _ _ Sk).
    intros e He Fe. apply (A e He Fe). }
  unfold entry_of, ephs_of. rewrite F1, F2. fold f1. fold f2. split; [exact E|].
  intros e He. apply find_some in He. destruct He as [He Fe]. apply (A e He Fe).
Qed.

(* ---------------------------------------------------------------------------------------------- *)
(* 6. the effect of each operation *)

Definition idl (l : list id) : list id := l.
Definition dXs f := mkD f idl [] 0%N idl idl None None.
Definition dXe f := mkD idl f [] 0%N idl idl None None.
Definition dK a f := mkD idl idl [] a f idl None None.
Definition dE a f nx := mkD idl idl [] a idl f None nx.
Definition dNew xs xe wn nb nx := mkD xs xe wn 0%N idl idl nb nx.

Ltac eff_norm :=
  repeat first
    [ rewrite bview_dec_s | rewrite eview_dec_e | rewrite strongs_dec_e | rewrite weaks_dec_s
    | rewrite ext_s_dec_s | rewrite ext_e_dec_s | rewrite ext_s_dec_e | rewrite ext_e_dec_e
    | rewrite wmaps_dec_s | rewrite wmaps_dec_e | rewrite next_s_dec_s | rewrite next_s_dec_e
    | rewrite next_e_dec_s | rewrite next_e_dec_e
    | rewrite bview_rc1 | rewrite bview_rc2 | rewrite bview_kapp | rewrite bview_krem
    | rewrite bview_eapp | rewrite bview_erem | rewrite bview_push
    | rewrite eview_rc1 | rewrite eview_rc2 | rewrite eview_push
    | progress sp ].

Ltac eqb_cases :=
  repeat match goal with |- context [N.eqb ?a ?b] => destruct (N.eqb a b) end.

Ltac eff_tac :=
  cbv zeta; unfold dXs, dXe, dK, dE, dNew, idl;
  constructor; cbn [d_xs d_xe d_wn d_a d_fk d_fe d_nb d_nx];
  [ eff_norm; reflexivity
  | eff_norm; reflexivity
  | eff_norm; rewrite ?app_nil_r; reflexivity
  | eff_norm; reflexivity
  | eff_norm; reflexivity
  | let n := fresh "n" in intro n; eff_norm; cbn [s_id];
    destruct (bview (strongs _) n) as [[? ? ? ? ? ?]|]; cbn [option_map]; cbv beta;
    eqb_cases; reflexivity
  | let e := fresh "e" in intro e; eff_norm; cbn [e_id e_data];
    destruct (eview (weaks _) e) as [?|]; cbn [option_map]; eqb_cases; reflexivity ].

Lemma eff_Alloc s f :
  Eff (dNew (cons (next_s s)) idl [] (Some (mkS (next_s s) 1 [] [] f false)) None) s (fst (step s (Alloc f))).
Proof. unfold step. cbn [fst]. eff_tac. Qed.

(* the nested `let`s of the two-allocation operations are flattened first (keeps `sp` cheap) *)
Lemma step_AllocCyclic_flat s f : fst (step s (AllocCyclic f)) =
  mkSt (strongs s ++ [mkS (next_s s) 1 [] [next_e s] f false])
       (weaks s ++ [mkE (next_e s) 1 (Some (next_s s, None)) true])
       (wmaps s) (next_s s :: ext_s s) (ext_e s)
       (N.succ (next_s s)) (N.succ (next_e s)) (colls s) (poisoned s).
Proof. reflexivity. Qed.

Lemma eff_AllocCyclic s f :
  Eff (dNew (cons (next_s s)) idl [] (Some (mkS (next_s s) 1 [] [next_e s] f false))
            (Some (mkE (next_e s) 1 (Some (next_s s, None)) true))) s (fst (step s (AllocCyclic f))).
Proof. rewrite step_AllocCyclic_flat. eff_tac. Qed.

Lemma eff_Link s a b : held_node s a && held s b = true ->
  Eff (dK a (fun l => l ++ [b])) s (fst (step s (Link a b))).
Proof. intro G. unfold step. rewrite G. cbn [fst]. eff_tac. Qed.

Lemma eff_Unlink s a b : held_node s a && memb b (kids_of s a) = true ->
  Eff (dK a (remove1 b)) s (fst (step s (Unlink a b))).
Proof. intro G. unfold step. rewrite G. cbn [fst]. eff_tac. Qed.

Lemma eff_Load s a b : held_node s a && memb b (kids_of s a) = true ->
  Eff (dXs (cons b)) s (fst (step s (Load a b))).
Proof. intro G. unfold step. rewrite G. cbn [fst]. eff_tac. Qed.

Lemma eff_Clone s a : held s a = true -> Eff (dXs (cons a)) s (fst (step s (Clone a))).
Proof. intro G. unfold step. rewrite G. cbn [fst]. eff_tac. Qed.

Lemma eff_Drop s a : held s a = true -> Eff (dXs (remove1 a)) s (fst (step s (Drop a))).
Proof. intro G. unfold step. rewrite G. cbn [fst]. eff_tac. Qed.

Lemma eff_MkWeak s a : held_node s a = true ->
  Eff (dNew idl (cons (next_e s)) [] None (Some (mkE (next_e s) 1 (Some (a, None)) true))) s
      (fst (step s (MkWeak a))).
Proof. intro G. unfold step. rewrite G. cbn [fst]. eff_tac. Qed.

Lemma eff_MkEph s k v : held_node s k && held_node s v = true ->
  Eff (dNew idl (cons (next_e s)) [] None (Some (mkE (next_e s) 1 (Some (k, Some v)) false))) s
      (fst (step s (MkEph k v))).
Proof. intro G. unfold step. rewrite G. cbn [fst]. eff_tac. Qed.

Lemma eff_CloneE s e : helde s e = true -> Eff (dXe (cons e)) s (fst (step s (CloneE e))).
Proof. intro G. unfold step. rewrite G. cbn [fst]. eff_tac. Qed.

Lemma eff_DropE s e : helde s e = true -> Eff (dXe (remove1 e)) s (fst (step s (DropE e))).
Proof. intro G. unfold step. rewrite G. cbn [fst]. eff_tac. Qed.

Lemma eff_StoreE s a e : held_node s a && helde s e = true ->
  Eff (dE a (fun l => l ++ [e]) None) s (fst (step s (StoreE a e))).
Proof. intro G. unfold step. rewrite G. cbn [fst]. eff_tac. Qed.

Lemma eff_UnstoreE s a e : held_node s a && memb e (ephs_of s a) = true ->
  Eff (dE a (remove1 e) None) s (fst (step s (UnstoreE a e))).
Proof. intro G. unfold step. rewrite G. cbn [fst]. eff_tac. Qed.

Lemma eff_LoadE s a e : held_node s a && memb e (ephs_of s a) = true ->
  Eff (dXe (cons e)) s (fst (step s (LoadE a e))).
Proof. intro G. unfold step. rewrite G. cbn [fst]. eff_tac. Qed.

Lemma step_WmNew_flat s : fst (step s WmNew) =
  mkSt (strongs s ++ [mkS (next_s s) 1 [] [] 0 true])
       (weaks s ++ [mkE (next_e s) 1 (Some (next_s s, None)) true])
       (wmaps s ++ [next_e s]) (next_s s :: ext_s s) (ext_e s)
       (N.succ (next_s s)) (N.succ (next_e s)) (colls s) (poisoned s).
Proof. reflexivity. Qed.

Lemma eff_WmNew s :
  Eff (dNew (cons (next_s s)) idl [next_e s] (Some (mkS (next_s s) 1 [] [] 0 true))
            (Some (mkE (next_e s) 1 (Some (next_s s, None)) true))) s (fst (step s WmNew)).
Proof. rewrite step_WmNew_flat. eff_tac. Qed.

Lemma eff_WmInsert_some s m k v old : held_map s m && held_node s k && held_node s v = true ->
  entry_of s m k = Some old ->
  Eff (dE m (fun l => remove1 old l ++ [next_e s]) (Some (mkE (next_e s) 1 (Some (k, Some v)) false))) s
      (fst (step s (WmInsert m k v))).
Proof. intros G En. unfold step. rewrite G, En. cbn [fst]. eff_tac. Qed.

Lemma eff_WmInsert_none s m k v : held_map s m && held_node s k && held_node s v = true ->
  entry_of s m k = None ->
  Eff (dE m (fun l => idl l ++ [next_e s]) (Some (mkE (next_e s) 1 (Some (k, Some v)) false))) s
      (fst (step s (WmInsert m k v))).
Proof. intros G En. unfold step. rewrite G, En. cbn [fst]. eff_tac. Qed.

Lemma eff_WmRemove s m k old : held_map s m && held_node s k = true -> entry_of s m k = Some old ->
  Eff (dE m (remove1 old) None) s (fst (step s (WmRemove m k))).
Proof. intros G En. unfold step. rewrite G, En. cbn [fst]. eff_tac. Qed.

(* ---------------------------------------------------------------------------------------------- *)
(* 7. the side conditions *)

Ltac ok_start :=
  unfold dXs, dXe, dK, dE, dNew, idl; constructor; cbn [d_xs d_xe d_wn d_a d_fk d_fe d_nb d_nx].

Ltac ok_triv :=
  match goal with
  | |- forall P l2 l1, sub_keep P l2 l1 -> sub_keep P l2 l1 => intros ? ? ? H; exact H
  | |- forall l x, In x l -> _ => intros ? ? H; left; exact H
  | |- forall b, None = Some b -> _ => intros ? H; discriminate H
  | |- forall x k v, None = Some x -> _ => intros ? ? ? H; discriminate H
  | |- forall w, In w [] -> _ => intros ? []
  | |- [] = [] \/ _ => left; reflexivity
  end.

Lemma ok_dXs_cons s n : Reach s n -> Ok (dXs (cons n)) s.
Proof.
  intro R. ok_start; try ok_triv.
  intros l x [H|H]; [subst; right; left; exact R|left; exact H].
Qed.

Lemma ok_dXs_rem s n : Ok (dXs (remove1 n)) s.
Proof. ok_start; try ok_triv. intros l x H. left. exact (In_remove1 _ _ _ H). Qed.

Lemma ok_dXe_cons s e : ReachE s e -> Ok (dXe (cons e)) s.
Proof.
  intro R. ok_start; try ok_triv.
  intros l x [H|H]; [subst; right; left; exact R|left; exact H].
Qed.

Lemma ok_dXe_rem s n : Ok (dXe (remove1 n)) s.
Proof. ok_start; try ok_triv. intros l x H. left. exact (In_remove1 _ _ _ H). Qed.

Lemma ok_dK_app s a b : Reach s b -> Ok (dK a (fun l => l ++ [b])) s.
Proof.
  intro R. ok_start; try ok_triv.
  intros l x H. apply in_app_or in H. destruct H as [H|[H|[]]]; [left; exact H|subst; right; exact R].
Qed.

Lemma ok_dK_rem s a b : Ok (dK a (remove1 b)) s.
Proof. ok_start; try ok_triv. intros l x H. left. exact (In_remove1 _ _ _ H). Qed.

Lemma ok_dE_app s a e : ReachE s e -> Ok (dE a (fun l => l ++ [e]) None) s.
Proof.
  intro R. ok_start; try ok_triv.
  - intros l x H. apply in_app_or in H. destruct H as [H|[H|[]]]; [left; exact H|subst; right; left; exact R].
  - intros P l2 l1 H. apply sk_app. exact H.
Qed.

Lemma ok_dE_rem s a e : Ok (dE a (remove1 e) None) s.
Proof.
  ok_start; try ok_triv.
  - intros l x H. left. exact (In_remove1 _ _ _ H).
  - intros P l2 l1 H. apply sk_remove1. exact H.
Qed.

Lemma ok_Alloc s f mp :
  Ok (dNew (cons (next_s s)) idl [] (Some (mkS (next_s s) 1 [] [] f mp)) None) s.
Proof.
  ok_start; try ok_triv.
  - intros l x [H|H]; [right; right; split; [discriminate|symmetry; exact H]|left; exact H].
  - intros b H. injection H as <-. cbn [s_kids s_ephs]. split; [reflexivity|intros e []].
Qed.

Lemma ok_AllocCyclic s f :
  Ok (dNew (cons (next_s s)) idl [] (Some (mkS (next_s s) 1 [] [next_e s] f false))
           (Some (mkE (next_e s) 1 (Some (next_s s, None)) true))) s.
Proof.
  ok_start; try ok_triv.
  - intros l x [H|H]; [right; right; split; [discriminate|symmetry; exact H]|left; exact H].
  - intros b H. injection H as <-. cbn [s_kids s_ephs]. split; [reflexivity|].
    intros e [H|[]]. split; [discriminate|symmetry; exact H].
  - intros x k v H D. injection H as <-. cbn [e_data] in D. injection D as <- <-.
    split; [right; split; [discriminate|reflexivity]|intros v' H; discriminate H].
Qed.

Lemma ok_MkE s k vo u : Reach s k -> (forall v, vo = Some v -> Reach s v) ->
  Ok (dNew idl (cons (next_e s)) [] None (Some (mkE (next_e s) 1 (Some (k, vo)) u))) s.
Proof.
  intros Rk Rv. ok_start; try ok_triv.
  - intros l x [H|H]; [right; right; split; [discriminate|symmetry; exact H]|left; exact H].
  - intros x k' v H D. injection H as <-. cbn [e_data] in D. injection D as <- <-.
    split; [left; exact Rk|exact Rv].
Qed.

Lemma ok_WmNew s :
  Ok (dNew (cons (next_s s)) idl [next_e s] (Some (mkS (next_s s) 1 [] [] 0 true))
           (Some (mkE (next_e s) 1 (Some (next_s s, None)) true))) s.
Proof.
  ok_start; try ok_triv.
  - intros l x [H|H]; [right; right; split; [discriminate|symmetry; exact H]|left; exact H].
  - intros b H. injection H as <-. cbn [s_kids s_ephs]. split; [reflexivity|intros e []].
  - intros x k v H D. injection H as <-. cbn [e_data] in D. injection D as <- <-.
    split; [right; split; [discriminate|reflexivity]|intros v' H; discriminate H].
  - intros w [H|[]]. split; [discriminate|symmetry; exact H].
  - right. eexists. eexists. repeat split; reflexivity.
Qed.

Lemma ok_WmInsert s m k v (g : list id -> list id) :
  (forall l x, In x (g l) -> In x l) ->
  (forall P l2 l1, sub_keep P l2 l1 -> sub_keep P (g l2) (g l1)) ->
  Reach s k -> Reach s v ->
  Ok (dE m (fun l => g l ++ [next_e s]) (Some (mkE (next_e s) 1 (Some (k, Some v)) false))) s.
Proof.
  intros G1 G2 Rk Rv. ok_start; try ok_triv.
  - intros l x H. apply in_app_or in H. destruct H as [H|[H|[]]]; [left; apply G1; exact H|].
    right. right. split; [discriminate|symmetry; exact H].
  - intros P l2 l1 H. apply sk_app. apply G2. exact H.
  - intros x k' v' H D. injection H as <-. cbn [e_data] in D. injection D as <- <-.
    split; [left; exact Rk|]. intros v' H. injection H as <-. exact Rv.
Qed.

(* ---------------------------------------------------------------------------------------------- *)
(* 8. one step on both sides *)

Lemma sim_eff_step d s1 s2 o : Sim s1 s2 -> op_no_res o ->
  Eff d s1 (fst (step s1 o)) -> Eff d s2 (fst (step s2 o)) -> Ok d s1 ->
  Sim (fst (step s1 o)) (fst (step s2 o)).
Proof.
  intros HS Ho E1 E2 O. apply (sim_eff d s1 s2); try assumption.
  - apply step_all; [exact Ho|apply (sim_inv1 _ _ HS)|apply (sim_p1 _ _ HS)|apply (sim_nr1 _ _ HS)].
  - apply step_all; [exact Ho|apply (sim_inv2 _ _ HS)|apply (sim_p2 _ _ HS)|apply (sim_nr2 _ _ HS)].
Qed.

Lemma sim_same s1 s2 s1' s2' : Sim s1 s2 -> s1' = s1 -> s2' = s2 -> Sim s1' s2'.
Proof. intros HS -> ->. exact HS. Qed.

Ltac fail_case HS G1 G2 :=
  split; [apply (sim_same _ _ _ _ HS); unfold step; rewrite ?G1, ?G2; reflexivity
         |unfold step; rewrite G1, G2; reflexivity].

Lemma next_e_lose_stored m e s : next_e (lose_stored m e s) = next_e s.
Proof. unfold lose_stored. rewrite next_e_dec_e. reflexivity. Qed.

Lemma sim_step s1 s2 o : Sim s1 s2 -> plain o ->
  Sim (fst (step s1 o)) (fst (step s2 o)) /\ snd (step s2 o) = snd (step s1 o).
Proof.
  intros HS (Ho & Hnc & Hw).
  pose proof (sim_ns _ _ HS) as NS. pose proof (sim_ne _ _ HS) as NE.
  destruct o.
  - (* Alloc *)
    split; [|unfold step; cbn [snd]; rewrite NS; reflexivity].
    apply (sim_eff_step _ s1 s2 _ HS Ho (eff_Alloc s1 fin)); [rewrite <- NS; apply eff_Alloc|apply ok_Alloc].
  - (* AllocCyclic *)
    split; [|unfold step; cbn [snd]; rewrite NS, NE; reflexivity].
    apply (sim_eff_step _ s1 s2 _ HS Ho (eff_AllocCyclic s1 fin));
      [rewrite <- NS, <- NE; apply eff_AllocCyclic|apply ok_AllocCyclic].
  - (* Link *)
    assert (G2 : held_node s2 a && held s2 b = held_node s1 a && held s1 b)
      by (rewrite (sim_held_node s1 s2 a HS), (sim_held s1 s2 b HS); reflexivity).
    destruct (held_node s1 a && held s1 b) eqn:G1; [|fail_case HS G1 G2].
    split; [|unfold step; rewrite G1, G2; reflexivity].
    apply (sim_eff_step _ s1 s2 _ HS Ho (eff_Link s1 a b G1) (eff_Link s2 a b G2)).
    apply andb_true_iff in G1. destruct G1 as [Ga Gb].
    apply ok_dK_app. apply R_ext, held_In. exact Gb.
  - (* Unlink *)
    assert (G2 : held_node s2 a && memb b (kids_of s2 a) = held_node s1 a && memb b (kids_of s1 a)).
    { rewrite (sim_held_node s1 s2 a HS). destruct (held_node s1 a) eqn:Ga; [|reflexivity].
      rewrite (sim_kids_of s1 s2 a HS (held_node_held _ _ Ga)). reflexivity. }
    destruct (held_node s1 a && memb b (kids_of s1 a)) eqn:G1; [|fail_case HS G1 G2].
    split; [|unfold step; rewrite G1, G2; reflexivity].
    apply (sim_eff_step _ s1 s2 _ HS Ho (eff_Unlink s1 a b G1) (eff_Unlink s2 a b G2)).
    apply ok_dK_rem.
  - (* Load *)
    assert (G2 : held_node s2 a && memb b (kids_of s2 a) = held_node s1 a && memb b (kids_of s1 a)).
    { rewrite (sim_held_node s1 s2 a HS). destruct (held_node s1 a) eqn:Ga; [|reflexivity].
      rewrite (sim_kids_of s1 s2 a HS (held_node_held _ _ Ga)). reflexivity. }
    destruct (held_node s1 a && memb b (kids_of s1 a)) eqn:G1; [|fail_case HS G1 G2].
    split; [|unfold step; rewrite G1, G2; reflexivity].
    apply (sim_eff_step _ s1 s2 _ HS Ho (eff_Load s1 a b G1) (eff_Load s2 a b G2)).
    apply andb_true_iff in G1. destruct G1 as [Ga Gb].
    apply kids_of_In in Gb. destruct Gb as (bx & Fb & Hb).
    apply ok_dXs_cons. exact (R_kid s1 a bx b (held_node_Reach _ _ Ga) Fb Hb).
  - (* Clone *)
    pose proof (sim_held s1 s2 a HS) as G2.
    destruct (held s1 a) eqn:G1; [|fail_case HS G1 G2].
    split; [|unfold step; rewrite G1, G2; reflexivity].
    apply (sim_eff_step _ s1 s2 _ HS Ho (eff_Clone s1 a G1) (eff_Clone s2 a G2)).
    apply ok_dXs_cons. apply R_ext, held_In. exact G1.
  - (* Drop *)
    pose proof (sim_held s1 s2 a HS) as G2.
    destruct (held s1 a) eqn:G1; [|fail_case HS G1 G2].
    split; [|unfold step; rewrite G1, G2; reflexivity].
    apply (sim_eff_step _ s1 s2 _ HS Ho (eff_Drop s1 a G1) (eff_Drop s2 a G2)).
    apply ok_dXs_rem.
  - (* MkWeak *)
    pose proof (sim_held_node s1 s2 a HS) as G2.
    destruct (held_node s1 a) eqn:G1; [|fail_case HS G1 G2].
    split; [|unfold step; rewrite G1, G2, NE; reflexivity].
    apply (sim_eff_step _ s1 s2 _ HS Ho (eff_MkWeak s1 a G1)); [rewrite <- NE; apply eff_MkWeak; exact G2|].
    apply ok_MkE; [apply held_node_Reach; exact G1|intros v H; discriminate H].
  - (* MkEph *)
    assert (G2 : held_node s2 k && held_node s2 v = held_node s1 k && held_node s1 v)
      by (rewrite (sim_held_node s1 s2 k HS), (sim_held_node s1 s2 v HS); reflexivity).
    destruct (held_node s1 k && held_node s1 v) eqn:G1; [|fail_case HS G1 G2].
    split; [|unfold step; rewrite G1, G2, NE; reflexivity].
    apply (sim_eff_step _ s1 s2 _ HS Ho (eff_MkEph s1 k v G1)); [rewrite <- NE; apply eff_MkEph; exact G2|].
    apply andb_true_iff in G1. destruct G1 as [Gk Gv].
    apply ok_MkE; [apply held_node_Reach; exact Gk|].
    intros v' H. injection H as <-. apply held_node_Reach. exact Gv.
  - (* CloneE *)
    pose proof (sim_helde s1 s2 e HS) as G2.
    destruct (helde s1 e) eqn:G1; [|fail_case HS G1 G2].
    split; [|unfold step; rewrite G1, G2; reflexivity].
    apply (sim_eff_step _ s1 s2 _ HS Ho (eff_CloneE s1 e G1) (eff_CloneE s2 e G2)).
    apply ok_dXe_cons. apply RE_ext, helde_In. exact G1.
  - (* DropE *)
    pose proof (sim_helde s1 s2 e HS) as G2.
    destruct (helde s1 e) eqn:G1; [|fail_case HS G1 G2].
    split; [|unfold step; rewrite G1, G2; reflexivity].
    apply (sim_eff_step _ s1 s2 _ HS Ho (eff_DropE s1 e G1) (eff_DropE s2 e G2)).
    apply ok_dXe_rem.
  - (* StoreE *)
    assert (G2 : held_node s2 a && helde s2 e = held_node s1 a && helde s1 e)
      by (rewrite (sim_held_node s1 s2 a HS), (sim_helde s1 s2 e HS); reflexivity).
    destruct (held_node s1 a && helde s1 e) eqn:G1; [|fail_case HS G1 G2].
    split; [|unfold step; rewrite G1, G2; reflexivity].
    apply (sim_eff_step _ s1 s2 _ HS Ho (eff_StoreE s1 a e G1) (eff_StoreE s2 a e G2)).
    apply andb_true_iff in G1. destruct G1 as [Ga Ge].
    apply ok_dE_app. apply RE_ext, helde_In. exact Ge.
  - (* UnstoreE *)
    assert (G2 : held_node s2 a && memb e (ephs_of s2 a) = held_node s1 a && memb e (ephs_of s1 a)).
    { rewrite (sim_held_node s1 s2 a HS). destruct (held_node s1 a) eqn:Ga; [|reflexivity].
      rewrite (sim_ephs_of s1 s2 a HS Ga). reflexivity. }
    destruct (held_node s1 a && memb e (ephs_of s1 a)) eqn:G1; [|fail_case HS G1 G2].
    split; [|unfold step; rewrite G1, G2; reflexivity].
    apply (sim_eff_step _ s1 s2 _ HS Ho (eff_UnstoreE s1 a e G1) (eff_UnstoreE s2 a e G2)).
    apply ok_dE_rem.
  - (* LoadE *)
    assert (G2 : held_node s2 a && memb e (ephs_of s2 a) = held_node s1 a && memb e (ephs_of s1 a)).
    { rewrite (sim_held_node s1 s2 a HS). destruct (held_node s1 a) eqn:Ga; [|reflexivity].
      rewrite (sim_ephs_of s1 s2 a HS Ga). reflexivity. }
    destruct (held_node s1 a && memb e (ephs_of s1 a)) eqn:G1; [|fail_case HS G1 G2].
    split; [|unfold step; rewrite G1, G2; reflexivity].
    apply (sim_eff_step _ s1 s2 _ HS Ho (eff_LoadE s1 a e G1) (eff_LoadE s2 a e G2)).
    apply andb_true_iff in G1. destruct G1 as [Ga Ge].
    apply memb_In, In_ephs_of in Ge. destruct Ge as (bx & Fb & Hb).
    apply ok_dXe_cons. exact (RE_sto s1 a bx e (held_node_Reach _ _ Ga) Fb Hb).
  - discriminate Hw.
  - discriminate Hw.
  - (* WmNew *)
    split; [|unfold step; cbn [snd]; rewrite NS, NE; reflexivity].
    apply (sim_eff_step _ s1 s2 _ HS Ho (eff_WmNew s1)); [rewrite <- NS, <- NE; apply eff_WmNew|apply ok_WmNew].
  - (* WmInsert *)
    assert (G2 : held_map s2 m && held_node s2 k && held_node s2 v =
                 held_map s1 m && held_node s1 k && held_node s1 v)
      by (rewrite (sim_held_map s1 s2 m HS), (sim_held_node s1 s2 k HS), (sim_held_node s1 s2 v HS); reflexivity).
    destruct (held_map s1 m && held_node s1 k && held_node s1 v) eqn:G1; [|fail_case HS G1 G2].
    pose proof G1 as G1'. apply andb_true_iff in G1'. destruct G1' as [G1' Gv].
    apply andb_true_iff in G1'. destruct G1' as [Gm Gk].
    destruct (sim_entry s1 s2 m k HS Gm Gk) as [En2 _].
    split.
    + destruct (entry_of s1 m k) as [old|] eqn:En1.
      * apply (sim_eff_step _ s1 s2 _ HS Ho (eff_WmInsert_some s1 m k v old G1 En1));
          [rewrite <- NE; apply eff_WmInsert_some; assumption|].
        apply ok_WmInsert; try (apply held_node_Reach; assumption).
        -- intros l x H. exact (In_remove1 _ _ _ H).
        -- intros P l2 l1 H. apply sk_remove1. exact H.
      * apply (sim_eff_step _ s1 s2 _ HS Ho (eff_WmInsert_none s1 m k v G1 En1));
          [rewrite <- NE; apply eff_WmInsert_none; assumption|].
        apply ok_WmInsert; try (apply held_node_Reach; assumption).
        -- intros l x H. exact H.
        -- intros P l2 l1 H. exact H.
    + unfold step. rewrite G1, G2, En2. destruct (entry_of s1 m k); cbn [snd];
        rewrite ?next_e_lose_stored, NE; reflexivity.
  - (* WmRemove *)
    assert (G2 : held_map s2 m && held_node s2 k = held_map s1 m && held_node s1 k)
      by (rewrite (sim_held_map s1 s2 m HS), (sim_held_node s1 s2 k HS); reflexivity).
    destruct (held_map s1 m && held_node s1 k) eqn:G1; [|fail_case HS G1 G2].
    pose proof G1 as G1'. apply andb_true_iff in G1'. destruct G1' as [Gm Gk].
    destruct (sim_entry s1 s2 m k HS Gm Gk) as [En2 _].
    destruct (entry_of s1 m k) as [old|] eqn:En1.
    + split; [|unfold step; rewrite G1, G2, En1, En2; reflexivity].
      apply (sim_eff_step _ s1 s2 _ HS Ho (eff_WmRemove s1 m k old G1 En1) (eff_WmRemove s2 m k old G2 En2)).
      apply ok_dE_rem.
    + split; [apply (sim_same _ _ _ _ HS); unfold step; rewrite ?G1, ?G2, ?En1, ?En2; reflexivity
             |unfold step; rewrite G1, G2, En1, En2; reflexivity].
  - (* WmGet *)
    assert (St : forall s, fst (step s (WmGet m k)) = s) by (intro s; unfold step; brk; reflexivity).
    split; [apply (sim_same _ _ _ _ HS); apply St|].
    assert (G2 : held_map s2 m && held_node s2 k = held_map s1 m && held_node s1 k)
      by (rewrite (sim_held_map s1 s2 m HS), (sim_held_node s1 s2 k HS); reflexivity).
    unfold step. rewrite G2. destruct (held_map s1 m && held_node s1 k) eqn:G1; [|reflexivity].
    apply andb_true_iff in G1. destruct G1 as [Gm Gk].
    destruct (sim_entry s1 s2 m k HS Gm Gk) as [En2 Dt]. rewrite En2.
    destruct (entry_of s1 m k) as [e|]; [|reflexivity]. rewrite (Dt e eq_refl).
    destruct (data_of s1 e) as [[k' [v'|]]|]; reflexivity.
  - (* Read *)
    assert (St : forall s, fst (step s (Read a)) = s) by (intro s; unfold step; brk; reflexivity).
    split; [apply (sim_same _ _ _ _ HS); apply St|].
    unfold step. rewrite (sim_held_node s1 s2 a HS). destruct (held_node s1 a) eqn:G1; [|reflexivity].
    cbn [snd]. rewrite (sim_kids_of s1 s2 a HS (held_node_held _ _ G1)), (sim_ephs_of s1 s2 a HS G1).
    reflexivity.
  - congruence.
Qed.

(* ---------------------------------------------------------------------------------------------- *)
(* 9. histories *)

Lemma not_gc_step s o : o <> Collect -> not_gc (snd (step s o)) = true.
Proof.
  intro Ho. pose proof (step_not_gc s o Ho) as H. destruct (snd (step s o)); try reflexivity. discriminate H.
Qed.

Lemma schedule_gen ops1 ops2 : interleave ops1 ops2 -> Forall plain ops1 ->
  forall s1 s2, Sim s1 s2 -> filter not_gc (snd (run s2 ops2)) = snd (run s1 ops1).
Proof.
  induction 1 as [|l1 l2 Hi IH|o l1 l2 Hi IH]; intros Hp s1 s2 HS.
  - reflexivity.
  - rewrite run_cons. cbn [snd]. rewrite step_collect. cbn [snd filter not_gc fst].
    apply IH; [exact Hp|]. destruct (collect s2) as [s2' g] eqn:Hc. cbn [fst].
    exact (sim_collect s1 s2 s2' g HS Hc).
  - inversion Hp as [|? ? Ho Ht]; subst. rewrite !run_cons. cbn [snd].
    destruct (sim_step s1 s2 o HS Ho) as [HS' Eo].
    cbn [filter]. rewrite (not_gc_step s2 o (proj1 (proj2 Ho))). rewrite Eo. f_equal.
    apply IH; assumption.
Qed.

Theorem schedule_independent ops1 ops2 :
  Forall plain ops1 -> interleave ops1 ops2 ->
  filter not_gc (snd (run init ops2)) = snd (run init ops1).
Proof. intros Hp Hi. exact (schedule_gen ops1 ops2 Hi Hp init init Sim_init). Qed.

