(* C09 — specification side: abstract reachability, the representation invariant, basic list facts.
   Definitions + elementary lemmas only; the mechanism proofs are in Mark_C09 / Step_C09 / Collect_C09. *)
From Coq Require Import List Arith Bool PeanoNat NArith Lia.
From C09 Require Import GcModel.
Import ListNotations.

(* ---------------------------------------------------------------------------------------------- *)
(* multiplicity of a handle in a list of handles *)
Fixpoint cnt (n : id) (l : list id) : nat :=
  match l with
  | [] => 0
  | x :: t => (if N.eqb x n then 1 else 0) + cnt n t
  end.

Lemma cnt_app n l1 l2 : cnt n (l1 ++ l2) = cnt n l1 + cnt n l2.
Proof. induction l1 as [|x t IH]; simpl; [reflexivity|]. rewrite IH. lia. Qed.

Lemma cnt_pos_In n l : 0 < cnt n l <-> In n l.
Proof.
  induction l as [|x t IH]; simpl; [split; [lia|tauto]|].
  destruct (N.eqb_spec x n) as [->|Hn]; split; intro H.
  - left; reflexivity.
  - lia.
  - right. apply IH. lia.
  - destruct H as [H|H]; [congruence|]. apply IH in H. lia.
Qed.

Lemma cnt_zero_notin n l : cnt n l = 0 <-> ~ In n l.
Proof. rewrite <- cnt_pos_In. lia. Qed.

Lemma memb_In n l : memb n l = true <-> In n l.
Proof.
  unfold memb. rewrite existsb_exists. split.
  - intros [x [Hx He]]. apply N.eqb_eq in He. subst. exact Hx.
  - intro H. exists n. split; [exact H|apply N.eqb_refl].
Qed.

Lemma memb_false n l : memb n l = false <-> ~ In n l.
Proof. rewrite <- memb_In. destruct (memb n l); split; intro H; congruence. Qed.

Lemma memb_cons n x l : memb n (x :: l) = N.eqb n x || memb n l.
Proof. reflexivity. Qed.

Lemma memb_app n l1 l2 : memb n (l1 ++ l2) = memb n l1 || memb n l2.
Proof. unfold memb. apply existsb_app. Qed.

Lemma cnt_remove1_in n l : In n l -> cnt n (remove1 n l) = cnt n l - 1.
Proof.
  induction l as [|x t IH]; simpl; [tauto|]. intros H.
  destruct (N.eqb_spec n x) as [->|Hn].
  - rewrite N.eqb_refl. lia.
  - destruct H as [H|H]; [congruence|]. simpl.
    destruct (N.eqb_spec x n); [congruence|]. simpl. apply IH. exact H.
Qed.

Lemma cnt_remove1_other n m l : n <> m -> cnt n (remove1 m l) = cnt n l.
Proof.
  intro Hn. induction l as [|x t IH]; simpl; [reflexivity|].
  destruct (N.eqb_spec m x) as [->|Hm].
  - destruct (N.eqb_spec x n); [congruence|]. reflexivity.
  - simpl. rewrite IH. reflexivity.
Qed.

Lemma In_remove1 n m l : In n (remove1 m l) -> In n l.
Proof.
  induction l as [|x t IH]; simpl; [tauto|].
  destruct (N.eqb m x); simpl; [tauto|]. intros [H|H]; [left; exact H|right; apply IH; exact H].
Qed.

(* ---------------------------------------------------------------------------------------------- *)
(* find / update *)

Lemma find_s_In n Sb b : find_s n Sb = Some b -> In b Sb /\ s_id b = n.
Proof.
  unfold find_s. intro H. apply find_some in H. destruct H as [H1 H2]. apply N.eqb_eq in H2. tauto.
Qed.

Lemma find_e_In n W x : find_e n W = Some x -> In x W /\ e_id x = n.
Proof.
  unfold find_e. intro H. apply find_some in H. destruct H as [H1 H2]. apply N.eqb_eq in H2. tauto.
Qed.

Lemma find_s_None n Sb : find_s n Sb = None <-> ~ In n (ids_s Sb).
Proof.
  unfold find_s, ids_s. induction Sb as [|b t IH]; simpl; [tauto|].
  destruct (N.eqb_spec (s_id b) n) as [E|E]; split; intro H.
  - discriminate.
  - exfalso. apply H. left. exact E.
  - intros [H1|H1]; [congruence|]. apply IH in H. tauto.
  - apply IH. tauto.
Qed.

Lemma find_e_None n W : find_e n W = None <-> ~ In n (ids_e W).
Proof.
  unfold find_e, ids_e. induction W as [|b t IH]; simpl; [tauto|].
  destruct (N.eqb_spec (e_id b) n) as [E|E]; split; intro H.
  - discriminate.
  - exfalso. apply H. left. exact E.
  - intros [H1|H1]; [congruence|]. apply IH in H. tauto.
  - apply IH. tauto.
Qed.

Lemma find_s_nodup Sb b : NoDup (ids_s Sb) -> In b Sb -> find_s (s_id b) Sb = Some b.
Proof.
  unfold find_s, ids_s. induction Sb as [|c t IH]; simpl; [tauto|].
  intros Hnd [H|H].
  - subst. rewrite N.eqb_refl. reflexivity.
  - inversion Hnd; subst. destruct (N.eqb_spec (s_id c) (s_id b)) as [E|E].
    + exfalso. apply H2. rewrite E. apply in_map. exact H.
    + apply IH; assumption.
Qed.

Lemma find_e_nodup W x : NoDup (ids_e W) -> In x W -> find_e (e_id x) W = Some x.
Proof.
  unfold find_e, ids_e. induction W as [|c t IH]; simpl; [tauto|].
  intros Hnd [H|H].
  - subst. rewrite N.eqb_refl. reflexivity.
  - inversion Hnd; subst. destruct (N.eqb_spec (e_id c) (e_id x)) as [E|E].
    + exfalso. apply H2. rewrite E. apply in_map. exact H.
    + apply IH; assumption.
Qed.

(* ---------------------------------------------------------------------------------------------- *)
(* abstract reachability: nothing of the collector (no counts, no marks, no worklist).
   A strong box is reachable from an external handle, through a handle stored in a reachable box,
   or as the value of an ephemeron that is itself reachable and whose key is reachable.
   An ephemeron box is reachable from an external handle, from the weak-map registry, or through a
   handle stored in a reachable box. *)
Inductive Reach (s : state) : id -> Prop :=
| R_ext n : In n (ext_s s) -> Reach s n
| R_kid a b n : Reach s a -> find_s a (strongs s) = Some b -> In n (s_kids b) -> Reach s n
| R_val e x k v : ReachE s e -> find_e e (weaks s) = Some x -> e_data x = Some (k, Some v) ->
                  Reach s k -> Reach s v
with ReachE (s : state) : id -> Prop :=
| RE_ext e : In e (ext_e s) -> ReachE s e
| RE_wm e : In e (wmaps s) -> ReachE s e
| RE_sto a b e : Reach s a -> find_s a (strongs s) = Some b -> In e (s_ephs b) -> ReachE s e.

Scheme Reach_ind2 := Minimality for Reach Sort Prop
  with ReachE_ind2 := Minimality for ReachE Sort Prop.
Combined Scheme Reach_mutind from Reach_ind2, ReachE_ind2.

(* ---------------------------------------------------------------------------------------------- *)
(* representation invariant: well-formedness (unique ids, no dangling handle) + "ref_count = number
   of handles" for both kinds of boxes *)
Record Inv (s : state) : Prop := mkInv {
  inv_nodup_s : NoDup (ids_s (strongs s));
  inv_nodup_e : NoDup (ids_e (weaks s));
  inv_fresh_s : forall n, In n (ids_s (strongs s)) -> (n < next_s s)%N;
  inv_fresh_e : forall e, In e (ids_e (weaks s)) -> (e < next_e s)%N;
  inv_ext_s : forall n, In n (ext_s s) -> In n (ids_s (strongs s));
  inv_kids : forall b n, In b (strongs s) -> In n (s_kids b) -> In n (ids_s (strongs s));
  inv_key : forall x k v, In x (weaks s) -> e_data x = Some (k, v) -> In k (ids_s (strongs s));
  inv_val : forall x k v, In x (weaks s) -> e_data x = Some (k, Some v) -> In v (ids_s (strongs s));
  inv_ext_e : forall e, In e (ext_e s) -> In e (ids_e (weaks s));
  inv_ephs : forall b e, In b (strongs s) -> In e (s_ephs b) -> In e (ids_e (weaks s));
  inv_wm : forall w, In w (wmaps s) -> In w (ids_e (weaks s));
  inv_wm_nodup : NoDup (wmaps s);
  inv_rc_s : forall b, In b (strongs s) ->
     s_rc b = cnt (s_id b) (ext_s s) + cnt (s_id b) (inner_s (strongs s) (weaks s));
  inv_rc_e : forall x, In x (weaks s) ->
     e_rc x = cnt (e_id x) (ext_e s) + cnt (e_id x) (inner_e (strongs s)) + cnt (e_id x) (wmaps s)
}.

(* is_rooted, as the collector decides it from the tables, means "held from outside the heap" *)
Definition rootedS_ok (s : state) (tabS : list (id * nat)) : Prop :=
  forall b, In b (strongs s) -> (rooted tabS (s_id b) (s_rc b) = true <-> In (s_id b) (ext_s s)).
Definition rootedE_ok (s : state) (tabE : list (id * nat)) : Prop :=
  forall x, In x (weaks s) ->
    (rooted tabE (e_id x) (e_rc x) = true <-> (In (e_id x) (ext_e s) \/ In (e_id x) (wmaps s))).

(* no finalizer that resurrects (clones handles into the root list) *)
Definition no_res (s : state) : Prop := forall b, In b (strongs s) -> s_fin b = 0.

Definition op_no_res (o : op) : Prop :=
  match o with Alloc f | AllocCyclic f => f = 0 | _ => True end.

Lemma Inv_init : Inv init.
Proof.
  constructor; simpl; try (intros; tauto); try constructor.
Qed.
