(* C02 deepening round: panic freedom and index validity of the regenerated ToIntegerOrInfinity index computations
   (coq/Gen/IndexPaths.v) of String.prototype.{at,slice,substr}, Array.prototype.at / relative start / end /
   lastIndexOf, %TypedArray%.prototype.at, and the JumpTable opcode. *)
From Coq Require Import ZArith Bool List Lia.
From C02 Require Import Model_C02 DeepModel_C02.
From Gen Require Import IndexPaths.
Local Open Scope Z_scope.

Definition valid_len (len : Z) : Prop := 0 <= len <= i64_max.
Definition no_panic {A} (r : res A) : Prop := is_panic r = false.
(* the computed index, when there is one, satisfies P *)
Definition idx_sat (r : res (option Z)) (P : Z -> Prop) : Prop :=
  match r with Ok (Some k) => P k | _ => True end.

Ltac expose64 :=
  cbv [i64_add i64_sub i64_mul i64_neg i64_abs u64_add u64_sub u64_mul arith64 arithu64 i64_clamp
       u64_checked_add_signed u64_saturating_add_signed opt_unwrap_or u64_try_from_i64].
Ltac split64 :=
  repeat (cbn [bind is_panic];
          match goal with
          | |- context [if ?b then _ else _] =>
              match type of b with bool => let E := fresh "E" in destruct b eqn:E end
          | |- context [match ?p with Debug => _ | Release => _ end] => is_var p; destruct p
          end); cbn [bind is_panic].
Ltac ranges := unfold valid_len, ioi_ok, in_i64, in_u64, in_i64b, in_u64b, i64_min, i64_max, u64_max,
                      i64_as_u64, u64_as_i64, wrapu64, wrap64 in *.
Ltac close64 := first [ reflexivity | discriminate | exact I
                      | (ranges; lia)
                      | (ranges; rewrite ?Z.mod_small by lia; lia) ].
Ltac site f := unfold no_panic, idx_sat, f; expose64.

(* ---- sites that are safe for every input ---- *)

Lemma string_slice_from_safe p len s : valid_len len -> ioi_ok s ->
  no_panic (string_slice_from p len s) /\ idx_sat (string_slice_from p len s) (fun k => 0 <= k <= len).
Proof. intros Hl Hs. destruct s as [|i|]; site string_slice_from; split; split64; close64. Qed.

Lemma string_slice_to_safe p len s : valid_len len -> ioi_ok s ->
  no_panic (string_slice_to p len s) /\ idx_sat (string_slice_to p len s) (fun k => 0 <= k <= len).
Proof. intros Hl Hs. destruct s as [|i|]; site string_slice_to; split; split64; close64. Qed.

Lemma string_slice_safe_lemma p len s : valid_len len -> ioi_ok s ->
  (no_panic (string_slice_from p len s) /\ idx_sat (string_slice_from p len s) (fun k => 0 <= k <= len)) /\
  (no_panic (string_slice_to p len s) /\ idx_sat (string_slice_to p len s) (fun k => 0 <= k <= len)).
Proof. intros Hl Hs. split; [apply string_slice_from_safe | apply string_slice_to_safe]; assumption. Qed.

Lemma string_substr_safe p size s : valid_len size -> ioi_ok s ->
  no_panic (string_substr_start p size s) /\ idx_sat (string_substr_start p size s) (fun k => 0 <= k <= i64_max) /\
  no_panic (string_substr_end p size s) /\ idx_sat (string_substr_end p size s) (fun k => 0 <= k <= size).
Proof.
  intros Hl Hs. destruct s as [|i|]; site string_substr_start; unfold string_substr_end; expose64;
    repeat split; split64; close64.
Qed.

Lemma array_relative_safe p len s : in_u64 len -> ioi_ok s ->
  no_panic (array_relative_start p len s) /\ idx_sat (array_relative_start p len s) (fun k => 0 <= k <= len) /\
  no_panic (array_relative_end p len s) /\ idx_sat (array_relative_end p len s) (fun k => 0 <= k <= len).
Proof.
  intros Hl Hs. destruct s as [|i|]; site array_relative_start; unfold array_relative_end; expose64;
    repeat split; split64; close64.
Qed.

Lemma typed_array_at_safe p len s : valid_len len -> ioi_ok s -> no_panic (typed_array_at p len s).
Proof. intros Hl Hs. destruct s as [|i|]; site typed_array_at; split64; close64. Qed.

Lemma array_last_index_of_safe p len s : valid_len len -> ioi_ok s ->
  no_panic (array_last_index_of_from p len s) /\ idx_sat (array_last_index_of_from p len s) (fun k => k <= len - 1).
Proof. intros Hl Hs. destruct s as [|i|]; site array_last_index_of_from; split; split64; close64. Qed.

(* ---- String.prototype.at / Array.prototype.at: `-i` / `i.abs()` on the saturated i64::MIN ---- *)

Definition at_safe (f : profile -> Z -> ioi -> res (option Z)) : Prop :=
  forall p len s, valid_len len -> ioi_ok s -> no_panic (f p len s) /\ idx_sat (f p len s) (fun k => 0 <= k < len).

Lemma string_at_safe_except_min p len s : valid_len len -> ioi_ok s -> s <> IInt i64_min ->
  no_panic (string_at p len s) /\ idx_sat (string_at p len s) (fun k => 0 <= k < len).
Proof.
  intros Hl Hs Hm. destruct s as [|i|]; site string_at; try (split; exact I || reflexivity).
  assert (i <> i64_min) by (intros ->; apply Hm; reflexivity).
  split; split64; close64.
Qed.

Lemma array_at_safe_except_min p len s : valid_len len -> ioi_ok s -> s <> IInt i64_min ->
  no_panic (array_at p len s) /\ idx_sat (array_at p len s) (fun k => 0 <= k < len).
Proof.
  intros Hl Hs Hm. destruct s as [|i|]; site array_at; try (split; exact I || reflexivity).
  assert (i <> i64_min) by (intros ->; apply Hm; reflexivity).
  split; split64; close64.
Qed.

(* open: the witness (any length, i64::MIN = what ToIntegerOrInfinity(-1e30) saturates to) panics under overflow
   checks, and without them String.prototype.at computes an index far outside the string; closed: safe everywhere *)
Definition string_at_open : Prop :=
  string_at Debug 1 (IInt i64_min) = Panic PkNegOverflow /\
  string_at Release 1 (IInt i64_min) = Ok (Some 9223372036854775809).
Definition array_at_open : Prop :=
  array_at Debug 1 (IInt i64_min) = Panic PkNegOverflow /\
  array_at Release 1 (IInt i64_min) = Ok (Some (-9223372036854775807)).

Lemma string_at_decided_lemma : string_at_open \/ at_safe string_at.
Proof.
  first [ left; split; vm_compute; reflexivity
        | right; intros p len s Hl Hs; destruct s as [|i|]; site string_at; split; split64; close64 ].
Qed.

Lemma array_at_decided_lemma : array_at_open \/ at_safe array_at.
Proof.
  first [ left; split; vm_compute; reflexivity
        | right; intros p len s Hl Hs; destruct s as [|i|]; site array_at; split; split64; close64 ].
Qed.

(* ---- JumpTable: the register value is only ever used through `.get(offset)` ---- *)
Lemma jump_table_safe addresses i pc : jump_table_target addresses i = Some pc -> In pc addresses.
Proof. unfold jump_table_target. apply nth_error_In. Qed.
