(* C02 lemmas about the regenerated fast paths (coq/Gen/FastPaths.v). *)
From Coq Require Import ZArith Bool List Lia.
From C02 Require Import Model_C02.
From Gen Require Import FastPaths.
Import ListNotations.
Local Open Scope Z_scope.

(* ---------------------------------------------------------------------------------------------- *)
(* ranges *)

Lemma in_i32b_true z : in_i32b z = true <-> in_i32 z.
Proof. unfold in_i32b, in_i32, i32_min, i32_max. lia. Qed.

Lemma in_i32b_false z : in_i32b z = false <-> ~ in_i32 z.
Proof. unfold in_i32b, in_i32, i32_min, i32_max. lia. Qed.

Lemma arith_ok p k z : in_i32 z -> arith p k z = Ok z.
Proof. intros H. unfold arith. apply in_i32b_true in H. rewrite H. reflexivity. Qed.

Lemma arith_release k z : arith Release k z <> Panic k.
Proof. unfold arith. destruct (in_i32b z); discriminate. Qed.

Lemma checked_some z r : checked z = Some r <-> (in_i32 z /\ r = z).
Proof.
  unfold checked. destruct (in_i32b z) eqn:E.
  - apply in_i32b_true in E. split; [intros [= <-]; auto | intros [_ ->]; reflexivity].
  - apply in_i32b_false in E. split; [discriminate | intros [H _]; contradiction].
Qed.

(* ---------------------------------------------------------------------------------------------- *)
(* i32::checked_pow (core::num's square-and-multiply loop, Model_C02.pow_loop) computes x^e exactly when it
   fits and None otherwise: an intermediate overflow implies the final result overflows *)

Lemma checked_in z : in_i32 z -> checked z = Some z.
Proof. intros H. unfold checked. apply in_i32b_true in H. rewrite H. reflexivity. Qed.
Lemma checked_out z : ~ in_i32 z -> checked z = None.
Proof. intros H. unfold checked. apply in_i32b_false in H. rewrite H. reflexivity. Qed.

Lemma sq_overflow b : in_i32 b -> ~ in_i32 (b * b) -> 2147483648 < b * b.
Proof.
  unfold in_i32, i32_min, i32_max. intros Hb Hn.
  assert (C : b <= -46341 \/ -46340 <= b <= 46340 \/ 46341 <= b) by lia.
  destruct C as [C|[C|C]]; nia.
Qed.

Lemma pow_ge_1 q k : 1 <= q -> 0 <= k -> 1 <= q ^ k.
Proof. intros. assert (0 < q ^ k) by (apply Z.pow_pos_nonneg; lia). lia. Qed.

Lemma pow_ge_base q k : 1 <= q -> 1 <= k -> q <= q ^ k.
Proof.
  intros Hq Hk. replace k with (Z.succ (k - 1)) by lia. rewrite Z.pow_succ_r by lia.
  pose proof (pow_ge_1 q (k - 1) Hq ltac:(lia)). nia.
Qed.

Lemma pow_odd b k : 0 <= k -> b ^ (2 * k + 1) = b * (b * b) ^ k.
Proof. intros. rewrite Z.pow_add_r, Z.pow_1_r, Z.pow_mul_r by lia. rewrite Z.pow_2_r. ring. Qed.
Lemma pow_even b k : 0 <= k -> b ^ (2 * k) = (b * b) ^ k.
Proof. intros. rewrite Z.pow_mul_r by lia. rewrite Z.pow_2_r. reflexivity. Qed.

Lemma pow_loop_spec : forall n b a e,
  1 <= e < 2 ^ Z.of_nat n -> in_i32 b -> in_i32 a -> (a <> 0 \/ b = 0) ->
  pow_loop n b a e = checked (a * b ^ e).
Proof.
  induction n as [|n IH]; intros b a e He Hb Ha Hinv.
  - simpl in He. lia.
  - rewrite Nat2Z.inj_succ, Z.pow_succ_r in He by lia.
    cbn [pow_loop]. unfold i32_checked_mul.
    pose proof (Z.div_mod e 2 ltac:(lia)) as Ed. pose proof (Zmod_odd e) as Eo.
    set (k := e / 2) in *.
    destruct (Z.odd e) eqn:Od.
    + (* e = 2k+1 *)
      assert (Ee : e = 2 * k + 1) by lia. assert (Hk : 0 <= k) by lia.
      destruct (in_i32b (a * b)) eqn:Eab; unfold checked at 1; rewrite Eab.
      * apply in_i32b_true in Eab.
        destruct (Z.eqb_spec e 1) as [E1|E1].
        { rewrite E1, Z.pow_1_r. symmetry. apply checked_in. exact Eab. }
        assert (Hk1 : 1 <= k) by lia.
        destruct (in_i32b (b * b)) eqn:Ebb; unfold checked at 1; rewrite Ebb.
        -- apply in_i32b_true in Ebb.
           assert (Hinv' : a * b <> 0 \/ b * b = 0).
           { destruct Hinv as [Ha0|Hb0]; [|right; subst b; reflexivity].
             destruct (Z.eq_dec b 0) as [->|Hb0]; [right; reflexivity|left; nia]. }
           rewrite (IH (b * b) (a * b) k ltac:(lia) Ebb Eab Hinv').
           rewrite Ee, pow_odd by lia. f_equal. ring.
        -- apply in_i32b_false in Ebb. symmetry. apply checked_out.
           pose proof (sq_overflow b Hb Ebb) as Hs.
           assert (Hb0 : b <> 0) by (intros ->; simpl in Hs; lia).
           assert (Ha0 : a <> 0) by (destruct Hinv; [assumption|contradiction]).
           rewrite Ee, pow_odd by lia.
           pose proof (pow_ge_base (b * b) k ltac:(lia) Hk1) as Hp.
           unfold in_i32, i32_min, i32_max in *. set (P := (b * b) ^ k) in *. clearbody P.
           assert (1 <= Z.abs (a * b)) by nia. nia.
      * apply in_i32b_false in Eab. symmetry. apply checked_out.
        assert (Hb0 : b <> 0) by (intros ->; apply Eab; rewrite Z.mul_0_r; unfold in_i32, i32_min, i32_max; lia).
        rewrite Ee, pow_odd by lia.
        pose proof (pow_ge_1 (b * b) k ltac:(nia) Hk) as Hp.
        unfold in_i32, i32_min, i32_max in *. set (P := (b * b) ^ k) in *. clearbody P. nia.
    + (* e = 2k, k >= 1 *)
      assert (Ee : e = 2 * k) by lia. assert (Hk1 : 1 <= k) by lia.
      destruct (in_i32b (b * b)) eqn:Ebb; unfold checked at 1; rewrite Ebb.
      * apply in_i32b_true in Ebb.
        assert (Hinv' : a <> 0 \/ b * b = 0).
        { destruct Hinv as [Ha0|Hb0]; [left; assumption|right; subst b; reflexivity]. }
        rewrite (IH (b * b) a k ltac:(lia) Ebb Ha Hinv').
        rewrite Ee, pow_even by lia. reflexivity.
      * apply in_i32b_false in Ebb. symmetry. apply checked_out.
        pose proof (sq_overflow b Hb Ebb) as Hs.
        assert (Hb0 : b <> 0) by (intros ->; simpl in Hs; lia).
        assert (Ha0 : a <> 0) by (destruct Hinv; [assumption|contradiction]).
        rewrite Ee, pow_even by lia.
        pose proof (pow_ge_base (b * b) k ltac:(lia) Hk1) as Hp.
        unfold in_i32, i32_min, i32_max in *. set (P := (b * b) ^ k) in *. clearbody P.
        assert (1 <= Z.abs a) by lia. nia.
Qed.

Lemma checked_pow_spec x e : in_i32 x -> 0 <= e <= u32_max ->
  i32_checked_pow x e = checked (x ^ e).
Proof.
  intros Hx He. unfold i32_checked_pow. destruct (Z.eqb_spec e 0) as [->|E0].
  - rewrite Z.pow_0_r. reflexivity.
  - rewrite pow_loop_spec.
    + f_equal. ring.
    + unfold u32_max in He. change (2 ^ Z.of_nat 33) with 8589934592. lia.
    + exact Hx.
    + unfold in_i32, i32_min, i32_max. lia.
    + left. discriminate.
Qed.

(* ---------------------------------------------------------------------------------------------- *)
(* the one non-linear fact: after a successful checked_div, `y * div` cannot overflow *)

Lemma mul_quot_in_range x y : in_i32 x -> y <> 0 -> in_i32 (y * Z.quot x y).
Proof.
  unfold in_i32, i32_min, i32_max. intros Hx Hy.
  destruct (Z.le_gt_cases 0 x) as [H0|H0].
  - pose proof (Z.mul_quot_le x y H0 Hy). lia.
  - assert (Hx0 : x <= 0) by lia. pose proof (Z.mul_quot_ge x y Hx0 Hy). lia.
Qed.

Lemma checked_div_some x y d : i32_checked_div x y = Some d ->
  y <> 0 /\ ~ (x = i32_min /\ y = -1) /\ d = Z.quot x y.
Proof.
  unfold i32_checked_div, i32_min. destruct (Z.eqb_spec y 0); [discriminate|].
  destruct ((x =? -2147483648) && (y =? -1)) eqn:E; [discriminate|].
  intros [= <-]. repeat split; auto. lia.
Qed.

Lemma checked_div_none x y : i32_checked_div x y = None -> y = 0 \/ (x = i32_min /\ y = -1).
Proof.
  unfold i32_checked_div, i32_min. destruct (Z.eqb_spec y 0); [auto|].
  destruct ((x =? -2147483648) && (y =? -1)) eqn:E; [|discriminate]. intros _. right. lia.
Qed.

Lemma i32_mul_after_checked_div p x y d : in_i32 x -> i32_checked_div x y = Some d ->
  i32_mul p y d = Ok (y * d).
Proof.
  intros Hx Hd. apply checked_div_some in Hd as (Hy & _ & ->).
  unfold i32_mul. apply arith_ok. apply mul_quot_in_range; assumption.
Qed.

(* ---------------------------------------------------------------------------------------------- *)
(* the known gap: `x % y` is only guarded against y = 0 *)

Definition known_gap (op : binop) (x y : Z) : Prop := op = Rem /\ x = i32_min /\ y = -1.

Lemma i32_rem_ok x y : y <> 0 -> ~ (x = i32_min /\ y = -1) -> i32_rem x y = Ok (Z.rem x y).
Proof.
  intros Hy Hg. unfold i32_rem, i32_min in *. destruct (Z.eqb_spec y 0); [contradiction|].
  destruct ((x =? -2147483648) && (y =? -1)) eqn:E; [exfalso; apply Hg; lia | reflexivity].
Qed.

Lemma i32_wrapping_rem_ok x y : y <> 0 -> is_panic (i32_wrapping_rem x y) = false.
Proof.
  intros Hy. unfold i32_wrapping_rem. destruct (Z.eqb_spec y 0); [contradiction|].
  destruct ((x =? i32_min) && (y =? -1)); reflexivity.
Qed.

(* generic closing tactic for goals about the generated definitions: expose every test, decide by lia.
   Written against the shapes the translator can emit so that a repaired `%` arm (guard, checked_rem or
   wrapping_rem) is still discharged without editing this file. *)
Ltac expose :=
  cbv [opt_map_or_else opt_map_or_else_m opt_filter opt_filter_m opt_and_then opt_and_then_m opt_map opt_map_m
       i32_rem i32_div i32_wrapping_rem i32_checked_rem i32_checked_div i32_checked_neg i32_checked_abs checked
       i32_add i32_sub i32_mul i32_neg arith].
Ltac split_ifs :=
  repeat (cbn [bind is_panic];
          match goal with
          | |- context [if ?b then _ else _] =>
              match type of b with bool => let E := fresh "E" in destruct b eqn:E end
          | |- context [match ?p with Debug => _ | Release => _ end] => is_var p; destruct p
          end); cbn [bind is_panic].
Ltac close := first [ reflexivity | discriminate | (exfalso; unfold in_i32b, in_i32, i32_min, i32_max in *; lia) ].

(* ---------------------------------------------------------------------------------------------- *)
(* totality of the binary kernels *)

Lemma div_fast_total p x y : in_i32 x -> in_i32 y -> is_panic (div_fast_i32 p x y) = false.
Proof.
  intros Hx Hy. unfold div_fast_i32.
  destruct (i32_checked_div x y) as [d|] eqn:Hd; cbn [opt_filter_m bind].
  - rewrite (i32_mul_after_checked_div p x y d Hx Hd). cbn [bind].
    repeat match goal with |- context [if ?b then _ else _] => destruct b end; reflexivity.
  - reflexivity.
Qed.

Lemma div_ops_total p x y : in_i32 x -> in_i32 y -> is_panic (div_ops_i32 p x y) = false.
Proof.
  intros Hx Hy. unfold div_ops_i32.
  destruct (i32_checked_div x y) as [d|] eqn:Hd; cbn [opt_filter_m bind].
  - rewrite (i32_mul_after_checked_div p x y d Hx Hd). cbn [bind].
    repeat match goal with |- context [if ?b then _ else _] => destruct b end; reflexivity.
  - reflexivity.
Qed.

Lemma rem_fast_total_nongap p x y : in_i32 x -> in_i32 y -> ~ (x = i32_min /\ y = -1) ->
  is_panic (rem_fast_i32 p x y) = false.
Proof.
  intros Hx Hy Hg. unfold rem_fast_i32. expose. split_ifs; close.
Qed.

Lemma rem_ops_total_nongap p x y : in_i32 x -> in_i32 y -> ~ (x = i32_min /\ y = -1) ->
  is_panic (rem_ops_i32 p x y) = false.
Proof.
  intros Hx Hy Hg. unfold rem_ops_i32. expose. split_ifs; close.
Qed.

Lemma fast_paths_total_lemma : forall p op x y, in_i32 x -> in_i32 y -> ~ known_gap op x y ->
  is_panic (run_fast p op x y) = false /\ is_panic (run_ops p op x y) = false.
Proof.
  intros p op x y Hx Hy Hg. destruct op; cbn [run_fast run_ops];
    try (split; reflexivity).
  - split; [apply div_fast_total | apply div_ops_total]; assumption.
  - assert (G : ~ (x = i32_min /\ y = -1)) by (intros [A B]; apply Hg; repeat split; assumption).
    split; [apply rem_fast_total_nongap | apply rem_ops_total_nongap]; assumption.
Qed.

(* ---------------------------------------------------------------------------------------------- *)
(* Inc / Dec: the pattern guard makes `number + 1` / `number - 1` safe in every profile *)

Lemma inc_spec p n : in_i32 n ->
  inc_i32 p n = Ok (if n <? i32_max then Some (JInt n, JInt (n + 1)) else None).
Proof.
  intros Hn. unfold inc_i32. destruct (n <? i32_max) eqn:E; [|reflexivity].
  unfold i32_add. rewrite arith_ok; [reflexivity|]. unfold in_i32, i32_min, i32_max in *. lia.
Qed.

Lemma dec_spec p n : in_i32 n ->
  dec_i32 p n = Ok (if n >? i32_min then Some (JInt n, JInt (n - 1)) else None).
Proof.
  intros Hn. unfold dec_i32. destruct (n >? i32_min) eqn:E; [|reflexivity].
  unfold i32_sub. rewrite arith_ok; [reflexivity|]. unfold in_i32, i32_min, i32_max in *. lia.
Qed.

Lemma inc_dec_lemma : forall p n, in_i32 n ->
  inc_i32 p n = Ok (if n <? i32_max then Some (JInt n, JInt (n + 1)) else None) /\
  dec_i32 p n = Ok (if n >? i32_min then Some (JInt n, JInt (n - 1)) else None).
Proof. intros p n H. split; [exact (inc_spec p n H) | exact (dec_spec p n H)]. Qed.

(* ---------------------------------------------------------------------------------------------- *)
(* functional specification of the guards: the Integer32 result is produced exactly when the exact
   mathematical result is representable (and is not a negative zero the code knows about); otherwise
   the float ("slow") computation on the converted operands is the result. *)

Definition fI (z : Z) : fexp := FofI32 z.

(* `/`: the Integer32 result needs an exact division and, where the arm filters it, no negative zero
   (0 / negative is -0).  Whether an arm has that filter is read off the regenerated definition itself
   (by computation on the witness 0 / -1), so the closed form follows the source arm by arm. *)
Definition div_spec (nz : bool) (x y : Z) : jsval :=
  if negb (y =? 0) && negb ((x =? i32_min) && (y =? -1)) && (Z.rem x y =? 0)
     && (negb nz || negb (x =? 0) || (0 <? y))
  then JInt (Z.quot x y) else JF64 (FDiv (fI x) (fI y)).
Definition fast_div_nz : bool :=
  match run_fast Debug Div 0 (-1) with Ok (Some (JInt _)) => false | _ => true end.
Definition ops_div_nz : bool :=
  match run_ops Debug Div 0 (-1) with Ok (JInt _) => false | _ => true end.

Definition spec_gen (nz : bool) (op : binop) (x y : Z) : jsval :=
  match op with
  | Add => if in_i32b (x + y) then JInt (x + y) else JF64 (FAdd (fI x) (fI y))
  | Sub => if in_i32b (x - y) then JInt (x - y) else JF64 (FSub (fI x) (fI y))
  | Mul => if in_i32b (x * y) && (negb (x * y =? 0) || (0 <=? Z.min x y))
           then JInt (x * y) else JF64 (FMul (fI x) (fI y))
  | Div => div_spec nz x y
  | Rem => if y =? 0 then JF64 FNaN
           else if (Z.rem x y =? 0) && (x <? 0) then JF64 FNegZero else JInt (Z.rem x y)
  | Pow => if (0 <=? y) && in_i32b (x ^ y) then JInt (x ^ y) else JF64 (FPowi (fI x) y)
  | BitAnd => JInt (Z.land x y) | BitOr => JInt (Z.lor x y) | BitXor => JInt (Z.lxor x y)
  | Shl => JInt (wrap32 (x * 2 ^ (y mod 32)))
  | Shr => JInt (x / 2 ^ (y mod 32))
  | UShr => let r := (x mod 4294967296) / 2 ^ (y mod 32) in if r <=? i32_max then JInt r else JF64 (FofU32 r)
  | Lt => JBool (x <? y) | Le => JBool (x <=? y) | Gt => JBool (y <? x) | Ge => JBool (y <=? x)
  | Eq => JBool (x =? y) | Ne => JBool (negb (x =? y))
  end.
Definition spec_val : binop -> Z -> Z -> jsval := spec_gen fast_div_nz.   (* the `*_fast` helpers *)
Definition spec_ops : binop -> Z -> Z -> jsval := spec_gen ops_div_nz.    (* the JsValue::<op> arms *)

Lemma mod32_u32 y : (y mod 4294967296) mod 32 = y mod 32.
Proof.
  change 4294967296 with (32 * 134217728).
  rewrite Z.rem_mul_r by lia. rewrite Z.mul_comm, Z.mod_add by lia. apply Z.mod_mod. lia.
Qed.

Lemma mod32_range y : 0 <= y mod 32 < 32.
Proof. apply Z.mod_pos_bound. lia. Qed.

Lemma div_exact_iff x y : y <> 0 -> (y * Z.quot x y =? x) = (Z.rem x y =? 0).
Proof.
  intros Hy. pose proof (Z.quot_rem' x y) as E.
  destruct (Z.eqb_spec (y * Z.quot x y) x), (Z.eqb_spec (Z.rem x y) 0); try reflexivity; exfalso; lia.
Qed.

Lemma spec_add p x y : add_fast_i32 p x y = Ok (Some (spec_gen true Add x y)) /\ add_ops_i32 p x y = Ok (spec_gen true Add x y).
Proof. unfold add_fast_i32, add_ops_i32, spec_gen, i32_checked_add, checked. destruct (in_i32b (x + y)); split; reflexivity. Qed.

Lemma spec_sub p x y : sub_fast_i32 p x y = Ok (Some (spec_gen true Sub x y)) /\ sub_ops_i32 p x y = Ok (spec_gen true Sub x y).
Proof. unfold sub_fast_i32, sub_ops_i32, spec_gen, i32_checked_sub, checked. destruct (in_i32b (x - y)); split; reflexivity. Qed.

Lemma spec_mul p x y : mul_fast_i32 p x y = Ok (Some (spec_gen true Mul x y)) /\ mul_ops_i32 p x y = Ok (spec_gen true Mul x y).
Proof.
  unfold mul_fast_i32, mul_ops_i32, spec_gen, i32_checked_mul, checked.
  destruct (in_i32b (x * y)); cbn [opt_filter opt_map_or_else andb]; [|split; reflexivity].
  replace (Z.min x y >=? 0) with (0 <=? Z.min x y) by (rewrite Z.geb_leb; reflexivity).
  destruct (negb (x * y =? 0) || (0 <=? Z.min x y)); split; reflexivity.
Qed.

Lemma div_gt_lt y : (y >? 0) = (0 <? y).
Proof. rewrite Z.gtb_ltb. reflexivity. Qed.

(* one script for both arms and both filter shapes *)
Ltac div_arm p x y Hx :=
  let d := fresh "d" in let Hd := fresh "Hd" in
  destruct (i32_checked_div x y) as [d|] eqn:Hd; cbn [opt_filter_m bind];
  [ rewrite (i32_mul_after_checked_div p x y d Hx Hd); cbn [bind];
    let Hy0 := fresh "Hy0" in let Hg := fresh "Hg" in
    apply checked_div_some in Hd as (Hy0 & Hg & ->);
    rewrite (div_exact_iff x y Hy0);
    let E1 := fresh "E1" in let E2 := fresh "E2" in
    assert (E1 : (y =? 0) = false) by (apply Z.eqb_neq; exact Hy0);
    assert (E2 : ((x =? i32_min) && (y =? -1)) = false)
      by (destruct (Z.eqb_spec x i32_min), (Z.eqb_spec y (-1)); try reflexivity; exfalso; apply Hg; split; assumption);
    unfold div_spec; rewrite E1, E2, ?div_gt_lt; cbn [negb andb orb];
    destruct (Z.rem x y =? 0), (x =? 0), (0 <? y); reflexivity
  | apply checked_div_none in Hd; cbn [opt_map_or_else bind]; unfold div_spec;
    let E := fresh "E" in
    assert (E : negb (y =? 0) && negb ((x =? i32_min) && (y =? -1)) = false)
      by (destruct Hd as [->|[-> ->]]; reflexivity);
    rewrite E; reflexivity ].

Lemma spec_div_fast p x y : in_i32 x -> in_i32 y ->
  div_fast_i32 p x y = Ok (Some (div_spec fast_div_nz x y)).
Proof.
  intros Hx Hy.
  first [ change fast_div_nz with false; unfold div_fast_i32; div_arm p x y Hx
        | change fast_div_nz with true; unfold div_fast_i32; div_arm p x y Hx ].
Qed.

Lemma spec_div_ops p x y : in_i32 x -> in_i32 y ->
  div_ops_i32 p x y = Ok (div_spec ops_div_nz x y).
Proof.
  intros Hx Hy.
  first [ change ops_div_nz with false; unfold div_ops_i32; div_arm p x y Hx
        | change ops_div_nz with true; unfold div_ops_i32; div_arm p x y Hx ].
Qed.

Lemma spec_rem p x y : in_i32 x -> in_i32 y -> ~ (x = i32_min /\ y = -1) ->
  rem_fast_i32 p x y = Ok (Some (spec_gen true Rem x y)) /\ rem_ops_i32 p x y = Ok (spec_gen true Rem x y).
Proof.
  intros Hx Hy Hg. unfold rem_fast_i32, rem_ops_i32, spec_gen.
  first
    [ (* tree with the raw `%` *)
      destruct (Z.eqb_spec y 0) as [->|Hy0]; [split; reflexivity|];
      rewrite (i32_rem_ok x y Hy0 Hg); cbn [bind];
      destruct ((Z.rem x y =? 0) && (x <? 0)); split; reflexivity
    | (* repaired tree: any guard / checked / wrapping form the translator emits *)
      expose; split_ifs; split;
      first [ reflexivity | discriminate
            | exfalso; unfold in_i32, i32_min, i32_max in *;
              pose proof (Z.rem_bound_abs x y); lia
            | f_equal; f_equal; f_equal; unfold in_i32, i32_min, i32_max in *; lia ] ].
Qed.

Lemma spec_pow p x y : in_i32 x -> in_i32 y ->
  pow_fast_i32 p x y = Ok (Some (spec_gen true Pow x y)) /\ pow_ops_i32 p x y = Ok (spec_gen true Pow x y).
Proof.
  intros Hx Hy. unfold pow_fast_i32, pow_ops_i32, spec_gen, u32_try_from_i32.
  destruct (0 <=? y) eqn:E0; cbn [opt_and_then andb]; [|split; reflexivity].
  apply Z.leb_le in E0.
  rewrite (checked_pow_spec x y Hx) by (unfold in_i32, i32_min, i32_max, u32_max in *; lia).
  unfold checked. destruct (in_i32b (x ^ y)); split; reflexivity.
Qed.

Lemma shl_is_mul x c : 0 <= c -> Z.shiftl x c = x * 2 ^ c.
Proof. intros. apply Z.shiftl_mul_pow2. assumption. Qed.

Lemma shr_is_div x c : 0 <= c -> Z.shiftr x c = x / 2 ^ c.
Proof. intros. apply Z.shiftr_div_pow2. assumption. Qed.

Lemma slow_path_lemma : forall p op x y, in_i32 x -> in_i32 y -> ~ known_gap op x y ->
  run_fast p op x y = Ok (Some (spec_val op x y)) /\ run_ops p op x y = Ok (spec_ops op x y).
Proof.
  intros p op x y Hx Hy Hg.
  pose proof (mod32_range y) as R.
  unfold spec_gen, spec_ops. destruct op; cbn [run_fast run_ops].
  - apply spec_add.
  - apply spec_sub.
  - apply spec_mul.
  - split; [apply spec_div_fast | apply spec_div_ops]; assumption.
  - apply spec_rem; try assumption. intros [A B]. apply Hg. repeat split; assumption.
  - apply spec_pow; assumption.
  - split; reflexivity.
  - split; reflexivity.
  - split; reflexivity.
  - unfold shl_fast_i32, shl_ops_i32, spec_gen, i32_wrapping_shl, i32_as_u32.
    rewrite mod32_u32, shl_is_mul by lia. split; reflexivity.
  - unfold shr_fast_i32, shr_ops_i32, spec_gen, i32_wrapping_shr, i32_as_u32.
    rewrite mod32_u32, shr_is_div by lia. split; reflexivity.
  - unfold ushr_fast_i32, ushr_ops_i32, spec_gen, u32_wrapping_shr, i32_as_u32, js_new_u32.
    rewrite mod32_u32, shr_is_div by lia. split; reflexivity.
  - split; reflexivity.
  - unfold le_fast_i32, relation_ops_i32, spec_gen, opt_map, bind. split; [reflexivity|].
    f_equal. f_equal. rewrite Z.leb_antisym. reflexivity.
  - unfold gt_fast_i32, relation_ops_i32, spec_gen, opt_map, bind. split; [|reflexivity].
    rewrite Z.gtb_ltb. reflexivity.
  - unfold ge_fast_i32, relation_ops_i32, spec_gen, opt_map, bind. split.
    + rewrite Z.geb_leb. reflexivity.
    + f_equal. f_equal. rewrite Z.leb_antisym. reflexivity.
  - split; reflexivity.
  - split; reflexivity.
Qed.

(* ---------------------------------------------------------------------------------------------- *)
(* the Integer32 results are in range: nothing wrapped escapes, also in the release profile *)

Lemma in_i32_shiftr z : in_i32 z <-> (Z.shiftr z 31 = 0 \/ Z.shiftr z 31 = -1).
Proof.
  rewrite Z.shiftr_div_pow2 by lia. change (2 ^ 31) with 2147483648.
  unfold in_i32, i32_min, i32_max.
  pose proof (Z.div_mod z 2147483648 ltac:(lia)). pose proof (Z.mod_pos_bound z 2147483648 ltac:(lia)).
  split; intros; lia.
Qed.

Lemma bitop_in_range (f : Z -> Z -> Z) x y :
  (forall a b n, Z.shiftr (f a b) n = f (Z.shiftr a n) (Z.shiftr b n)) ->
  (f 0 0 = 0 \/ f 0 0 = -1) -> (f 0 (-1) = 0 \/ f 0 (-1) = -1) ->
  (f (-1) 0 = 0 \/ f (-1) 0 = -1) -> (f (-1) (-1) = 0 \/ f (-1) (-1) = -1) ->
  in_i32 x -> in_i32 y -> in_i32 (f x y).
Proof.
  intros Hs H00 H01 H10 H11 Hx Hy. apply in_i32_shiftr. rewrite Hs.
  apply in_i32_shiftr in Hx, Hy. destruct Hx as [->| ->], Hy as [->| ->]; assumption.
Qed.

Lemma wrap32_in_range z : in_i32 (wrap32 z).
Proof.
  unfold wrap32, in_i32, i32_min, i32_max.
  pose proof (Z.mod_pos_bound (z + 2147483648) 4294967296 ltac:(lia)). lia.
Qed.

Lemma div_pow2_in_range x k : in_i32 x -> 0 <= k -> in_i32 (x / 2 ^ k).
Proof.
  intros Hx Hk. assert (Hd : 0 < 2 ^ k) by (apply Z.pow_pos_nonneg; lia).
  unfold in_i32, i32_min, i32_max in *.
  pose proof (Z.div_mod x (2 ^ k) ltac:(lia)) as E. pose proof (Z.mod_pos_bound x (2 ^ k) Hd) as B.
  set (d := 2 ^ k) in *. set (q := x / d) in *. set (r := x mod d) in *. clearbody d q r.
  split; nia.
Qed.

Lemma pow_loop_in_range : forall n b a e z, pow_loop n b a e = Some z -> in_i32 z.
Proof.
  induction n as [|n IH]; intros b a e z; cbn [pow_loop]; [discriminate|].
  unfold i32_checked_mul.
  destruct (Z.odd e).
  - destruct (checked (a * b)) as [a'|] eqn:Ea; [|discriminate].
    destruct (e =? 1).
    + intros [= <-]. apply checked_some in Ea as [H ->]. exact H.
    + destruct (checked (b * b)) as [b'|]; [|discriminate]. apply IH.
  - destruct (checked (b * b)) as [b'|]; [|discriminate]. apply IH.
Qed.

Lemma checked_pow_in_range x e z : i32_checked_pow x e = Some z -> in_i32 z.
Proof.
  unfold i32_checked_pow. destruct (e =? 0).
  - intros [= <-]. unfold in_i32, i32_min, i32_max. lia.
  - apply pow_loop_in_range.
Qed.

Lemma quot_exact_in_range x y : in_i32 x -> y <> 0 -> ~ (x = i32_min /\ y = -1) -> Z.rem x y = 0 ->
  in_i32 (Z.quot x y).
Proof.
  intros Hx Hy Hg Hr. pose proof (Z.quot_rem' x y) as Q. rewrite Hr, Z.add_0_r in Q.
  unfold in_i32, i32_min, i32_max in *.
  set (q := Z.quot x y) in *. clearbody q. nia.
Qed.

Lemma spec_int_in_range nz op x y z : in_i32 x -> in_i32 y -> spec_gen nz op x y = JInt z -> in_i32 z.
Proof.
  intros Hx Hy. pose proof (mod32_range y) as R.
  destruct op; unfold spec_gen, div_spec.
  - destruct (in_i32b (x + y)) eqn:E; [|discriminate]. intros [= <-]. apply in_i32b_true. exact E.
  - destruct (in_i32b (x - y)) eqn:E; [|discriminate]. intros [= <-]. apply in_i32b_true. exact E.
  - destruct (in_i32b (x * y)) eqn:E; cbn [andb]; [|discriminate].
    destruct (negb (x * y =? 0) || (0 <=? Z.min x y)); [|discriminate]. intros [= <-]. apply in_i32b_true. exact E.
  - destruct (Z.eqb_spec y 0) as [|Hy0]; cbn [negb andb]; [discriminate|].
    destruct ((x =? i32_min) && (y =? -1)) eqn:E; cbn [negb andb]; [discriminate|].
    destruct (Z.rem x y =? 0) eqn:E2; cbn [andb]; [|discriminate].
    destruct (negb nz || negb (x =? 0) || (0 <? y)); [|discriminate]. intros [= <-].
    apply Z.eqb_eq in E2. apply quot_exact_in_range; try assumption.
    intros [A B]. subst. discriminate E.
  - destruct (y =? 0) eqn:E0; [discriminate|]. apply Z.eqb_neq in E0.
    destruct ((Z.rem x y =? 0) && (x <? 0)); [discriminate|]. intros [= <-].
    pose proof (Z.rem_bound_abs x y E0). unfold in_i32, i32_min, i32_max in *. lia.
  - destruct (0 <=? y); cbn [andb]; [|discriminate].
    destruct (in_i32b (x ^ y)) eqn:E; [|discriminate]. intros [= <-]. apply in_i32b_true. exact E.
  - intros [= <-]. apply (bitop_in_range Z.land); auto using Z.shiftr_land.
  - intros [= <-]. apply (bitop_in_range Z.lor); auto using Z.shiftr_lor.
  - intros [= <-]. apply (bitop_in_range Z.lxor); auto using Z.shiftr_lxor.
  - intros [= <-]. apply wrap32_in_range.
  - intros [= <-]. apply div_pow2_in_range; [assumption|lia].
  - cbv zeta. destruct (_ <=? i32_max) eqn:E; [|discriminate]. intros [= <-].
    apply Z.leb_le in E. unfold in_i32, i32_min, i32_max in *.
    split; [|assumption].
    assert (0 <= (x mod 4294967296) / 2 ^ (y mod 32)); [|lia].
    apply Z.div_pos; [apply Z.mod_pos_bound; lia | apply Z.pow_pos_nonneg; lia].
  - discriminate. - discriminate. - discriminate. - discriminate. - discriminate. - discriminate.
Qed.

(* ---------------------------------------------------------------------------------------------- *)
(* JsValue::neg on Integer32 *)

Lemma neg_ops_total_except p n : in_i32 n -> ~ (p = Debug /\ n = i32_min) ->
  is_panic (neg_ops_i32 p n) = false.
Proof.
  intros Hn Hg. unfold neg_ops_i32. expose.
  destruct p.
  - assert (n <> i32_min) by (intro; apply Hg; split; [reflexivity|assumption]). split_ifs; close.
  - split_ifs; close.
Qed.

Lemma neg_ops_spec p n : in_i32 n -> n <> i32_min ->
  neg_ops_i32 p n = Ok (if n =? 0 then JF64 FNegZero else JInt (- n)).
Proof.
  intros Hn Hm. unfold neg_ops_i32. expose. split_ifs; first [ reflexivity | close ].
Qed.

(* ---------------------------------------------------------------------------------------------- *)
(* the two gaps of this tree, decided on the regenerated definitions: either the witness panics (left,
   by computation) or the arm has been repaired with the result ECMAScript requires (right).  The proof
   script tries both, so the theorem follows the source; which side holds is reported by the check. *)

Definition rem_gap_open : Prop :=
  forall p, run_fast p Rem i32_min (-1) = Panic PkRemOverflow /\ run_ops p Rem i32_min (-1) = Panic PkRemOverflow.
Definition rem_gap_closed : Prop :=
  forall p, run_fast p Rem i32_min (-1) = Ok (Some (JF64 FNegZero)) /\ run_ops p Rem i32_min (-1) = Ok (JF64 FNegZero).

Lemma rem_gap_decided_lemma : rem_gap_open \/ rem_gap_closed.
Proof.
  first [ left; intros []; split; vm_compute; reflexivity
        | right; intros []; split; vm_compute; reflexivity ].
Qed.

Definition neg_gap_open : Prop :=
  neg_ops_i32 Debug i32_min = Panic PkNegOverflow /\ neg_ops_i32 Release i32_min = Ok (JInt i32_min).
Definition neg_gap_closed : Prop :=
  forall p, exists f, neg_ops_i32 p i32_min = Ok (JF64 f).

Lemma neg_gap_decided_lemma : neg_gap_open \/ neg_gap_closed.
Proof.
  first [ left; split; vm_compute; reflexivity
        | right; intros []; eexists; vm_compute; reflexivity ].
Qed.
