(* C02 model, part 1 ("Partial.v"): Rust's integer primitives with the panic made explicit.

   i32 / u32 values are Z (invariant: in range).  Every primitive that can panic returns `res`;
   the profile says whether `+ - * unary-` are compiled with overflow checks (debug: panic) or
   without (release: two's complement wrap).  `/` and `%` panic in both profiles (division by zero,
   MIN / -1, MIN % -1: "attempt to calculate the remainder with overflow").  The `checked_*`
   methods never panic: they return `option`.  `wrapping_sh*` mask the count with (bits-1).
   f64 results are kept symbolic (`fexp`): no float arithmetic is needed to decide whether a panic
   can happen, and the correspondence evaluates the expression exactly on the Python side.

   The fast paths themselves are NOT here: coq/Gen/FastPaths.v is regenerated from
   core/engine/src/value/operations.rs and vm/opcode/unary_ops/{increment,decrement}.rs by
   tools/gen_c02.py on every run, in terms of the definitions below. *)
From Coq Require Import ZArith Bool List.
Import ListNotations.
Local Open Scope Z_scope.

Inductive profile := Debug | Release.

Inductive pk :=
| PkAddOverflow | PkSubOverflow | PkMulOverflow | PkNegOverflow
| PkDivZero | PkDivOverflow | PkRemZero | PkRemOverflow.

Inductive res (A : Type) := Ok (a : A) | Panic (k : pk).
Arguments Ok {A} a.
Arguments Panic {A} k.

Definition bind {A B} (m : res A) (f : A -> res B) : res B :=
  match m with Ok a => f a | Panic k => Panic k end.

Definition is_panic {A} (m : res A) : bool := match m with Panic _ => true | Ok _ => false end.

(* ---- ranges and casts ---- *)
Definition i32_min : Z := -2147483648.
Definition i32_max : Z := 2147483647.
Definition u32_max : Z := 4294967295.
Definition in_i32b (z : Z) : bool := (i32_min <=? z) && (z <=? i32_max).
Definition in_u32b (z : Z) : bool := (0 <=? z) && (z <=? u32_max).
Definition in_i32 (z : Z) : Prop := i32_min <= z <= i32_max.
Definition in_u32 (z : Z) : Prop := 0 <= z <= u32_max.

(* two's complement reduction to 32 bits *)
Definition wrap32 (z : Z) : Z := (z + 2147483648) mod 4294967296 - 2147483648.
Definition i32_as_u32 (x : Z) : Z := x mod 4294967296.          (* `x as u32` *)
Definition u32_as_i32 (x : Z) : Z := wrap32 x.                   (* `x as i32` *)
Definition i32_as_usize (x : Z) : Z := x mod 18446744073709551616. (* `x as usize`, 64-bit target *)
Definition u32_try_from_i32 (y : Z) : option Z := if 0 <=? y then Some y else None.  (* u32::try_from(y).ok() *)

(* ---- operators `+ - * unary-` on i32: overflow check depends on the profile ---- *)
Definition arith (p : profile) (k : pk) (z : Z) : res Z :=
  if in_i32b z then Ok z else match p with Debug => Panic k | Release => Ok (wrap32 z) end.
Definition i32_add (p : profile) (a b : Z) : res Z := arith p PkAddOverflow (a + b).
Definition i32_sub (p : profile) (a b : Z) : res Z := arith p PkSubOverflow (a - b).
Definition i32_mul (p : profile) (a b : Z) : res Z := arith p PkMulOverflow (a * b).
Definition i32_neg (p : profile) (a : Z) : res Z := arith p PkNegOverflow (- a).

(* ---- `/` and `%` on i32: panic in every profile ---- *)
Definition i32_div (a b : Z) : res Z :=
  if b =? 0 then Panic PkDivZero
  else if (a =? i32_min) && (b =? -1) then Panic PkDivOverflow
  else Ok (Z.quot a b).
Definition i32_rem (a b : Z) : res Z :=
  if b =? 0 then Panic PkRemZero
  else if (a =? i32_min) && (b =? -1) then Panic PkRemOverflow
  else Ok (Z.rem a b).

(* ---- checked_* : partial functions as options, never a panic ---- *)
Definition checked (z : Z) : option Z := if in_i32b z then Some z else None.
Definition i32_checked_add (a b : Z) : option Z := checked (a + b).
Definition i32_checked_sub (a b : Z) : option Z := checked (a - b).
Definition i32_checked_mul (a b : Z) : option Z := checked (a * b).
Definition i32_checked_neg (a : Z) : option Z := checked (- a).
Definition i32_checked_abs (a : Z) : option Z := checked (Z.abs a).
Definition i32_checked_div (a b : Z) : option Z :=
  if b =? 0 then None else if (a =? i32_min) && (b =? -1) then None else Some (Z.quot a b).
Definition i32_checked_rem (a b : Z) : option Z :=
  if b =? 0 then None else if (a =? i32_min) && (b =? -1) then None else Some (Z.rem a b).
Definition i32_wrapping_rem (a b : Z) : res Z :=      (* panics only for b = 0 *)
  if b =? 0 then Panic PkRemZero else if (a =? i32_min) && (b =? -1) then Ok 0 else Ok (Z.rem a b).
Definition i32_wrapping_neg (a : Z) : Z := wrap32 (- a).
Definition i32_wrapping_abs (a : Z) : Z := wrap32 (Z.abs a).
Definition i32_wrapping_add (a b : Z) : Z := wrap32 (a + b).
Definition i32_wrapping_sub (a b : Z) : Z := wrap32 (a - b).
Definition i32_wrapping_mul (a b : Z) : Z := wrap32 (a * b).

(* core::num i32::checked_pow, transliterated (square and multiply with checked_mul, early exit):
     if exp == 0 { return Some(1) }  let mut base = self; let mut acc = 1;
     loop { if exp & 1 == 1 { acc = acc.checked_mul(base)?; if exp == 1 { return Some(acc) } }
            exp /= 2; base = base.checked_mul(base)?; }
   exp is a u32, so 32 rounds of fuel always suffice (pow_fuel_enough in Proofs). *)
Fixpoint pow_loop (fuel : nat) (base acc exp : Z) : option Z :=
  match fuel with
  | O => None
  | S f =>
      if Z.odd exp then
        match i32_checked_mul acc base with
        | None => None
        | Some acc' =>
            if exp =? 1 then Some acc'
            else match i32_checked_mul base base with
                 | None => None
                 | Some base' => pow_loop f base' acc' (exp / 2)
                 end
        end
      else match i32_checked_mul base base with
           | None => None
           | Some base' => pow_loop f base' acc (exp / 2)
           end
  end.
Definition i32_checked_pow (a e : Z) : option Z :=
  if e =? 0 then Some 1 else pow_loop 33 a 1 e.

(* ---- shifts with masked counts (`wrapping_shl/shr`: count & 31) ---- *)
Definition i32_wrapping_shl (x c : Z) : Z := wrap32 (Z.shiftl x (c mod 32)).
Definition i32_wrapping_shr (x c : Z) : Z := Z.shiftr x (c mod 32).          (* arithmetic *)
Definition u32_wrapping_shr (x c : Z) : Z := Z.shiftr x (c mod 32).          (* logical: x >= 0 *)
Definition u32_wrapping_shl (x c : Z) : Z := (Z.shiftl x (c mod 32)) mod 4294967296.

(* ---- symbolic f64 results and JsValue construction ---- *)
Inductive fexp :=
| FofI32 (z : Z)            (* f64::from(i32) : exact *)
| FofU32 (z : Z)            (* u32 as f64 : exact *)
| FAdd (a b : fexp) | FSub (a b : fexp) | FMul (a b : fexp) | FDiv (a b : fexp)
| FPowi (a : fexp) (n : Z)  (* f64::powi *)
| FNeg (a : fexp)
| FNegZero | FPosZero | FNaN.

Inductive jsval := JInt (z : Z) | JF64 (f : fexp) | JBool (b : bool).

(* impl From<u32> for JsValue: i32::try_from(value) or else `value as f64` *)
Definition js_new_u32 (z : Z) : jsval := if z <=? i32_max then JInt z else JF64 (FofU32 z).

(* ---- Option combinators, pure and panicking-closure versions ---- *)
Definition opt_map_or_else {A B} (o : option A) (d : unit -> B) (f : A -> B) : B :=
  match o with Some a => f a | None => d tt end.
Definition opt_map_or_else_m {A B} (o : option A) (d : unit -> res B) (f : A -> res B) : res B :=
  match o with Some a => f a | None => d tt end.
Definition opt_filter {A} (o : option A) (pr : A -> bool) : option A :=
  match o with Some a => if pr a then Some a else None | None => None end.
Definition opt_filter_m {A} (o : option A) (pr : A -> res bool) : res (option A) :=
  match o with
  | Some a => bind (pr a) (fun b => Ok (if b then Some a else None))
  | None => Ok None
  end.
Definition opt_and_then {A B} (o : option A) (f : A -> option B) : option B :=
  match o with Some a => f a | None => None end.
Definition opt_and_then_m {A B} (o : option A) (f : A -> res (option B)) : res (option B) :=
  match o with Some a => f a | None => Ok None end.
Definition opt_map {A B} (o : option A) (f : A -> B) : option B :=
  match o with Some a => Some (f a) | None => None end.
Definition opt_map_m {A B} (o : option A) (f : A -> res B) : res (option B) :=
  match o with Some a => bind (f a) (fun b => Ok (Some b)) | None => Ok None end.

(* ---- observation encoding for the correspondence (lists of Z, parsed by checks/c02.py) ---- *)
Fixpoint enc_f (f : fexp) : list Z :=
  match f with
  | FofI32 z => [10; z] | FofU32 z => [11; z]
  | FAdd a b => 12 :: enc_f a ++ enc_f b | FSub a b => 13 :: enc_f a ++ enc_f b
  | FMul a b => 14 :: enc_f a ++ enc_f b | FDiv a b => 15 :: enc_f a ++ enc_f b
  | FPowi a n => 16 :: enc_f a ++ [n]
  | FNegZero => [17] | FPosZero => [18] | FNaN => [19] | FNeg a => 20 :: enc_f a
  end.
Definition enc_pk (k : pk) : Z :=
  match k with
  | PkAddOverflow => 1 | PkSubOverflow => 2 | PkMulOverflow => 3 | PkNegOverflow => 4
  | PkDivZero => 5 | PkDivOverflow => 6 | PkRemZero => 7 | PkRemOverflow => 8
  end.
Definition enc_js (v : jsval) : list Z :=
  match v with JInt z => [1; z] | JBool b => [2; if b then 1 else 0] | JF64 f => 3 :: enc_f f end.
Definition enc_res (r : res jsval) : list Z :=
  match r with Panic k => [0; enc_pk k] | Ok v => enc_js v end.
Definition enc_res_pair (r : res (option (jsval * jsval))) : list Z :=
  match r with
  | Panic k => [0; enc_pk k]
  | Ok None => [4]
  | Ok (Some (a, b)) => 5 :: enc_js a ++ enc_js b
  end.
