(* Extraction of the executable C02 kernels (ExtrOcamlBasic only; Z/positive stay inductive) for the
   boundary-grid correspondence.  Output: ocaml/gen/c02_model.ml{,i} (git-ignored, created by vlib). *)
From Coq Require Import ZArith List Extraction ExtrOcamlBasic.
From C02 Require Import Model_C02.
From Gen Require Import FastPaths.
Extraction Language OCaml.

Definition encf (r : res (option jsval)) : list Z :=
  match r with Panic k => 0%Z :: enc_pk k :: nil | Ok None => 4%Z :: nil | Ok (Some v) => enc_js v end.

Extraction "../ocaml/gen/c02_model.ml" run_fast run_ops neg_ops_i32 inc_i32 dec_i32 encf enc_res enc_res_pair all_binops.
