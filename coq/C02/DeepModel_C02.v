(* C02 deepening round, model part: 64-bit integer primitives (i64 / u64 / usize on a 64-bit target) with the
   panic explicit, and `IntegerOrInfinity`.  Used by coq/Gen/IndexPaths.v, which tools/gen_c02b.py regenerates from the
   `match <ToIntegerOrInfinity result> { ... }` index computations of builtins/{string,array,typed_array}. *)
From Coq Require Import ZArith Bool List.
From C02 Require Import Model_C02.
Local Open Scope Z_scope.

Inductive ioi := IPosInf | IInt (i : Z) | INegInf.      (* value::IntegerOrInfinity; IInt carries an i64 *)

Definition i64_min : Z := -9223372036854775808.
Definition i64_max : Z := 9223372036854775807.
Definition u64_max : Z := 18446744073709551615.
Definition in_i64 (z : Z) : Prop := i64_min <= z <= i64_max.
Definition in_u64 (z : Z) : Prop := 0 <= z <= u64_max.
Definition in_i64b (z : Z) : bool := (i64_min <=? z) && (z <=? i64_max).
Definition in_u64b (z : Z) : bool := (0 <=? z) && (z <=? u64_max).
Definition ioi_ok (s : ioi) : Prop := match s with IInt i => in_i64 i | _ => True end.

Definition wrap64 (z : Z) : Z := (z + 9223372036854775808) mod 18446744073709551616 - 9223372036854775808.
Definition wrapu64 (z : Z) : Z := z mod 18446744073709551616.

(* `+ - * unary-` and abs(): overflow check depends on the profile *)
Definition arith64 (p : profile) (k : pk) (z : Z) : res Z :=
  if in_i64b z then Ok z else match p with Debug => Panic k | Release => Ok (wrap64 z) end.
Definition arithu64 (p : profile) (k : pk) (z : Z) : res Z :=
  if in_u64b z then Ok z else match p with Debug => Panic k | Release => Ok (wrapu64 z) end.
Definition i64_add (p : profile) (a b : Z) : res Z := arith64 p PkAddOverflow (a + b).
Definition i64_sub (p : profile) (a b : Z) : res Z := arith64 p PkSubOverflow (a - b).
Definition i64_mul (p : profile) (a b : Z) : res Z := arith64 p PkMulOverflow (a * b).
Definition i64_neg (p : profile) (a : Z) : res Z := arith64 p PkNegOverflow (- a).
Definition i64_abs (p : profile) (a : Z) : res Z := arith64 p PkNegOverflow (Z.abs a).   (* i64::abs: `-self` inside *)
Definition u64_add (p : profile) (a b : Z) : res Z := arithu64 p PkAddOverflow (a + b).
Definition u64_sub (p : profile) (a b : Z) : res Z := arithu64 p PkSubOverflow (a - b).
Definition u64_mul (p : profile) (a b : Z) : res Z := arithu64 p PkMulOverflow (a * b).

(* `as` casts between 64-bit integer types never panic: they reinterpret modulo 2^64 *)
Definition i64_as_u64 (z : Z) : Z := wrapu64 z.
Definition u64_as_i64 (z : Z) : Z := wrap64 z.

(* total methods *)
Definition u64_checked_add_signed (a b : Z) : option Z := if in_u64b (a + b) then Some (a + b) else None.
Definition u64_saturating_add_signed (a b : Z) : Z := Z.max 0 (Z.min u64_max (a + b)).
Definition u64_try_from_i64 (z : Z) : option Z := if 0 <=? z then Some z else None.
Definition opt_unwrap_or {A} (o : option A) (d : A) : A := match o with Some a => a | None => d end.
(* Ord::clamp panics when min > max *)
Definition i64_clamp (i lo hi : Z) : res Z := if hi <? lo then Panic PkSubOverflow else Ok (Z.max lo (Z.min hi i)).

Definition enc_res_idx (r : res (option Z)) : list Z :=
  match r with Panic k => 0 :: enc_pk k :: nil | Ok None => 4 :: nil | Ok (Some z) => 1 :: z :: nil end.
