(* C02 property theorems (kernels only; the fuzz streams of checks/c02.py are search, not proof).
   run_fast / run_ops / inc_i32 / dec_i32 / neg_ops_i32 are REGENERATED from /repo on every run
   (coq/Gen/FastPaths.v, tools/gen_c02.py); the primitives with explicit panics are Model_C02.v. *)
From Coq Require Import ZArith Bool List Lia.
From C02 Require Import Model_C02 Proofs_C02 DeepModel_C02 Deep_C02.
From Gen Require Import FastPaths IndexPaths.
Local Open Scope Z_scope.

(* For ALL pairs of i32 operands, in the debug (overflow-checked) and the release profile, no binary fast
   path -- neither the `*_fast` helper the opcode handlers and the fused compare-and-branch opcodes call,
   nor the (Integer32, Integer32) arm of JsValue::<op> the constant folder calls -- reaches a panicking
   primitive, except the one known gap (`%` with i32::MIN % -1). *)
Theorem fast_paths_total : forall p op x y, in_i32 x -> in_i32 y -> ~ known_gap op x y ->
  is_panic (run_fast p op x y) = false /\ is_panic (run_ops p op x y) = false.
Proof. exact fast_paths_total_lemma. Qed.
Check fast_paths_total : forall p op x y, in_i32 x -> in_i32 y -> ~ known_gap op x y ->
  is_panic (run_fast p op x y) = false /\ is_panic (run_ops p op x y) = false.
Print Assumptions fast_paths_total.

(* What the guards decide: the result is the closed-form spec_val -- an Integer32 exactly when the exact
   result is representable (sum/difference/product/power in range, division exact, no negative zero where the arm filters it:
   spec_val = spec_gen fast_div_nz, spec_ops = spec_gen ops_div_nz, the flags computed from the regenerated arms), otherwise the float
   ("slow") computation on the converted operands; never a wrapped integer, in either profile. *)
Theorem slow_path_taken_otherwise : forall p op x y, in_i32 x -> in_i32 y -> ~ known_gap op x y ->
  run_fast p op x y = Ok (Some (spec_val op x y)) /\ run_ops p op x y = Ok (spec_ops op x y).
Proof. exact slow_path_lemma. Qed.
Check slow_path_taken_otherwise : forall p op x y, in_i32 x -> in_i32 y -> ~ known_gap op x y ->
  run_fast p op x y = Ok (Some (spec_val op x y)) /\ run_ops p op x y = Ok (spec_ops op x y).
Print Assumptions slow_path_taken_otherwise.

Theorem int_results_in_range : forall nz op x y z, in_i32 x -> in_i32 y -> spec_gen nz op x y = JInt z -> in_i32 z.
Proof. exact spec_int_in_range. Qed.
Check int_results_in_range : forall nz op x y z, in_i32 x -> in_i32 y -> spec_gen nz op x y = JInt z -> in_i32 z.
Print Assumptions int_results_in_range.

(* i32::checked_pow as transliterated from core::num: the exact power when it fits, None otherwise *)
Theorem checked_pow_exact : forall x e, in_i32 x -> 0 <= e <= u32_max ->
  i32_checked_pow x e = (if in_i32b (x ^ e) then Some (x ^ e) else None).
Proof. exact checked_pow_spec. Qed.
Check checked_pow_exact : forall x e, in_i32 x -> 0 <= e <= u32_max ->
  i32_checked_pow x e = (if in_i32b (x ^ e) then Some (x ^ e) else None).
Print Assumptions checked_pow_exact.

(* Inc / Dec opcodes: the pattern guard (`number < i32::MAX`, `number > i32::MIN`) makes the raw
   `number + 1` / `number - 1` total; outside the guard the arm is not taken (None = to_numeric path). *)
Theorem inc_dec_total : forall p n, in_i32 n ->
  inc_i32 p n = Ok (if n <? i32_max then Some (JInt n, JInt (n + 1)) else None) /\
  dec_i32 p n = Ok (if n >? i32_min then Some (JInt n, JInt (n - 1)) else None).
Proof. exact inc_dec_lemma. Qed.
Check inc_dec_total : forall p n, in_i32 n ->
  inc_i32 p n = Ok (if n <? i32_max then Some (JInt n, JInt (n + 1)) else None) /\
  dec_i32 p n = Ok (if n >? i32_min then Some (JInt n, JInt (n - 1)) else None).
Print Assumptions inc_dec_total.

(* JsValue::neg (constant folder / API): total except -(i32::MIN) under overflow checks *)
Theorem neg_total_except_min : forall p n, in_i32 n -> ~ (p = Debug /\ n = i32_min) ->
  is_panic (neg_ops_i32 p n) = false.
Proof. exact neg_ops_total_except. Qed.
Check neg_total_except_min : forall p n, in_i32 n -> ~ (p = Debug /\ n = i32_min) ->
  is_panic (neg_ops_i32 p n) = false.
Print Assumptions neg_total_except_min.

(* The two gaps, decided on the regenerated source: open (the witness panics -- `rem_fast_refuted`,
   `neg_refuted` in the scratch theory the check compiles when this side holds) or closed with the
   value ECMAScript requires (-0 for MIN % -1, a float for -MIN). *)
Theorem rem_gap_decided : rem_gap_open \/ rem_gap_closed.
Proof. exact rem_gap_decided_lemma. Qed.
Check rem_gap_decided : rem_gap_open \/ rem_gap_closed.
Print Assumptions rem_gap_decided.

Theorem neg_gap_decided : neg_gap_open \/ neg_gap_closed.
Proof. exact neg_gap_decided_lemma. Qed.
Check neg_gap_decided : neg_gap_open \/ neg_gap_closed.
Print Assumptions neg_gap_decided.

(* ------------------------------------------------------------------------------------------------------
   Deepening round: index arithmetic on script-controlled ToIntegerOrInfinity results (coq/Gen/IndexPaths.v,
   regenerated from builtins/{string,array,typed_array} by tools/gen_c02b.py), 64-bit primitives of DeepModel_C02.v.
   no_panic r : r is not Panic (either profile);  idx_sat r P : the index computed, if any, satisfies P. *)
(* String.prototype.slice: both bounds are computed without overflow and lie in [0, len] (slice_unchecked is safe) *)
Theorem string_slice_safe : forall p len s, valid_len len -> ioi_ok s ->
  (no_panic (string_slice_from p len s) /\ idx_sat (string_slice_from p len s) (fun k => 0 <= k <= len)) /\
  (no_panic (string_slice_to p len s) /\ idx_sat (string_slice_to p len s) (fun k => 0 <= k <= len)).
Proof. exact string_slice_safe_lemma. Qed.
Check string_slice_safe : forall p len s, valid_len len -> ioi_ok s ->
  (no_panic (string_slice_from p len s) /\ idx_sat (string_slice_from p len s) (fun k => 0 <= k <= len)) /\
  (no_panic (string_slice_to p len s) /\ idx_sat (string_slice_to p len s) (fun k => 0 <= k <= len)).
Print Assumptions string_slice_safe.

(* String.prototype.substr: `size + intStart`, `clamp(0, size)` total *)
Theorem string_substr_safe : forall p size s, valid_len size -> ioi_ok s ->
  no_panic (string_substr_start p size s) /\ idx_sat (string_substr_start p size s) (fun k => 0 <= k <= i64_max) /\
  no_panic (string_substr_end p size s) /\ idx_sat (string_substr_end p size s) (fun k => 0 <= k <= size).
Proof. exact string_substr_safe. Qed.
Check string_substr_safe : forall p size s, valid_len size -> ioi_ok s ->
  no_panic (string_substr_start p size s) /\ idx_sat (string_substr_start p size s) (fun k => 0 <= k <= i64_max) /\
  no_panic (string_substr_end p size s) /\ idx_sat (string_substr_end p size s) (fun k => 0 <= k <= size).
Print Assumptions string_substr_safe.

(* Array::get_relative_start/end (slice, splice, fill, copyWithin, toSpliced, ...): total, result in [0, len] *)
Theorem array_relative_safe : forall p len s, in_u64 len -> ioi_ok s ->
  no_panic (array_relative_start p len s) /\ idx_sat (array_relative_start p len s) (fun k => 0 <= k <= len) /\
  no_panic (array_relative_end p len s) /\ idx_sat (array_relative_end p len s) (fun k => 0 <= k <= len).
Proof. exact array_relative_safe. Qed.
Check array_relative_safe : forall p len s, in_u64 len -> ioi_ok s ->
  no_panic (array_relative_start p len s) /\ idx_sat (array_relative_start p len s) (fun k => 0 <= k <= len) /\
  no_panic (array_relative_end p len s) /\ idx_sat (array_relative_end p len s) (fun k => 0 <= k <= len).
Print Assumptions array_relative_safe.

(* %TypedArray%.prototype.at: `len + i` cannot overflow *)
Theorem typed_array_at_total : forall p len s, valid_len len -> ioi_ok s -> no_panic (typed_array_at p len s).
Proof. exact typed_array_at_safe. Qed.
Check typed_array_at_total : forall p len s, valid_len len -> ioi_ok s -> no_panic (typed_array_at p len s).
Print Assumptions typed_array_at_total.

(* Array.prototype.lastIndexOf: `len - 1`, `len + n` total *)
Theorem array_last_index_of_safe : forall p len s, valid_len len -> ioi_ok s ->
  no_panic (array_last_index_of_from p len s) /\ idx_sat (array_last_index_of_from p len s) (fun k => k <= len - 1).
Proof. exact array_last_index_of_safe. Qed.
Check array_last_index_of_safe : forall p len s, valid_len len -> ioi_ok s ->
  no_panic (array_last_index_of_from p len s) /\ idx_sat (array_last_index_of_from p len s) (fun k => k <= len - 1).
Print Assumptions array_last_index_of_safe.

(* String.prototype.at is safe except for the saturated i64::MIN *)
Theorem string_at_safe_except_min : forall p len s, valid_len len -> ioi_ok s -> s <> IInt i64_min ->
  no_panic (string_at p len s) /\ idx_sat (string_at p len s) (fun k => 0 <= k < len).
Proof. exact string_at_safe_except_min. Qed.
Check string_at_safe_except_min : forall p len s, valid_len len -> ioi_ok s -> s <> IInt i64_min ->
  no_panic (string_at p len s) /\ idx_sat (string_at p len s) (fun k => 0 <= k < len).
Print Assumptions string_at_safe_except_min.

(* Array.prototype.at likewise *)
Theorem array_at_safe_except_min : forall p len s, valid_len len -> ioi_ok s -> s <> IInt i64_min ->
  no_panic (array_at p len s) /\ idx_sat (array_at p len s) (fun k => 0 <= k < len).
Proof. exact array_at_safe_except_min. Qed.
Check array_at_safe_except_min : forall p len s, valid_len len -> ioi_ok s -> s <> IInt i64_min ->
  no_panic (array_at p len s) /\ idx_sat (array_at p len s) (fun k => 0 <= k < len).
Print Assumptions array_at_safe_except_min.

(* decided on the regenerated source: open (`-i` overflows for i64::MIN: panic with overflow checks, index 2^63+1 without) or safe everywhere *)
Theorem string_at_decided : string_at_open \/ at_safe string_at.
Proof. exact string_at_decided_lemma. Qed.
Check string_at_decided : string_at_open \/ at_safe string_at.
Print Assumptions string_at_decided.

(* same for `i.abs()` in Array.prototype.at *)
Theorem array_at_decided : array_at_open \/ at_safe array_at.
Proof. exact array_at_decided_lemma. Qed.
Check array_at_decided : array_at_open \/ at_safe array_at.
Print Assumptions array_at_decided.

(* JumpTable: the register value (`i as usize`) is only used through `addresses.get(offset)` *)
Theorem jump_table_safe : forall addresses i pc, jump_table_target addresses i = Some pc -> In pc addresses.
Proof. exact jump_table_safe. Qed.
Check jump_table_safe : forall addresses i pc, jump_table_target addresses i = Some pc -> In pc addresses.
Print Assumptions jump_table_safe.

(* hypotheses are satisfiable / definitions are not vacuous *)
Example ex_add_overflow : run_fast Debug Add i32_max 1 = Ok (Some (JF64 (FAdd (FofI32 i32_max) (FofI32 1)))).
Proof. vm_compute. reflexivity. Qed.
Example ex_div_exact : run_fast Debug Div (-6) 3 = Ok (Some (JInt (-2))).
Proof. vm_compute. reflexivity. Qed.
Example ex_div_min : run_fast Debug Div i32_min (-1) = Ok (Some (JF64 (FDiv (FofI32 i32_min) (FofI32 (-1))))).
Proof. vm_compute. reflexivity. Qed.
Example ex_mul_negzero : run_fast Release Mul 0 (-5) = Ok (Some (JF64 (FMul (FofI32 0) (FofI32 (-5))))).
Proof. vm_compute. reflexivity. Qed.
Example ex_pow : run_fast Debug Pow 2 30 = Ok (Some (JInt 1073741824)) /\ run_fast Debug Pow 2 31 = Ok (Some (JF64 (FPowi (FofI32 2) 31))).
Proof. split; vm_compute; reflexivity. Qed.
Example ex_inc_max : inc_i32 Debug i32_max = Ok None.
Proof. vm_compute. reflexivity. Qed.
