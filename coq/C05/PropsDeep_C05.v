(* C05 -- pinned theorems of the deepening round (need C01's fuel monotonicity, like PropsMono_C05.v). *)
From Coq Require Import ZArith NArith List Bool.
From JSRef Require Import Float Syntax Values Static Ops Interp Machine Builtins Run.
From C05 Require Import Model_C05 Prims_C05 Proofs_C05 Mono_C05 Deep_C05 DeepStmt_C05.
Import ListNotations.

(* Expressions.  [frag2] = the by-value fragment of PropsMono_C05.v plus: member and index access (optional or not),
   calls f(args) / o.m(args) / (function(){..})(args) and `new g(args)` with plain and spread arguments, array literals
   with elements, spreads and holes, typeof (e).  Outside: object / template / class literals, assignment and update
   forms, delete, typeof of an unparenthesised operand, super calls, optional-chain wrappers, calls whose callee is any
   other shape (where the *reference* of the callee decides `this`). *)
Theorem constant_folding_preserves_frag2 : forall fixr fixo e, frag2 e ->
  forall P n c st, ev P n c e st <> RFuel ->
  exists m, forall k, m <= k ->
    ev P k c (fst (pass_loop (fold_expression true fixr fixo) MAX_PASS_ITERATIONS e)) st = ev P n c e st.
Proof. intros fixr fixo e He. exact (proj1 (constant_folding_preserves2_lem fixr fixo e He)). Qed.
Check constant_folding_preserves_frag2 : forall fixr fixo e, frag2 e ->
  forall P n c st, ev P n c e st <> RFuel ->
  exists m, forall k, m <= k ->
    ev P k c (fst (pass_loop (fold_expression true fixr fixo) MAX_PASS_ITERATIONS e)) st = ev P n c e st.
Print Assumptions constant_folding_preserves_frag2.

(* the theorem of PropsMono_C05.v is the special case of the smaller fragment *)
Theorem constant_folding_preserves_partial_corollary : forall fixr fixo e, frag e ->
  forall P n c st, ev P n c e st <> RFuel ->
  exists m, forall k, m <= k ->
    ev P k c (fst (pass_loop (fold_expression true fixr fixo) MAX_PASS_ITERATIONS e)) st = ev P n c e st.
Proof. intros fixr fixo e He. apply constant_folding_preserves_frag2. apply frag_frag2; exact He. Qed.
Check constant_folding_preserves_partial_corollary : forall fixr fixo e, frag e ->
  forall P n c st, ev P n c e st <> RFuel ->
  exists m, forall k, m <= k ->
    ev P k c (fst (pass_loop (fold_expression true fixr fixo) MAX_PASS_ITERATIONS e)) st = ev P n c e st.
Print Assumptions constant_folding_preserves_partial_corollary.

(* Statements.  [stmt_rel s s'] relates: expression statements / throw / return whose expressions are refined (in
   particular constant-folded, by the theorem above); empty, break, continue, return, function declarations with
   themselves; and the repaired dead-code eliminations -- `if (c) s`, `while (c) s`, `for (; c; u) s` --> `undefined;`
   when c refines to `false`; `if (c) e;` and `if (c) s else e;` --> `e';` when c refines to `true` / `false`.
   A statement list related member-wise can replace the original under every continuation, in every program, context
   and state: same completion (value included), trace and final state from some fuel on.
   Partial: compound statements whose bodies are optimised but kept (blocks, loops, try, if with a non-literal
   condition), declarations with initialisers, the link "Model_C05.opt_stmts produces a stmt_rel-related list"
   (holds by construction for these shapes; its proof by computation did not terminate in time), hoisting at
   instantiation time and the function table are outside. *)
Theorem straight_line_refines_partial : forall l l', Forall2 stmt_rel l l' ->
  forall K acc comp P n c st, o_run (mk P n) (KSeq l acc :: K) comp c st <> RFuel ->
  exists m, forall k, m <= k -> o_run (mk P k) (KSeq l' acc :: K) comp c st = o_run (mk P n) (KSeq l acc :: K) comp c st.
Proof. exact straight_line_refines_lem. Qed.
Check straight_line_refines_partial : forall l l', Forall2 stmt_rel l l' ->
  forall K acc comp P n c st, o_run (mk P n) (KSeq l acc :: K) comp c st <> RFuel ->
  exists m, forall k, m <= k -> o_run (mk P k) (KSeq l' acc :: K) comp c st = o_run (mk P n) (KSeq l acc :: K) comp c st.
Print Assumptions straight_line_refines_partial.

(* the repaired eliminations, one statement at a time, under related continuations *)
Theorem dce_repaired_sound : forall s s', stmt_rel s s' -> forall K K', krefines K K' -> frefines (fexec s K) (fexec s' K').
Proof. exact stmt_rel_exec. Qed.
Check dce_repaired_sound : forall s s', stmt_rel s s' -> forall K K', krefines K K' -> frefines (fexec s K) (fexec s' K').
Print Assumptions dce_repaired_sound.

(* the hypotheses are satisfiable: print(1 + 2 * 3) is in the fragment; `while (false) s` relates to `undefined;` *)
Example frag2_example : frag2 (ECall (EId nil) [Arg (EBinary BAdd (ENum 0) (EBinary BMul (ENum 1) (ENum 2)))] false).
Proof. repeat constructor. Qed.
Example stmt_rel_example : forall b, stmt_rel (SWhile (EBool false) b) undef_stmt.
Proof. intros b. constructor. apply refines_refl. Qed.
