(* C05 -- pinned theorems of the deepening round (need C01's fuel monotonicity, like PropsMono_C05.v). *)
From Coq Require Import ZArith NArith List Bool.
From JSRef Require Import Float Syntax Values Static Ops Interp Machine Builtins Run.
From C05 Require Import Model_C05 Prims_C05 Proofs_C05 Mono_C05 Deep_C05 DeepStmt_C05.
Import ListNotations.

(* Expressions.  [frag2] = the by-value fragment of PropsMono_C05.v plus: member and index access (optional or not),
   calls f(args) / o.m(args) / (function(){..})(args) and `new g(args)` with plain and spread arguments, array literals
   with elements, spreads and holes, typeof (e).  Outside: object / template / class literals, assignment and update
   forms, delete, typeof of an unparenthesised operand, super calls, optional-chain wrappers, calls whose callee is any
   other shape (where the *reference* of the callee decides `this`). *)
Theorem constant_folding_preserves_frag2 : forall fixr fixo e, frag2 e ->
  forall P n c st, ev P n c e st <> RFuel ->
  exists m, forall k, m <= k ->
    ev P k c (fst (pass_loop (fold_expression true fixr fixo) MAX_PASS_ITERATIONS e)) st = ev P n c e st.
Proof. intros fixr fixo e He. exact (proj1 (constant_folding_preserves2_lem fixr fixo e He)). Qed.
Check constant_folding_preserves_frag2 : forall fixr fixo e, frag2 e ->
  forall P n c st, ev P n c e st <> RFuel ->
  exists m, forall k, m <= k ->
    ev P k c (fst (pass_loop (fold_expression true fixr fixo) MAX_PASS_ITERATIONS e)) st = ev P n c e st.
Print Assumptions constant_folding_preserves_frag2.

(* the theorem of PropsMono_C05.v is the special case of the smaller fragment *)
Theorem constant_folding_preserves_partial_corollary : forall fixr fixo e, frag e ->
  forall P n c st, ev P n c e st <> RFuel ->
  exists m, forall k, m <= k ->
    ev P k c (fst (pass_loop (fold_expression true fixr fixo) MAX_PASS_ITERATIONS e)) st = ev P n c e st.
Proof. intros fixr fixo e He. apply constant_folding_preserves_frag2. apply frag_frag2; exact He. Qed.
Check constant_folding_preserves_partial_corollary : forall fixr fixo e, frag e ->
  forall P n c st, ev P n c e st <> RFuel ->
  exists m, forall k, m <= k ->
    ev P k c (fst (pass_loop (fold_expression true fixr fixo) MAX_PASS_ITERATIONS e)) st = ev P n c e st.
Print Assumptions constant_folding_preserves_partial_corollary.

(* Statements.  The model's statement visitor (constant folding + the repaired dead-code elimination; strength reduction
   off) applied to a straight-line statement list -- expression statements, throw, return, empty, break, continue,
   function declarations, and the `if` / `while` / `for(;c;)` statements it eliminates because their condition folds to
   a boolean literal and the removed part holds no hoisted declaration -- can replace the original list under every
   continuation, in every program, context and state: same completion, trace and final state from some fuel on. *)
Theorem straight_line_preserves_partial : forall o P0 l, repaired_cf_dce o -> Forall (sfrag o P0) l ->
  forall K acc comp P n c st, o_run (mk P n) (KSeq l acc :: K) comp c st <> RFuel ->
  exists m, forall k, m <= k ->
    o_run (mk P k) (KSeq (fst (opt_stmts o P0 true l)) acc :: K) comp c st = o_run (mk P n) (KSeq l acc :: K) comp c st.
Proof. exact straight_line_preserves_lem. Qed.
Check straight_line_preserves_partial : forall o P0 l, repaired_cf_dce o -> Forall (sfrag o P0) l ->
  forall K acc comp P n c st, o_run (mk P n) (KSeq l acc :: K) comp c st <> RFuel ->
  exists m, forall k, m <= k ->
    o_run (mk P k) (KSeq (fst (opt_stmts o P0 true l)) acc :: K) comp c st = o_run (mk P n) (KSeq l acc :: K) comp c st.
Print Assumptions straight_line_preserves_partial.

(* the hypotheses are satisfiable: print(1 + 2 * 3);  if (!1) { print(0); }  with all repairs on *)
Example repaired_opts_ok : repaired_cf_dce (mk_opts 10 63).
Proof. repeat split. Qed.
Example frag2_example : frag2 (ECall (EId (S "print")) [Arg (EBinary BAdd (ENum 0) (EBinary BMul (ENum 1) (ENum 2)))] false).
Proof. repeat constructor. Qed.
