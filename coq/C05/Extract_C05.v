(* Extraction of the executable optimizer model together with the JSRef wire decoder (ExtrOcamlBasic
   only; nat/positive/N/Z stay the extracted inductive datatypes).  Output: ocaml/C05/_build/ (git-ignored). *)
From Coq Require Import NArith ZArith List Extraction ExtrOcamlBasic.
From JSRef Require Import Syntax Wire.
From C05 Require Import Model_C05.
Extraction Language OCaml.
Extraction "../ocaml/C05/_build/c05_model.ml" optimize mk_opts d_prog sexp as_lit.
