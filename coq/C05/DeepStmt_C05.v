(* C05, deepening round -- statements: straight-line statement lists whose expressions are refined, and the
   repaired dead-code eliminations, on the statement machine (frames), with C01's fuel monotonicity. *)
From Coq Require Import ZArith NArith PArith List Bool String Lia.
From JSRef Require Import Float Syntax Values Static Ops Interp Machine Builtins Run.
From C01 Require Import Mono_Core Mono_Ops Mono_Interp Mono_Machine Proofs_C01.
From C05 Require Import Model_C05 Prims_C05 Proofs_C05 Mono_C05 Deep_C05.
Import ListNotations.

Local Opaque of_Z of_bits to_bits trunc_Z is_i32 FLAG.

(* running a completion through a frame stack, and executing a statement in front of one *)
Definition frun (K : list frame) (comp : completion) : fcomp mres := fun P n c st => o_run (mk P n) K comp c st.
Definition fexec (s : stmt) (K : list frame) : fcomp mres := fun P n c st => exec_labelled P (mk P n) LABEL_FUEL c s [] K st.
Definition krefines (K K' : list frame) : Prop := forall comp, frefines (frun K comp) (frun K' comp).

Lemma krefines_refl : forall K, krefines K K.
Proof.
  intros K comp P n c st Hn. exists n. intros k Hk. exact (le_run _ _ (mk_mono_le P n k Hk) K comp c st Hn).
Qed.

Lemma o_run_S : forall P j K comp c st, o_run (mk P (Sn j)) K comp c st = run_step P (mk P j) K comp c st.
Proof. reflexivity. Qed.
Ltac step_frun := intros; unfold frun, fexec; rewrite o_run_S; unfold run_step; cbv beta iota; reflexivity.

Lemma frun_0 : forall K comp P c st, frun K comp P 0 c st = RFuel.
Proof. reflexivity. Qed.

(* guard: the throw branch continues too *)
Definition fguard {A} (x : fcomp A) (kont : A -> fcomp mres) (onthrow : value -> fcomp mres) : fcomp mres :=
  fun P n c st => match x P n c st with
                  | ROk a st' => kont a P n c st'
                  | RThrow v st' => onthrow v P n c st'
                  | RFuel => RFuel
                  | RUnsupported code => RUnsupported code
                  end.

Lemma frefines_guard : forall A (x y : fcomp A) (f g : A -> fcomp mres) (h h' : value -> fcomp mres),
  frefines x y -> (forall a, frefines (f a) (g a)) -> (forall v, frefines (h v) (h' v)) ->
  frefines (fguard x f h) (fguard y g h').
Proof.
  intros A x y f g h h' Hx Hf Hh P n c st Hn. unfold fguard in *.
  destruct (x P n c st) as [a st1| v st1| |code] eqn:Ex; try congruence.
  - destruct (Hx P n c st) as [m1 Hm1]; [congruence|]. destruct (Hf a P n c st1 Hn) as [m2 Hm2].
    exists (Nat.max m1 m2). intros k Hk. rewrite (Hm1 k) by lia. rewrite Ex. apply Hm2; lia.
  - destruct (Hx P n c st) as [m1 Hm1]; [congruence|]. destruct (Hh v P n c st1 Hn) as [m2 Hm2].
    exists (Nat.max m1 m2). intros k Hk. rewrite (Hm1 k) by lia. rewrite Ex. apply Hm2; lia.
  - destruct (Hx P n c st) as [m1 Hm1]; [congruence|].
    exists m1. intros k Hk. rewrite (Hm1 k Hk). rewrite Ex. reflexivity.
Qed.

(* an empty KSeq frame only adjusts the completion *)
Definition through_seq (comp : completion) (acc : option value) : completion :=
  match comp with CNormal v => CNormal (upd_empty v acc) | _ => comp_upd comp acc end.

Lemma frun_pop : forall K K' acc comp, krefines K K' ->
  frefines (frun (KSeq [] acc :: K) comp) (frun K' (through_seq comp acc)).
Proof.
  intros K K' acc comp HK P n c st Hn. destruct n as [|n']; [exfalso; apply Hn; reflexivity|].
  assert (E : frun (KSeq [] acc :: K) comp P (Sn n') c st = frun K (through_seq comp acc) P n' c st) by (destruct comp; step_frun).
  rewrite E in Hn. destruct (HK _ P n' c st Hn) as [m Hm]. exists m. intros k Hk. rewrite E. apply Hm; exact Hk.
Qed.

(* ---- statements related by the optimizer *)
Inductive stmt_rel : stmt -> stmt -> Prop :=
| SR_expr : forall e e', refines e e' -> stmt_rel (SExpr e) (SExpr e')
| SR_throw : forall e e', refines e e' -> stmt_rel (SThrow e) (SThrow e')
| SR_return : forall e e', refines e e' -> stmt_rel (SReturn (Some e)) (SReturn (Some e'))
| SR_return0 : stmt_rel (SReturn None) (SReturn None)
| SR_empty : stmt_rel SEmpty SEmpty
| SR_break : forall l, stmt_rel (SBreak l) (SBreak l)
| SR_continue : forall l, stmt_rel (SContinue l) (SContinue l)
| SR_fundecl : forall x i, stmt_rel (SFunDecl x i) (SFunDecl x i)
(* repaired dead-code elimination *)
| SR_if_false : forall cnd t, refines cnd (EBool false) -> stmt_rel (SIf cnd t None) undef_stmt
| SR_while_false : forall cnd b, refines cnd (EBool false) -> stmt_rel (SWhile cnd b) undef_stmt
| SR_for_false : forall cnd u b, refines cnd (EBool false) -> stmt_rel (SFor FINone (Some cnd) u b) undef_stmt
| SR_if_true_expr : forall cnd e e' f, refines cnd (EBool true) -> refines e e' -> stmt_rel (SIf cnd (SExpr e) f) (SExpr e')
| SR_if_false_expr : forall cnd t e e', refines cnd (EBool false) -> refines e e' -> stmt_rel (SIf cnd t (Some (SExpr e))) (SExpr e').

(* a condition that folds to a boolean literal evaluates, whenever it answers, to that boolean without any effect *)
Lemma cond_bool : forall cnd b, refines cnd (EBool b) ->
  forall P n c st, ev P n c cnd st <> RFuel -> ev P n c cnd st = ROk (VBool b) st.
Proof.
  intros cnd b H P n c st Hn. destruct (H P n c st Hn) as [m Hm].
  assert (E := Hm (Sn m) ltac:(lia)). unfold evc in E. rewrite <- E. reflexivity.
Qed.

Lemma fexec_expr_eq : forall e K P n c st,
  fexec (SExpr e) K P n c st = fguard (evc e) (fun v => frun K (CNormal (Some v))) (fun v => frun K (CThrow v)) P n c st.
Proof. reflexivity. Qed.

Lemma fexec_expr_refines : forall e e' K K', refines e e' -> krefines K K' -> frefines (fexec (SExpr e) K) (fexec (SExpr e') K').
Proof.
  intros e e' K K' He HK.
  apply (frefines_ext _ _ (fguard (evc e) (fun v => frun K (CNormal (Some v))) (fun v => frun K (CThrow v))) _
                          (fguard (evc e') (fun v => frun K' (CNormal (Some v))) (fun v => frun K' (CThrow v)))); try reflexivity.
  apply frefines_guard; [exact He | intros v; apply HK | intros v; apply HK].
Qed.

(* X reduces, when it answers at all, to running comp through K with no more fuel; X' is frun K' comp from j0 on *)
Lemma head_refines : forall (X X' : fcomp mres) K K' comp j0,
  (forall P n c st, X P n c st <> RFuel -> exists n', X P n c st = frun K comp P n' c st) ->
  (forall P j c st, j0 <= j -> X' P j c st = frun K' comp P j c st) ->
  krefines K K' -> frefines X X'.
Proof.
  intros X X' K K' comp j0 HX HX' HK P n c st Hn. destruct (HX P n c st Hn) as [n' E].
  rewrite E in Hn. destruct (HK comp P n' c st Hn) as [m Hm].
  exists (Nat.max m j0). intros k Hk. rewrite HX' by lia. rewrite E. apply Hm; lia.
Qed.

Lemma undef_stmt_run : forall K P j c st, 2 <= j -> fexec undef_stmt K P j c st = frun K (CNormal (Some VUndef)) P j c st.
Proof. intros K P j c st Hj. destruct j as [|[|j']]; try lia. reflexivity. Qed.

Lemma exec_labelled_if : forall P self c cnd t f l K, exec_labelled P self LABEL_FUEL c (SIf cnd t f) l K = exec_stmt P self c (SIf cnd t f) l K.
Proof. reflexivity. Qed.
Lemma exec_labelled_while : forall P self c cnd b l K, exec_labelled P self LABEL_FUEL c (SWhile cnd b) l K = exec_stmt P self c (SWhile cnd b) l K.
Proof. reflexivity. Qed.
Lemma exec_labelled_for : forall P self c i cnd u b l K, exec_labelled P self LABEL_FUEL c (SFor i cnd u b) l K = exec_stmt P self c (SFor i cnd u b) l K.
Proof. reflexivity. Qed.

Lemma frefines_down : forall A (X Y Z : fcomp A),
  (forall P n c st, X P n c st <> RFuel -> exists n', X P n c st = Y P n' c st) -> frefines Y Z -> frefines X Z.
Proof.
  intros A X Y Z HX HY P n c st Hn. destruct (HX P n c st Hn) as [n' E]. rewrite E in Hn.
  destruct (HY P n' c st Hn) as [m Hm]. exists m. intros k Hk. rewrite E. apply Hm; exact Hk.
Qed.

(* the value of `if (c) e;` is the value of e (never empty), a throw passes through: two empty frames *)
Lemma if_expr_refines : forall e e' K K' (X : fcomp mres), refines e e' -> krefines K K' ->
  (forall P n c st, X P n c st <> RFuel ->
     exists n', X P n c st = fexec (SExpr e) (KSeq [] None :: KSeq [] (Some VUndef) :: K) P n' c st) ->
  frefines X (fexec (SExpr e') K').
Proof.
  intros e e' K K' X He HK HX. eapply frefines_down; [exact HX|].
  apply (frefines_ext _ _ (fguard (evc e) (fun v => frun (KSeq [] None :: KSeq [] (Some VUndef) :: K) (CNormal (Some v)))
                                          (fun v => frun (KSeq [] None :: KSeq [] (Some VUndef) :: K) (CThrow v))) _
                          (fguard (evc e') (fun v => frun K' (CNormal (Some v))) (fun v => frun K' (CThrow v)))); try reflexivity.
  apply frefines_guard; [exact He | |].
  - intros v. eapply frefines_trans; [apply (frun_pop _ _ None (CNormal (Some v)) (krefines_refl _))|].
    exact (frun_pop K K' (Some VUndef) (CNormal (Some v)) HK).
  - intros v. eapply frefines_trans; [apply (frun_pop _ _ None (CThrow v) (krefines_refl _))|].
    exact (frun_pop K K' (Some VUndef) (CThrow v) HK).
Qed.

Lemma stmt_rel_exec : forall s s', stmt_rel s s' -> forall K K', krefines K K' -> frefines (fexec s K) (fexec s' K').
Proof.
  intros s s' H K K' HK. destruct H.
  - apply fexec_expr_refines; assumption.
  - (* throw *)
    apply (frefines_ext _ _ (fguard (evc e) (fun v => frun K (CThrow v)) (fun v => frun K (CThrow v))) _
                            (fguard (evc e') (fun v => frun K' (CThrow v)) (fun v => frun K' (CThrow v)))); try reflexivity.
    apply frefines_guard; [assumption | intros v; apply HK | intros v; apply HK].
  - (* return e *)
    apply (frefines_ext _ _ (fguard (evc e) (fun v => frun K (CReturn v)) (fun v => frun K (CThrow v))) _
                            (fguard (evc e') (fun v => frun K' (CReturn v)) (fun v => frun K' (CThrow v)))); try reflexivity.
    apply frefines_guard; [assumption | intros v; apply HK | intros v; apply HK].
  - apply (frefines_ext _ _ (frun K (CReturn VUndef)) _ (frun K' (CReturn VUndef))); try reflexivity. apply HK.
  - apply (frefines_ext _ _ (frun K (CNormal None)) _ (frun K' (CNormal None))); try reflexivity. apply HK.
  - apply (frefines_ext _ _ (frun K (CBreak l None)) _ (frun K' (CBreak l None))); try reflexivity. apply HK.
  - apply (frefines_ext _ _ (frun K (CContinue l None)) _ (frun K' (CContinue l None))); try reflexivity. apply HK.
  - apply (frefines_ext _ _ (frun K (CNormal None)) _ (frun K' (CNormal None))); try reflexivity. apply HK.
  - (* if (cnd) t  -->  undefined;   cnd folds to false *)
    apply (head_refines _ _ K K' (CNormal (Some VUndef)) 2); [| intros; apply undef_stmt_run; assumption | exact HK].
    intros P n c st Hn. exists n. unfold fexec in *. rewrite exec_labelled_if in *. unfold exec_stmt, guard in *.
    fold (ev P n c cnd st) in *. destruct (ev P n c cnd st) eqn:E; try congruence;
      (rewrite (cond_bool _ _ H P n c st) in E by congruence; inversion E; subst; reflexivity).
  - (* while (cnd) b  -->  undefined; *)
    apply (head_refines _ _ K K' (CNormal (Some VUndef)) 2); [| intros; apply undef_stmt_run; assumption | exact HK].
    intros P n c st Hn. unfold fexec in *. rewrite exec_labelled_while in *.
    destruct n as [|n']; [exfalso; apply Hn; reflexivity|]. exists n'.
    change (exec_stmt P (mk P (Sn n')) c (SWhile cnd b) [] K st)
      with (guard (mk P n') (o_eval (mk P n') c cnd) K c
              (fun v => if to_boolean v then exec_labelled P (mk P n') LABEL_FUEL c b [] (KWhile cnd b [] (Some VUndef) :: K)
                        else o_run (mk P n') K (CNormal (Some VUndef)) c) st) in *.
    unfold guard in *. fold (ev P n' c cnd st) in *. destruct (ev P n' c cnd st) eqn:E; try congruence;
      (rewrite (cond_bool _ _ H P n' c st) in E by congruence; inversion E; subst; reflexivity).
  - (* for (; cnd; u) b  -->  undefined; *)
    apply (head_refines _ _ K K' (CNormal (Some VUndef)) 2); [| intros; apply undef_stmt_run; assumption | exact HK].
    intros P n c st Hn. unfold fexec in *. rewrite exec_labelled_for in *.
    destruct n as [|n']; [exfalso; apply Hn; reflexivity|]. exists n'.
    change (exec_stmt P (mk P (Sn n')) c (SFor FINone (Some cnd) u b) [] K st)
      with (guard (mk P n') (do v <- o_eval (mk P n') c cnd;; ret (to_boolean v)) K c
              (fun go => if go then exec_labelled P (mk P n') LABEL_FUEL c b [] (KForUpdate (Some cnd) u b [] [] (Some VUndef) :: K)
                         else o_run (mk P n') K (CNormal (Some VUndef)) c) st) in *.
    unfold guard, bind in *. fold (ev P n' c cnd st) in *. destruct (ev P n' c cnd st) eqn:E; try congruence;
      (rewrite (cond_bool _ _ H P n' c st) in E by congruence; inversion E; subst; reflexivity).
  - (* if (cnd) e;  -->  e';   cnd folds to true *)
    apply (if_expr_refines e e' K K'); [assumption | assumption |].
    intros P n c st Hn. unfold fexec in *. rewrite exec_labelled_if in *. unfold exec_stmt, guard in Hn |- *.
    fold (ev P n c cnd st) in *. destruct (ev P n c cnd st) eqn:E; try congruence;
      (rewrite (cond_bool _ _ H P n c st) in E by congruence; inversion E; subst; cbn [to_boolean] in *;
       destruct n as [|n']; try (exfalso; apply Hn; reflexivity); exists n'; reflexivity).
  - (* if (cnd) t; else e;  -->  e';   cnd folds to false *)
    apply (if_expr_refines e e' K K'); [assumption | assumption |].
    intros P n c st Hn. unfold fexec in *. rewrite exec_labelled_if in *. unfold exec_stmt, guard in Hn |- *.
    fold (ev P n c cnd st) in *. destruct (ev P n c cnd st) eqn:E; try congruence;
      (rewrite (cond_bool _ _ H P n c st) in E by congruence; inversion E; subst; cbn [to_boolean] in *;
       destruct n as [|n']; try (exfalso; apply Hn; reflexivity); exists n'; reflexivity).
Qed.

(* ---- statement lists *)
Lemma krefines_seq : forall l l', Forall2 stmt_rel l l' -> forall K K', krefines K K' ->
  forall acc, krefines (KSeq l acc :: K) (KSeq l' acc :: K').
Proof.
  induction 1 as [|s s' l l' Hs Hl IH]; intros K K' HK acc comp.
  - apply (frun_pop K K' acc comp) in HK as H1. (* both sides pop the empty frame *)
    intros P n c st Hn. destruct n as [|n0]; [exfalso; apply Hn; reflexivity|].
    assert (E : forall Kx j, frun (KSeq [] acc :: Kx) comp P (Sn j) c st = frun Kx (through_seq comp acc) P j c st) by (intros; destruct comp; step_frun).
    rewrite E in Hn. destruct (HK _ P n0 c st Hn) as [m Hm]. exists (Sn m). intros k Hk. destruct k as [|k0]; [lia|].
    rewrite !E. apply Hm; lia.
  - intros P n c st Hn. destruct n as [|n0]; [exfalso; apply Hn; reflexivity|].
    destruct comp as [v| | | |].
    + (* normal: execute the head statement in front of the rest *)
      assert (E : forall sx lx Kx j, frun (KSeq (sx :: lx) acc :: Kx) (CNormal v) P (Sn j) c st = fexec sx (KSeq lx (upd_empty v acc) :: Kx) P j c st) by step_frun.
      rewrite E in Hn.
      destruct (stmt_rel_exec _ _ Hs _ _ (IH K K' HK (upd_empty v acc)) P n0 c st Hn) as [m Hm].
      exists (Sn m). intros k Hk. destruct k as [|k0]; [lia|]. rewrite !E. apply Hm; lia.
    + assert (E : forall lx Kx j, frun (KSeq lx acc :: Kx) (CBreak l0 v) P (Sn j) c st = frun Kx (comp_upd (CBreak l0 v) acc) P j c st) by step_frun.
      rewrite E in Hn. destruct (HK _ P n0 c st Hn) as [m Hm]. exists (Sn m). intros k Hk. destruct k as [|k0]; [lia|]. rewrite !E. apply Hm; lia.
    + assert (E : forall lx Kx j, frun (KSeq lx acc :: Kx) (CContinue l0 v) P (Sn j) c st = frun Kx (comp_upd (CContinue l0 v) acc) P j c st) by step_frun.
      rewrite E in Hn. destruct (HK _ P n0 c st Hn) as [m Hm]. exists (Sn m). intros k Hk. destruct k as [|k0]; [lia|]. rewrite !E. apply Hm; lia.
    + assert (E : forall lx Kx j, frun (KSeq lx acc :: Kx) (CReturn v) P (Sn j) c st = frun Kx (comp_upd (CReturn v) acc) P j c st) by step_frun.
      rewrite E in Hn. destruct (HK _ P n0 c st Hn) as [m Hm]. exists (Sn m). intros k Hk. destruct k as [|k0]; [lia|]. rewrite !E. apply Hm; lia.
    + assert (E : forall lx Kx j, frun (KSeq lx acc :: Kx) (CThrow v) P (Sn j) c st = frun Kx (comp_upd (CThrow v) acc) P j c st) by step_frun.
      rewrite E in Hn. destruct (HK _ P n0 c st Hn) as [m Hm]. exists (Sn m). intros k Hk. destruct k as [|k0]; [lia|]. rewrite !E. apply Hm; lia.
Qed.

(* ================================================================ the model's statement optimizer on straight-line lists *)
Definition repaired_cf_dce (o : opts) : Prop :=
  o_cf o = true /\ o_sr o = false /\ o_dce o = true /\ o_fix_dce o = true /\ o_fix_hoist o = true /\ o_fix_div0 o = true.

Definition cf (o : opts) (e : expr) : expr := fst (run_all o e).

Lemma cf_refines : forall o e, repaired_cf_dce o -> frag2 e -> refines e (cf o e) /\ frag2 (cf o e).
Proof.
  intros o e (Hcf & Hsr & _ & _ & _ & Hd) He. unfold cf, run_all. rewrite Hcf, Hsr, Hd.
  pose proof (constant_folding_preserves2_lem (o_fix_ref o) (o_fix_ovf o) e He) as H.
  destruct (pass_loop (fold_expression true (o_fix_ref o) (o_fix_ovf o)) MAX_PASS_ITERATIONS e) as [e1 u1]. exact H.
Qed.

(* Replacing a straight-line statement list by a related one: same answer under every continuation, in every program,
   context and state, from some fuel on. *)
Theorem straight_line_refines_lem : forall l l', Forall2 stmt_rel l l' ->
  forall K acc comp P n c st, o_run (mk P n) (KSeq l acc :: K) comp c st <> RFuel ->
  exists m, forall k, m <= k -> o_run (mk P k) (KSeq l' acc :: K) comp c st = o_run (mk P n) (KSeq l acc :: K) comp c st.
Proof.
  intros l l' Hl K acc comp P n c st Hn.
  exact (krefines_seq _ _ Hl K K (krefines_refl K) acc comp P n c st Hn).
Qed.
