(* x / 2 --> x * 0.5 against JSRef, for every operand whose numeric value is a valid binary64 *)
From Coq Require Import ZArith NArith List Bool Floats.SpecFloat.
From JSRef Require Import Float Syntax Values Static Ops Interp Machine Builtins Run.
From C05 Require Import Model_C05 Prims_C05 Proofs_C05 Float_C05.

Theorem div2_sound_valid_lem : forall a b e', try_reduce_div a b = Replace e' ->
  forall P n c st,
    (forall v st1 f st2, ev P (Nat.pred n) c a st = ROk v st1 -> to_numeric (mk P (Nat.pred n)) v st1 = ROk (VNum f) st2 ->
                         valid_binary 53 1024 f = true) ->
    ev P n c e' st = ev P n c (EBinary BDiv a b) st.
Proof.
  intros a b e' H P n c st Hv. eapply div2_sound_lem; eauto.
  intros v st1 f st2 E1 E2. apply div2_float_law. eapply Hv; eauto.
Qed.
