(* C05 -- pinned property theorems.  [ev P n c e st] is JSRef's evaluation of expression e with fuel n;
   [same_or_fuel P n c st lhs rhs] : the original runs out of fuel at n, or the rewritten expression gives exactly the
   same result (value or exception, and final state) at the same fuel. *)
From Coq Require Import ZArith NArith List Bool.
From JSRef Require Import Float Syntax Values Static Ops Interp Machine Builtins Run.
From Coq Require Import Floats.SpecFloat.
From C05 Require Import Model_C05 Prims_C05 Proofs_C05 Float_C05 Div2_C05.
Import ListNotations.

(* ---- constant folding: every Replace / Modified action of the folder is sound, for all programs, contexts, states, fuel *)
Theorem fold_unary_sound : forall fixo op t e', fold_unary fixo op t = Replace e' -> forall P n c st, same_or_fuel P n c st (EUnary op t) e'.
Proof. exact fold_unary_sound_lem. Qed.
Check fold_unary_sound : forall fixo op t e', fold_unary fixo op t = Replace e' -> forall P n c st, same_or_fuel P n c st (EUnary op t) e'.
Print Assumptions fold_unary_sound.

Theorem fold_delete_sound : forall t e', fold_delete t = Replace e' -> forall P n c st, same_or_fuel P n c st (EDelete t) e'.
Proof. exact fold_delete_sound_lem. Qed.
Check fold_delete_sound : forall t e', fold_delete t = Replace e' -> forall P n c st, same_or_fuel P n c st (EDelete t) e'.
Print Assumptions fold_delete_sound.

(* binary folding of the repaired code (fixes.d/C05-int-div-negzero.patch); the unrepaired code is refuted below *)
Theorem fold_binary_sound : forall fixo op a b e', fold_binary true fixo op a b = Replace e' -> forall P n c st, same_or_fuel P n c st (EBinary op a b) e'.
Proof. exact fold_binary_sound_lem. Qed.
Check fold_binary_sound : forall fixo op a b e', fold_binary true fixo op a b = Replace e' -> forall P n c st, same_or_fuel P n c st (EBinary op a b) e'.
Print Assumptions fold_binary_sound.

(* (lit, e) with e a literal: replaced by e; the original at fuel n+1 is e at fuel n *)
Theorem comma_sound : forall a b e', fold_comma a b = Replace e' ->
  forall P n c st, ev P (Datatypes.S n) c (ESeq a b) st = RFuel \/ ev P (Datatypes.S n) c (ESeq a b) st = ev P n c e' st.
Proof. exact comma_replace_sound_lem. Qed.
Check comma_sound : forall a b e', fold_comma a b = Replace e' ->
  forall P n c st, ev P (Datatypes.S n) c (ESeq a b) st = RFuel \/ ev P (Datatypes.S n) c (ESeq a b) st = ev P n c e' st.
Print Assumptions comma_sound.

(* (lit, e) --> (undefined, e) *)
Theorem comma_modified_sound : forall a b e', fold_comma a b = Modified e' ->
  forall P n c st, ev P (Datatypes.S (Datatypes.S (Datatypes.S n))) c e' st = ev P (Datatypes.S (Datatypes.S (Datatypes.S n))) c (ESeq a b) st.
Proof. exact comma_modified_sound_lem. Qed.
Check comma_modified_sound : forall a b e', fold_comma a b = Modified e' ->
  forall P n c st, ev P (Datatypes.S (Datatypes.S (Datatypes.S n))) c e' st = ev P (Datatypes.S (Datatypes.S (Datatypes.S n))) c (ESeq a b) st.
Print Assumptions comma_modified_sound.

(* && || ?? with a literal left side, as a value: the original at fuel n+1 is the surviving operand at fuel n
   (both variants; what the unrepaired variant gets wrong is the *reference*, see fold_logical_reference_refuted) *)
Theorem logical_sound : forall fixr op a b e', fold_logical fixr op a b = Replace e' ->
  forall P n c st, ev P (Datatypes.S n) c (ELogical op a b) st = RFuel \/ ev P (Datatypes.S n) c (ELogical op a b) st = ev P n c e' st.
Proof. exact logical_sound_lem. Qed.
Check logical_sound : forall fixr op a b e', fold_logical fixr op a b = Replace e' ->
  forall P n c st, ev P (Datatypes.S n) c (ELogical op a b) st = RFuel \/ ev P (Datatypes.S n) c (ELogical op a b) st = ev P n c e' st.
Print Assumptions logical_sound.

(* ---- strength reduction x / 2 --> x * 0.5: exact equality at every fuel, for every operand expression (side effects
   included: the operand is evaluated once on both sides), provided its numeric value is a valid binary64 *)
Theorem div2_float_law : forall f : float, valid_binary 53 1024 f = true -> fdiv f (of_Z 2) = fmul f (of_bits 4602678819172646912%N).
Proof. exact Float_C05.div2_float_law. Qed.
Check div2_float_law : forall f : float, valid_binary 53 1024 f = true -> fdiv f (of_Z 2) = fmul f (of_bits 4602678819172646912%N).
Print Assumptions div2_float_law.

Theorem div2_sound : forall a b e', try_reduce_div a b = Replace e' ->
  forall P n c st,
    (forall v st1 f st2, ev P (Nat.pred n) c a st = ROk v st1 -> to_numeric (mk P (Nat.pred n)) v st1 = ROk (VNum f) st2 ->
                         valid_binary 53 1024 f = true) ->
    ev P n c e' st = ev P n c (EBinary BDiv a b) st.
Proof. exact div2_sound_valid_lem. Qed.
Check div2_sound : forall a b e', try_reduce_div a b = Replace e' ->
  forall P n c st,
    (forall v st1 f st2, ev P (Nat.pred n) c a st = ROk v st1 -> to_numeric (mk P (Nat.pred n)) v st1 = ROk (VNum f) st2 ->
                         valid_binary 53 1024 f = true) ->
    ev P n c e' st = ev P n c (EBinary BDiv a b) st.
Print Assumptions div2_sound.

(* ---- dead code (repaired variant): `if (false) s` without else is the statement `undefined;` *)
Theorem dce_if_false_sound : forall P n c t labels k st,
  exec_stmt P (mk P (Datatypes.S (Datatypes.S n))) c (SIf (EBool false) t None) labels k st =
  exec_stmt P (mk P (Datatypes.S (Datatypes.S n))) c undef_stmt labels k st.
Proof. exact dce_if_false_sound_lem. Qed.
Check dce_if_false_sound : forall P n c t labels k st,
  exec_stmt P (mk P (Datatypes.S (Datatypes.S n))) c (SIf (EBool false) t None) labels k st =
  exec_stmt P (mk P (Datatypes.S (Datatypes.S n))) c undef_stmt labels k st.
Print Assumptions dce_if_false_sound.

(* ---- refutations of the unrepaired optimizer (witnesses evaluated by vm_compute; each is a replayable program) *)
Theorem dce_completion_refuted :
  differs (old_opts 8) W_if = true /\ differs (old_opts 8) W_while = true /\ differs (old_opts 8) W_for = true.
Proof. exact dce_completion_refuted_lem. Qed.
Check dce_completion_refuted : differs (old_opts 8) W_if = true /\ differs (old_opts 8) W_while = true /\ differs (old_opts 8) W_for = true.
Print Assumptions dce_completion_refuted.

Theorem exp2_refuted : differs (old_opts 4) W_exp_bigint = true /\ differs (old_opts 4) W_exp_valueof = true.
Proof. exact exp2_refuted_lem. Qed.
Check exp2_refuted : differs (old_opts 4) W_exp_bigint = true /\ differs (old_opts 4) W_exp_valueof = true.
Print Assumptions exp2_refuted.

Theorem dce_forin_var_refuted : differs (old_opts 8) W_forin = true.
Proof. exact dce_forin_var_refuted_lem. Qed.
Check dce_forin_var_refuted : differs (old_opts 8) W_forin = true.
Print Assumptions dce_forin_var_refuted.

Theorem fold_div_negzero_refuted : differs (old_opts 2) W_div0 = true.
Proof. exact fold_div_negzero_refuted_lem. Qed.
Check fold_div_negzero_refuted : differs (old_opts 2) W_div0 = true.
Print Assumptions fold_div_negzero_refuted.

Theorem fold_logical_reference_refuted : differs (old_opts 2) W_ref = true.
Proof. exact fold_logical_reference_refuted_lem. Qed.
Check fold_logical_reference_refuted : differs (old_opts 2) W_ref = true.
Print Assumptions fold_logical_reference_refuted.

(* the repaired optimizer agrees with JSRef on every witness *)
Theorem repaired_witnesses :
  forallb (agrees (new_opts 14)) [W_if; W_while; W_for; W_exp_bigint; W_exp_valueof; W_forin; W_div0; W_ref] = true.
Proof. exact repaired_witnesses_lem. Qed.
Check repaired_witnesses :
  forallb (agrees (new_opts 14)) [W_if; W_while; W_for; W_exp_bigint; W_exp_valueof; W_forin; W_div0; W_ref] = true.
Print Assumptions repaired_witnesses.

(* still unsound in the repaired folder: `lit || function(){}` under a computed key gets a name (known finding
   fold-logical-function-name; fixes.d/C05-fold-logical-function-name.patch) *)
Theorem fold_logical_function_name_refuted : differs (new_opts 2) W_fname = true.
Proof. exact fold_logical_function_name_refuted_lem. Qed.
Check fold_logical_function_name_refuted : differs (new_opts 2) W_fname = true.
Print Assumptions fold_logical_function_name_refuted.
