(* C05 -- the float law behind  x / 2 --> x * 0.5 :  on every valid binary64,  SFdiv x 2 = SFmul x 0.5
   (both are the correctly rounded value of the same real).  Proved with Flocq's correctness theorems for
   Bdiv / Bmult; the bridge to the standard library's SpecFloat operations is Flocq's own
   (PrimFloat.binary_round_aux_equiv). *)
From Coq Require Import ZArith Reals Bool Floats.SpecFloat Lia Lra.
From Flocq Require Import Core BinarySingleNaN PrimFloat.
From JSRef Require Import Float.

Local Open Scope R_scope.

Notation prec := 53%Z.
Notation emax := 1024%Z.
Local Instance Hprec : FLX.Prec_gt_0 prec := eq_refl _.
Local Instance Hmax : Prec_lt_emax prec emax := eq_refl _.
Notation bf := (binary_float prec emax).

Lemma SFmul_Bmult : forall x y : bf, SFmul prec emax (B2SF x) (B2SF y) = B2SF (Bmult mode_NE x y).
Proof.
  intros [sx|sx| |sx mx ex Hx] [sy|sy| |sy my ey Hy]; try reflexivity.
  simpl. rewrite B2SF_SF2B. apply binary_round_aux_equiv.
Qed.

Lemma SFdiv_Bdiv : forall x y : bf, SFdiv prec emax (B2SF x) (B2SF y) = B2SF (Bdiv mode_NE x y).
Proof.
  intros [sx|sx| |sx mx ex Hx] [sy|sy| |sy my ey Hy]; try reflexivity.
  simpl. rewrite B2SF_SF2B.
  set (melz := SFdiv_core_binary _ _ _ _ _ _). case melz as [[mz ez] lz].
  apply binary_round_aux_equiv.
Qed.

Definition two_sf : spec_float := S754_finite false 4503599627370496 (-51).
Definition half_sf : spec_float := S754_finite false 4503599627370496 (-53).
Lemma two_valid : valid_binary prec emax two_sf = true. Proof. reflexivity. Qed.
Lemma half_valid : valid_binary prec emax half_sf = true. Proof. reflexivity. Qed.
Definition Btwo : bf := SF2B two_sf two_valid.
Definition Bhalf : bf := SF2B half_sf half_valid.

Lemma B2R_two : B2R Btwo = 2.
Proof. unfold Btwo. rewrite B2R_SF2B. unfold two_sf, SF2R, F2R. simpl. lra. Qed.
Lemma B2R_half : B2R Bhalf = / 2.
Proof. unfold Bhalf. rewrite B2R_SF2B. unfold half_sf, SF2R, F2R. simpl. lra. Qed.

Lemma fin_not_nan : forall x : bf, BinarySingleNaN.is_finite x = true -> BinarySingleNaN.is_nan x = false.
Proof. intros [ | | | ]; simpl; congruence. Qed.

Lemma div2_B : forall x : bf, Bdiv mode_NE x Btwo = Bmult mode_NE x Bhalf.
Proof.
  intros x. destruct (BinarySingleNaN.is_finite x) eqn:Fx.
  2:{ destruct x; try discriminate; reflexivity. }
  assert (H2 : B2R Btwo <> 0) by (rewrite B2R_two; lra).
  pose proof (Bdiv_correct prec emax Hprec Hmax mode_NE x Btwo H2) as Hd.
  pose proof (Bmult_correct prec emax Hprec Hmax mode_NE x Bhalf) as Hm.
  rewrite B2R_two in Hd. rewrite B2R_half in Hm. unfold Rdiv in Hd.
  assert (Hb : Rlt_bool (Rabs (round radix2 (SpecFloat.fexp prec emax) (round_mode mode_NE) (B2R x * / 2))) (bpow radix2 emax) = true).
  { apply Rlt_bool_true.
    apply Rle_lt_trans with (Rabs (B2R x)); [| apply (abs_B2R_lt_emax prec emax x)].
    simpl round_mode. rewrite <- round_NE_abs by (apply fexp_correct; exact Hprec).
    apply Rle_trans with (round radix2 (SpecFloat.fexp prec emax) ZnearestE (Rabs (B2R x))).
    - apply round_le; [apply fexp_correct; exact Hprec | apply valid_rnd_N |].
      rewrite Rabs_mult. rewrite (Rabs_pos_eq (/ 2)) by lra.
      pose proof (Rabs_pos (B2R x)). lra.
    - right. apply round_generic; [apply valid_rnd_N|].
      apply generic_format_abs. apply (generic_format_B2R prec emax x). }
  rewrite Hb in Hd, Hm.
  destruct Hd as [Rd [Fd Sd]]. destruct Hm as [Rm [Fm Sm]].
  assert (Fh : BinarySingleNaN.is_finite Bhalf = true) by reflexivity.
  rewrite Fh, andb_true_r in Fm.
  apply (B2R_Bsign_inj prec emax).
  - congruence.
  - congruence.
  - congruence.
  - rewrite Sd by (apply fin_not_nan; congruence). rewrite Sm by (apply fin_not_nan; congruence). reflexivity.
Qed.

Theorem div2_float_law : forall f : float, valid_binary prec emax f = true ->
  fdiv f (of_Z 2) = fmul f (of_bits 4602678819172646912%N).
Proof.
  intros f Hf.
  change (of_Z 2) with (B2SF Btwo). change (of_bits 4602678819172646912%N) with (B2SF Bhalf).
  rewrite <- (B2SF_SF2B prec emax f Hf).
  unfold fdiv, fmul. change Float.prec with prec. change Float.emax with emax.
  rewrite SFdiv_Bdiv, SFmul_Bmult. f_equal. apply div2_B.
Qed.
