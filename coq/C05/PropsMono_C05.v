(* C05 -- pinned theorem that needs the fuel monotonicity of JSRef (proved by C01: C01/Proofs_C01.mk_mono_le and the
   per-definition lemmas of C01/Mono_Ops).  Kept apart from Props_C05.v so that a repair in progress in C01's files
   cannot break the other C05 theorems. *)
From Coq Require Import ZArith NArith List Bool.
From JSRef Require Import Float Syntax Values Static Ops Interp Machine Builtins Run.
From C05 Require Import Model_C05 Prims_C05 Proofs_C05 Mono_C05.

(* [frag]: literals, identifiers, this, new.target, function/class expressions, super.p, unary operators other than
   typeof, binary, && || ??, comma, ?:, parentheses.  Partial with respect to DESIGN's optimize_preserves: calls, member
   accesses, assignments, delete/typeof (where a *reference* matters, cf. fold_logical_reference_refuted), statements
   and the function table are outside; strength reduction is covered separately by div2_sound. *)
Theorem constant_folding_preserves_partial : forall fixr fixo e, frag e ->
  forall P n c st, ev P n c e st <> RFuel ->
  exists m, forall k, m <= k ->
    ev P k c (fst (pass_loop (fold_expression true fixr fixo) MAX_PASS_ITERATIONS e)) st = ev P n c e st.
Proof. exact constant_folding_preserves_lem. Qed.
Check constant_folding_preserves_partial : forall fixr fixo e, frag e ->
  forall P n c st, ev P n c e st <> RFuel ->
  exists m, forall k, m <= k ->
    ev P k c (fst (pass_loop (fold_expression true fixr fixo) MAX_PASS_ITERATIONS e)) st = ev P n c e st.
Print Assumptions constant_folding_preserves_partial.

(* the fragment is inhabited by the shapes the folder actually rewrites: (1 + 2) * (true && x) *)
Example frag_example : frag (EBinary BMul (EParen (EBinary BAdd (ENum 0) (ENum 1))) (EParen (ELogical LAnd (EBool true) (EId nil)))).
Proof. repeat constructor. Qed.
