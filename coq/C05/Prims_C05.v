(* C05 -- soundness of the optimizer's rewrites against JSRef.

   JSRef is used through a small set of characterising lemmas proved here (section "JSRef facts"):
   evaluation of literal nodes, independence of the primitive operators from the program / fuel /
   state ([binary_indep], [binary_state], ...), one-step unfoldings of [eval_step] and [exec_stmt].
   Everything else is about the model. *)
From Coq Require Import ZArith NArith PArith List Bool String Floats.SpecFloat Lia.
From JSRef Require Import Float Syntax Values Static Ops Interp Machine Builtins Run.
From C05 Require Import Model_C05.
Import ListNotations.

Notation Sn := Datatypes.S.

(* ================================================================ decidable equalities of the model *)
Lemma float_eqb_eq : forall a b, float_eqb a b = true -> a = b.
Proof.
  intros [x|x| |s m e] [y|y| |s' m' e']; simpl; intros H; try discriminate; auto.
  - apply eqb_prop in H; congruence.
  - apply eqb_prop in H; congruence.
  - apply andb_prop in H as [H H3]. apply andb_prop in H as [H1 H2].
    apply eqb_prop in H1. apply Pos.eqb_eq in H2. apply Z.eqb_eq in H3. congruence.
Qed.

Lemma str_eqb_eq : forall a b, str_eqb a b = true -> a = b.
Proof.
  induction a as [|x a IH]; destruct b as [|y b]; simpl; intros H; try discriminate; auto.
  apply andb_prop in H as [H1 H2]. apply N.eqb_eq in H1. f_equal; auto.
Qed.

Lemma lit_eqb_eq : forall a b, lit_eqb a b = true -> a = b.
Proof.
  intros [x|x|x|x|x| |] [y|y|y|y|y| |]; simpl; intros H; try discriminate; auto.
  - f_equal; apply str_eqb_eq; auto.
  - f_equal; apply float_eqb_eq; auto.
  - f_equal; apply Z.eqb_eq; auto.
  - f_equal; apply Z.eqb_eq; auto.
  - f_equal; apply eqb_prop; auto.
Qed.

(* ================================================================ JSRef facts: primitive operators *)
Definition plit (v : value) : Prop := match v with VObj _ | VSym _ => False | _ => True end.
Definition TP (self : ops) : Prop := forall v h st, plit v -> o_toprim self v h st = ROk v st.

(* a canonical [ops] in which only ToPrimitive of primitives works *)
Definition selfT : ops :=
  {| o_eval := fun _ _ _ => RFuel; o_run := fun _ _ _ _ => RFuel; o_call := fun _ _ _ _ => RFuel;
     o_construct := fun _ _ _ _ => RFuel; o_get := fun _ _ _ _ => RFuel; o_set := fun _ _ _ _ _ => RFuel;
     o_toprim := fun v _ => ret v; o_bind := fun _ _ _ _ _ => RFuel |}.

Lemma TP_mk : forall P n, TP (mk P (Sn n)).
Proof. intros P n v h st Hv. destruct v; try contradiction; reflexivity. Qed.

Lemma plit_lit : forall l, plit (lit_value l).
Proof. destruct l; exact I. Qed.

Ltac opq2 := cbn -[num_binop bigint_binop string_to_number string_to_bigint str_ltb fcompare cmp_bigint_num bigint_eq_num
                   num_to_units bigint_to_str feqb type_error of_Z wrap_i32 to_int32 fneg]; unfold bind, ret.
Ltac unf := unfold to_numeric, to_number, to_string, to_property_key, bind, ret.

(* the operators on primitives do not depend on the program, the fuel or anything else in [self] *)
Lemma binary_indep : forall self op a b st, TP self -> plit a -> plit b ->
  binary_op self op a b st = binary_op selfT op a b st.
Proof.
  intros self op a b st H Ha Hb.
  destruct op; destruct a; try contradiction; destruct b; try contradiction;
    opq2; unf; repeat (rewrite H by exact I; opq2; unf); try reflexivity.
Qed.

Lemma unary_indep : forall self op a st, TP self -> plit a ->
  unary_op self op a st = unary_op selfT op a st.
Proof.
  intros self op a st H Ha.
  destruct op; destruct a; try contradiction;
    opq2; unf; repeat (rewrite H by exact I; opq2; unf); try reflexivity.
Qed.

(* ... nor on the state, which they leave unchanged when they return a value *)
Lemma num_binop_state : forall op x y st0 v st0', num_binop op x y st0 = ROk v st0' -> forall st, num_binop op x y st = ROk v st.
Proof.
  intros op x y st0 v st0' H st. destruct op; cbn in *; unfold ret in *;
    repeat match goal with
           | H : context [if ?c then _ else _] |- _ => destruct c
           end; cbn in *; unfold ret, unsupported in *; try discriminate; inversion H; reflexivity.
Qed.

Lemma bigint_binop_state : forall op x y st0 v st0', bigint_binop op x y st0 = ROk v st0' -> forall st, bigint_binop op x y st = ROk v st.
Proof.
  intros op x y st0 v st0' H st. destruct op; cbn in *; unfold ret in *;
    repeat match goal with
           | H : context [if ?c then _ else _] |- _ => destruct c
           end; cbn in *; unfold ret, unsupported in *; try discriminate; inversion H; reflexivity.
Qed.

Lemma binary_state : forall op a b st0 v st0', plit a -> plit b ->
  binary_op selfT op a b st0 = ROk v st0' -> forall st, binary_op selfT op a b st = ROk v st.
Proof.
  intros op a b st0 v st0' Ha Hb H st. revert H.
  destruct op; destruct a; try contradiction; destruct b; try contradiction; opq2;
    intro H;
    first [ (eapply num_binop_state; exact H) | (eapply bigint_binop_state; exact H)
          | (inversion H; reflexivity) | (cbn in H; discriminate H) ].
Qed.

Lemma unary_state : forall op a st0 v st0', plit a ->
  unary_op selfT op a st0 = ROk v st0' -> forall st, unary_op selfT op a st = ROk v st.
Proof.
  intros op a st0 v st0' Ha H st. revert H.
  destruct op; destruct a; try contradiction; opq2; intro H;
    first [ (inversion H; reflexivity) | (cbn in H; discriminate H) ].
Qed.

(* packaged: what folding computes once, at [fold_ops] on [fold_state], is what every evaluation computes *)
Lemma binary_fold_any : forall op a b v s', plit a -> plit b ->
  binary_op fold_ops op a b fold_state = ROk v s' ->
  forall P n st, binary_op (mk P (Sn n)) op a b st = ROk v st.
Proof.
  intros op a b v s' Ha Hb H P n st.
  unfold fold_ops in H. rewrite (binary_indep _ _ _ _ _ (TP_mk _ _) Ha Hb) in H.
  rewrite (binary_indep _ _ _ _ _ (TP_mk _ _) Ha Hb).
  eapply binary_state; eauto.
Qed.

Lemma unary_fold_any : forall op a v s', plit a ->
  unary_op fold_ops op a fold_state = ROk v s' ->
  forall P n st, unary_op (mk P (Sn n)) op a st = ROk v st.
Proof.
  intros op a v s' Ha H P n st.
  unfold fold_ops in H. rewrite (unary_indep _ _ _ _ (TP_mk _ _) Ha) in H.
  rewrite (unary_indep _ _ _ _ (TP_mk _ _) Ha).
  eapply unary_state; eauto.
Qed.
