(* C05 -- congruence: the constant-folding pass preserves the meaning of every expression of a by-value
   fragment.  Uses the fuel monotonicity of JSRef proved by C01 (C01/Proofs_C01.mk_mono_le and the generated
   per-definition lemmas of C01/Mono_Ops); kept in its own file so that Props_C05.v does not depend on C01. *)
From Coq Require Import ZArith NArith PArith List Bool String Lia.
From JSRef Require Import Float Syntax Values Static Ops Interp Machine Builtins Run.
From C01 Require Import Mono_Core Mono_Ops Proofs_C01.
From C05 Require Import Model_C05 Prims_C05 Proofs_C05.
Import ListNotations.

Local Opaque of_Z of_bits to_bits trunc_Z is_i32 FLAG.

(* fuel-indexed computations and "eventually the same answer" *)
Definition fcomp (A : Type) := prog -> nat -> ctx -> state -> res A.
Definition frefines {A} (x y : fcomp A) : Prop :=
  forall P n c st, x P n c st <> RFuel -> exists m, forall k, m <= k -> y P k c st = x P n c st.
Definition evc (e : expr) : fcomp value := fun P n c st => ev P n c e st.
Definition refines (e e' : expr) : Prop := frefines (evc e) (evc e').

Lemma ev_mono : forall P n m c e st, n <= m -> ev P n c e st <> RFuel -> ev P m c e st = ev P n c e st.
Proof. intros P n m c e st Hle Hn. exact (le_eval _ _ (mk_mono_le P n m Hle) c e st Hn). Qed.

Lemma refines_refl : forall e, refines e e.
Proof. intros e P n c st Hn. exists n. intros k Hk. apply ev_mono; auto. Qed.

Lemma frefines_trans : forall A (x y z : fcomp A), frefines x y -> frefines y z -> frefines x z.
Proof.
  intros A x y z H1 H2 P n c st Hn. destruct (H1 P n c st Hn) as [m1 Hm1].
  assert (E : y P m1 c st = x P n c st) by (apply Hm1; lia).
  destruct (H2 P m1 c st) as [m2 Hm2]; [rewrite E; exact Hn|].
  exists m2. intros k Hk. rewrite (Hm2 k Hk). exact E.
Qed.

Definition fbind {A B} (x : fcomp A) (f : A -> fcomp B) : fcomp B := fun P n c st => bind (x P n c) (fun a => f a P n c) st.
Definition fself {A} (F : ops -> M A) : fcomp A := fun P n _ st => F (mk P n) st.
Definition fret {A} (a : A) : fcomp A := fun _ _ _ st => ret a st.

Lemma frefines_bind : forall A B (x y : fcomp A) (f g : A -> fcomp B),
  frefines x y -> (forall a, frefines (f a) (g a)) -> frefines (fbind x f) (fbind y g).
Proof.
  intros A B x y f g Hx Hf P n c st Hn. unfold fbind, bind in *.
  destruct (x P n c st) as [a st1| v st1| |code] eqn:Ex; try congruence.
  - destruct (Hx P n c st) as [m1 Hm1]; [congruence|].
    destruct (Hf a P n c st1 Hn) as [m2 Hm2].
    exists (Nat.max m1 m2). intros k Hk. rewrite (Hm1 k) by lia. rewrite Ex. apply Hm2; lia.
  - destruct (Hx P n c st) as [m1 Hm1]; [congruence|].
    exists m1. intros k Hk. rewrite (Hm1 k Hk). rewrite Ex. reflexivity.
  - destruct (Hx P n c st) as [m1 Hm1]; [congruence|].
    exists m1. intros k Hk. rewrite (Hm1 k Hk). rewrite Ex. reflexivity.
Qed.

(* a computation that only depends on the ops record, monotonically *)
Lemma frefines_self : forall A (F : ops -> M A), (forall s s', ops_le s s' -> mle (F s) (F s')) -> frefines (fself F) (fself F).
Proof.
  intros A F HF P n c st Hn. exists n. intros k Hk. exact (HF _ _ (mk_mono_le P n k Hk) st Hn).
Qed.

Lemma frefines_ret : forall A (a : A), frefines (fret a) (fret a).
Proof. intros A a P n c st _. exists 0. reflexivity. Qed.

(* X at fuel n+1 is Y at fuel n *)
Lemma frefines_shift : forall A (X X' Y Y' : fcomp A),
  (forall P c st, X P 0 c st = RFuel) ->
  (forall P n c st, X P (Sn n) c st = Y P n c st) ->
  (forall P n c st, X' P (Sn n) c st = Y' P n c st) ->
  frefines Y Y' -> frefines X X'.
Proof.
  intros A X X' Y Y' H0 HS HS' HY P n c st Hn. destruct n as [|n']; [rewrite H0 in Hn; congruence|].
  rewrite HS in Hn. destruct (HY P n' c st Hn) as [m Hm].
  exists (Sn m). intros k Hk. destruct k as [|k']; [lia|]. rewrite HS', HS. apply Hm. lia.
Qed.

(* ---- congruence for the by-value constructors *)
Lemma refines_unary : forall op a a', op <> UTypeof -> refines a a' -> refines (EUnary op a) (EUnary op a').
Proof.
  intros op a a' Hop Ha.
  apply (frefines_shift _ (evc (EUnary op a)) (evc (EUnary op a'))
           (fbind (evc a) (fun v => fself (fun s => unary_op s op v)))
           (fbind (evc a') (fun v => fself (fun s => unary_op s op v)))).
  - reflexivity.
  - intros. unfold evc, fbind, fself. rewrite ev_S. apply eval_unary_byvalue. left; exact Hop.
  - intros. unfold evc, fbind, fself. rewrite ev_S. apply eval_unary_byvalue. left; exact Hop.
  - apply frefines_bind; [exact Ha|].
    intros v. apply frefines_self. intros s s' Hs. apply unary_op_mono; exact Hs.
Qed.

Lemma refines_binary : forall op a a' b b', refines a a' -> refines b b' -> refines (EBinary op a b) (EBinary op a' b').
Proof.
  intros op a a' b b' Ha Hb.
  apply (frefines_shift _ (evc (EBinary op a b)) (evc (EBinary op a' b'))
           (fbind (evc a) (fun va => fbind (evc b) (fun vb => fself (fun s => binary_op s op va vb))))
           (fbind (evc a') (fun va => fbind (evc b') (fun vb => fself (fun s => binary_op s op va vb))))).
  - reflexivity.
  - intros. reflexivity.
  - intros. reflexivity.
  - apply frefines_bind; [exact Ha|]. intros va.
    apply frefines_bind; [exact Hb|]. intros vb.
    apply frefines_self. intros s s' Hs. apply binary_op_mono; exact Hs.
Qed.

Lemma refines_seq : forall a a' b b', refines a a' -> refines b b' -> refines (ESeq a b) (ESeq a' b').
Proof.
  intros a a' b b' Ha Hb.
  apply (frefines_shift _ (evc (ESeq a b)) (evc (ESeq a' b')) (fbind (evc a) (fun _ => evc b)) (fbind (evc a') (fun _ => evc b'))).
  - reflexivity.
  - intros. reflexivity.
  - intros. reflexivity.
  - apply frefines_bind; [exact Ha|]. intros _. exact Hb.
Qed.

Lemma refines_paren : forall a a', refines a a' -> refines (EParen a) (EParen a').
Proof.
  intros a a' Ha.
  apply (frefines_shift _ (evc (EParen a)) (evc (EParen a')) (evc a) (evc a')); try reflexivity. exact Ha.
Qed.

Definition klog (op : logop) (x : expr) (va : value) : fcomp value :=
  match op with
  | LAnd => if to_boolean va then evc x else fret va
  | LOr => if to_boolean va then fret va else evc x
  | LCoalesce => if nullish va then evc x else fret va
  end.

Lemma refines_logical : forall op a a' b b', refines a a' -> refines b b' -> refines (ELogical op a b) (ELogical op a' b').
Proof.
  intros op a a' b b' Ha Hb.
  apply (frefines_shift _ (evc (ELogical op a b)) (evc (ELogical op a' b')) (fbind (evc a) (klog op b)) (fbind (evc a') (klog op b'))).
  - reflexivity.
  - intros. unfold evc, fbind, klog. rewrite ev_S, eval_logical. unfold bind, ev. destruct (o_eval (mk P n) c a st); try reflexivity.
    destruct op; [destruct (to_boolean a0)|destruct (to_boolean a0)|destruct (nullish a0)]; reflexivity.
  - intros. unfold evc, fbind, klog. rewrite ev_S, eval_logical. unfold bind, ev. destruct (o_eval (mk P n) c a' st); try reflexivity.
    destruct op; [destruct (to_boolean a0)|destruct (to_boolean a0)|destruct (nullish a0)]; reflexivity.
  - apply frefines_bind; [exact Ha|].
    intros va. unfold klog. destruct op.
    + destruct (to_boolean va); [exact Hb| apply frefines_ret].
    + destruct (to_boolean va); [apply frefines_ret | exact Hb].
    + destruct (nullish va); [exact Hb| apply frefines_ret].
Qed.

Definition kcond (b d : expr) (va : value) : fcomp value := if to_boolean va then evc b else evc d.

Lemma refines_cond : forall a a' b b' d d', refines a a' -> refines b b' -> refines d d' -> refines (ECond a b d) (ECond a' b' d').
Proof.
  intros a a' b b' d d' Ha Hb Hd.
  apply (frefines_shift _ (evc (ECond a b d)) (evc (ECond a' b' d')) (fbind (evc a) (kcond b d)) (fbind (evc a') (kcond b' d'))).
  - reflexivity.
  - intros. unfold evc, fbind, kcond. rewrite ev_S. cbn [eval_step]. unfold bind, ev. destruct (o_eval (mk P n) c a st); try reflexivity. destruct (to_boolean a0); reflexivity.
  - intros. unfold evc, fbind, kcond. rewrite ev_S. cbn [eval_step]. unfold bind, ev. destruct (o_eval (mk P n) c a' st); try reflexivity. destruct (to_boolean a0); reflexivity.
  - apply frefines_bind; [exact Ha|].
    intros va. unfold kcond. destruct (to_boolean va); [exact Hb | exact Hd].
Qed.

(* ================================================================ the walker on the by-value fragment *)
Inductive frag : expr -> Prop :=
| F_num : forall b, frag (ENum b)
| F_str : forall s, frag (EStr s)
| F_bool : forall b, frag (EBool b)
| F_null : frag ENull
| F_big : forall z, frag (EBigInt z)
| F_id : forall x, frag (EId x)
| F_this : frag EThis
| F_nt : frag ENewTarget
| F_func : forall i, frag (EFunc i)
| F_class : forall i, frag (EClass i)
| F_super : forall p, frag (ESuperMember p)
| F_unary : forall op a, op <> UTypeof -> frag a -> frag (EUnary op a)
| F_binary : forall op a b, frag a -> frag b -> frag (EBinary op a b)
| F_logical : forall op a b, frag a -> frag b -> frag (ELogical op a b)
| F_seq : forall a b, frag a -> frag b -> frag (ESeq a b)
| F_cond : forall a b d, frag a -> frag b -> frag d -> frag (ECond a b d)
| F_paren : forall a, frag a -> frag (EParen a).

Section WalkRefines.
Variable f : expr -> action.
Hypothesis Hf : forall e e', frag e -> (f e = Replace e' \/ f e = Modified e') -> refines e e' /\ frag e'.

Lemma apply_f_ok : forall e, frag e -> refines e (fst (apply_f f e)) /\ frag (fst (apply_f f e)).
Proof.
  intros e He. unfold apply_f. destruct (f e) as [|e'|e'|] eqn:E; cbn [fst].
  - split; [apply refines_refl | exact He].
  - apply Hf; auto.
  - apply Hf; auto.
  - split; [apply refines_refl | exact He].
Qed.

Lemma refines_trans : forall a b c, refines a b -> refines b c -> refines a c.
Proof. intros a b c. apply frefines_trans. Qed.

Ltac leaf := cbn [walk]; match goal with |- context [apply_f f ?e] => destruct (apply_f_ok e ltac:(constructor)) as [R Fr]; destruct (apply_f f e); cbn [fst] in *; split; assumption end.

Lemma walk_ok : forall e, frag e -> refines e (fst (walk f e)) /\ frag (fst (walk f e)).
Proof.
  induction 1.
  1-11: leaf.
  - (* unary *)
    cbn [walk]. destruct IHfrag as [Ra Fa]. destruct (walk f a) as [a' fl]. cbn [fst] in *.
    destruct (apply_f_ok (EUnary op a') (F_unary _ _ H Fa)) as [R Fr]. destruct (apply_f f (EUnary op a')). cbn [fst] in *.
    split; [|exact Fr]. eapply refines_trans; [apply refines_unary; eauto | exact R].
  - (* binary *)
    cbn [walk]. destruct IHfrag1 as [Ra Fa]. destruct IHfrag2 as [Rb Fb].
    destruct (walk f a) as [a' fl1]. destruct (walk f b) as [b' fl2]. cbn [fst] in *.
    destruct (apply_f_ok (EBinary op a' b') (F_binary _ _ _ Fa Fb)) as [R Fr]. destruct (apply_f f (EBinary op a' b')). cbn [fst] in *.
    split; [|exact Fr]. eapply refines_trans; [apply refines_binary; eauto | exact R].
  - (* logical *)
    cbn [walk]. destruct IHfrag1 as [Ra Fa]. destruct IHfrag2 as [Rb Fb].
    destruct (walk f a) as [a' fl1]. destruct (walk f b) as [b' fl2]. cbn [fst] in *.
    destruct (apply_f_ok (ELogical op a' b') (F_logical _ _ _ Fa Fb)) as [R Fr]. destruct (apply_f f (ELogical op a' b')). cbn [fst] in *.
    split; [|exact Fr]. eapply refines_trans; [apply refines_logical; eauto | exact R].
  - (* comma *)
    cbn [walk]. destruct IHfrag1 as [Ra Fa]. destruct IHfrag2 as [Rb Fb].
    destruct (walk f a) as [a' fl1]. destruct (walk f b) as [b' fl2]. cbn [fst] in *.
    destruct (apply_f_ok (ESeq a' b') (F_seq _ _ Fa Fb)) as [R Fr]. destruct (apply_f f (ESeq a' b')). cbn [fst] in *.
    split; [|exact Fr]. eapply refines_trans; [apply refines_seq; eauto | exact R].
  - (* conditional *)
    cbn [walk]. destruct IHfrag1 as [Ra Fa]. destruct IHfrag2 as [Rb Fb]. destruct IHfrag3 as [Rd Fd].
    destruct (walk f a) as [a' fl1]. destruct (walk f b) as [b' fl2]. destruct (walk f d) as [d' fl3]. cbn [fst] in *.
    destruct (apply_f_ok (ECond a' b' d') (F_cond _ _ _ Fa Fb Fd)) as [R Fr]. destruct (apply_f f (ECond a' b' d')). cbn [fst] in *.
    split; [|exact Fr]. eapply refines_trans; [apply refines_cond; eauto | exact R].
  - (* parentheses *)
    cbn [walk]. destruct IHfrag as [Ra Fa]. destruct (walk f a) as [a' fl]. cbn [fst] in *.
    destruct (apply_f_ok (EParen a') (F_paren _ Fa)) as [R Fr]. destruct (apply_f f (EParen a')). cbn [fst] in *.
    split; [|exact Fr]. eapply refines_trans; [apply refines_paren; eauto | exact R].
Qed.

Lemma pass_loop_ok : forall n e, frag e -> refines e (fst (pass_loop f n e)) /\ frag (fst (pass_loop f n e)).
Proof.
  induction n as [|k IH]; intros e He; cbn [pass_loop].
  - cbn [fst]. split; [apply refines_refl | exact He].
  - destruct (walk_ok e He) as [R Fr]. destruct (walk f e) as [e' [ch un]]. cbn [fst] in *.
    destruct ch.
    + destruct (IH e' Fr) as [R2 F2]. destruct (pass_loop f k e') as [e'' un']. cbn [fst] in *.
      split; [eapply refines_trans; eauto | exact F2].
    + cbn [fst]. split; assumption.
Qed.
End WalkRefines.

(* ================================================================ constant folding *)
Lemma sof_refines : forall l r, (forall P n c st, same_or_fuel P n c st l r) -> refines l r.
Proof.
  intros l r H P n c st Hn. destruct (H P n c st) as [E|E]; [contradiction|].
  exists n. intros k Hk. unfold evc. rewrite <- E. apply ev_mono; [exact Hk | rewrite E; exact Hn].
Qed.

Lemma shifted_refines : forall l r,
  (forall P n c st, ev P (Sn n) c l st = RFuel \/ ev P (Sn n) c l st = ev P n c r st) -> refines l r.
Proof.
  intros l r H P n c st Hn. unfold evc in *. destruct n as [|n']; [exfalso; apply Hn; reflexivity|].
  destruct (H P n' c st) as [E|E]; [contradiction|].
  exists n'. intros k Hk. rewrite E. apply ev_mono; [exact Hk | rewrite <- E; exact Hn].
Qed.

Lemma late_refines : forall l r,
  (forall P n c st, ev P (Sn (Sn (Sn n))) c r st = ev P (Sn (Sn (Sn n))) c l st) -> refines l r.
Proof.
  intros l r H P n c st Hn. unfold evc in *.
  exists (Nat.max n 3). intros k Hk.
  destruct k as [|[|[|k']]]; try lia.
  rewrite H. apply ev_mono; [lia | exact Hn].
Qed.

Lemma lit_expr_frag : forall l e, lit_expr l = Some e -> frag e.
Proof.
  intros l e H. unfold lit_expr in H.
  match type of H with context [as_lit ?x] => destruct (as_lit x); try discriminate end.
  match type of H with context [if ?c then _ else _] => destruct c; try discriminate end.
  inversion H; subst. destruct l; try constructor.
  - destruct (is_i32 f); constructor.
  - discriminate.
  - constructor.
Qed.

Lemma lit_action_frag : forall v r e, lit_action v r = Replace e -> frag e.
Proof.
  intros v r e H. unfold lit_action in H. destruct r as [r|]; try discriminate.
  destruct (value_lit v r) as [l|]; try discriminate.
  destruct (lit_expr l) as [e0|] eqn:E; try discriminate. inversion H; subst. eapply lit_expr_frag; eauto.
Qed.

Lemma undef_frag : frag undef_lit.
Proof. unfold undef_lit. constructor; [discriminate | constructor]. Qed.

Lemma fold_expression_ok : forall fixr fixo e e', frag e ->
  (fold_expression true fixr fixo e = Replace e' \/ fold_expression true fixr fixo e = Modified e') ->
  refines e e' /\ frag e'.
Proof.
  intros fixr fixo e e' He H. unfold fold_expression in H.
  destruct (as_lit e) as [l|] eqn:El; [destruct H; discriminate|].
  inversion He; subst; try (destruct H; discriminate).
  - (* unary *)
    destruct H as [H|H].
    + split; [apply sof_refines; intros; eapply fold_unary_sound_lem; eauto|].
      unfold fold_unary in H. destruct (as_lit a); try discriminate.
      destruct op; try (destruct (unary_op fold_ops _ _ fold_state); try discriminate; eapply lit_action_frag; eauto).
      inversion H; subst. apply undef_frag.
    + unfold fold_unary in H. destruct (as_lit a); try discriminate.
      destruct op; try discriminate;
        destruct (unary_op fold_ops _ _ fold_state); try discriminate; unfold lit_action in H;
        repeat match type of H with context [match ?x with _ => _ end] => destruct x; try discriminate end.
  - (* binary *)
    destruct H as [H|H].
    + split; [apply sof_refines; intros; eapply fold_binary_sound_lem; eauto|].
      unfold fold_binary in H. destruct (as_lit a); try discriminate. destruct (as_lit b); try discriminate.
      cbn [negb andb] in H. unfold fold_binary_core in H.
      destruct op; try discriminate; destruct (binary_op fold_ops _ _ _ fold_state); try discriminate; eapply lit_action_frag; eauto.
    + unfold fold_binary in H. destruct (as_lit a); try discriminate. destruct (as_lit b); try discriminate.
      cbn [negb andb] in H. unfold fold_binary_core in H.
      destruct op; try discriminate; destruct (binary_op fold_ops _ _ _ fold_state); try discriminate; unfold lit_action in H;
        repeat match type of H with context [match ?x with _ => _ end] => destruct x; try discriminate end.
  - (* logical *)
    destruct H as [H|H].
    + split; [apply shifted_refines; intros; eapply logical_sound_lem; eauto|].
      unfold fold_logical in H. destruct (as_lit a); try discriminate.
      repeat match type of H with context [if ?c then _ else _] => destruct c; try discriminate end; inversion H; subst; assumption.
    + unfold fold_logical in H. destruct (as_lit a); try discriminate.
      repeat match type of H with context [if ?c then _ else _] => destruct c; try discriminate end.
  - (* comma *)
    destruct H as [H|H].
    + split; [apply shifted_refines; intros; eapply comma_replace_sound_lem; eauto|].
      unfold fold_comma in H. destruct (as_lit a) as [la|]; try discriminate.
      destruct (as_lit b); [inversion H; subst; assumption | destruct la; discriminate].
    + split; [apply late_refines; intros; eapply comma_modified_sound_lem; eauto|].
      unfold fold_comma in H. destruct (as_lit a) as [la|]; try discriminate.
      destruct (as_lit b); try discriminate.
      assert (e' = ESeq undef_lit b) by (destruct la; inversion H; reflexivity). subst.
      constructor; [apply undef_frag | assumption].
Qed.

(* The constant-folding pass (repaired integer-division fast path; either variant of the reference guard) preserves the
   meaning of every expression of the by-value fragment: whenever the original evaluates, with some fuel, to a result
   other than "out of fuel", the folded expression evaluates to the same result -- value or exception, and final state --
   with every sufficiently large fuel. *)
Theorem constant_folding_preserves_lem : forall fixr fixo e, frag e ->
  forall P n c st, ev P n c e st <> RFuel ->
  exists m, forall k, m <= k ->
    ev P k c (fst (pass_loop (fold_expression true fixr fixo) MAX_PASS_ITERATIONS e)) st = ev P n c e st.
Proof.
  intros fixr fixo e He.
  exact (proj1 (pass_loop_ok (fold_expression true fixr fixo) (fold_expression_ok fixr fixo) MAX_PASS_ITERATIONS e He)).
Qed.
