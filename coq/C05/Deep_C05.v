(* C05, deepening round -- the congruence of Mono_C05.v extended to calls, constructor calls, member and index
   access, array literals, typeof of a parenthesised operand, on top of the by-value fragment; then to straight-line
   statements.  Uses C01's fuel monotonicity (per-definition lemmas of coq/C01/Mono_*.v). *)
From Coq Require Import ZArith NArith PArith List Bool String Lia.
From JSRef Require Import Float Syntax Values Static Ops Interp Machine Builtins Run.
From C01 Require Import Mono_Core Mono_Ops Mono_Interp Mono_Machine Proofs_C01.
From C05 Require Import Model_C05 Prims_C05 Proofs_C05 Mono_C05.
Import ListNotations.

Local Opaque of_Z of_bits to_bits trunc_Z is_i32 FLAG.

(* ---- more combinators *)
Definition fself2 {A} (F : prog -> ctx -> ops -> M A) : fcomp A := fun P n c st => F P c (mk P n) st.

Lemma frefines_self2 : forall A (F : prog -> ctx -> ops -> M A),
  (forall P c s s', ops_le s s' -> mle (F P c s) (F P c s')) -> frefines (fself2 F) (fself2 F).
Proof. intros A F HF P n c st Hn. exists n. intros k Hk. exact (HF P c _ _ (mk_mono_le P n k Hk) st Hn). Qed.

Lemma frefines_ext : forall A (x x0 y y0 : fcomp A),
  (forall P n c st, x P n c st = x0 P n c st) -> (forall P n c st, y P n c st = y0 P n c st) ->
  frefines x0 y0 -> frefines x y.
Proof.
  intros A x x0 y y0 Hx Hy H P n c st Hn. rewrite Hx in Hn. destruct (H P n c st Hn) as [m Hm].
  exists m. intros k Hk. rewrite Hy, Hx. apply Hm; exact Hk.
Qed.

(* ---- argument lists *)
Section ArgsGo.
Variable self : ops.
Variable c : ctx.
Fixpoint args_go (l : list Syntax.arg) (acc : list value) : M (list value) :=
  match l with
  | [] => ret (rev acc)
  | Arg e :: t => do v <- o_eval self c e;; args_go t (v :: acc)
  | ArgSpread e :: t => do v <- o_eval self c e;; do vs <- iterate_to_list self v;; args_go t (rev vs ++ acc)
  end.
End ArgsGo.
Lemma eval_args_go : forall self c args, eval_args self c args = args_go self c args [].
Proof. reflexivity. Qed.

Inductive arg_rel : Syntax.arg -> Syntax.arg -> Prop :=
| AR_arg : forall e e', refines e e' -> arg_rel (Arg e) (Arg e')
| AR_spread : forall e e', refines e e' -> arg_rel (ArgSpread e) (ArgSpread e').

Definition fargs (l : list Syntax.arg) (acc : list value) : fcomp (list value) := fun P n c st => args_go (mk P n) c l acc st.

Lemma fargs_refines : forall l l', Forall2 arg_rel l l' -> forall acc, frefines (fargs l acc) (fargs l' acc).
Proof.
  induction 1 as [|a a' l l' Ha Hl IH]; intros acc.
  - intros P n c st _. exists 0. reflexivity.
  - destruct Ha as [e e' He | e e' He].
    + apply (frefines_ext _ _ (fbind (evc e) (fun v => fargs l (v :: acc))) _ (fbind (evc e') (fun v => fargs l' (v :: acc)))); try reflexivity.
      apply frefines_bind; [exact He|]. intros v. apply IH.
    + apply (frefines_ext _ _ (fbind (evc e) (fun v => fbind (fself (fun s => iterate_to_list s v)) (fun vs => fargs l (rev vs ++ acc)))) _
                              (fbind (evc e') (fun v => fbind (fself (fun s => iterate_to_list s v)) (fun vs => fargs l' (rev vs ++ acc))))); try reflexivity.
      apply frefines_bind; [exact He|]. intros v.
      apply frefines_bind; [apply frefines_self; intros s s' Hs; apply iterate_to_list_mono; exact Hs|]. intros vs. apply IH.
Qed.

(* ---- calls: the callee is refined as a *callee* (function value and this value), the arguments by value *)
Definition fcallee (g : expr) : fcomp (value * value) := fun P n c st => eval_callee (mk P n) c g st.
Definition crefines (g g' : expr) : Prop := frefines (fcallee g) (fcallee g').

Lemma crefines_refl : forall g, crefines g g.
Proof.
  intros g. apply (frefines_self2 _ (fun P c s => eval_callee s c g)).
  intros P c s s' Hs. apply eval_callee_mono; exact Hs.
Qed.

Lemma crefines_member : forall o o' p opt, refines o o' -> crefines (EMember o p opt) (EMember o' p opt).
Proof.
  intros o o' p opt Ho.
  apply (frefines_ext _ _ (fbind (evc o) (fun ov => fself (fun s => if opt && nullish ov then throwv SHORT_CIRCUIT else do fv <- get_v s ov (KStr p);; ret (fv, ov)))) _
                          (fbind (evc o') (fun ov => fself (fun s => if opt && nullish ov then throwv SHORT_CIRCUIT else do fv <- get_v s ov (KStr p);; ret (fv, ov))))); try reflexivity.
  apply frefines_bind; [exact Ho|]. intros ov. apply frefines_self. intros s s' Hs.
  destruct (opt && nullish ov); [apply mle_refl|]. apply mle_bind; [apply get_v_mono; exact Hs | intros; apply mle_refl].
Qed.

(* any expression that is not one of the reference shapes is called with an undefined this: by value *)
Definition plain_callee (g : expr) : Prop :=
  match g with
  | EMember _ _ _ | EIndex _ _ _ | ESuperMember _ | ESuperIndex _ | EId _ | EParen (EMember _ _ _) | EParen (EIndex _ _ _) => False
  | _ => True
  end.
Lemma crefines_plain : forall g g', plain_callee g -> plain_callee g' -> refines g g' -> crefines g g'.
Proof.
  intros g g' Hg Hg' H.
  apply (frefines_ext _ _ (fbind (evc g) (fun fv => fret (fv, VUndef))) _ (fbind (evc g') (fun fv => fret (fv, VUndef)))).
  - intros. unfold fcallee, fbind, evc, ev, fret. destruct g; try contradiction; try reflexivity. destruct g; try contradiction; reflexivity.
  - intros. unfold fcallee, fbind, evc, ev, fret. destruct g'; try contradiction; try reflexivity. destruct g'; try contradiction; reflexivity.
  - apply frefines_bind; [exact H|]. intros fv. apply frefines_ret.
Qed.

Definition call_tail (opt : bool) (ft : value * value) (vs : list value) (s : ops) : M value :=
  do st <- get_state;; if negb (is_callable st (fst ft)) then type_error else o_call s (fst ft) (snd ft) vs.

Lemma refines_call : forall g g' args args' opt, crefines g g' -> Forall2 arg_rel args args' ->
  refines (ECall g args opt) (ECall g' args' opt).
Proof.
  intros g g' args args' opt Hg Ha.
  apply (frefines_shift _ (evc (ECall g args opt)) (evc (ECall g' args' opt))
           (fbind (fcallee g) (fun ft => if opt && nullish (fst ft) then (fun _ _ _ st => throwv SHORT_CIRCUIT st)
                                         else fbind (fargs args []) (fun vs => fself (call_tail opt ft vs))))
           (fbind (fcallee g') (fun ft => if opt && nullish (fst ft) then (fun _ _ _ st => throwv SHORT_CIRCUIT st)
                                          else fbind (fargs args' []) (fun vs => fself (call_tail opt ft vs))))).
  - reflexivity.
  - intros. unfold evc. rewrite ev_S. cbn [eval_step]. unfold fbind, fcallee, bind. destruct (eval_callee (mk P n) c g st) as [[fv tv] st1| | |]; try reflexivity.
    cbn [fst]. destruct (opt && nullish fv); reflexivity.
  - intros. unfold evc. rewrite ev_S. cbn [eval_step]. unfold fbind, fcallee, bind. destruct (eval_callee (mk P n) c g' st) as [[fv tv] st1| | |]; try reflexivity.
    cbn [fst]. destruct (opt && nullish fv); reflexivity.
  - apply frefines_bind; [exact Hg|]. intros ft. destruct (opt && nullish (fst ft)).
    + intros P n c st _. exists 0. reflexivity.
    + apply frefines_bind; [apply fargs_refines; exact Ha|]. intros vs. apply frefines_self. intros s s' Hs.
      unfold call_tail. apply mle_bind; [apply mle_refl|]. intros st0. destruct (negb (is_callable st0 (fst ft))); [apply mle_refl|].
      apply (le_call _ _ Hs).
Qed.

(* ---- member / index access by value, constructor calls *)
Lemma refines_member : forall o o' p opt, refines o o' -> refines (EMember o p opt) (EMember o' p opt).
Proof.
  intros o o' p opt Ho.
  apply (frefines_shift _ (evc (EMember o p opt)) (evc (EMember o' p opt))
           (fbind (evc o) (fun ov => fself (fun s => if opt && nullish ov then throwv SHORT_CIRCUIT else get_v s ov (KStr p))))
           (fbind (evc o') (fun ov => fself (fun s => if opt && nullish ov then throwv SHORT_CIRCUIT else get_v s ov (KStr p))))); try reflexivity.
  apply frefines_bind; [exact Ho|]. intros ov. apply frefines_self. intros s s' Hs.
  destruct (opt && nullish ov); [apply mle_refl | apply get_v_mono; exact Hs].
Qed.

Definition index_tail (ov kv : value) (s : ops) : M value :=
  match ov with VUndef | VNull => type_error | _ => do key <- to_property_key s kv;; get_v s ov key end.
Lemma index_tail_mono : forall ov kv s s', ops_le s s' -> mle (index_tail ov kv s) (index_tail ov kv s').
Proof.
  intros ov kv s s' Hs. unfold index_tail.
  destruct ov; try apply mle_refl; (apply mle_bind; [apply to_property_key_mono; exact Hs | intros; apply get_v_mono; exact Hs]).
Qed.

Lemma refines_index : forall o o' k k' opt, refines o o' -> refines k k' -> refines (EIndex o k opt) (EIndex o' k' opt).
Proof.
  intros o o' k k' opt Ho Hk.
  apply (frefines_shift _ (evc (EIndex o k opt)) (evc (EIndex o' k' opt))
           (fbind (evc o) (fun ov => if opt && nullish ov then (fun _ _ _ st => throwv SHORT_CIRCUIT st)
                                     else fbind (evc k) (fun kv => fself (index_tail ov kv))))
           (fbind (evc o') (fun ov => if opt && nullish ov then (fun _ _ _ st => throwv SHORT_CIRCUIT st)
                                      else fbind (evc k') (fun kv => fself (index_tail ov kv))))).
  - reflexivity.
  - intros. unfold evc. rewrite ev_S. cbn [eval_step]. unfold fbind, bind, ev. destruct (o_eval (mk P n) c o st) as [ov st1| | |]; try reflexivity.
    destruct (opt && nullish ov); try reflexivity;
      try (destruct (o_eval (mk P n) c k st1) as [kv st2| | |]; try reflexivity; unfold fself, index_tail; destruct ov; reflexivity).
  - intros. unfold evc. rewrite ev_S. cbn [eval_step]. unfold fbind, bind, ev. destruct (o_eval (mk P n) c o' st) as [ov st1| | |]; try reflexivity.
    destruct (opt && nullish ov); try reflexivity;
      try (destruct (o_eval (mk P n) c k' st1) as [kv st2| | |]; try reflexivity; unfold fself, index_tail; destruct ov; reflexivity).
  - apply frefines_bind; [exact Ho|]. intros ov. destruct (opt && nullish ov).
    + intros P n c st _. exists 0. reflexivity.
    + apply frefines_bind; [exact Hk|]. intros kv. apply frefines_self. apply index_tail_mono.
Qed.

Definition new_tail (fv : value) (vs : list value) (P : prog) (c : ctx) (s : ops) : M value :=
  do st <- get_state;; if negb (is_constructor P st fv) then type_error else o_construct s fv vs fv.

Lemma refines_new : forall g g' args args', refines g g' -> Forall2 arg_rel args args' -> refines (ENew g args) (ENew g' args').
Proof.
  intros g g' args args' Hg Ha.
  apply (frefines_shift _ (evc (ENew g args)) (evc (ENew g' args'))
           (fbind (evc g) (fun fv => fbind (fargs args []) (fun vs => fself2 (new_tail fv vs))))
           (fbind (evc g') (fun fv => fbind (fargs args' []) (fun vs => fself2 (new_tail fv vs))))); try reflexivity.
  apply frefines_bind; [exact Hg|]. intros fv.
  apply frefines_bind; [apply fargs_refines; exact Ha|]. intros vs. apply frefines_self2. intros P c s s' Hs.
  unfold new_tail. apply mle_bind; [apply mle_refl|]. intros st0. destruct (negb (is_constructor P st0 fv)); [apply mle_refl|].
  apply (le_construct _ _ Hs).
Qed.

(* typeof of a parenthesised operand is by value *)
Lemma refines_typeof_paren : forall a a', refines a a' -> refines (EUnary UTypeof (EParen a)) (EUnary UTypeof (EParen a')).
Proof.
  intros a a' Ha.
  apply (frefines_shift _ (evc (EUnary UTypeof (EParen a))) (evc (EUnary UTypeof (EParen a')))
           (fbind (evc (EParen a)) (fun v => fself (fun s => unary_op s UTypeof v)))
           (fbind (evc (EParen a')) (fun v => fself (fun s => unary_op s UTypeof v)))); try reflexivity.
  apply frefines_bind; [apply refines_paren; exact Ha|].
  intros v. apply frefines_self. intros s s' Hs. apply unary_op_mono; exact Hs.
Qed.

(* ---- array literals *)
Section ArrGo.
Variable self : ops.
Variable c : ctx.
Variable al : loc.
Fixpoint arr_go (l : list arr_elem) (i : N) : M N :=
  match l with
  | [] => ret i
  | AElem e :: t => do v <- o_eval self c e;; do _ <- create_data_prop al (KStr (n_to_str i)) v;; arr_go t (i + 1)%N
  | AHole :: t => arr_go t (i + 1)%N
  | ASpread e :: t =>
      do v <- o_eval self c e;; do vs <- iterate_to_list self v;;
      do j <- (fix put (vs : list value) (j : N) : M N :=
                 match vs with [] => ret j | x :: r => do _ <- create_data_prop al (KStr (n_to_str j)) x;; put r (j + 1)%N end) vs i;;
      arr_go t j
  end.
End ArrGo.

Inductive elem_rel : arr_elem -> arr_elem -> Prop :=
| ER_elem : forall e e', refines e e' -> elem_rel (AElem e) (AElem e')
| ER_spread : forall e e', refines e e' -> elem_rel (ASpread e) (ASpread e')
| ER_hole : elem_rel AHole AHole.

Definition farr (al : loc) (l : list arr_elem) (i : N) : fcomp N := fun P n c st => arr_go (mk P n) c al l i st.
Definition fpure {A} (m : M A) : fcomp A := fun _ _ _ st => m st.
Lemma frefines_pure : forall A (m : M A), frefines (fpure m) (fpure m).
Proof. intros A m P n c st _. exists 0. reflexivity. Qed.

Lemma farr_refines : forall al l l', Forall2 elem_rel l l' -> forall i, frefines (farr al l i) (farr al l' i).
Proof.
  intros al. induction 1 as [|a a' l l' Ha Hl IH]; intros i.
  - intros P n c st _. exists 0. reflexivity.
  - destruct Ha as [e e' He | e e' He | ].
    + apply (frefines_ext _ _ (fbind (evc e) (fun v => fbind (fpure (create_data_prop al (KStr (n_to_str i)) v)) (fun _ => farr al l (i + 1)%N))) _
                              (fbind (evc e') (fun v => fbind (fpure (create_data_prop al (KStr (n_to_str i)) v)) (fun _ => farr al l' (i + 1)%N)))); try reflexivity.
      apply frefines_bind; [exact He|]. intros v. apply frefines_bind; [apply frefines_pure|]. intros _. apply IH.
    + set (put := fix put (vs : list value) (j : N) : M N :=
                 match vs with [] => ret j | x :: r => do _ <- create_data_prop al (KStr (n_to_str j)) x;; put r (j + 1)%N end).
      apply (frefines_ext _ _ (fbind (evc e) (fun v => fbind (fself (fun s => iterate_to_list s v)) (fun vs => fbind (fpure (put vs i)) (fun j => farr al l j)))) _
                              (fbind (evc e') (fun v => fbind (fself (fun s => iterate_to_list s v)) (fun vs => fbind (fpure (put vs i)) (fun j => farr al l' j))))); try reflexivity.
      apply frefines_bind; [exact He|]. intros v.
      apply frefines_bind; [apply frefines_self; intros s s' Hs; apply iterate_to_list_mono; exact Hs|]. intros vs.
      apply frefines_bind; [apply frefines_pure|]. intros j. apply IH.
    + apply (frefines_ext _ _ (farr al l (i + 1)%N) _ (farr al l' (i + 1)%N)); try reflexivity. apply IH.
Qed.

Lemma refines_array : forall l l', Forall2 elem_rel l l' -> refines (EArray l) (EArray l').
Proof.
  intros l l' H.
  pose (fin := fun (al : loc) (n : N) => (do o <- the_obj al;; do _ <- put_obj al (with_props o (set_length_prop (o_props o) n true));; ret (VObj al)) : M value).
  apply (frefines_shift _ (evc (EArray l)) (evc (EArray l'))
           (fbind (fpure (new_obj (Some L_ArrayProto) OArray [(KStr s_length, PData (VNum fzero) true false false)]))
                  (fun al => fbind (farr al l 0%N) (fun n => fpure (fin al n))))
           (fbind (fpure (new_obj (Some L_ArrayProto) OArray [(KStr s_length, PData (VNum fzero) true false false)]))
                  (fun al => fbind (farr al l' 0%N) (fun n => fpure (fin al n))))); try reflexivity.
  apply frefines_bind; [apply frefines_pure|]. intros al.
  apply frefines_bind; [apply farr_refines; exact H|]. intros n. apply frefines_pure.
Qed.

(* ================================================================ the larger expression fragment *)
Inductive frag2 : expr -> Prop :=
| G_num : forall b, frag2 (ENum b)
| G_str : forall s, frag2 (EStr s)
| G_bool : forall b, frag2 (EBool b)
| G_null : frag2 ENull
| G_big : forall z, frag2 (EBigInt z)
| G_id : forall x, frag2 (EId x)
| G_this : frag2 EThis
| G_nt : frag2 ENewTarget
| G_func : forall i, frag2 (EFunc i)
| G_class : forall i, frag2 (EClass i)
| G_super : forall p, frag2 (ESuperMember p)
| G_unary : forall op a, op <> UTypeof -> frag2 a -> frag2 (EUnary op a)
| G_typeof : forall a, frag2 a -> frag2 (EUnary UTypeof (EParen a))
| G_binary : forall op a b, frag2 a -> frag2 b -> frag2 (EBinary op a b)
| G_logical : forall op a b, frag2 a -> frag2 b -> frag2 (ELogical op a b)
| G_seq : forall a b, frag2 a -> frag2 b -> frag2 (ESeq a b)
| G_cond : forall a b d, frag2 a -> frag2 b -> frag2 d -> frag2 (ECond a b d)
| G_paren : forall a, frag2 a -> frag2 (EParen a)
| G_member : forall o p opt, frag2 o -> frag2 (EMember o p opt)
| G_index : forall o k opt, frag2 o -> frag2 k -> frag2 (EIndex o k opt)
| G_call_id : forall x args opt, frag2_args args -> frag2 (ECall (EId x) args opt)
| G_call_member : forall o p mo args opt, frag2 o -> frag2_args args -> frag2 (ECall (EMember o p mo) args opt)
| G_call_fn : forall i args opt, frag2_args args -> frag2 (ECall (EParen (EFunc i)) args opt)
| G_new : forall g args, frag2 g -> frag2_args args -> frag2 (ENew g args)
| G_array : forall l, frag2_elems l -> frag2 (EArray l)
with frag2_args : list Syntax.arg -> Prop :=
| GA_nil : frag2_args []
| GA_arg : forall e t, frag2 e -> frag2_args t -> frag2_args (Arg e :: t)
| GA_spread : forall e t, frag2 e -> frag2_args t -> frag2_args (ArgSpread e :: t)
with frag2_elems : list arr_elem -> Prop :=
| GE_nil : frag2_elems []
| GE_elem : forall e t, frag2 e -> frag2_elems t -> frag2_elems (AElem e :: t)
| GE_spread : forall e t, frag2 e -> frag2_elems t -> frag2_elems (ASpread e :: t)
| GE_hole : forall t, frag2_elems t -> frag2_elems (AHole :: t).

Scheme frag2_mut := Induction for frag2 Sort Prop
  with frag2_args_mut := Induction for frag2_args Sort Prop
  with frag2_elems_mut := Induction for frag2_elems Sort Prop.
Combined Scheme frag2_mutind from frag2_mut, frag2_args_mut, frag2_elems_mut.

Lemma frag_frag2 : forall e, frag e -> frag2 e.
Proof. induction 1; try (constructor; auto; fail). Qed.

Section Walk2.
Variable f : expr -> action.
Hypothesis Hf : forall e e', frag2 e -> (f e = Replace e' \/ f e = Modified e') -> refines e e' /\ frag2 e'.
Hypothesis Hfold : forall e, f e <> Keep ->
  match e with EUnary _ _ | EDelete _ | EBinary _ _ _ | ELogical _ _ _ | ESeq _ _ => True | _ => False end.

Definition walk_args : list Syntax.arg -> list Syntax.arg * flags :=
  fix go (l : list Syntax.arg) : list Syntax.arg * flags :=
    match l with [] => ([], F0) | x :: t => let '(x', f1) := walk_arg f x in let '(t', f2) := go t in (x' :: t', fo f1 f2) end.
Definition walk_elems : list arr_elem -> list arr_elem * flags :=
  fix go (l : list arr_elem) : list arr_elem * flags :=
    match l with [] => ([], F0) | x :: t => let '(x', f1) := walk_elem f x in let '(t', f2) := go t in (x' :: t', fo f1 f2) end.

Lemma walk_call_eq : forall g args o, walk f (ECall g args o) =
  let '(g', f1) := walk f g in let '(l, f2) := walk_args args in
  let '(e2, fl2) := apply_f f (ECall g' l o) in (e2, fo (fo f1 f2) fl2).
Proof.
  intros.
  transitivity (let '(e1, fl1) := (let '(g', f1) := walk f g in let '(l, f2) := walk_args args in (ECall g' l o, fo f1 f2)) in
                let '(e2, fl2) := apply_f f e1 in (e2, fo fl1 fl2)); [reflexivity|].
  destruct (walk f g); destruct (walk_args args); reflexivity.
Qed.
Lemma walk_new_eq : forall g args, walk f (ENew g args) =
  let '(g', f1) := walk f g in let '(l, f2) := walk_args args in
  let '(e2, fl2) := apply_f f (ENew g' l) in (e2, fo (fo f1 f2) fl2).
Proof.
  intros.
  transitivity (let '(e1, fl1) := (let '(g', f1) := walk f g in let '(l, f2) := walk_args args in (ENew g' l, fo f1 f2)) in
                let '(e2, fl2) := apply_f f e1 in (e2, fo fl1 fl2)); [reflexivity|].
  destruct (walk f g); destruct (walk_args args); reflexivity.
Qed.
Lemma walk_array_eq : forall l, walk f (EArray l) =
  let '(l', fl) := walk_elems l in let '(e2, fl2) := apply_f f (EArray l') in (e2, fo fl fl2).
Proof.
  intros.
  transitivity (let '(e1, fl1) := (let '(l', fl) := walk_elems l in (EArray l', fl)) in
                let '(e2, fl2) := apply_f f e1 in (e2, fo fl1 fl2)); [reflexivity|].
  destruct (walk_elems l); reflexivity.
Qed.
Lemma walk_args_cons : forall x t, walk_args (x :: t) = let '(x', f1) := walk_arg f x in let '(t', f2) := walk_args t in (x' :: t', fo f1 f2).
Proof. reflexivity. Qed.
Lemma walk_elems_cons : forall x t, walk_elems (x :: t) = let '(x', f1) := walk_elem f x in let '(t', f2) := walk_elems t in (x' :: t', fo f1 f2).
Proof. reflexivity. Qed.
Lemma walk_arg_eq : forall x, walk_arg f x = match x with Arg e => let '(e', fl) := walk f e in (Arg e', fl) | ArgSpread e => let '(e', fl) := walk f e in (ArgSpread e', fl) end.
Proof. destruct x; reflexivity. Qed.
Lemma walk_elem_eq : forall x, walk_elem f x = match x with AElem e => let '(e', fl) := walk f e in (AElem e', fl) | ASpread e => let '(e', fl) := walk f e in (ASpread e', fl) | AHole => (AHole, F0) end.
Proof. destruct x; reflexivity. Qed.

Lemma apply_f_ok2 : forall e, frag2 e -> refines e (fst (apply_f f e)) /\ frag2 (fst (apply_f f e)).
Proof.
  intros e He. unfold apply_f. destruct (f e) as [|e'|e'|] eqn:E; cbn [fst].
  - split; [apply refines_refl | exact He].
  - apply Hf; auto.
  - apply Hf; auto.
  - split; [apply refines_refl | exact He].
Qed.

Lemma apply_f_keep : forall e, match e with EUnary _ _ | EDelete _ | EBinary _ _ _ | ELogical _ _ _ | ESeq _ _ => False | _ => True end ->
  apply_f f e = (e, F0).
Proof.
  intros e He. unfold apply_f. destruct (f e) eqn:E; try reflexivity;
    (assert (Hn : f e <> Keep) by (rewrite E; discriminate); apply Hfold in Hn; destruct e; contradiction).
Qed.

Ltac leaf2 := cbn [walk]; match goal with |- context [apply_f f ?e] => destruct (apply_f_ok2 e ltac:(constructor)) as [R Fr]; destruct (apply_f f e); cbn [fst] in *; split; assumption end.

Ltac node C Fc :=
  match goal with |- context [apply_f f ?e] =>
    destruct (apply_f_ok2 e Fc) as [R Fr]; destruct (apply_f f e); cbn [fst] in *;
    split; [eapply refines_trans; [C | exact R] | exact Fr] end.

Lemma walk_ok2 :
  (forall e, frag2 e -> refines e (fst (walk f e)) /\ frag2 (fst (walk f e))) /\
  (forall l, frag2_args l -> Forall2 arg_rel l (fst (walk_args l)) /\ frag2_args (fst (walk_args l))) /\
  (forall l, frag2_elems l -> Forall2 elem_rel l (fst (walk_elems l)) /\ frag2_elems (fst (walk_elems l))).
Proof.
  apply frag2_mutind.
  1-11: intros; leaf2.
  - (* unary *) intros op a Hop Fa [Ra Fa']. cbn [walk]. destruct (walk f a) as [a' fl]. cbn [fst] in *.
    node ltac:(apply refines_unary; eauto) (G_unary _ _ Hop Fa').
  - (* typeof (a) *) intros a Fa [Ra Fa']. cbn [walk]. destruct (walk f a) as [a' fl]. cbn [fst] in *.
    rewrite (apply_f_keep (EParen a') I). cbv beta iota zeta. cbn [fst].
    node ltac:(apply refines_typeof_paren; eauto) (G_typeof _ Fa').
  - intros op a b Fa [Ra Fa'] Fb [Rb Fb']. cbn [walk]. destruct (walk f a) as [a' fl1]. destruct (walk f b) as [b' fl2]. cbn [fst] in *.
    node ltac:(apply refines_binary; eauto) (G_binary op _ _ Fa' Fb').
  - intros op a b Fa [Ra Fa'] Fb [Rb Fb']. cbn [walk]. destruct (walk f a) as [a' fl1]. destruct (walk f b) as [b' fl2]. cbn [fst] in *.
    node ltac:(apply refines_logical; eauto) (G_logical op _ _ Fa' Fb').
  - intros a b Fa [Ra Fa'] Fb [Rb Fb']. cbn [walk]. destruct (walk f a) as [a' fl1]. destruct (walk f b) as [b' fl2]. cbn [fst] in *.
    node ltac:(apply refines_seq; eauto) (G_seq _ _ Fa' Fb').
  - intros a b d Fa [Ra Fa'] Fb [Rb Fb'] Fd [Rd Fd']. cbn [walk].
    destruct (walk f a) as [a' fl1]. destruct (walk f b) as [b' fl2]. destruct (walk f d) as [d' fl3]. cbn [fst] in *.
    node ltac:(apply refines_cond; eauto) (G_cond _ _ _ Fa' Fb' Fd').
  - intros a Fa [Ra Fa']. cbn [walk]. destruct (walk f a) as [a' fl]. cbn [fst] in *.
    node ltac:(apply refines_paren; eauto) (G_paren _ Fa').
  - intros o p opt Fo [Ro Fo']. cbn [walk]. destruct (walk f o) as [o' fl]. cbn [fst] in *.
    node ltac:(apply refines_member; eauto) (G_member _ p opt Fo').
  - intros o k opt Fo [Ro Fo'] Fk [Rk Fk']. cbn [walk]. destruct (walk f o) as [o' fl1]. destruct (walk f k) as [k' fl2]. cbn [fst] in *.
    node ltac:(apply refines_index; eauto) (G_index _ _ opt Fo' Fk').
  - (* call, identifier callee *) intros x args opt Fa [Ra Fa']. rewrite walk_call_eq. cbn [walk]. rewrite (apply_f_keep (EId x) I).
    destruct (walk_args args) as [args' fl]. cbv beta iota zeta. cbn [fst] in *.
    node ltac:(apply refines_call; [apply crefines_refl | eauto]) (G_call_id x _ opt Fa').
  - (* call, member callee *) intros o p mo args opt Fo [Ro Fo'] Fa [Ra Fa']. rewrite walk_call_eq. cbn [walk]. destruct (walk f o) as [o' fl0]. cbn [fst] in *.
    rewrite (apply_f_keep (EMember o' p mo) I). destruct (walk_args args) as [args' fl]. cbv beta iota zeta. cbn [fst] in *.
    node ltac:(apply refines_call; [apply crefines_member; eauto | eauto]) (G_call_member _ p mo _ opt Fo' Fa').
  - (* call of a parenthesised function expression *) intros i args opt Fa [Ra Fa']. rewrite walk_call_eq. cbn [walk].
    rewrite (apply_f_keep (EFunc i) I). cbv beta iota zeta. rewrite (apply_f_keep (EParen (EFunc i)) I).
    destruct (walk_args args) as [args' fl]. cbv beta iota zeta. cbn [fst] in *.
    node ltac:(apply refines_call; [apply crefines_refl | eauto]) (G_call_fn i _ opt Fa').
  - (* new *) intros g args Fg [Rg Fg'] Fa [Ra Fa']. rewrite walk_new_eq. destruct (walk f g) as [g' fl0]. cbn [fst] in *.
    destruct (walk_args args) as [args' fl]. cbv beta iota zeta. cbn [fst] in *.
    node ltac:(apply refines_new; eauto) (G_new _ _ Fg' Fa').
  - (* array *) intros l Fl [Rl Fl']. rewrite walk_array_eq. destruct (walk_elems l) as [l' fl]. cbv beta iota zeta. cbn [fst] in *.
    node ltac:(apply refines_array; eauto) (G_array _ Fl').
  - (* args *) cbn. split; constructor.
  - intros e t Fe [Re Fe'] Ft [Rt Ft']. rewrite walk_args_cons, walk_arg_eq.
    destruct (walk f e) as [e' f1]. destruct (walk_args t) as [t' f2]. cbn [fst] in *.
    split; constructor; auto. constructor; auto.
  - intros e t Fe [Re Fe'] Ft [Rt Ft']. rewrite walk_args_cons, walk_arg_eq.
    destruct (walk f e) as [e' f1]. destruct (walk_args t) as [t' f2]. cbn [fst] in *.
    split; constructor; auto. constructor; auto.
  - (* elems *) cbn. split; constructor.
  - intros e t Fe [Re Fe'] Ft [Rt Ft']. rewrite walk_elems_cons, walk_elem_eq.
    destruct (walk f e) as [e' f1]. destruct (walk_elems t) as [t' f2]. cbn [fst] in *.
    split; constructor; auto. constructor; auto.
  - intros e t Fe [Re Fe'] Ft [Rt Ft']. rewrite walk_elems_cons, walk_elem_eq.
    destruct (walk f e) as [e' f1]. destruct (walk_elems t) as [t' f2]. cbn [fst] in *.
    split; constructor; auto. constructor; auto.
  - intros t Ft [Rt Ft']. rewrite walk_elems_cons, walk_elem_eq.
    destruct (walk_elems t) as [t' f2]. cbn [fst] in *.
    split; constructor; auto. constructor.
Qed.
End Walk2.

Lemma pass_loop_ok2 : forall f,
  (forall e e', frag2 e -> (f e = Replace e' \/ f e = Modified e') -> refines e e' /\ frag2 e') ->
  (forall e, f e <> Keep -> match e with EUnary _ _ | EDelete _ | EBinary _ _ _ | ELogical _ _ _ | ESeq _ _ => True | _ => False end) ->
  forall n e, frag2 e -> refines e (fst (pass_loop f n e)) /\ frag2 (fst (pass_loop f n e)).
Proof.
  intros f Hf Hfold. induction n as [|k IH]; intros e He; cbn [pass_loop].
  - cbn [fst]. split; [apply refines_refl | exact He].
  - destruct (proj1 (walk_ok2 f Hf Hfold) e He) as [R Fr]. destruct (walk f e) as [e' [ch un]]. cbn [fst] in *.
    destruct ch.
    + destruct (IH e' Fr) as [R2 F2]. destruct (pass_loop f k e') as [e'' un']. cbn [fst] in *.
      split; [eapply frefines_trans; eauto | exact F2].
    + cbn [fst]. split; assumption.
Qed.

Lemma fold_expression_head : forall fixd fixr fixo e, fold_expression fixd fixr fixo e <> Keep ->
  match e with EUnary _ _ | EDelete _ | EBinary _ _ _ | ELogical _ _ _ | ESeq _ _ => True | _ => False end.
Proof.
  intros fixd fixr fixo e H. unfold fold_expression in H. destruct (as_lit e); [congruence|].
  destruct e; try congruence; exact I.
Qed.

Lemma fold_expression_ok2 : forall fixr fixo e e', frag2 e ->
  (fold_expression true fixr fixo e = Replace e' \/ fold_expression true fixr fixo e = Modified e') ->
  refines e e' /\ frag2 e'.
Proof.
  intros fixr fixo e e' He H. unfold fold_expression in H.
  destruct (as_lit e) as [l|] eqn:El; [destruct H; discriminate|].
  destruct e; try (destruct H; discriminate).
  - (* unary *)
    destruct H as [H|H].
    + split; [apply sof_refines; intros; eapply fold_unary_sound_lem; eauto|]. apply frag_frag2.
      unfold fold_unary in H. destruct (as_lit e); try discriminate.
      destruct op; try (destruct (unary_op fold_ops _ _ fold_state); try discriminate; eapply lit_action_frag; eauto).
      inversion H; subst. apply undef_frag.
    + unfold fold_unary in H. destruct (as_lit e); try discriminate.
      destruct op; try discriminate;
        destruct (unary_op fold_ops _ _ fold_state); try discriminate; unfold lit_action in H;
        repeat match type of H with context [match ?x with _ => _ end] => destruct x; try discriminate end.
  - inversion He.
  - (* binary *)
    destruct H as [H|H].
    + split; [apply sof_refines; intros; eapply fold_binary_sound_lem; eauto|]. apply frag_frag2.
      unfold fold_binary in H. destruct (as_lit e1); try discriminate. destruct (as_lit e2); try discriminate.
      cbn [negb andb] in H. unfold fold_binary_core in H.
      destruct op; try discriminate; destruct (binary_op fold_ops _ _ _ fold_state); try discriminate; eapply lit_action_frag; eauto.
    + unfold fold_binary in H. destruct (as_lit e1); try discriminate. destruct (as_lit e2); try discriminate.
      cbn [negb andb] in H. unfold fold_binary_core in H.
      destruct op; try discriminate; destruct (binary_op fold_ops _ _ _ fold_state); try discriminate; unfold lit_action in H;
        repeat match type of H with context [match ?x with _ => _ end] => destruct x; try discriminate end.
  - (* logical *)
    inversion He; subst.
    destruct H as [H|H].
    + split; [apply shifted_refines; intros; eapply logical_sound_lem; eauto|].
      unfold fold_logical in H. destruct (as_lit e1); try discriminate.
      repeat match type of H with context [if ?c then _ else _] => destruct c; try discriminate end; inversion H; subst; assumption.
    + unfold fold_logical in H. destruct (as_lit e1); try discriminate.
      repeat match type of H with context [if ?c then _ else _] => destruct c; try discriminate end.
  - (* comma *)
    inversion He; subst.
    destruct H as [H|H].
    + split; [apply shifted_refines; intros; eapply comma_replace_sound_lem; eauto|].
      unfold fold_comma in H. destruct (as_lit e1) as [la|]; try discriminate.
      destruct (as_lit e2); [inversion H; subst; assumption | destruct la; discriminate].
    + split; [apply late_refines; intros; eapply comma_modified_sound_lem; eauto|].
      unfold fold_comma in H. destruct (as_lit e1) as [la|]; try discriminate.
      destruct (as_lit e2); try discriminate.
      assert (e' = ESeq undef_lit e2) by (destruct la; inversion H; reflexivity). subst.
      constructor; [apply frag_frag2; apply undef_frag | assumption].
Qed.

(* constant folding over the larger fragment *)
Theorem constant_folding_preserves2_lem : forall fixr fixo e, frag2 e ->
  refines e (fst (pass_loop (fold_expression true fixr fixo) MAX_PASS_ITERATIONS e)) /\
  frag2 (fst (pass_loop (fold_expression true fixr fixo) MAX_PASS_ITERATIONS e)).
Proof.
  intros fixr fixo e He.
  apply pass_loop_ok2; [apply fold_expression_ok2 | apply fold_expression_head | exact He].
Qed.
