(* C05 -- executable model of boa's AST optimizer (all files under core/engine/src/optimizer), over the JSRef syntax.

   Transliterated arm by arm from
     optimizer/mod.rs                      Optimizer::{run_constant_folding_pass, run_strength_reduction_pass, run_all,
                                           visit_expression_mut, visit_statement_mut}, MAX_PASS_ITERATIONS
     optimizer/walker.rs                   Walker::visit_expression_mut (post-order, `changed`)
     optimizer/pass/constant_folding.rs    literal_to_js_value, js_value_to_literal_kind, constant_fold_unary_expr,
                                           constant_fold_binary_expr (comma, && || ??, arithmetic/bitwise/relational)
     optimizer/pass/strength_reduction.rs  is_side_effect_free, as_literal_int, try_reduce_div, try_reduce_exp
     optimizer/pass/dead_code_elimination.rs  as_literal_bool, ContainsHoistedDeclarationsVisitor, try_eliminate_{if,while,for}
   plus the Integer32 / Float64 representation choice of value/operations.rs -- it decides whether a folded
   literal is LiteralKind::Int, which as_literal_int looks at.

   Literal kinds boa has and JSRef's syntax has not are encoded in JSRef terms that evaluate identically
   (erasure is the identity, so the soundness theorems are about the very terms the model produces):
     LiteralKind::Undefined            ==  EUnary UVoid ENull        (`void null`; the generator never emits it)
     LiteralKind::Num(v), v an int32   ==  ENum (bits v + 2^64)      (of_bits ignores bits >= 64)
     LiteralKind::Int(i)               ==  ENum (bits i)             (what the lexer gives for every i32-valued literal)
   Folding goes through JSRef's own [unary_op]/[binary_op] at [fold_ops] (fuel 1: primitives only); when the
   operator throws the node is kept; when JSRef cannot compute the result exactly, or boa's fast path would
   overflow (i32::MIN % -1, -i32::MIN), the node is kept and the [unsup] flag is raised: such cases are
   discarded by the correspondence, never compared.

   [o_fix_dce]/[o_fix_exp]/[o_fix_hoist]/[o_fix_div0]/[o_fix_ref]/[o_fix_ovf] select the repaired code of fixes.d/C05-*.patch. *)
From Coq Require Import ZArith NArith PArith List Bool String Floats.SpecFloat.
From JSRef Require Import Float Syntax Values Static Ops Interp Machine Builtins Run.
Import ListNotations.

Record opts := {
  o_cf : bool;          (* OptimizerOptions::CONSTANT_FOLDING *)
  o_sr : bool;          (* STRENGTH_REDUCTION *)
  o_dce : bool;         (* DEAD_CODE_ELIMINATION *)
  o_fix_dce : bool;     (* fixes.d/C05-dce-completion.patch applied *)
  o_fix_exp : bool;     (* fixes.d/C05-exp2-numeric-literal.patch applied *)
  o_fix_hoist : bool;   (* fixes.d/C05-dce-forin-var.patch applied *)
  o_fix_div0 : bool;    (* fixes.d/C05-int-div-negzero.patch applied *)
  o_fix_ref : bool;     (* fixes.d/C05-fold-logical-reference.patch applied *)
  o_fix_ovf : bool;     (* fixes.d/C05-int-overflow-fold.patch applied *)
}.

(* ------------------------------------------------------------------ literals *)
Inductive lit := LStr (s : str) | LNum (f : float) | LInt (z : Z) | LBigInt (z : Z) | LBool (b : bool) | LNull | LUndef.
Inductive repr := RInt | RFlt | ROther.

Definition FLAG : N := 18446744073709551616%N.           (* 2^64 *)
Definition in_i32 (z : Z) : bool := ((-2147483648 <=? z) && (z <=? 2147483647))%Z.
Definition is_i32 (f : float) : bool :=
  is_finite f && is_integer f && negb (is_zero f && sign_of f) && in_i32 (trunc_Z f).

Definition float_eqb (a b : float) : bool :=
  match a, b with
  | S754_zero x, S754_zero y => Bool.eqb x y
  | S754_infinity x, S754_infinity y => Bool.eqb x y
  | S754_nan, S754_nan => true
  | S754_finite s m e, S754_finite s' m' e' => Bool.eqb s s' && Pos.eqb m m' && Z.eqb e e'
  | _, _ => false
  end.

Definition undef_lit : expr := EUnary UVoid ENull.

Definition as_lit (e : expr) : option lit :=
  match e with
  | ENum b => let f := of_bits b in
              if (b <? FLAG)%N && is_i32 f && float_eqb (of_Z (trunc_Z f)) f then Some (LInt (trunc_Z f)) else Some (LNum f)
  | EStr s => Some (LStr s)
  | EBool b => Some (LBool b)
  | ENull => Some LNull
  | EBigInt z => Some (LBigInt z)
  | EUnary UVoid ENull => Some LUndef
  | _ => None
  end.

(* literal_to_js_value *)
Definition lit_value (l : lit) : value :=
  match l with
  | LStr s => VStr s | LNum f => VNum f | LInt z => VNum (of_Z z) | LBigInt z => VBigInt z
  | LBool b => VBool b | LNull => VNull | LUndef => VUndef
  end.
Definition lit_repr (l : lit) : repr := match l with LInt _ => RInt | LNum _ => RFlt | _ => ROther end.

(* js_value_to_literal_kind (objects and symbols are unreachable there) *)
Definition value_lit (v : value) (r : repr) : option lit :=
  match v with
  | VNull => Some LNull | VUndef => Some LUndef | VBool b => Some (LBool b) | VStr s => Some (LStr s)
  | VNum f => match r with
              | RInt => if float_eqb (of_Z (trunc_Z f)) f then Some (LInt (trunc_Z f)) else None
              | _ => Some (LNum f) end
  | VBigInt z => Some (LBigInt z)
  | VSym _ | VObj _ => None
  end.

Definition lit_eqb (a b : lit) : bool :=
  match a, b with
  | LStr x, LStr y => str_eqb x y
  | LNum x, LNum y => float_eqb x y
  | LInt x, LInt y => Z.eqb x y
  | LBigInt x, LBigInt y => Z.eqb x y
  | LBool x, LBool y => Bool.eqb x y
  | LNull, LNull | LUndef, LUndef => true
  | _, _ => false
  end.

(* the literal node for a literal kind; None when the encoding does not read back (then the model
   gives up on the case instead of producing a node it cannot vouch for) *)
Definition lit_expr (l : lit) : option expr :=
  let e := match l with
           | LStr s => EStr s
           | LNum f => if is_i32 f then ENum (to_bits f + FLAG) else ENum (to_bits f)
           | LInt z => ENum (to_bits (of_Z z))
           | LBigInt z => EBigInt z
           | LBool b => EBool b
           | LNull => ENull
           | LUndef => undef_lit
           end in
  match as_lit e with
  | Some l' => if lit_eqb l' l then Some e else None
  | None => None
  end.

(* ------------------------------------------------------------------ pass actions *)
Inductive action := Keep | Modified (e : expr) | Replace (e : expr) | Unsup.

Definition flags := (bool * bool)%type.                 (* (changed, unsupported-by-the-model) *)
Definition F0 : flags := (false, false).
Definition fo (a b : flags) : flags := (fst a || fst b, snd a || snd b).

(* ------------------------------------------------------------------ constant folding *)
Definition empty_prog : prog := {| p_funcs := []; p_classes := []; p_body := []; p_strict := false |}.
Definition fold_ops : ops := mk empty_prog 1.
Definition fold_state : state := empty_state.

(* Integer32 / Float64 choice of JsValue::{neg, to_number, Number::not}; None: boa's arithmetic overflows *)
Definition repr_unary (fixo : bool) (op : unop) (l : lit) : option repr :=
  match op with
  | UNeg => match l with
            | LInt 0 => Some RFlt
            | LInt z => if (z =? -2147483648)%Z then (if fixo then Some RFlt else None) else Some RInt
            | LBool true => Some RInt
            | _ => Some RFlt
            end
  | UPos => Some RFlt
  | UBitNot => Some RInt
  | _ => Some ROther
  end.

(* Integer32 / Float64 choice of JsValue::{add,sub,mul,div,rem,pow,bit*,sh*,ushr} fast paths; [res] is the numeric result *)
Definition repr_binary (fixo : bool) (op : binop) (la lb : lit) (res : float) : option repr :=
  match op with
  | BAdd | BSub | BMul | BDiv | BMod | BExp =>
      match la, lb with
      | LInt x, LInt y =>
          match op with
          | BAdd => Some (if in_i32 (x + y) then RInt else RFlt)
          | BSub => Some (if in_i32 (x - y) then RInt else RFlt)
          | BMul => Some (if in_i32 (x * y) && negb ((x * y =? 0)%Z && (Z.min x y <? 0)%Z) then RInt else RFlt)
          | BDiv => Some (if (y =? 0)%Z || ((x =? -2147483648)%Z && (y =? -1)%Z) || ((x =? 0)%Z && (y <? 0)%Z) then RFlt
                          else if (y * Z.quot x y =? x)%Z then RInt else RFlt)
          | BMod => if (y =? 0)%Z then Some RFlt
                    else if (x =? -2147483648)%Z && (y =? -1)%Z then (if fixo then Some RFlt else None)
                    else Some (if (Z.rem x y =? 0)%Z && (x <? 0)%Z then RFlt else RInt)
          | _ => (* BExp: u32::try_from(y).ok().and_then(|y| x.checked_pow(y)) *)
                 Some (if (y <? 0)%Z then RFlt
                       else if (Z.abs x <=? 1)%Z then RInt
                       else if (y <=? 31)%Z then (if in_i32 (x ^ y) then RInt else RFlt)
                       else RFlt)
          end
      | _, _ => Some RFlt
      end
  | BBitAnd | BBitOr | BBitXor | BShl | BShr | BUShr => Some (if is_i32 res then RInt else RFlt)
  | _ => Some ROther
  end.

Definition lit_action (v : value) (r : option repr) : action :=
  match r with
  | None => Unsup
  | Some r' => match value_lit v r' with
               | Some l => match lit_expr l with Some e => Replace e | None => Unsup end
               | None => Unsup
               end
  end.

(* constant_fold_unary_expr; boa's UnaryOp::Delete is JSRef's EDelete, see fold_delete *)
Definition fold_unary (fixo : bool) (op : unop) (t : expr) : action :=
  match as_lit t with
  | None => Keep
  | Some l =>
      match op with
      | UVoid => Replace undef_lit
      | _ =>
          match unary_op fold_ops op (lit_value l) fold_state with
          | ROk v _ => lit_action v (repr_unary fixo op l)
          | RThrow _ _ => Keep                    (* "If it fails then revert changes" *)
          | _ => Unsup
          end
      end
  end.

Definition fold_delete (t : expr) : action :=
  match as_lit t with Some _ => Replace (EBool true) | None => Keep end.

(* constant_fold_binary_expr, BinaryOp::Comma arm (JSRef: ESeq) *)
Definition fold_comma (a b : expr) : action :=
  match as_lit a with
  | None => Keep
  | Some la =>
      match as_lit b with
      | None => match la with LUndef => Keep | _ => Modified (ESeq undef_lit b) end
      | Some _ => Replace b
      end
  end.

(* constant_fold_binary_expr, BinaryOp::Logical arm (JSRef: ELogical).
   [fixr] (fixes.d/C05-fold-logical-reference.patch): the surviving right operand is not unwrapped when it is
   a reference (identifier, property access, optional chain, possibly parenthesized). *)
Fixpoint flatten (e : expr) : expr := match e with EParen a => flatten a | _ => e end.
Definition is_reference (e : expr) : bool :=
  match flatten e with
  | EId _ | EMember _ _ _ | EIndex _ _ _ | ESuperMember _ | ESuperIndex _ | EOptChain _ => true
  | _ => false
  end.

Definition fold_logical (fixr : bool) (op : logop) (a b : expr) : action :=
  match as_lit a with
  | None => Keep
  | Some la =>
      let v := lit_value la in
      let keep_rhs := match op with
                      | LAnd => to_boolean v
                      | LOr => negb (to_boolean v)
                      | LCoalesce => nullish v
                      end in
      if keep_rhs then (if fixr && is_reference b then Keep else Replace b) else Replace a
  end.

(* constant_fold_binary_expr, arithmetic / bitwise / relational arms *)
Definition fold_binary_core (fixo : bool) (op : binop) (la lb : lit) : action :=
  match op with
  | BIn | BInstanceof => Keep
  | _ =>
      match binary_op fold_ops op (lit_value la) (lit_value lb) fold_state with
      | ROk v _ => lit_action v (match v with VNum f => repr_binary fixo op la lb f | _ => Some ROther end)
      | RThrow _ _ => Keep
      | _ => Unsup
      end
  end.

(* JsValue::div, Integer32 fast path of the unrepaired code: `0 / -n` gives the integer 0, not -0 *)
Definition int_div_negzero (op : binop) (la lb : lit) : bool :=
  match op, la, lb with
  | BDiv, LInt 0, LInt y => (y <? 0)%Z
  | _, _, _ => false
  end.

Definition fold_binary (fixd fixo : bool) (op : binop) (a b : expr) : action :=
  match as_lit a with
  | None => Keep
  | Some la =>
      match as_lit b with
      | None => Keep
      | Some lb =>
          if negb fixd && int_div_negzero op la lb then lit_action (VNum (of_Z 0)) (Some RInt)
          else fold_binary_core fixo op la lb
      end
  end.

(* ConstantFolding::fold_expression *)
Definition fold_expression (fixd fixr fixo : bool) (e : expr) : action :=
  match as_lit e with
  | Some _ => Keep                                 (* Expression::Literal *)
  | None =>
      match e with
      | EUnary op t => fold_unary fixo op t
      | EDelete t => fold_delete t
      | EBinary op a b => fold_binary fixd fixo op a b
      | ELogical op a b => fold_logical fixr op a b
      | ESeq a b => fold_comma a b
      | _ => Keep
      end
  end.

(* ------------------------------------------------------------------ strength reduction *)
Definition as_literal_int (e : expr) : option Z := match as_lit e with Some (LInt z) => Some z | _ => None end.

Definition is_side_effect_free (fixed : bool) (e : expr) : bool :=
  if fixed then match as_lit e with Some (LNum _) | Some (LInt _) => true | _ => false end
  else match as_lit e with
       | Some _ => true
       | None => match e with EId _ => true | _ => false end
       end.

Definition HALF : expr := ENum 4602678819172646912%N.   (* 0x3FE0000000000000 = 0.5 *)

Definition try_reduce_div (a b : expr) : action :=
  match as_literal_int b with
  | Some 2%Z => Replace (EBinary BMul a HALF)
  | _ => Keep
  end.

Definition try_reduce_exp (fixed : bool) (a b : expr) : action :=
  match as_literal_int b with
  | Some 2%Z => if is_side_effect_free fixed a then Replace (EBinary BMul a a) else Keep
  | _ => Keep
  end.

(* StrengthReduction::reduce_expression *)
Definition reduce_expression (fixed : bool) (e : expr) : action :=
  match as_lit e with
  | Some _ => Keep
  | None =>
      match e with
      | EBinary BExp a b => try_reduce_exp fixed a b
      | EBinary BDiv a b => try_reduce_div a b
      | _ => Keep
      end
  end.

(* ------------------------------------------------------------------ the walker (post-order) *)
Section Walk.
Variable f : expr -> action.

Definition apply_f (e : expr) : expr * flags :=
  match f e with
  | Keep => (e, F0)
  | Modified e' | Replace e' => (e', (true, false))
  | Unsup => (e, (false, true))
  end.

Fixpoint walk (e : expr) : expr * flags :=
  let '(e1, fl1) :=
    match e with
    | ENum _ | EStr _ | EBool _ | ENull | EBigInt _ | EId _ | EThis | ENewTarget | EFunc _ | EClass _ | ESuperMember _ => (e, F0)
    | EArray elems =>
        let '(l, fl) := (fix go (l : list arr_elem) : list arr_elem * flags :=
                           match l with [] => ([], F0) | x :: t => let '(x', f1) := walk_elem x in let '(t', f2) := go t in (x' :: t', fo f1 f2) end) elems in
        (EArray l, fl)
    | EObject props =>
        let '(l, fl) := (fix go (l : list propdef) : list propdef * flags :=
                           match l with [] => ([], F0) | x :: t => let '(x', f1) := walk_prop x in let '(t', f2) := go t in (x' :: t', fo f1 f2) end) props in
        (EObject l, fl)
    | EUnary op a => let '(a', fl) := walk a in (EUnary op a', fl)
    | EDelete a => let '(a', fl) := walk a in (EDelete a', fl)
    | EBinary op a b => let '(a', f1) := walk a in let '(b', f2) := walk b in (EBinary op a' b', fo f1 f2)
    | ELogical op a b => let '(a', f1) := walk a in let '(b', f2) := walk b in (ELogical op a' b', fo f1 f2)
    | EAssign t a => let '(t', f1) := walk_pat t in let '(a', f2) := walk a in (EAssign t' a', fo f1 f2)
    | EOpAssign op t a => let '(t', f1) := walk t in let '(a', f2) := walk a in (EOpAssign op t' a', fo f1 f2)
    | ELogAssign op t a => let '(t', f1) := walk t in let '(a', f2) := walk a in (ELogAssign op t' a', fo f1 f2)
    | EUpdate p i t => let '(t', fl) := walk t in (EUpdate p i t', fl)
    | ECond a b d => let '(a', f1) := walk a in let '(b', f2) := walk b in let '(d', f3) := walk d in (ECond a' b' d', fo f1 (fo f2 f3))
    | ECall g args o =>
        let '(g', f1) := walk g in
        let '(l, f2) := (fix go (l : list Syntax.arg) : list Syntax.arg * flags :=
                           match l with [] => ([], F0) | x :: t => let '(x', f1) := walk_arg x in let '(t', f2) := go t in (x' :: t', fo f1 f2) end) args in
        (ECall g' l o, fo f1 f2)
    | ENew g args =>
        let '(g', f1) := walk g in
        let '(l, f2) := (fix go (l : list Syntax.arg) : list Syntax.arg * flags :=
                           match l with [] => ([], F0) | x :: t => let '(x', f1) := walk_arg x in let '(t', f2) := go t in (x' :: t', fo f1 f2) end) args in
        (ENew g' l, fo f1 f2)
    | EMember o p opt => let '(o', fl) := walk o in (EMember o' p opt, fl)
    | EIndex o k opt => let '(o', f1) := walk o in let '(k', f2) := walk k in (EIndex o' k' opt, fo f1 f2)
    | ESuperIndex k => let '(k', fl) := walk k in (ESuperIndex k', fl)
    | ESuperCall args =>
        let '(l, f2) := (fix go (l : list Syntax.arg) : list Syntax.arg * flags :=
                           match l with [] => ([], F0) | x :: t => let '(x', f1) := walk_arg x in let '(t', f2) := go t in (x' :: t', fo f1 f2) end) args in
        (ESuperCall l, f2)
    | ESeq a b => let '(a', f1) := walk a in let '(b', f2) := walk b in (ESeq a' b', fo f1 f2)
    | ETemplate strs es =>
        let '(l, fl) := (fix go (l : list expr) : list expr * flags :=
                           match l with [] => ([], F0) | x :: t => let '(x', f1) := walk x in let '(t', f2) := go t in (x' :: t', fo f1 f2) end) es in
        (ETemplate strs l, fl)
    | EParen a => let '(a', fl) := walk a in (EParen a', fl)
    | EOptChain a => let '(a', fl) := walk a in (EOptChain a', fl)
    end in
  let '(e2, fl2) := apply_f e1 in (e2, fo fl1 fl2)
with walk_elem (x : arr_elem) : arr_elem * flags :=
  match x with
  | AElem e => let '(e', fl) := walk e in (AElem e', fl)
  | ASpread e => let '(e', fl) := walk e in (ASpread e', fl)
  | AHole => (AHole, F0)
  end
with walk_arg (x : Syntax.arg) : Syntax.arg * flags :=
  match x with
  | Arg e => let '(e', fl) := walk e in (Arg e', fl)
  | ArgSpread e => let '(e', fl) := walk e in (ArgSpread e', fl)
  end
with walk_key (k : propkey) : propkey * flags :=
  match k with
  | PKComputed e => let '(e', fl) := walk e in (PKComputed e', fl)
  | _ => (k, F0)
  end
with walk_prop (p : propdef) : propdef * flags :=
  match p with
  | PInit k e => let '(k', f1) := walk_key k in let '(e', f2) := walk e in (PInit k' e', fo f1 f2)
  | PMethod k i => let '(k', f1) := walk_key k in (PMethod k' i, f1)
  | PGet k i => let '(k', f1) := walk_key k in (PGet k' i, f1)
  | PSet k i => let '(k', f1) := walk_key k in (PSet k' i, f1)
  | PSpread e => let '(e', fl) := walk e in (PSpread e', fl)
  | PProto e => let '(e', fl) := walk e in (PProto e', fl)
  end
with walk_pat (p : pat) : pat * flags :=
  match p with
  | PId _ => (p, F0)
  | PExpr e => let '(e', fl) := walk e in (PExpr e', fl)
  | PObj props rest =>
      let '(l, f1) := (fix go (l : list (propkey * pat * option expr)) : list (propkey * pat * option expr) * flags :=
                         match l with
                         | [] => ([], F0)
                         | (k, q, d) :: t =>
                             let '(k', f1) := walk_key k in
                             let '(q', f2) := walk_pat q in
                             let '(d', f3) := match d with Some e => let '(e', fl) := walk e in (Some e', fl) | None => (None, F0) end in
                             let '(t', f4) := go t in ((k', q', d') :: t', fo f1 (fo f2 (fo f3 f4)))
                         end) props in
      let '(r', f2) := match rest with Some r => let '(r', fl) := walk_pat r in (Some r', fl) | None => (None, F0) end in
      (PObj l r', fo f1 f2)
  | PArr elems rest =>
      let '(l, f1) := (fix go (l : list (option (pat * option expr))) : list (option (pat * option expr)) * flags :=
                         match l with
                         | [] => ([], F0)
                         | None :: t => let '(t', f4) := go t in (None :: t', f4)
                         | Some (q, d) :: t =>
                             let '(q', f2) := walk_pat q in
                             let '(d', f3) := match d with Some e => let '(e', fl) := walk e in (Some e', fl) | None => (None, F0) end in
                             let '(t', f4) := go t in (Some (q', d') :: t', fo f2 (fo f3 f4))
                         end) elems in
      let '(r', f2) := match rest with Some r => let '(r', fl) := walk_pat r in (Some r', fl) | None => (None, F0) end in
      (PArr l r', fo f1 f2)
  end.

(* for _ in 0..MAX_PASS_ITERATIONS { walk; if !changed { break } } -- returns the tree and the unsupported flag *)
Fixpoint pass_loop (n : nat) (e : expr) : expr * bool :=
  match n with
  | O => (e, false)
  | Datatypes.S k =>
      let '(e', (ch, un)) := walk e in
      if ch then let '(e'', un') := pass_loop k e' in (e'', un || un') else (e', un)
  end.
End Walk.

Definition MAX_PASS_ITERATIONS : nat := 10.

(* Optimizer::run_all *)
Definition run_all (o : opts) (e : expr) : expr * bool :=
  let '(e1, u1) := if o_cf o then pass_loop (fold_expression (o_fix_div0 o) (o_fix_ref o) (o_fix_ovf o)) MAX_PASS_ITERATIONS e else (e, false) in
  let '(e2, u2) := if o_sr o then pass_loop (reduce_expression (o_fix_exp o)) MAX_PASS_ITERATIONS e1 else (e1, false) in
  (e2, u1 || u2).

(* ------------------------------------------------------------------ maximal expressions inside patterns / keys *)
Section MapX.
Variable g : expr -> expr * bool.
Definition mapx_opt (d : option expr) : option expr * bool :=
  match d with Some e => let '(e', u) := g e in (Some e', u) | None => (None, false) end.
Definition mapx_key (k : propkey) : propkey * bool :=
  match k with PKComputed e => let '(e', u) := g e in (PKComputed e', u) | _ => (k, false) end.
Fixpoint mapx_pat (p : pat) : pat * bool :=
  match p with
  | PId _ => (p, false)
  | PExpr e => let '(e', u) := g e in (PExpr e', u)
  | PObj props rest =>
      let '(l, u1) := (fix go (l : list (propkey * pat * option expr)) : list (propkey * pat * option expr) * bool :=
                         match l with
                         | [] => ([], false)
                         | (k, q, d) :: t =>
                             let '(k', a) := mapx_key k in let '(q', b) := mapx_pat q in let '(d', c) := mapx_opt d in
                             let '(t', r) := go t in ((k', q', d') :: t', a || b || c || r)
                         end) props in
      let '(r', u2) := match rest with Some r => let '(r', u) := mapx_pat r in (Some r', u) | None => (None, false) end in
      (PObj l r', u1 || u2)
  | PArr elems rest =>
      let '(l, u1) := (fix go (l : list (option (pat * option expr))) : list (option (pat * option expr)) * bool :=
                         match l with
                         | [] => ([], false)
                         | None :: t => let '(t', r) := go t in (None :: t', r)
                         | Some (q, d) :: t =>
                             let '(q', b) := mapx_pat q in let '(d', c) := mapx_opt d in
                             let '(t', r) := go t in (Some (q', d') :: t', b || c || r)
                         end) elems in
      let '(r', u2) := match rest with Some r => let '(r', u) := mapx_pat r in (Some r', u) | None => (None, false) end in
      (PArr l r', u1 || u2)
  end.
Fixpoint mapx_decls (ds : list (pat * option expr)) : list (pat * option expr) * bool :=
  match ds with
  | [] => ([], false)
  | (p, d) :: t => let '(p', a) := mapx_pat p in let '(d', b) := mapx_opt d in let '(t', c) := mapx_decls t in ((p', d') :: t', a || b || c)
  end.
End MapX.

(* ------------------------------------------------------------------ references into the function / class tables *)
Inductive ref := RF (i : nat) | RC (i : nat).

Fixpoint refs_expr (e : expr) : list ref :=
  match e with
  | ENum _ | EStr _ | EBool _ | ENull | EBigInt _ | EId _ | EThis | ENewTarget | ESuperMember _ => []
  | EFunc i => [RF i]
  | EClass i => [RC i]
  | EArray elems => (fix go (l : list arr_elem) : list ref := match l with [] => [] | x :: t => refs_elem x ++ go t end) elems
  | EObject props => (fix go (l : list propdef) : list ref := match l with [] => [] | x :: t => refs_prop x ++ go t end) props
  | EUnary _ a | EDelete a | EUpdate _ _ a | EMember a _ _ | ESuperIndex a | EParen a | EOptChain a => refs_expr a
  | EBinary _ a b | ELogical _ a b | EOpAssign _ a b | ELogAssign _ a b | EIndex a b _ | ESeq a b => refs_expr a ++ refs_expr b
  | EAssign t a => refs_pat t ++ refs_expr a
  | ECond a b d => refs_expr a ++ refs_expr b ++ refs_expr d
  | ECall g args _ | ENew g args => refs_expr g ++ (fix go (l : list Syntax.arg) : list ref := match l with [] => [] | x :: t => refs_arg x ++ go t end) args
  | ESuperCall args => (fix go (l : list Syntax.arg) : list ref := match l with [] => [] | x :: t => refs_arg x ++ go t end) args
  | ETemplate _ es => (fix go (l : list expr) : list ref := match l with [] => [] | x :: t => refs_expr x ++ go t end) es
  end
with refs_elem (x : arr_elem) : list ref := match x with AElem e | ASpread e => refs_expr e | AHole => [] end
with refs_arg (x : Syntax.arg) : list ref := match x with Arg e | ArgSpread e => refs_expr e end
with refs_key (k : propkey) : list ref := match k with PKComputed e => refs_expr e | _ => [] end
with refs_prop (p : propdef) : list ref :=
  match p with
  | PInit k e => refs_key k ++ refs_expr e
  | PMethod k i | PGet k i | PSet k i => refs_key k ++ [RF i]
  | PSpread e | PProto e => refs_expr e
  end
with refs_pat (p : pat) : list ref :=
  match p with
  | PId _ => []
  | PExpr e => refs_expr e
  | PObj props rest =>
      (fix go (l : list (propkey * pat * option expr)) : list ref :=
         match l with [] => [] | (k, q, d) :: t => refs_key k ++ refs_pat q ++ (match d with Some e => refs_expr e | None => [] end) ++ go t end) props
      ++ match rest with Some r => refs_pat r | None => [] end
  | PArr elems rest =>
      (fix go (l : list (option (pat * option expr))) : list ref :=
         match l with [] => [] | None :: t => go t
                    | Some (q, d) :: t => refs_pat q ++ (match d with Some e => refs_expr e | None => [] end) ++ go t end) elems
      ++ match rest with Some r => refs_pat r | None => [] end
  end.

Definition refs_oexpr (o : option expr) : list ref := match o with Some e => refs_expr e | None => [] end.
Definition refs_opat (o : option pat) : list ref := match o with Some p => refs_pat p | None => [] end.
Definition refs_decls (ds : list (pat * option expr)) : list ref := flat_map (fun d => refs_pat (fst d) ++ refs_oexpr (snd d)) ds.
Definition refs_head (h : for_head) : list ref := match h with FHDecl _ p | FHPat p => refs_pat p end.

(* (inside an expression?, reference): declarations are reached by the statement visitor, the rest by the walker *)
Definition inx (l : list ref) : list (bool * ref) := map (fun r => (true, r)) l.

Fixpoint srefs (s : stmt) : list (bool * ref) :=
  match s with
  | SExpr e | SThrow e | SReturnAwait e => inx (refs_expr e)
  | SDecl _ ds => inx (refs_decls ds)
  | SFunDecl _ i => [(false, RF i)]
  | SClassDecl _ i => [(false, RC i)]
  | SBlock b => flat_map srefs b
  | SIf c t f => inx (refs_expr c) ++ srefs t ++ match f with Some f' => srefs f' | None => [] end
  | SFor init c u b =>
      inx (match init with FINone => [] | FIExpr e => refs_expr e | FIDecl _ ds => refs_decls ds end ++ refs_oexpr c ++ refs_oexpr u) ++ srefs b
  | SForIn h e b | SForOf h e b => inx (refs_head h ++ refs_expr e) ++ srefs b
  | SWhile c b => inx (refs_expr c) ++ srefs b
  | SDoWhile b c => srefs b ++ inx (refs_expr c)
  | SSwitch d cases => inx (refs_expr d) ++ flat_map (fun c => inx (refs_oexpr (fst c)) ++ flat_map srefs (snd c)) cases
  | SLabel _ b => srefs b
  | SBreak _ | SContinue _ | SEmpty => []
  | SReturn e => inx (refs_oexpr e)
  | STry b h f => flat_map srefs b ++
                  match h with Some (p, hb) => inx (refs_opat p) ++ flat_map srefs hb | None => [] end ++
                  match f with Some fb => flat_map srefs fb | None => [] end
  | SWith o b => inx (refs_expr o) ++ srefs b
  | SYield t _ e _ => inx (refs_opat t ++ refs_oexpr e)
  | SAwait t _ e => inx (refs_opat t ++ refs_expr e)
  | SDirectEval t _ _ => inx (refs_opat t)          (* the source text is an opaque string literal for the optimizer *)
  end.

Definition func_refs (f : func) : list (bool * ref) :=
  inx (flat_map (fun pd => refs_pat (fst pd) ++ refs_oexpr (snd pd)) (f_params f) ++ refs_opat (f_rest f) ++ refs_oexpr (f_expr_body f))
  ++ flat_map srefs (f_body f).

Definition class_refs (c : classdef) : list (bool * ref) :=
  inx (refs_oexpr (c_heritage c)) ++
  (match c_ctor c with Some i => [(false, RF i)] | None => [] end) ++
  flat_map (fun m => inx (refs_key (cm_key m)) ++ match cm_fidx m with Some i => [(false, RF i)] | None => [] end) (c_members c).

(* ------------------------------------------------------------------ dead code elimination *)
Definition as_literal_bool (e : expr) : option bool := match e with EBool b => Some b | _ => None end.

(* ContainsHoistedDeclarationsVisitor restricted to one function body: var / function declarations.
   for-in/of heads with `var` are IterableLoopInitializer::Var(Variable), not a VarDeclaration: the visitor
   does not see them (repaired by fixes.d/C05-dce-forin-var.patch, [fixh]). *)
Section Hoist.
Variable fixh : bool.
Fixpoint shallow_hoisted (s : stmt) : bool :=
  match s with
  | SDecl KVar _ => true
  | SFunDecl _ _ => true
  | SBlock b => existsb shallow_hoisted b
  | SIf _ t f => shallow_hoisted t || match f with Some f' => shallow_hoisted f' | None => false end
  | SFor init _ _ b => (match init with FIDecl KVar _ => true | _ => false end) || shallow_hoisted b
  | SForIn h _ b | SForOf h _ b => (fixh && match h with FHDecl KVar _ => true | _ => false end) || shallow_hoisted b
  | SWhile _ b | SDoWhile b _ | SLabel _ b | SWith _ b => shallow_hoisted b
  | SSwitch _ cases => existsb (fun c => existsb shallow_hoisted (snd c)) cases
  | STry b h f => existsb shallow_hoisted b ||
                  (match h with Some (_, hb) => existsb shallow_hoisted hb | None => false end) ||
                  (match f with Some fb => existsb shallow_hoisted fb | None => false end)
  | SYield _ (Some KVar) _ _ | SAwait _ (Some KVar) _ => true
  | _ => false
  end.

(* the visitor also descends into nested function and class bodies *)
Fixpoint reach_hoisted (P : prog) (fuel : nat) (rs : list (bool * ref)) : bool :=
  match fuel with
  | O => false
  | Datatypes.S k =>
      existsb (fun r => match snd r with
                        | RF i => match nth_error (p_funcs P) i with
                                  | Some f => existsb shallow_hoisted (f_body f) || reach_hoisted P k (func_refs f)
                                  | None => false end
                        | RC i => match nth_error (p_classes P) i with
                                  | Some c => reach_hoisted P k (class_refs c)
                                  | None => false end
                        end) rs
  end.

Definition contains_hoisted (P : prog) (s : stmt) : bool :=
  shallow_hoisted s || reach_hoisted P (Datatypes.S (List.length (p_funcs P) + List.length (p_classes P))) (srefs s).
End Hoist.

(* fixes.d/C05-dce-completion.patch: a statement may replace `if (true) s` only when every completion of s
   carries a value (UpdateEmpty(_, undefined) is then the identity) *)
Fixpoint always_has_value (s : stmt) : bool :=
  match s with
  | SExpr _ => true
  | SBlock (s1 :: _) => always_has_value s1
  | _ => false
  end.
Definition undef_stmt : stmt := SExpr undef_lit.

Inductive saction := SKeep | SReplace (s : stmt).

Definition try_eliminate_if (o : opts) (P : prog) (c : expr) (t : stmt) (f : option stmt) : saction :=
  match as_literal_bool c with
  | None => SKeep
  | Some true =>
      if match f with Some alt => contains_hoisted (o_fix_hoist o) P alt | None => false end then SKeep
      else if o_fix_dce o && negb (always_has_value t) then SKeep
      else SReplace t
  | Some false =>
      if contains_hoisted (o_fix_hoist o) P t then SKeep
      else match f with
           | Some alt => if o_fix_dce o && negb (always_has_value alt) then SKeep else SReplace alt
           | None => SReplace (if o_fix_dce o then undef_stmt else SEmpty)
           end
  end.

Definition try_eliminate_while (o : opts) (P : prog) (c : expr) (b : stmt) : saction :=
  match as_literal_bool c with
  | Some false => if contains_hoisted (o_fix_hoist o) P b then SKeep else SReplace (if o_fix_dce o then undef_stmt else SEmpty)
  | _ => SKeep
  end.

Definition try_eliminate_for (o : opts) (P : prog) (init : for_init) (c : option expr) (b : stmt) : saction :=
  match c with
  | None => SKeep
  | Some ce =>
      match as_literal_bool ce with
      | Some false =>
          if contains_hoisted (o_fix_hoist o) P b then SKeep
          else match init with
               | FINone => SReplace (if o_fix_dce o then undef_stmt else SEmpty)
               | _ => SKeep
               end
      | _ => SKeep
      end
  end.

(* ------------------------------------------------------------------ the statement visitor *)
Section Stmts.
Variable o : opts.
Variable P : prog.            (* the unoptimized program: the hoisting visitor looks into nested bodies *)
Variable full : bool.         (* true: Optimizer::visit_statement_mut (with DCE); false: reached through the Walker only *)

Definition ox (e : expr) : expr * bool := run_all o e.
Definition ox_opt := mapx_opt ox.

Definition dce (s : stmt) : stmt :=
  if full && o_dce o then
    match s with
    | SIf c t f => match try_eliminate_if o P c t f with SReplace s' => s' | SKeep => s end
    | SWhile c b => match try_eliminate_while o P c b with SReplace s' => s' | SKeep => s end
    | SFor i c u b => match try_eliminate_for o P i c b with SReplace s' => s' | SKeep => s end
    | _ => s
    end
  else s.

Definition opt_head (h : for_head) : for_head * bool :=
  match h with
  | FHDecl k p => let '(p', u) := mapx_pat ox p in (FHDecl k p', u)
  | FHPat p => let '(p', u) := mapx_pat ox p in (FHPat p', u)
  end.

Fixpoint opt_stmt (s : stmt) : stmt * bool :=
  let '(s1, u) :=
    match s with
    | SExpr e => let '(e', u) := ox e in (SExpr e', u)
    | SDecl k ds => let '(ds', u) := mapx_decls ox ds in (SDecl k ds', u)
    | SFunDecl _ _ | SClassDecl _ _ | SBreak _ | SContinue _ | SEmpty => (s, false)
    | SBlock b =>
        let '(b', u) := (fix go (l : list stmt) : list stmt * bool :=
                           match l with [] => ([], false) | x :: t => let '(x', a) := opt_stmt x in let '(t', r) := go t in (x' :: t', a || r) end) b in
        (SBlock b', u)
    | SIf c t f =>
        let '(c', a) := ox c in let '(t', b) := opt_stmt t in
        let '(f', d) := match f with Some f0 => let '(f1, d) := opt_stmt f0 in (Some f1, d) | None => (None, false) end in
        (SIf c' t' f', a || b || d)
    | SFor init c u b =>
        let '(init', a) := match init with
                           | FINone => (FINone, false)
                           | FIExpr e => let '(e', a) := ox e in (FIExpr e', a)
                           | FIDecl k ds => let '(ds', a) := mapx_decls ox ds in (FIDecl k ds', a)
                           end in
        let '(c', b1) := ox_opt c in let '(u', b2) := ox_opt u in let '(b', b3) := opt_stmt b in
        (SFor init' c' u' b', a || b1 || b2 || b3)
    | SForIn h e b => let '(h', a) := opt_head h in let '(e', b1) := ox e in let '(b', b2) := opt_stmt b in (SForIn h' e' b', a || b1 || b2)
    | SForOf h e b => let '(h', a) := opt_head h in let '(e', b1) := ox e in let '(b', b2) := opt_stmt b in (SForOf h' e' b', a || b1 || b2)
    | SWhile c b => let '(c', a) := ox c in let '(b', b1) := opt_stmt b in (SWhile c' b', a || b1)
    | SDoWhile b c => let '(b', b1) := opt_stmt b in let '(c', a) := ox c in (SDoWhile b' c', a || b1)
    | SSwitch d cases =>
        let '(d', a) := ox d in
        let '(cs, b) := (fix go (l : list (option expr * list stmt)) : list (option expr * list stmt) * bool :=
                           match l with
                           | [] => ([], false)
                           | (ce, body) :: t =>
                               let '(ce', a) := ox_opt ce in
                               let '(body', b) := (fix gb (l : list stmt) : list stmt * bool :=
                                                     match l with [] => ([], false) | x :: t => let '(x', a) := opt_stmt x in let '(t', r) := gb t in (x' :: t', a || r) end) body in
                               let '(t', r) := go t in ((ce', body') :: t', a || b || r)
                           end) cases in
        (SSwitch d' cs, a || b)
    | SLabel l b => let '(b', u) := opt_stmt b in (SLabel l b', u)
    | SReturn e => let '(e', u) := ox_opt e in (SReturn e', u)
    | SThrow e => let '(e', u) := ox e in (SThrow e', u)
    | STry b h f =>
        let gl := (fix gb (l : list stmt) : list stmt * bool :=
                     match l with [] => ([], false) | x :: t => let '(x', a) := opt_stmt x in let '(t', r) := gb t in (x' :: t', a || r) end) in
        let '(b', a) := gl b in
        let '(h', b1) := match h with
                         | Some (p, hb) =>
                             let '(p', a) := match p with Some p0 => let '(p1, a) := mapx_pat ox p0 in (Some p1, a) | None => (None, false) end in
                             let '(hb', b) := gl hb in (Some (p', hb'), a || b)
                         | None => (None, false) end in
        let '(f', b2) := match f with Some fb => let '(fb', b) := gl fb in (Some fb', b) | None => (None, false) end in
        (STry b' h' f', a || b1 || b2)
    | SWith oe b => let '(oe', a) := ox oe in let '(b', b1) := opt_stmt b in (SWith oe' b', a || b1)
    | SYield t k e d =>
        let '(t', a) := match t with Some p0 => let '(p1, a) := mapx_pat ox p0 in (Some p1, a) | None => (None, false) end in
        let '(e', b) := ox_opt e in (SYield t' k e' d, a || b)
    | SAwait t k e =>
        let '(t', a) := match t with Some p0 => let '(p1, a) := mapx_pat ox p0 in (Some p1, a) | None => (None, false) end in
        let '(e', b) := ox e in (SAwait t' k e', a || b)
    | SReturnAwait e => let '(e', u) := ox e in (SReturnAwait e', u)
    | SDirectEval t body sb =>
        let '(t', a) := match t with Some p0 => let '(p1, a) := mapx_pat ox p0 in (Some p1, a) | None => (None, false) end in
        (SDirectEval t' body sb, a)
    end in
  (dce s1, u).

Fixpoint opt_stmts (l : list stmt) : list stmt * bool :=
  match l with [] => ([], false) | x :: t => let '(x', a) := opt_stmt x in let '(t', r) := opt_stmts t in (x' :: t', a || r) end.

Definition opt_func (f : func) : func * bool :=
  let '(ps, a) := mapx_decls ox (f_params f) in
  let '(r, b) := match f_rest f with Some p => let '(p', b) := mapx_pat ox p in (Some p', b) | None => (None, false) end in
  let '(body, c) := opt_stmts (f_body f) in
  let '(eb, d) := ox_opt (f_expr_body f) in
  ({| f_name := f_name f; f_kind := f_kind f; f_params := ps; f_rest := r; f_body := body; f_expr_body := eb;
      f_strict := f_strict f; f_uses_args := f_uses_args f |}, a || b || c || d).

Definition opt_class (c : classdef) : classdef * bool :=
  let '(h, a) := ox_opt (c_heritage c) in
  let '(ms, b) := (fix go (l : list class_member) : list class_member * bool :=
                     match l with
                     | [] => ([], false)
                     | m :: t =>
                         let '(k, a) := mapx_key ox (cm_key m) in
                         let '(t', r) := go t in
                         ({| cm_static := cm_static m; cm_kind := cm_kind m; cm_key := k; cm_fidx := cm_fidx m |} :: t', a || r)
                     end) (c_members c) in
  ({| c_name := c_name c; c_heritage := h; c_ctor := c_ctor c; c_members := ms |}, a || b).
End Stmts.

(* ------------------------------------------------------------------ which visitor reaches a table entry *)
(* result: (function index, reached through the walker only?) / same for classes; first visit wins *)
Fixpoint mem_nat (i : nat) (l : list (nat * bool)) : option bool :=
  match l with [] => None | (j, b) :: t => if Nat.eqb i j then Some b else mem_nat i t end.

Fixpoint visit_refs (P : prog) (fuel : nat) (inexpr : bool) (rs : list (bool * ref))
                    (acc : list (nat * bool) * list (nat * bool)) : list (nat * bool) * list (nat * bool) :=
  match fuel with
  | O => acc
  | Datatypes.S k =>
      fold_left (fun acc r =>
                   let m := inexpr || fst r in
                   match snd r with
                   | RF i =>
                       match mem_nat i (fst acc) with
                       | Some _ => acc
                       | None =>
                           let acc' := ((i, m) :: fst acc, snd acc) in
                           match nth_error (p_funcs P) i with
                           | Some f => visit_refs P k m (func_refs f) acc'
                           | None => acc' end
                       end
                   | RC i =>
                       match mem_nat i (snd acc) with
                       | Some _ => acc
                       | None =>
                           let acc' := (fst acc, (i, m) :: snd acc) in
                           match nth_error (p_classes P) i with
                           | Some c => visit_refs P k m (class_refs c) acc'
                           | None => acc' end
                       end
                   end) rs acc
  end.

Definition modes (P : prog) : list (nat * bool) * list (nat * bool) :=
  visit_refs P (Datatypes.S (List.length (p_funcs P) + List.length (p_classes P))) false (flat_map srefs (p_body P)) ([], []).

Fixpoint mapi {A B} (f : nat -> A -> B * bool) (i : nat) (l : list A) : list B * bool :=
  match l with [] => ([], false) | x :: t => let '(x', a) := f i x in let '(t', r) := mapi f (Datatypes.S i) t in (x' :: t', a || r) end.

(* Optimizer::apply on a script; the flag says that the model could not follow boa somewhere *)
Definition optimize (o : opts) (P : prog) : prog * bool :=
  let '(fm, cm) := modes P in
  let '(fs, a) := mapi (fun i f => match mem_nat i fm with
                                   | Some inexpr => opt_func o P (negb inexpr) f
                                   | None => (f, false) end) O (p_funcs P) in
  let '(cs, b) := mapi (fun i c => match mem_nat i cm with
                                   | Some _ => opt_class o c
                                   | None => (c, false) end) O (p_classes P) in
  let '(body, c) := opt_stmts o P true (p_body P) in
  ({| p_funcs := fs; p_classes := cs; p_body := body; p_strict := p_strict P |}, a || b || c).

Definition mk_opts (bits fixes : N) : opts :=
  {| o_cf := N.testbit bits 1; o_sr := N.testbit bits 2; o_dce := N.testbit bits 3;
     o_fix_dce := N.testbit fixes 0; o_fix_exp := N.testbit fixes 1; o_fix_hoist := N.testbit fixes 2;
     o_fix_div0 := N.testbit fixes 3; o_fix_ref := N.testbit fixes 4; o_fix_ovf := N.testbit fixes 5 |}.
