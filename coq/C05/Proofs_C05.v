(* C05 -- soundness of the optimizer's rewrites against JSRef (for every program, context, state and fuel).

   JSRef is used through a small set of characterising lemmas: Prims_C05.v (the operators on primitive
   values do not depend on program / fuel / state) and the section "JSRef facts" below (one-step
   unfoldings of eval_step / exec_stmt, evaluation of literal nodes). *)
From Coq Require Import ZArith NArith PArith List Bool String Floats.SpecFloat Lia.
From JSRef Require Import Float Syntax Values Static Ops Interp Machine Builtins Run.
From C05 Require Import Model_C05 Prims_C05.
Import ListNotations.

(* never let simpl/cbn unfold the float conversions (big Z constants) *)
Local Opaque of_Z of_bits to_bits trunc_Z is_i32 FLAG.

(* evaluation of an expression with fuel n *)
Definition ev (P : prog) (n : nat) (c : ctx) (e : expr) (st : state) : res value := o_eval (mk P n) c e st.

(* "at this fuel the original runs out of fuel, or the rewritten expression yields exactly the same
   result: value or exception, and final state" *)
Definition same_or_fuel (P : prog) (n : nat) (c : ctx) (st : state) (lhs rhs : expr) : Prop :=
  ev P n c lhs st = RFuel \/ ev P n c rhs st = ev P n c lhs st.

(* ================================================================ JSRef facts *)
Lemma ev_0 : forall P c e st, ev P 0 c e st = RFuel.
Proof. reflexivity. Qed.
Lemma ev_S : forall P n c e st, ev P (Sn n) c e st = eval_step P (mk P n) c e st.
Proof. reflexivity. Qed.

Lemma eval_unary_byvalue : forall P self c op a st,
  (op <> UTypeof \/ forall x, a <> EId x) ->
  eval_step P self c (EUnary op a) st = bind (o_eval self c a) (unary_op self op) st.
Proof.
  intros P self c op a st [H|H].
  - destruct op; try reflexivity. congruence.
  - destruct op; try reflexivity. destruct a; try reflexivity. exfalso; eapply H; reflexivity.
Qed.
Lemma eval_binary : forall P self c op a b st,
  eval_step P self c (EBinary op a b) st =
  bind (o_eval self c a) (fun va => bind (o_eval self c b) (fun vb => binary_op self op va vb)) st.
Proof. reflexivity. Qed.
Lemma eval_logical : forall P self c op a b st,
  eval_step P self c (ELogical op a b) st =
  bind (o_eval self c a) (fun va => match op with
                                    | LAnd => if to_boolean va then o_eval self c b else ret va
                                    | LOr => if to_boolean va then ret va else o_eval self c b
                                    | LCoalesce => if nullish va then o_eval self c b else ret va end) st.
Proof. reflexivity. Qed.
Lemma eval_seq : forall P self c a b st,
  eval_step P self c (ESeq a b) st = bind (o_eval self c a) (fun _ => o_eval self c b) st.
Proof. reflexivity. Qed.
Lemma eval_delete_value : forall P self c a st,
  match a with EMember _ _ _ | EIndex _ _ _ | EId _ | EParen _ => False | _ => True end ->
  eval_step P self c (EDelete a) st = bind (o_eval self c a) (fun _ => ret (VBool true)) st.
Proof. intros P self c a st H. destruct a; try contradiction; reflexivity. Qed.

(* ---- literal nodes *)
Lemma as_lit_shape : forall e l, as_lit e = Some l ->
  match e with ENum _ | EStr _ | EBool _ | ENull | EBigInt _ => True | EUnary UVoid ENull => True | _ => False end.
Proof.
  intros e l H. destruct e; try exact I; try discriminate H.
  destruct op; try discriminate H. destruct e; try discriminate H. exact I.
Qed.

Lemma as_lit_num : forall b l, as_lit (ENum b) = Some l -> lit_value l = VNum (of_bits b).
Proof.
  intros b l H. unfold as_lit in H.
  destruct ((b <? FLAG)%N && is_i32 (of_bits b) && float_eqb (of_Z (trunc_Z (of_bits b))) (of_bits b)) eqn:E;
    inversion H; subst; cbn [lit_value].
  - apply andb_prop in E as [_ E]. apply float_eqb_eq in E. rewrite E. reflexivity.
  - reflexivity.
Qed.

Lemma ev_lit_simple : forall e l, as_lit e = Some l -> e <> undef_lit ->
  forall P n c st, ev P (Sn n) c e st = ROk (lit_value l) st.
Proof.
  intros e l H Hn P n c st. pose proof (as_lit_shape _ _ H) as Hs.
  destruct e; try contradiction.
  - rewrite (as_lit_num _ _ H). reflexivity.
  - inversion H; reflexivity.
  - inversion H; reflexivity.
  - inversion H; reflexivity.
  - inversion H; reflexivity.
  - destruct op; try contradiction. destruct e; try contradiction. all: exfalso; apply Hn; reflexivity.
Qed.

Lemma ev_undef_lit : forall P n c st, ev P (Sn (Sn n)) c undef_lit st = ROk VUndef st.
Proof. reflexivity. Qed.

Lemma expr_is_undef_dec : forall e, {e = undef_lit} + {e <> undef_lit}.
Proof.
  intros e. unfold undef_lit. destruct e; try (right; discriminate).
  destruct op; try (right; discriminate). destruct e; try (right; discriminate). left; reflexivity.
Qed.

Lemma ev_lit2 : forall e l, as_lit e = Some l -> forall P n c st, ev P (Sn (Sn n)) c e st = ROk (lit_value l) st.
Proof.
  intros e l H P n c st. destruct (expr_is_undef_dec e) as [->|Hn].
  - inversion H. reflexivity.
  - eapply ev_lit_simple; eauto.
Qed.

Lemma ev_lit_cases : forall e l, as_lit e = Some l -> forall P n c st,
  ev P n c e st = RFuel \/ ev P n c e st = ROk (lit_value l) st.
Proof.
  intros e l H P n c st. destruct n as [|[|n]].
  - left; reflexivity.
  - destruct (expr_is_undef_dec e) as [->|Hn].
    + left; reflexivity.
    + right; eapply ev_lit_simple; eauto.
  - right; eapply ev_lit2; eauto.
Qed.

Lemma lit_not_id : forall e l, as_lit e = Some l -> forall x, e <> EId x.
Proof. intros e l H x ->. discriminate. Qed.

(* ---- the literal produced for a folded value evaluates to that value *)
Lemma value_lit_sound : forall v r l, value_lit v r = Some l -> lit_value l = v.
Proof.
  intros v r l H. destruct v; cbn [value_lit] in H; try discriminate; try (inversion H; reflexivity).
  destruct r; try (inversion H; reflexivity).
  destruct (float_eqb (of_Z (trunc_Z f)) f) eqn:E; try discriminate.
  inversion H; subst; cbn [lit_value]. apply float_eqb_eq in E. congruence.
Qed.

Lemma lit_expr_sound : forall l e, lit_expr l = Some e -> as_lit e = Some l.
Proof.
  intros l e H. unfold lit_expr in H.
  match type of H with context [as_lit ?x] => destruct (as_lit x) as [l'|] eqn:E; try discriminate end.
  destruct (lit_eqb l' l) eqn:E2; try discriminate. apply lit_eqb_eq in E2. inversion H; subst. exact E.
Qed.

Lemma lit_action_sound : forall v r e, lit_action v r = Replace e ->
  exists l, as_lit e = Some l /\ lit_value l = v.
Proof.
  intros v r e H. unfold lit_action in H. destruct r as [r|]; try discriminate.
  destruct (value_lit v r) as [l|] eqn:E1; try discriminate.
  destruct (lit_expr l) as [e0|] eqn:E2; try discriminate. inversion H; subst.
  apply lit_expr_sound in E2. exists l; split; auto. eapply value_lit_sound; eauto.
Qed.

(* ================================================================ constant folding *)
Theorem fold_unary_sound_lem : forall fixo op t e', fold_unary fixo op t = Replace e' ->
  forall P n c st, same_or_fuel P n c st (EUnary op t) e'.
Proof.
  intros fixo op t e' H P n c st. unfold fold_unary in H.
  destruct (as_lit t) as [l|] eqn:Et; try discriminate.
  unfold same_or_fuel. destruct n as [|k]; [left; reflexivity|].
  rewrite (ev_S _ _ _ (EUnary op t)).
  rewrite eval_unary_byvalue by (right; eapply lit_not_id; eauto).
  unfold bind. fold (ev P k c t st).
  destruct (ev_lit_cases _ _ Et P k c st) as [E|E]; rewrite E; [left; reflexivity|].
  destruct k as [|k']; [discriminate E|].
  right.
  destruct op.
  all: try (destruct (unary_op fold_ops _ (lit_value l) fold_state) as [v s'| | |] eqn:Eu; try discriminate;
            apply lit_action_sound in H as [l2 [Hl2 Hv]];
            rewrite (unary_fold_any _ _ _ _ (plit_lit l) Eu P k' st);
            rewrite (ev_lit2 _ _ Hl2); congruence).
  (* UVoid *)
  inversion H; subst. reflexivity.
Qed.

Theorem fold_binary_sound_lem : forall fixo op a b e', fold_binary true fixo op a b = Replace e' ->
  forall P n c st, same_or_fuel P n c st (EBinary op a b) e'.
Proof.
  intros fixo op a b e' H P n c st. unfold fold_binary in H.
  destruct (as_lit a) as [la|] eqn:Ea; try discriminate.
  destruct (as_lit b) as [lb|] eqn:Eb; try discriminate.
  cbn [negb andb] in H. unfold fold_binary_core in H.
  unfold same_or_fuel. destruct n as [|k]; [left; reflexivity|].
  rewrite (ev_S _ _ _ (EBinary op a b)), eval_binary. unfold bind.
  fold (ev P k c a st).
  destruct (ev_lit_cases _ _ Ea P k c st) as [E|E]; rewrite E; [left; reflexivity|].
  fold (ev P k c b st).
  destruct (ev_lit_cases _ _ Eb P k c st) as [E2|E2]; rewrite E2; [left; reflexivity|].
  destruct k as [|k']; [discriminate E|].
  right.
  assert (H' : match binary_op fold_ops op (lit_value la) (lit_value lb) fold_state with
               | ROk v _ => lit_action v (match v with VNum f => repr_binary fixo op la lb f | _ => Some ROther end)
               | RThrow _ _ => Keep | _ => Unsup end = Replace e') by (destruct op; try discriminate H; exact H).
  clear H.
  destruct (binary_op fold_ops op (lit_value la) (lit_value lb) fold_state) as [v s'| | |] eqn:Eu; try discriminate.
  apply lit_action_sound in H' as [l2 [Hl2 Hv]].
  rewrite (binary_fold_any _ _ _ _ _ (plit_lit la) (plit_lit lb) Eu P k' st).
  rewrite (ev_lit2 _ _ Hl2). congruence.
Qed.

Theorem fold_delete_sound_lem : forall t e', fold_delete t = Replace e' ->
  forall P n c st, same_or_fuel P n c st (EDelete t) e'.
Proof.
  intros t e' H P n c st. unfold fold_delete in H.
  destruct (as_lit t) as [l|] eqn:Et; try discriminate. inversion H; subst.
  unfold same_or_fuel. destruct n as [|k]; [left; reflexivity|].
  rewrite (ev_S _ _ _ (EDelete t)).
  rewrite eval_delete_value by (pose proof (as_lit_shape _ _ Et) as Hs; destruct t; try contradiction; exact I).
  unfold bind. fold (ev P k c t st).
  destruct (ev_lit_cases _ _ Et P k c st) as [E|E]; rewrite E; [left; reflexivity|].
  right. reflexivity.
Qed.

(* comma with a literal on the left: the original at fuel n+1 is the right operand at fuel n *)
Theorem comma_sound_lem : forall a b l, as_lit a = Some l ->
  forall P n c st, ev P (Sn n) c (ESeq a b) st = RFuel \/ ev P (Sn n) c (ESeq a b) st = ev P n c b st.
Proof.
  intros a b l Ha P n c st. rewrite ev_S, eval_seq. unfold bind. fold (ev P n c a st).
  destruct (ev_lit_cases _ _ Ha P n c st) as [E|E]; rewrite E; [left; reflexivity|]. right; reflexivity.
Qed.

(* (lit, b) --> (undefined, b): same result at every fuel >= 3 (the encoding `void null` of the undefined
   literal needs one level of fuel more than a plain literal) *)
Theorem comma_modified_sound_lem : forall a b e', fold_comma a b = Modified e' ->
  forall P n c st, ev P (Sn (Sn (Sn n))) c e' st = ev P (Sn (Sn (Sn n))) c (ESeq a b) st.
Proof.
  intros a b e' H P n c st. unfold fold_comma in H.
  destruct (as_lit a) as [la|] eqn:Ea; try discriminate.
  destruct (as_lit b) as [lb|] eqn:Eb; try discriminate.
  assert (e' = ESeq undef_lit b) by (destruct la; inversion H; reflexivity). subst e'.
  rewrite !ev_S, !eval_seq. unfold bind.
  fold (ev P (Sn (Sn n)) c a st). fold (ev P (Sn (Sn n)) c undef_lit st).
  rewrite (ev_lit2 _ _ Ea). rewrite ev_undef_lit. reflexivity.
Qed.

Theorem comma_replace_sound_lem : forall a b e', fold_comma a b = Replace e' ->
  forall P n c st, ev P (Sn n) c (ESeq a b) st = RFuel \/ ev P (Sn n) c (ESeq a b) st = ev P n c e' st.
Proof.
  intros a b e' H P n c st. unfold fold_comma in H.
  destruct (as_lit a) as [la|] eqn:Ea; try discriminate.
  destruct (as_lit b) as [lb|] eqn:Eb; try (destruct la; discriminate).
  inversion H; subst. eapply comma_sound_lem; eauto.
Qed.

(* && || ?? with a literal on the left: the original at fuel n+1 is the chosen operand at fuel n *)
Theorem logical_sound_lem : forall fixr op a b e', fold_logical fixr op a b = Replace e' ->
  forall P n c st, ev P (Sn n) c (ELogical op a b) st = RFuel \/ ev P (Sn n) c (ELogical op a b) st = ev P n c e' st.
Proof.
  intros fixr op a b e' H P n c st. unfold fold_logical in H.
  destruct (as_lit a) as [la|] eqn:Ea; try discriminate.
  rewrite ev_S, eval_logical. unfold bind. fold (ev P n c a st).
  destruct (ev_lit_cases _ _ Ea P n c st) as [E|E]; rewrite E; [left; reflexivity|].
  right. destruct op; cbn [negb] in H.
  - destruct (to_boolean (lit_value la)); [destruct (fixr && is_reference b); try discriminate|]; inversion H; subst;
      [reflexivity| symmetry; exact E].
  - destruct (to_boolean (lit_value la)); cbn [negb] in H; [|destruct (fixr && is_reference b); try discriminate]; inversion H; subst;
      [symmetry; exact E|reflexivity].
  - destruct (nullish (lit_value la)); [destruct (fixr && is_reference b); try discriminate|]; inversion H; subst;
      [reflexivity| symmetry; exact E].
Qed.

(* ================================================================ strength reduction: x / 2 --> x * 0.5 *)
Definition HALF_BITS : N := 4602678819172646912%N.

Lemma as_literal_int_value : forall b z, as_literal_int b = Some z ->
  exists bits, b = ENum bits /\ of_bits bits = of_Z z.
Proof.
  intros b z H. unfold as_literal_int in H. destruct (as_lit b) as [l|] eqn:E; try discriminate.
  destruct l; try discriminate. inversion H; subst.
  pose proof (as_lit_shape _ _ E) as Hs. destruct b; try contradiction; try discriminate E.
  - exists bits. split; auto. pose proof (as_lit_num _ _ E) as Hn. cbn [lit_value] in Hn. congruence.
  - destruct op; try contradiction. destruct b; try contradiction. discriminate E.
Qed.

(* the rewrite is sound whenever the float law  f / 2 = f * 0.5  holds for the numeric value of the operand
   (true of every binary64; see div2_float_law in Float_C05.v for the valid-binary64 statement) *)
Theorem div2_sound_lem : forall a b e', try_reduce_div a b = Replace e' ->
  forall P n c st,
    (forall v st1 f st2, ev P (pred n) c a st = ROk v st1 -> to_numeric (mk P (pred n)) v st1 = ROk (VNum f) st2 ->
                         fdiv f (of_Z 2) = fmul f (of_bits HALF_BITS)) ->
    ev P n c e' st = ev P n c (EBinary BDiv a b) st.
Proof.
  intros a b e' H P n c st Hlaw. unfold try_reduce_div in H.
  destruct (as_literal_int b) as [z|] eqn:Eb; try discriminate.
  destruct z as [|p|p]; try discriminate. destruct p as [p|p|]; try discriminate. destruct p; try discriminate.
  inversion H; subst e'. clear H.
  destruct (as_literal_int_value _ _ Eb) as [bits [-> Hbits]].
  destruct n as [|k]; [reflexivity|].
  rewrite !ev_S, !eval_binary. unfold bind. cbn [pred] in Hlaw.
  fold (ev P k c a st). destruct (ev P k c a st) as [va st1| | |] eqn:Ea; try reflexivity.
  destruct k as [|k']; [discriminate Ea|].
  change (o_eval (mk P (Sn k')) c (ENum bits) st1) with (ROk (VNum (of_bits bits)) st1).
  change (o_eval (mk P (Sn k')) c HALF st1) with (ROk (VNum (of_bits HALF_BITS)) st1).
  rewrite Hbits. cbn [pred] in Hlaw.
  specialize (Hlaw va st1).
  (* both operators are the generic numeric arm of binary_op *)
  change (binary_op (mk P (Sn k')) BMul va (VNum (of_bits HALF_BITS)) st1)
    with (bind (to_numeric (mk P (Sn k')) va) (fun na => bind (to_numeric (mk P (Sn k')) (VNum (of_bits HALF_BITS)))
            (fun nb => match na, nb with VNum x, VNum y => num_binop BMul x y | VBigInt x, VBigInt y => bigint_binop BMul x y | _, _ => type_error end)) st1).
  change (binary_op (mk P (Sn k')) BDiv va (VNum (of_Z 2)) st1)
    with (bind (to_numeric (mk P (Sn k')) va) (fun na => bind (to_numeric (mk P (Sn k')) (VNum (of_Z 2)))
            (fun nb => match na, nb with VNum x, VNum y => num_binop BDiv x y | VBigInt x, VBigInt y => bigint_binop BDiv x y | _, _ => type_error end)) st1).
  unfold bind at 1 3.
  destruct (to_numeric (mk P (Sn k')) va st1) as [na st2| | |] eqn:En; try reflexivity.
  unfold to_numeric, bind. rewrite !(TP_mk P k') by exact I. cbn [prim_to_number bind ret].
  unfold bind, ret.
  destruct na; try reflexivity.
  cbn [num_binop]. unfold ret. rewrite (Hlaw f st2 eq_refl eq_refl). reflexivity.
Qed.

(* ================================================================ dead code: the repaired replacements that need no fuel argument *)
(* `if (false) s` (no else) evaluates to undefined: exactly what the statement `undefined;` does *)
Theorem dce_if_false_sound_lem : forall P n c t labels k st,
  exec_stmt P (mk P (Sn (Sn n))) c (SIf (EBool false) t None) labels k st =
  exec_stmt P (mk P (Sn (Sn n))) c undef_stmt labels k st.
Proof. reflexivity. Qed.

(* ================================================================ refutations: rewrites of the unrepaired optimizer that change behaviour *)
Definition old_opts (bits : N) : opts := mk_opts bits 0.
Definition new_opts (bits : N) : opts := mk_opts bits 63.

(* what a host observes of a run: the printed lines, whether the script threw, and the completion value
   (for a thrown object only the fact that it is one) *)
Definition observe (o : outcome) : option (list str * bool * option value) :=
  match o with
  | OValue v st => Some (rev (out st), false, Some v)
  | OThrow v st => Some (rev (out st), true, match v with VObj _ => None | _ => Some v end)
  | _ => None
  end.
Definition script (fs : list func) (body : list stmt) : prog := {| p_funcs := fs; p_classes := []; p_body := body; p_strict := false |}.
Definition nnum (z : Z) : expr := ENum (to_bits (of_Z z)).
Definition meth (body : list stmt) : func :=
  {| f_name := []; f_kind := FMethod; f_params := []; f_rest := None; f_body := body; f_expr_body := None; f_strict := false; f_uses_args := false |}.
Definition call1 (f : str) (a : expr) : expr := ECall (EId f) [Arg a] false.

(* 1; if (true) {}     1; while (false) {}     1; for (;false;) {} *)
Definition W_if : prog := script [] [SExpr (nnum 1); SIf (EBool true) (SBlock []) None].
Definition W_while : prog := script [] [SExpr (nnum 1); SWhile (EBool false) (SBlock [])].
Definition W_for : prog := script [] [SExpr (nnum 1); SFor FINone (Some (EBool false)) None (SBlock [])].
(* var b = 3n; b ** 2 *)
Definition W_exp_bigint : prog := script [] [SDecl KVar [(PId (S "b"), Some (EBigInt 3))]; SExpr (EBinary BExp (EId (S "b")) (nnum 2))].
(* var o = {valueOf(){ print("v"); return 3 }}; print(o ** 2) *)
Definition W_exp_valueof : prog :=
  script [meth [SExpr (call1 (S "print") (EStr (S "v"))); SReturn (Some (nnum 3))]]
         [SDecl KVar [(PId (S "o"), Some (EObject [PMethod (PKStr (S "valueOf")) 0]))];
          SExpr (call1 (S "print") (EBinary BExp (EId (S "o")) (nnum 2)))].
(* if (false) { for (var x in ({})) {} } x *)
Definition W_forin : prog :=
  script [] [SIf (EBool false) (SBlock [SForIn (FHDecl KVar (PId (S "x"))) (EParen (EObject [])) (SBlock [])]) None; SExpr (EId (S "x"))].
(* 1 / (0 / -5) *)
Definition W_div0 : prog := script [] [SExpr (EBinary BDiv (nnum 1) (EParen (EBinary BDiv (nnum 0) (EUnary UNeg (nnum 5)))))].
(* var o = {m(){ return this === o }}; (true && o.m)() *)
Definition W_ref : prog :=
  script [meth [SReturn (Some (EBinary BSEq EThis (EId (S "o"))))]]
         [SDecl KVar [(PId (S "o"), Some (EObject [PMethod (PKStr (S "m")) 0]))];
          SExpr (ECall (EParen (ELogical LAnd (EBool true) (EMember (EId (S "o")) (S "m") false))) [] false)].

Definition differs (o : opts) (P : prog) : bool :=
  match observe (run 200 P), observe (run 200 (fst (optimize o P))) with
  | Some (t1, th1, v1), Some (t2, th2, v2) =>
      negb ((if list_eq_dec (list_eq_dec N.eq_dec) t1 t2 then true else false) && Bool.eqb th1 th2 &&
            match v1, v2 with Some a, Some b => same_value a b | None, None => true | _, _ => false end)
  | _, _ => false
  end.
Definition agrees (o : opts) (P : prog) : bool :=
  match observe (run 200 P), observe (run 200 (fst (optimize o P))) with
  | Some (t1, th1, v1), Some (t2, th2, v2) =>
      (if list_eq_dec (list_eq_dec N.eq_dec) t1 t2 then true else false) && Bool.eqb th1 th2 &&
      match v1, v2 with Some a, Some b => same_value a b | None, None => true | _, _ => false end
  | _, _ => false
  end.

Lemma dce_completion_refuted_lem :
  differs (old_opts 8) W_if = true /\ differs (old_opts 8) W_while = true /\ differs (old_opts 8) W_for = true.
Proof. vm_compute. auto. Qed.
Lemma exp2_refuted_lem : differs (old_opts 4) W_exp_bigint = true /\ differs (old_opts 4) W_exp_valueof = true.
Proof. vm_compute. auto. Qed.
Lemma dce_forin_var_refuted_lem : differs (old_opts 8) W_forin = true.
Proof. vm_compute. auto. Qed.
Lemma fold_div_negzero_refuted_lem : differs (old_opts 2) W_div0 = true.
Proof. vm_compute. auto. Qed.
Lemma fold_logical_reference_refuted_lem : differs (old_opts 2) W_ref = true.
Proof. vm_compute. auto. Qed.
(* the repaired optimizer (fixes.d/C05-*.patch) leaves every witness alone or rewrites it soundly *)
Lemma repaired_witnesses_lem :
  forallb (agrees (new_opts 14)) [W_if; W_while; W_for; W_exp_bigint; W_exp_valueof; W_forin; W_div0; W_ref] = true.
Proof. vm_compute. reflexivity. Qed.

(* var k = "key"; print(({[k]: false || function(){}})[k].name)  -- even the repaired folder (all six repairs on)
   exposes the function to NamedEvaluation: "" becomes "key" *)
Definition anon_fn : func :=
  {| f_name := []; f_kind := FNormal; f_params := []; f_rest := None; f_body := []; f_expr_body := None; f_strict := false; f_uses_args := false |}.
Definition W_fname : prog :=
  script [anon_fn]
    [SDecl KVar [(PId (S "k"), Some (EStr (S "key")))];
     SExpr (call1 (S "print") (EMember (EIndex (EParen (EObject [PInit (PKComputed (EId (S "k"))) (ELogical LOr (EBool false) (EFunc 0))])) (EId (S "k")) false) (S "name") false))].
Lemma fold_logical_function_name_refuted_lem : differs (new_opts 2) W_fname = true.
Proof. vm_compute. reflexivity. Qed.
