(* C07 deepening: `pending_exception` as modelled state.  With the repaired transitions an exception can stay
   pending after a host entry only if some frame returned / suspended while it was pending (which compiled code
   never does: it is reported as OUntidy) or the run reported an engine panic (excluded by no_engine_panic). *)
From Coq Require Import List Arith Bool Lia.
Import ListNotations.
From C07 Require Import Model_C07 Proofs_C07.

Definition panicked (o : list obs) := exists n s h, In (ODone RPanic n s h) o.
Definition bad (o : list obs) := In OUntidy o \/ panicked o.

Lemma bad_app_l o o2 : bad o -> bad (o ++ o2).
Proof. intros [H|(n & s & h & H)]; [left|right; exists n, s, h]; apply in_or_app; auto. Qed.
Lemma bad_app_r o o2 : bad o2 -> bad (o ++ o2).
Proof. intros [H|(n & s & h & H)]; [left|right; exists n, s, h]; apply in_or_app; auto. Qed.
Lemma bad_cons x o : bad o -> bad (x :: o).
Proof. intros [H|(n & s & h & H)]; [left|right; exists n, s, h]; simpl; auto. Qed.

(* what a Break guarantees about the pending exception *)
Definition brk_ok (c : compl) (v' : vm) (o : list obs) :=
  match c with
  | CThrow _ => pending v' = false
  | CPanic => True
  | _ => pending v' = false \/ bad o
  end.
Definition ctl_pend (c : ctl) v' o := match c with Continue => True | Break k => brk_ok k v' o end.
Definition R (v v' : vm) (o : list obs) := pending v' = false \/ pending v' = pending v \/ bad o.

Lemma brk_ok_app c v' o o2 : brk_ok c v' o -> brk_ok c v' (o ++ o2).
Proof. destruct c; simpl; auto. all: intros [H|H]; auto using bad_app_l. Qed.
Lemma brk_ok_app_r c v' o o2 : brk_ok c v' o2 -> brk_ok c v' (o ++ o2).
Proof. destruct c; simpl; auto. all: intros [H|H]; auto using bad_app_r. Qed.

Lemma untidy_ok v v' : pending v' = pending v -> pending v' = false \/ bad (untidy v).
Proof. unfold untidy. intros E. destruct (pending v); [right; left; simpl; auto|left; auto]. Qed.

Lemma throw_loop_ctl fx frs last st : forall r, throw_loop fx frs last st = r ->
  match snd r with Continue => True | Break c => c = CPanic \/ c = CThrow true end.
Proof.
  revert last. induction frs as [|cur below IH]; intros last r E; subst r; simpl; auto.
  destruct (find_handler (handlers cur) (pc cur)); simpl; auto.
  destruct (exit_early cur).
  - destruct (fx_throw fx); simpl; auto.
  - destruct below; simpl; auto. eapply IH. reflexivity.
Qed.

Lemma handle_throw_pend v : let '(v', c) := handle_throw fx_new v in
  match c with Continue => True | Break k => k = CPanic \/ (k = CThrow true /\ pending v' = false) end.
Proof.
  unfold handle_throw. destruct (frames v) as [|t below]. { simpl; auto. }
  destruct (exit_early t). { simpl; auto. }
  destruct below as [|b below]. { simpl; auto. }
  cbv beta iota.
  pose proof (throw_loop_ctl fx_new (b :: below) t (stack v) _ eq_refl) as X.
  destruct (throw_loop fx_new (b :: below) t (stack v)) as ((frs & st) & c). simpl in X.
  destruct c; simpl; auto. destruct X; auto.
Qed.

Lemma handle_error_pend v cat : let '(v', c) := handle_error fx_new v cat in
  match c with Continue => True | Break k => k = CPanic \/ (exists b, k = CThrow b /\ pending v' = false) end.
Proof.
  unfold handle_error. destruct cat.
  - destruct (handle_exception_at v (pc (top v) - 1)); auto.
    pose proof (handle_throw_pend (set_pending v true)) as X.
    destruct (handle_throw fx_new (set_pending v true)) as (v' & c). destruct c; auto.
    destruct X as [X|(X & Y)]; eauto.
  - destruct (error_loop (frames v) None (envs (top v))) as ((frs & last) & efp). simpl.
    right. exists false. split; auto.
Qed.

Lemma handle_error_ctl v cat o : let '(v', c) := handle_error fx_new v cat in ctl_pend c v' o.
Proof.
  pose proof (handle_error_pend v cat) as X. destruct (handle_error fx_new v cat) as (v' & c).
  destruct c; simpl; auto. destruct X as [X|(b & X & Y)]; subst; simpl; auto.
Qed.

Lemma handle_throw_ctl v o : let '(v', c) := handle_throw fx_new v in ctl_pend c v' o.
Proof.
  pose proof (handle_throw_pend v) as X. destruct (handle_throw fx_new v) as (v' & c).
  destruct c; simpl; auto. destruct X as [X|(X & Y)]; subst; simpl; auto.
Qed.

Lemma pop_frame_pending v f v' : pop_frame v = Some (f, v') -> pending v' = pending v.
Proof. unfold pop_frame. destruct (frames v) as [|a [|b r]]; intros E; inversion E; reflexivity. Qed.

Lemma handle_return_pending v : pending (fst (handle_return v)) = pending v.
Proof.
  destruct v as [fs st hd gs rl sl pd]. unfold handle_return, top, trunc, pop_frame, set_stack. simpl.
  destruct fs as [|a [|b r]]; simpl; try destruct (exit_early a); reflexivity.
Qed.

Lemma handle_yield_pending v : pending (fst (handle_yield v)) = pending v.
Proof.
  destruct v as [fs st hd gs rl sl pd]. unfold handle_yield, top, trunc, pop_frame, set_stack. simpl.
  destruct fs as [|a [|b r]]; simpl; try destruct (exit_early a); reflexivity.
Qed.

Lemma gen_create_pending b v : pending (fst (gen_create b v)) = pending v.
Proof. unfold gen_create. rewrite handle_yield_pending. reflexivity. Qed.

Lemma ret_like_ctl (h : vm -> vm * ctl) v :
  pending (fst (h v)) = pending v ->
  (forall k, snd (h v) = Break k -> k = CReturn \/ k = CNormal \/ k = CPanic) ->
  let '(v', c) := h v in ctl_pend c v' (untidy v).
Proof.
  intros P K. destruct (h v) as (v' & c). simpl in *. destruct c; simpl; auto.
  destruct (K c eq_refl) as [X|[X|X]]; subst; simpl; auto using untidy_ok.
Qed.

Lemma handle_return_kinds v k : snd (handle_return v) = Break k -> k = CReturn \/ k = CNormal \/ k = CPanic.
Proof.
  destruct v as [fs st hd gs rl sl pd]. unfold handle_return, top, trunc, pop_frame, set_stack. simpl.
  destruct fs as [|a [|b r]]; simpl; try destruct (exit_early a); simpl; intros E; inversion E; auto.
Qed.
Lemma handle_yield_kinds v k : snd (handle_yield v) = Break k -> k = CReturn \/ k = CNormal \/ k = CPanic.
Proof.
  destruct v as [fs st hd gs rl sl pd]. unfold handle_yield, top, trunc, pop_frame, set_stack. simpl.
  destruct fs as [|a [|b r]]; simpl; try destruct (exit_early a); simpl; intros E; inversion E; auto.
Qed.

Definition Q_act (a : act) := forall v, match run_act fx_new v a with (v', c, o) => ctl_pend c v' o end.
Definition Q_acts (l : acts) := forall v,
  match run_acts fx_new v l with (v', r, o) => match r with Some c => brk_ok c v' o | None => True end end.
Definition Q_ract (r : ract) := forall v last, match run_ract fx_new v last r with (v', _, _, o) => R v v' o end.
Definition Q_racts (l : racts) := forall v last, match run_racts fx_new v last l with (v', _, o) => R v v' o end.

Lemma R_refl v o : R v v o. Proof. right; left; reflexivity. Qed.
Lemma R_same v v' o : pending v' = pending v -> R v v' o. Proof. intros; right; left; auto. Qed.
Lemma R_trans v v1 v2 o o2 : R v v1 o -> R v1 v2 o2 -> R v v2 (o ++ o2).
Proof.
  unfold R. intros [A|[A|A]] [B|[B|B]]; auto using bad_app_l, bad_app_r.
  - left. congruence.
  - right; left. congruence.
Qed.
Lemma R_pre v v0 v' o : pending v0 = pending v -> R v0 v' o -> R v v' o.
Proof. unfold R. intros E [A|[A|A]]; auto. right; left; congruence. Qed.

(* running an entry frame and reporting its completion *)
Lemma entry_R body (IH : Q_acts body) v v3 (post : vm -> vm) :
  pending v3 = pending v -> (forall x, pending (post x) = pending x) ->
  match run_acts fx_new v3 body with
  | (v4, r, o) =>
      let c := match r with Some c => c | None => escaped v4 end in
      R v (post v4) (o ++ [ODone (compl_res c) (length (frames (post v4))) (stack (post v4)) (hdepth (post v4))])
  end.
Proof.
  intros P0 PP. specialize (IH v3). destruct (run_acts fx_new v3 body) as ((v4 & r) & o). cbv zeta.
  unfold R. rewrite PP.
  destruct r as [c|].
  - destruct c; simpl in *; auto.
    + destruct IH; auto using bad_app_l.
    + destruct IH; auto using bad_app_l.
    + right; right. right. eexists _, _, _. apply in_or_app. right. simpl. left. reflexivity.
  - right; right. right. eexists _, _, _. apply in_or_app. right. simpl. left. reflexivity.
Qed.

Lemma gen_create_kinds b v k : snd (gen_create b v) = Break k -> k = CReturn \/ k = CNormal \/ k = CPanic.
Proof. unfold gen_create. apply handle_yield_kinds. Qed.

Lemma Q_simple_acts :
  (forall n, Q_act (APush n)) /\ (forall n, Q_act (APop n)) /\ (forall p, Q_act (ASetPc p)) /\ Q_act AEnvPush /\
  Q_act AEnvPop /\ (forall i, Q_act (AProbe i)) /\ Q_act AException.
Proof.
  splits; intros; intro v; cbn [run_act]; simpl; auto.
  destruct (rp (top v) + regs (top v) + n <=? stack v); simpl; auto.
Qed.

Lemma Q_handlers :
  (forall lf, Q_act (ACallErr lf)) /\ Q_act AReturn /\ Q_act AYield /\ Q_act AGenCreate /\ Q_act AAwait /\ Q_act AThrow /\
  Q_act ARethrow /\ (forall c, Q_act (AError c)).
Proof.
  splits.
  - intros lf v. cbn [run_act]. destruct (if lf then check_limits v else None).
    + pose proof (handle_error_ctl v false [OLimit l]) as X. destruct (handle_error fx_new v false). exact X.
    + pose proof (handle_error_ctl v true []) as X. destruct (handle_error fx_new v true). exact X.
  - intros v. cbn [run_act].
    pose proof (ret_like_ctl handle_return v (handle_return_pending v) (handle_return_kinds v)) as X.
    destruct (handle_return v). exact X.
  - intros v. cbn [run_act]. destruct (pushed (top v)); [|simpl; auto].
    pose proof (ret_like_ctl handle_yield v (handle_yield_pending v) (handle_yield_kinds v)) as X.
    destruct (handle_yield v). exact X.
  - intros v. cbn [run_act]. destruct (pushed (top v)); [simpl; auto|].
    pose proof (ret_like_ctl (gen_create true) v (gen_create_pending true v) (gen_create_kinds true v)) as X.
    destruct (gen_create true v). exact X.
  - intros v. cbn [run_act].
    pose proof (ret_like_ctl (gen_create false) v (gen_create_pending false v) (gen_create_kinds false v)) as X.
    destruct (gen_create false v). exact X.
  - intros v. cbn [run_act]. cbv zeta.
    destruct (handle_exception_at (set_pending v true) (pc (top (set_pending v true)) - 1)); [simpl; auto|].
    pose proof (handle_throw_ctl (set_pending v true) []) as X. destruct (handle_throw fx_new (set_pending v true)). exact X.
  - intros v. cbn [run_act].
    destruct (handle_exception_at v (pc (top v) - 1)); [simpl; auto|].
    destruct (pending v) eqn:PV.
    + pose proof (handle_throw_ctl v []) as X. destruct (handle_throw fx_new v). exact X.
    + pose proof (handle_return_pending v) as P. pose proof (handle_return_kinds v) as K.
      destruct (handle_return v) as (v' & c). simpl in *. destruct c; simpl; auto.
      destruct (K c eq_refl) as [X|[X|X]]; subst; simpl; auto; left; congruence.
  - intros c v. cbn [run_act].
    pose proof (handle_error_ctl v c []) as X. destruct (handle_error fx_new v c). exact X.
Qed.

Lemma err_ctl_pend v r o : let '(v', c) := err_ctl fx_new v r in ctl_pend c v' o.
Proof.
  destruct r; cbn [err_ctl]; simpl; auto. apply handle_error_ctl.
Qed.

Lemma Q_ACall ac rg hs construct envfp nenv body : Q_acts body -> Q_act (ACall ac rg hs construct envfp nenv body).
Proof.
  intros IH v. rewrite run_act_ACall_eq. cbv zeta.
  destruct (rp (top v) + regs (top v) + (ac + 2 + (if construct then 1 else 0)) <=? stack v); [|simpl; auto].
  destruct (check_limits v).
  - pose proof (handle_error_ctl v false [OLimit l]) as X. destruct (handle_error fx_new v false). exact X.
  - match goal with |- context [run_acts fx_new ?w body] => specialize (IH w); destruct (run_acts fx_new w body) as ((v3 & r) & o) end.
    destruct r; simpl; auto.
Qed.

Lemma native_pend body (IH : Q_racts body) v1 :
  match run_racts fx_new v1 ROk body with
  | (v2, r, o) =>
      match (match r with
             | ROk => (set_stack v2 (stack v2 + 1), Continue, o)
             | _ => let '(v3, c) := err_ctl fx_new v2 r in (v3, c, o)
             end) with
      | (v', c, o') => ctl_pend c v' o'
      end
  end.
Proof.
  destruct (run_racts fx_new v1 ROk body) as ((v2 & r) & o).
  destruct r; simpl; auto.
  pose proof (handle_error_ctl v2 catchable o) as X. destruct (handle_error fx_new v2 catchable). exact X.
Qed.

Lemma Q_ACallNative ac construct body : Q_racts body -> Q_act (ACallNative ac construct body).
Proof.
  intros IH v. rewrite run_act_ACallNative_eq. cbv zeta.
  destruct (rp (top v) + regs (top v) + (ac + 2 + (if construct then 1 else 0)) <=? stack v); [|simpl; auto].
  destruct construct.
  - destruct (check_limits v).
    + pose proof (handle_error_ctl v false [OLimit l]) as X. destruct (handle_error fx_new v false). exact X.
    + match goal with |- context [run_racts fx_new ?w ROk body] => pose proof (native_pend body IH w) as X;
        destruct (run_racts fx_new w ROk body) as ((v2 & r) & o) end.
      destruct r; exact X.
  - match goal with |- context [check_limits ?w] => destruct (check_limits w) end.
    + match goal with |- context [handle_error fx_new ?w false] =>
        pose proof (handle_error_ctl w false [OLimit l]) as X; destruct (handle_error fx_new w false) end. exact X.
    + match goal with |- context [run_racts fx_new ?w ROk body] => pose proof (native_pend body IH w) as X;
        destruct (run_racts fx_new w ROk body) as ((v2 & r) & o) end.
      destruct r; exact X.
Qed.

Lemma Q_ARust body : Q_racts body -> Q_act (ARust body).
Proof.
  intros IH v. rewrite run_act_ARust_eq.
  destruct (run_racts fx_new v ROk body) as ((v2 & r) & o).
  pose proof (err_ctl_pend v2 r o) as X. destruct (err_ctl fx_new v2 r). exact X.
Qed.

Lemma Q_ANil : Q_acts ANil.
Proof.
  intros v. rewrite run_acts_ANil_eq.
  pose proof (ret_like_ctl handle_return v (handle_return_pending v) (handle_return_kinds v)) as X.
  destruct (handle_return v) as (v1 & c). destruct c; simpl in *; auto.
Qed.

Lemma Q_ACons a rest : Q_act a -> Q_acts rest -> Q_acts (ACons a rest).
Proof.
  intros IHa IHr v. rewrite run_acts_ACons_eq. cbv zeta.
  specialize (IHa v). destruct (run_act fx_new v a) as ((v1 & c) & o).
  destruct c as [|k]; simpl in *; auto.
  destruct (length (frames v1) <? length (frames v)); auto.
  specialize (IHr v1). destruct (run_acts fx_new v1 rest) as ((v2 & r) & o2).
  destruct r; auto. apply brk_ok_app_r. exact IHr.
Qed.

Ltac rsame := apply R_same; simpl; try reflexivity.

Lemma done_R v v1 v2 o r :
  R v v1 o -> pending v2 = pending v1 ->
  R v v2 (o ++ [ODone r (length (frames v2)) (stack v2) (hdepth v2)]).
Proof. unfold R. intros [A|[A|A]] E; auto using bad_app_l; [left|right;left]; congruence. Qed.

Lemma Q_ract_simple :
  (forall i, Q_ract (RProbe i)) /\ (forall ac lf, Q_ract (RHostCallErr ac lf)) /\ Q_ract RReturn /\
  (forall c, Q_ract (RThrow c)) /\ (forall a, Q_ract (RPropagate a)) /\ (forall rg, Q_ract (RHostModuleLink rg)).
Proof.
  splits.
  - intros i v last. rewrite run_ract_RProbe_eq. cbv beta zeta. rsame.
  - intros ac lf v last. rewrite run_ract_RHostCallErr_eq. cbv beta zeta.
    destruct (if lf then check_limits (set_stack v (stack v + 2 + ac)) else None); rsame.
  - intros v last. rewrite run_ract_RReturn_eq. cbv beta zeta. rsame.
  - intros c v last. rewrite run_ract_RThrow_eq. cbv beta zeta. rsame.
  - intros a v last. rewrite run_ract_RPropagate_eq. cbv beta zeta. destruct last as [|[|]|]; destruct a; rsame.
  - intros rg v last. rewrite run_ract_RHostModuleLink_eq. cbv beta zeta.
    match goal with |- context [pop_frame ?w] => destruct (pop_frame w) as [(f & v2)|] eqn:P end.
    + apply pop_frame_pending in P. rsame. exact P.
    + rsame.
Qed.

Lemma Q_body_done body (IH : Q_racts body) v v1 :
  pending v1 = pending v ->
  match (let '(v2, r, o) := run_racts fx_new v1 ROk body in
         let '(v3, x, res, o2) := (v2, @None rres, r, [ODone r (length (frames v2)) (stack v2) (hdepth v2)]) in
         (v3, x, res, o ++ o2)) with
  | (v', _, _, o) => R v v' o
  end.
Proof.
  intros E. specialize (IH v1 ROk). destruct (run_racts fx_new v1 ROk body) as ((v2 & r) & o).
  apply done_R with (v1 := v2); auto. eapply R_pre; eauto.
Qed.

Lemma Q_RHostCallNative ac body : Q_racts body -> Q_ract (RHostCallNative ac body).
Proof.
  intros IH v last. rewrite run_ract_RHostCallNative_eq. cbv beta zeta.
  match goal with |- context [check_limits ?w] => destruct (check_limits w); [rsame|] end.
  apply (Q_body_done body IH v). reflexivity.
Qed.

Lemma Q_RHostConstructNative ac body : Q_racts body -> Q_ract (RHostConstructNative ac body).
Proof.
  intros IH v last. rewrite run_ract_RHostConstructNative_eq. cbv beta zeta.
  match goal with |- context [check_limits ?w] => destruct (check_limits w); [rsame|] end.
  apply (Q_body_done body IH v). reflexivity.
Qed.

Lemma Q_RBlock body : Q_racts body -> Q_ract (RBlock body).
Proof.
  intros IH v last. rewrite run_ract_RBlock_eq. cbv beta zeta.
  apply (Q_body_done body IH v). reflexivity.
Qed.

Lemma Q_RHostEval rg hs envfp nenv ok body : Q_acts body -> Q_ract (RHostEval rg hs envfp nenv ok body).
Proof.
  intros IH v last. rewrite run_ract_RHostEval_eq. cbv beta zeta.
  destruct ok.
  - match goal with |- context [run_acts fx_new ?w body] =>
      pose proof (entry_R body IH v w (fun x => match pop_frame x with Some (_, y) => y | None => x end) eq_refl) as X end.
    cbv beta in X.
    assert (PP : forall x, pending (match pop_frame x with Some (_, y) => y | None => x end) = pending x).
    { intros x. destruct (pop_frame x) as [(f & y)|] eqn:P; auto. eapply pop_frame_pending; eauto. }
    specialize (X PP).
    match goal with |- context [run_acts fx_new ?w body] => destruct (run_acts fx_new w body) as ((v2 & r) & o) end.
    exact X.
  - match goal with |- context [pop_frame ?w] => destruct (pop_frame w) as [(f & v2)|] eqn:P end.
    + apply pop_frame_pending in P. rsame. exact P.
    + rsame.
Qed.

Lemma entry_R2 body (IH : Q_acts body) v v3 :
  pending v3 = pending v ->
  match run_acts fx_new v3 body with
  | (v4, r, o) => forall v6 n s h, pending v6 = pending v4 ->
      R v v6 (o ++ [ODone (compl_res (match r with Some c => c | None => escaped v4 end)) n s h])
  end.
Proof.
  intros P0. specialize (IH v3). destruct (run_acts fx_new v3 body) as ((v4 & r) & o).
  intros v6 n s h E. unfold R. rewrite E.
  destruct r as [c|].
  - destruct c; simpl in *; auto.
    + destruct IH; auto using bad_app_l.
    + destruct IH; auto using bad_app_l.
    + right; right. right. eexists _, _, _. apply in_or_app. right. simpl. left. reflexivity.
  - right; right. right. eexists _, _, _. apply in_or_app. right. simpl. left. reflexivity.
Qed.

Lemma panic_R v v' o n s h : R v v' (o ++ [ODone RPanic n s h]).
Proof. right; right. right. exists n, s, h. apply in_or_app. right. simpl. auto. Qed.

Lemma push_frame_pending v f : pending (push_frame v f) = pending v.
Proof. unfold push_frame. destruct (pushed f); reflexivity. Qed.

Ltac frame_case body IH v :=
  let X := fresh "X" in let P := fresh "P" in
  match goal with |- context [run_acts fx_new ?w body] =>
    let E := fresh "E" in
    assert (E : pending w = pending v) by (simpl; rewrite ?push_frame_pending; reflexivity);
    pose proof (entry_R2 body IH v w E) as X;
    destruct (run_acts fx_new w body) as ((?v4 & ?r) & ?o) end;
  match goal with |- context [pop_frame ?w] => destruct (pop_frame w) as [(?f & ?v6)|] eqn:P end;
  [ apply pop_frame_pending in P; apply X; exact P | apply panic_R ].

Lemma Q_RHostCall ac rg hs envfp nenv body : Q_acts body -> Q_ract (RHostCall ac rg hs envfp nenv body).
Proof.
  intros IH v last. rewrite run_ract_RHostCall_eq. cbv beta zeta.
  match goal with |- context [check_limits ?w] => destruct (check_limits w) end.
  - destruct (fx_call fx_new); apply R_same; reflexivity.
  - frame_case body IH v.
Qed.

Lemma Q_RHostConstruct ac rg hs envfp nenv proto_ok body :
  Q_acts body -> Q_ract (RHostConstruct ac rg hs envfp nenv proto_ok body).
Proof.
  intros IH v last. rewrite run_ract_RHostConstruct_eq. cbv beta zeta.
  match goal with |- context [check_limits ?w] => destruct (check_limits w) end.
  - apply R_same; reflexivity.
  - destruct proto_ok.
    + frame_case body IH v.
    + apply R_same; reflexivity.
Qed.

Lemma Q_RResume g kind body : Q_acts body -> Q_ract (RResume g kind body).
Proof.
  intros IH v last. rewrite run_ract_RResume_eq2.
  destruct (nth_error (gens v) g) as [[gs f|gs f| |]|]; try (apply R_same; reflexivity).
  - destruct kind; try (apply R_same; reflexivity).
    unfold start_resume_expr, done_r. cbv zeta. frame_case body IH v.
  - unfold start_resume_expr, done_r. cbv zeta. frame_case body IH v.
  - destruct kind; apply R_same; reflexivity.
Qed.

Lemma Q_ANew ac rg hs envfp nenv init body : Q_racts init -> Q_acts body -> Q_act (ANew ac rg hs envfp nenv init body).
Proof.
  intros IHi IH v. rewrite run_act_ANew_eq. cbv zeta.
  destruct (rp (top v) + regs (top v) + (ac + 3) <=? stack v); [|simpl; auto].
  destruct (check_limits v).
  - pose proof (handle_error_ctl v false [OLimit l]) as X. destruct (handle_error fx_new v false). exact X.
  - destruct (run_racts fx_new (set_stack v (stack v - 1)) ROk init) as ((vi & ri) & oi).
    destruct ri.
    + match goal with |- context [run_acts fx_new ?w body] => specialize (IH w); destruct (run_acts fx_new w body) as ((v3 & r) & o) end.
      destruct r; simpl; auto. apply brk_ok_app_r. exact IH.
    + pose proof (handle_error_ctl vi catchable oi) as X. cbn [err_ctl]. destruct (handle_error fx_new vi catchable). exact X.
    + simpl. auto.
Qed.

Lemma Q_RHostNew ac rg hs envfp nenv init body :
  Q_racts init -> Q_acts body -> Q_ract (RHostNew ac rg hs envfp nenv init body).
Proof.
  intros IHi IH v last. rewrite run_ract_RHostNew_eq. cbv beta zeta.
  match goal with |- context [check_limits ?w] => destruct (check_limits w) end.
  - apply R_same; reflexivity.
  - match goal with |- context [run_racts fx_new ?w ROk init] =>
      specialize (IHi w ROk); destruct (run_racts fx_new w ROk init) as ((vi & ri) & oi) end.
    assert (Ri : R v vi oi) by (eapply R_pre; [|exact IHi]; reflexivity).
    destruct ri.
    + match goal with |- context [run_acts fx_new ?w body] =>
        assert (E : pending w = pending vi) by (simpl; rewrite ?push_frame_pending; reflexivity);
        pose proof (entry_R2 body IH vi w E) as X;
        destruct (run_acts fx_new w body) as ((v4 & r) & o) end.
      match goal with |- context [pop_frame ?w] => destruct (pop_frame w) as [(f & v6)|] eqn:P end.
      * apply pop_frame_pending in P. rewrite app_assoc_reverse || idtac.
        eapply R_trans; [exact Ri|]. apply X. exact P.
      * eapply R_trans; [exact Ri|]. apply panic_R.
    + apply done_R with (v1 := vi); auto.
    + apply done_R with (v1 := vi); auto.
Qed.

Lemma Q_RNil : Q_racts RNil.
Proof. intros v last. rewrite run_racts_RNil_eq. apply R_refl. Qed.

Lemma Q_RCons r rest : Q_ract r -> Q_racts rest -> Q_racts (RCons r rest).
Proof.
  intros IHr IHl v last. rewrite run_racts_RCons_eq.
  specialize (IHr v last). destruct (run_ract fx_new v last r) as (((v1 & x) & last1) & o).
  destruct x; auto.
  specialize (IHl v1 last1). destruct (run_racts fx_new v1 last1 rest) as ((v2 & res) & o2).
  eapply R_trans; eauto.
Qed.

Theorem pending_spec :
  (forall a, Q_act a) /\ (forall l, Q_acts l) /\ (forall r, Q_ract r) /\ (forall l, Q_racts l).
Proof.
  destruct Q_simple_acts as (S1 & S2 & S3 & S4 & S5 & S6 & S7).
  destruct Q_handlers as (H1 & H2 & H3 & H4 & H5 & H6 & H7 & H8).
  destruct Q_ract_simple as (R1 & R2 & R3 & R4 & R5 & R6).
  apply tree_mutind; intros; auto using Q_ANew, Q_RHostNew, Q_ACall, Q_ACallNative, Q_ARust, Q_ANil, Q_ACons, Q_RHostEval, Q_RHostCall,
    Q_RHostCallNative, Q_RHostConstruct, Q_RHostConstructNative, Q_RResume, Q_RBlock, Q_RNil, Q_RCons.
Qed.

(* after any step of Rust code (in particular any host entry) no exception is pending that was not pending before,
   unless a frame returned/suspended with an exception pending or an engine panic was reported *)
Lemma pending_settled_lemma : forall v last e,
  let '(v', _, _, o) := run_ract fx_new v last e in
  pending v' = false \/ pending v' = pending v \/ In OUntidy o \/ panicked o.
Proof. intros v last e. exact (proj1 (proj2 (proj2 pending_spec)) e v last). Qed.

Lemma pending_history_lemma : forall rlim slim l,
  let '(v', o) := run_host fx_new (init rlim slim) l in
  pending v' = false \/ In OUntidy o \/ panicked o.
Proof.
  intros rlim slim l. unfold run_host.
  pose proof (proj2 (proj2 (proj2 pending_spec)) l (init rlim slim) ROk) as X.
  destruct (run_racts fx_new (init rlim slim) ROk l) as ((v' & r) & o).
  destruct X as [X|[X|X]]; auto.
Qed.
