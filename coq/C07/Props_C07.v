(* C07 property theorems: statements only, each closed by `exact`, pinned by `Check`, assumptions printed.
   Model: coq/C07/Model_C07.v (VmStack).  fx_new = the repaired transitions, fx_old = the transitions of the
   unrepaired tree; `wf` (frame stack non-empty, saved generator contexts well formed) holds initially and is
   preserved by every host entry, so it describes every reachable state. *)
From Coq Require Import List Arith Bool Lia.
Import ListNotations.
From C07 Require Import Model_C07 Proofs_C07 Pending_C07.

(* every step the embedder / native code can take -- any host entry (script or eval evaluation, [[Call]],
   [[Construct]] of ordinary and native functions, a failing [[Call]], generator resumption) running an
   arbitrary behaviour tree to any completion (return, yield, caught/uncaught throw, runtime limit or other
   engine error at any point, nested re-entry through native code) -- returns with the frame stack (as
   data), the value-stack length and host_call_depth exactly as before, in a state that is again wf *)
Theorem host_entry_balanced : forall v last e, wf v ->
  let '(v', _, _, _) := run_ract fx_new v last e in
  frames v' = frames v /\ stack v' = stack v /\ hdepth v' = hdepth v /\ wf v'.
Proof. exact entry_balanced_lemma. Qed.
Check host_entry_balanced : forall v last e, wf v ->
  let '(v', _, _, _) := run_ract fx_new v last e in
  frames v' = frames v /\ stack v' = stack v /\ hdepth v' = hdepth v /\ wf v'.
Print Assumptions host_entry_balanced.

(* any history of host entries on a fresh context, under any limits, ends with only the dummy frame, an
   empty value stack and host_call_depth 0 *)
Theorem host_history_balanced : forall rlim slim l,
  let '(v', _) := run_host fx_new (init rlim slim) l in
  frames v' = [dummy] /\ stack v' = 0 /\ hdepth v' = 0.
Proof. exact history_balanced_lemma. Qed.
Check host_history_balanced : forall rlim slim l,
  let '(v', _) := run_host fx_new (init rlim slim) l in
  frames v' = [dummy] /\ stack v' = 0 /\ hdepth v' = 0.
Print Assumptions host_history_balanced.

(* inside host entries none of the `pop_frame().expect(..)` / `js_expect("frame must exist")` sites fails and
   control never leaves the frames of the entry *)
Theorem no_engine_panic : forall v e, wf v ->
  let '(_, x, r, _) := run_ract fx_new v ROk e in r <> RPanic /\ x <> Some RPanic.
Proof. exact no_panic_lemma. Qed.
Check no_engine_panic : forall v e, wf v ->
  let '(_, x, r, _) := run_ract fx_new v ROk e in r <> RPanic /\ x <> Some RPanic.
Print Assumptions no_engine_panic.

(* the answers of the successful entries of a history are those of the history with the failed entries
   erased (failed entries that touch no generator object and leave no new pending exception -- see pending_settled --:
   their only modelled effect would be on the VM) *)
Theorem failed_entries_invisible : forall h v, wf v -> failed_genfree v h = true ->
  run_history fx_new v (successes fx_new v h) = filter is_ok (run_history fx_new v h).
Proof. exact failed_invisible_lemma. Qed.
Check failed_entries_invisible : forall h v, wf v -> failed_genfree v h = true ->
  run_history fx_new v (successes fx_new v h) = filter is_ok (run_history fx_new v h).
Print Assumptions failed_entries_invisible.

(* the unrepaired transitions: an uncaught throw from a callee of the script frame returns to the embedder
   with 9 slots left on the value stack (frames are balanced) *)
Theorem balanced_refuted :
  exists e, let v := init 512 1024 in
            frames (fst (run_entry fx_old v e)) = frames v /\ stack (fst (run_entry fx_old v e)) = 9 /\ stack v = 0.
Proof. exact balanced_refuted_lemma. Qed.
Check balanced_refuted :
  exists e, let v := init 512 1024 in
            frames (fst (run_entry fx_old v e)) = frames v /\ stack (fst (run_entry fx_old v e)) = 9 /\ stack v = 0.
Print Assumptions balanced_refuted.

(* each of the six repairs is necessary: with any single one missing some entry leaks values (the first five)
   or leaves an exception pending (the last: an engine error inside a finally block that still has one to rethrow) *)
Theorem each_fix_needed :
  stack (fst (run_entry (mkFx false true true true true true) (init 512 1024) w_throw)) = 9 /\
  stack (fst (run_entry (mkFx true false true true true true) (init 512 1024) w_error)) = 5 /\
  stack (fst (run_entry (mkFx true true false true true true) (init 512 1024) w_call)) = 2 /\
  stack (fst (run_entry (mkFx true true true false true true) (init 512 1024) w_decl)) = 5 /\
  stack (fst (run_entry (mkFx true true true true false true) (init 512 1024) w_modlink)) = 4 /\
  pending (fst (run_entry (mkFx true true true true true false) (init 512 1024) w_pending)) = true.
Proof. exact each_fix_needed_lemma. Qed.
Check each_fix_needed :
  stack (fst (run_entry (mkFx false true true true true true) (init 512 1024) w_throw)) = 9 /\
  stack (fst (run_entry (mkFx true false true true true true) (init 512 1024) w_error)) = 5 /\
  stack (fst (run_entry (mkFx true true false true true true) (init 512 1024) w_call)) = 2 /\
  stack (fst (run_entry (mkFx true true true false true true) (init 512 1024) w_decl)) = 5 /\
  stack (fst (run_entry (mkFx true true true true false true) (init 512 1024) w_modlink)) = 4 /\
  pending (fst (run_entry (mkFx true true true true true false) (init 512 1024) w_pending)) = true.
Print Assumptions each_fix_needed.

(* pending_exception as state: after any step of Rust code (any host entry, any behaviour tree, any completion) no
   exception is pending that was not pending before -- unless some frame returned / suspended while one was
   pending (OUntidy; compiled code consumes it first) or an engine panic was reported (see no_engine_panic) *)
Theorem pending_settled : forall v last e,
  let '(v', _, _, o) := run_ract fx_new v last e in
  pending v' = false \/ pending v' = pending v \/ In OUntidy o \/ panicked o.
Proof. exact pending_settled_lemma. Qed.
Check pending_settled : forall v last e,
  let '(v', _, _, o) := run_ract fx_new v last e in
  pending v' = false \/ pending v' = pending v \/ In OUntidy o \/ panicked o.
Print Assumptions pending_settled.

Theorem pending_history_settled : forall rlim slim l,
  let '(v', o) := run_host fx_new (init rlim slim) l in
  pending v' = false \/ In OUntidy o \/ panicked o.
Proof. exact pending_history_lemma. Qed.
Check pending_history_settled : forall rlim slim l,
  let '(v', o) := run_host fx_new (init rlim slim) l in
  pending v' = false \/ In OUntidy o \/ panicked o.
Print Assumptions pending_history_settled.

(* the unrepaired transitions: under stack_size_limit 12 a failed evaluation makes a later, otherwise
   successful evaluation fail with StackSize; the repaired ones answer as if it had not run *)
Theorem invisible_refuted :
  let v := init 512 12 in let h := [w_throw; w_ok] in
  run_history fx_old v h = [RErr true; RErr false] /\
  run_history fx_old v (successes fx_old v [w_ok]) = [ROk] /\
  run_history fx_new v h = [RErr true; ROk].
Proof. exact invisible_refuted_lemma. Qed.
Check invisible_refuted :
  let v := init 512 12 in let h := [w_throw; w_ok] in
  run_history fx_old v h = [RErr true; RErr false] /\
  run_history fx_old v (successes fx_old v [w_ok]) = [ROk] /\
  run_history fx_new v h = [RErr true; ROk].
Print Assumptions invisible_refuted.

(* the hypotheses are satisfiable: the initial state is wf; a history with a failed entry satisfies
   failed_genfree and really contains a failure *)
Example wf_initial : wf (init 512 1024).
Proof. exact (wf_init 512 1024). Qed.
Example invisible_nonvacuous :
  failed_genfree (init 512 12) [w_throw; w_ok; w_error; w_call; w_decl; w_ok] = true /\
  run_history fx_new (init 512 12) [w_throw; w_ok; w_error; w_call; w_decl; w_ok] =
    [RErr true; ROk; RErr false; RErr true; RErr true; ROk].
Proof. exact invisible_nonvacuous_lemma. Qed.

(* the model's prediction for "a field initialiser throws during a host [[Construct]]": the error is returned with no
   frame pushed and nothing left on the value stack (function_construct's step order is part of the model: ANew / RHostNew) *)
Example init_throw_example :
  run_entry fx_new (init 512 1024) w_init_throw = (init 512 1024, RErr true).
Proof. exact init_throw_example_lemma. Qed.
